#!/bin/bash
# run every quick check with several seeds; report anything that is not OK (false-alarm hunt on the unchanged tree)
cd "$(dirname "$(readlink -f "$0")")"
for seed in ${@:-2 3}; do
  for p in C01 C02 C03 C04 C05 C06 C07 C08 C09 C10 C11 C12 C13 C14 C15 C16 C17 C18 C19; do
    out=$(VERIF_SEED=$seed timeout 1800 ./check $p 2>&1 | grep -v "^KNOWN-FINDING" | head -3)
    echo "seed=$seed $p :: $(echo "$out" | head -2 | tr '\n' ' ' | cut -c1-300)"
  done
done
