#!/bin/bash
# keepseed.sh <seedname> <prop> <worktree> "<what ran / result>"  : store a confirmed seeded change under /verif/seeded/<seedname>/
N=$1; P=$2; WT=$3; RES=$4
D=/verif/seeded/$N; mkdir -p $D
cp $WT/SEEDED/patch.diff $D/patch.diff
cp $WT/SEEDED/seeded_demo.rs $D/seeded_demo.rs 2>/dev/null
cp $WT/SEEDED/notes.md $D/notes.md 2>/dev/null
python3 - "$N" "$P" "$RES" <<'PY'
import json,sys
n,p,res=sys.argv[1:4]
notes=open(f"/verif/seeded/{n}/notes.md").read() if True else ""
json.dump({"seed":n,"breaks_property":p,"needs_to_manifest":notes[:1500],"confirmed":"in the scratch worktree: cargo test --offline --lib = 52 passed with the change; tests/seeded_demo.rs fails with the change and passes without it","checks_run":res},open(f"/verif/seeded/{n}/meta.json","w"),indent=1)
PY
echo kept $D
