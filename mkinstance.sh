#!/bin/bash
# mkinstance.sh <n> : an independent second instance of the machinery, on copies of /repo and /verif under /tmp
# (/tmp/repo<n>, /tmp/verif<n>), so that the regression over the kept seeded defects (reseed_all.sh, which patches the
# repository it checks) can run in parallel with the first instance. Not used by any registered check; remove the
# two directories afterwards.
set -e
N=${1:-2}; R=/tmp/repo$N; V=/tmp/verif$N
rsync -a --exclude target /repo/ $R/
git -C $R checkout -- . 
rsync -a --exclude .git --exclude replays /verif/ $V/
mkdir -p $V/replays
for f in check reseed_all.sh harness/Cargo.toml harness/src/gen.rs harness/src/main.rs; do
  sed "s#\"/repo/#\"$R/#g; s#\"/repo\"#\"$R\"#g; s#git -C /repo#git -C $R#g" /verif/$f > $V/$f
done
chmod +x $V/check $V/reseed_all.sh
echo "instance ready: cd $V && REPORT=/tmp/reseed_$N.txt ./reseed_all.sh <name-prefix>"
