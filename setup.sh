#!/bin/sh
# Build the framework offline from files on disk: harness (against /repo's current tree), Lean model,
# theorems and the model driver executable.
set -e
cd "$(dirname "$(readlink -f "$0")")"
exec python3 ./check --setup
