"""Per-property configuration of /verif/check: theorems (proof obligations), lake targets, trusted base."""

COMMON_TRUSTED = [
    "Lean 4.33 kernel; axioms allowed in any property theorem: propext, Classical.choice, Quot.sound (checked with #print axioms on every run); no native_decide / bv_decide / sorry / own axioms (grep on every run); `decide +kernel` is kernel evaluation",
    "hand-written Lean model of from_bytes & friends (lean/CharsetProof/Model), tied to /repo by: T1 tables dumped from the freshly compiled crate into Generated/TablesNow.lean, T2 source inventories in Generated/Inventory.lean, T3 differential correspondence of the compiled model driver against the implementation called in-process",
    "the Rust harness (/verif/harness): table dumper, generators, canonicaliser, oracle answering (mess_ratio / coherence_ratio / CJK decodes are answered by calling the real functions)",
    "rustc/LLVM/std, the `encoding` crate's CJK codecs, icu/unicode data crates, regex, cached, ahash as total functions (modelled, not verified)",
]

P = "CharsetProof.Props."

PROPS = {
    "C01": {
        "lake_targets": [P + "C01"],
        "theorems": [
            (P + "C01", "C01_decodes"),
            (P + "C01", "C01_decodes_small"),
            (P + "C01", "C01_decodes_current"),
            (P + "C01", "lazyLaws_now"),
            (P + "C01", "drop_startIdx"),
            ("CharsetProof.Lemmas.Codec", "singleByteAreTables"),
            ("CharsetProof.Lemmas.Codec", "tableStrict_append"),
            ("CharsetProof.Lemmas.EntryFacts", "fromBytes_facts"),
            (P + "C07", "marksMultiByte_now"),
            ("CharsetProof.Lemmas.SortPerm", "sortMatches_perm"),
        ],
        "title": "Every reported candidate really decodes the input",
        "claim": "Lean 4 theorems over the model of from_bytes: for every world satisfying the (proved) single-byte codec laws, every table set, every non-empty input (any size, incl. the lazy path above 1,000,000 bytes) and all settings, every candidate entry of every returned match carries the unmodified input and exposes exactly the strict decode of the input minus its own mark (C01_decodes, C01_decodes_current). The 'ascii implies all bytes < 0x80' clause is FALSE on the pinned tree (known finding, repair would break the unedited test test_largesets); it is decided by the direct oracle, which separates the recorded finding (non-ASCII bytes only outside the sampled chunks) from any other failure.",
        "note": "Trusted: Lean kernel; model tied by T1 (single-byte tables dumped from the compiled crate, kernel-checked obligations singleByteAreTables / marksMultiByte_now) and T3 (model vs implementation on generated inputs incl. >1 MB); CJK codecs are oracle-answered (opaque). ascii clause: known finding C01:ascii-nonascii-outside-sampled-chunks.",
        "trusted": ["CJK/ISO-2022 codecs of the `encoding` crate are opaque: their decodes are supplied by the real function; single-byte, UTF-8 and UTF-16 codecs are Lean definitions"],
        "assumptions": ["b ≠ [] (empty input returns the default match without text)", "LazyLaws are proved for the concrete world (lazyLaws_now), not assumed"],
    },
    "C04": {
        "lake_targets": [P + "C04"],
        "theorems": [
            (P + "C04", "C04_threshold"),
            (P + "C04", "C04_lt"),
            (P + "C04", "C04_percents"),
            (P + "C04", "C04_coherence_head"),
            (P + "C04", "C04_coherence_range"),
            (P + "C04", "C04_threshold_current"),
            ("CharsetProof.Lemmas.EntryFacts", "fromBytes_facts"),
            ("CharsetProof.Lemmas.SortPerm", "sortMatches_perm"),
        ],
        "title": "Chaos threshold is honoured; fallback only when nothing else fits",
        "claim": "Lean 4 theorems: for all worlds/tables/inputs/settings either every candidate failed the test chaos >= threshold (hence chaos < threshold for numeric values, C04_lt) or the result is exactly one fallback match with chaos = threshold, fallback enabled and an encoding among the hints (C04_threshold); percent accessors are the f32 product with 100; coherence lies in [0,1] whenever merged scores do (C04_coherence_range). Non-negativity/finiteness of chaos and the 'valid UTF-8 is never binary' clause are decided by the direct oracle and the T3 correspondence (theorems for them are listed as future work in DESIGN.md).",
        "note": "Trusted: Lean kernel; model tied by T3 with thresholds set to observed chaos values (both sides of >=). Partial: `0 <= chaos`, finiteness and the valid-UTF-8 clause are checked on the implementation by the oracle, not yet proved about the model.",
        "assumptions": ["C04_coherence_range assumes merged scores in [0,1] (law of World.merge), asserted by the oracle on the implementation"],
    },
    "C07": {
        "lake_targets": [P + "C07"],
        "theorems": [
            (P + "C07", "C07_bom"),
            (P + "C07", "C07_bom_current"),
            (P + "C07", "marksMultiByte_now"),
            (P + "C07", "marksPrefixFree_now"),
            (P + "C07", "bomHere_iff"),
            ("CharsetProof.Lemmas.EntryFacts", "fromBytes_facts"),
            ("CharsetProof.Lemmas.SortPerm", "sortMatches_perm"),
        ],
        "title": "BOM/signature flag is truthful; UTF-16 only with its BOM",
        "claim": "Lean 4 theorem C07_bom: for every world and every table set whose marked encodings are multi-byte (kernel-checked for the dumped tables), every candidate entry: flag set => input starts with that encoding's mark and the text is the strict decode of the bytes after the mark; mark present and match regular (chaos < threshold) => flag set; UTF-16LE/BE are candidates only with their BOM. Marks are prefix-free (kernel-checked), so the hash-ordered lookup is order-independent.",
        "note": "Trusted: Lean kernel; T1 marks table dumped from the compiled crate; T3 on inputs with every mark alone / doubled / followed by invalid bytes / by text in other encodings / truncated.",
        "assumptions": ["threshold is not NaN (quantifier: thresholds in [0,1])", "b ≠ []"],
    },
    "C05": {
        "title": "include/exclude are exact filters and accept any label spelling",
        "claim": "Lean 4 theorems over the model of from_bytes: for every world, table set, input and settings every candidate of every returned match passes the canonicalised filters (C05_filters), unknown labels produce an error naming the entry (C05_unknown_include/_exclude), and the result depends on the lists only through their canonical forms (C05_spelling_irrelevant, C05_canonical_current); tied to the current tree by regenerated label tables, the correspondence of the compiled model against the implementation and a direct oracle.",
        "note": "Trusted: Lean kernel (+propext, Classical.choice, Quot.sound), the hand-written model (tied by T1 tables / T3 correspondence), the harness; empty input is the excluded point of the theorem and a recorded known finding.",
        "lake_targets": [P + "C05"],
        "theorems": [
            (P + "C05", "C05_filters"),
            (P + "C05", "C05_filters_current"),
            (P + "C05", "C05_unknown_include"),
            (P + "C05", "C05_unknown_exclude"),
            (P + "C05", "C05_spelling_irrelevant"),
            (P + "C05", "canonList_idem"),
            (P + "C05", "C05_canonical_current"),
            (P + "C05", "C05_empty_input_ignores_filters"),
            ("CharsetProof.Lemmas.Names", "ianaImageFixed"),
            ("CharsetProof.Lemmas.Names", "ianaNow_supported"),
            ("CharsetProof.Lemmas.SortPerm", "sortUnstable_perm"),
        ],
        "trusted": [
            "label table universe = string literals of the codec crate's label.rs ∪ alias table ∪ codec names; `iana_name` on arbitrary other strings is tied by T3 on generated spellings only",
        ],
        "assumptions": [
            "theorems hold for every World/Tables/permutation-sort; the non-empty-input hypothesis of C05_filters is forced by the proof (empty input is a recorded known finding)",
        ],
    },
}
