"""Per-property configuration of /verif/check: theorems (proof obligations), lake targets, trusted base."""

COMMON_TRUSTED = [
    "Lean 4.33 kernel; axioms allowed in any property theorem: propext, Classical.choice, Quot.sound (checked with #print axioms on every run); no native_decide / bv_decide / sorry / own axioms (grep on every run); `decide +kernel` is kernel evaluation",
    "hand-written Lean model of from_bytes & friends (lean/CharsetProof/Model), tied to /repo by: T1 tables dumped from the freshly compiled crate into Generated/TablesNow.lean, T2 source inventories in Generated/Inventory.lean, T3 differential correspondence of the compiled model driver against the implementation called in-process",
    "the Rust harness (/verif/harness): table dumper, generators, canonicaliser, oracle answering (mess_ratio / coherence_ratio / CJK decodes are answered by calling the real functions)",
    "rustc/LLVM/std, the `encoding` crate's CJK codecs, icu/unicode data crates, regex, cached, ahash as total functions (modelled, not verified)",
]

P = "CharsetProof.Props."

PROPS = {
    "C05": {
        "lake_targets": [P + "C05"],
        "theorems": [
            (P + "C05", "C05_filters"),
            (P + "C05", "C05_filters_current"),
            (P + "C05", "C05_unknown_include"),
            (P + "C05", "C05_unknown_exclude"),
            (P + "C05", "C05_spelling_irrelevant"),
            (P + "C05", "canonList_idem"),
            (P + "C05", "C05_canonical_current"),
            (P + "C05", "C05_empty_input_ignores_filters"),
            ("CharsetProof.Lemmas.Names", "ianaImageFixed"),
            ("CharsetProof.Lemmas.Names", "ianaNow_supported"),
            ("CharsetProof.Lemmas.SortPerm", "sortUnstable_perm"),
        ],
        "trusted": [
            "label table universe = string literals of the codec crate's label.rs ∪ alias table ∪ codec names; `iana_name` on arbitrary other strings is tied by T3 on generated spellings only",
        ],
        "assumptions": [
            "theorems hold for every World/Tables/permutation-sort; the non-empty-input hypothesis of C05_filters is forced by the proof (empty input is a recorded known finding)",
        ],
    },
}
