//! C04 — chaos threshold is honoured; fallback only when nothing else fits.
use super::*;
use charset_normalizer_rs::verif_hooks as vh;

pub struct C04;

impl DetectProp for C04 {
    fn id(&self) -> &'static str {
        "C04"
    }
    fn directed(&self, thorough: bool) -> Vec<Case> {
        large_unicode_cases(thorough)
    }
    fn slice(&self, o: &Outcome) -> String {
        match o {
            Outcome::Ok(v) => format!(
                "ok {} {}",
                v.len(),
                sorted_join(v.iter().map(|m| format!("{}:{}:{}:{}:{}", m.enc, m.chaos, m.coh.first().map(|x| x.1).unwrap_or(0), m.chaos_pct, m.coh_pct)).collect())
            ),
            other => other.show(),
        }
    }
    fn gen(&self, rng: &mut Rng, corpus: &[(String, Vec<u8>)], idx: usize) -> Case {
        let mut c = structured_case(rng, corpus);
        match idx % 3 {
            0 => {
                // threshold equal to a chaos value observed in a first pass (both sides of >=)
                if let Outcome::Ok(v) = real_detect(&c.bytes, &{
                    let mut s = c.sett.clone();
                    s.thr = 1.0;
                    s
                }) {
                    let nz: Vec<&CMatch> = v.iter().filter(|m| m.chaos != 0).collect();
                    if !nz.is_empty() {
                        let m = *rng.pick(&nz);
                        let x = f32::from_bits(m.chaos);
                        c.sett.thr = match rng.below(4) {
                            0 | 1 => x,
                            2 => f32::from_bits(m.chaos + 1),
                            _ => f32::from_bits(m.chaos - 1),
                        };
                        if rng.chance(2, 3) {
                            c.sett.fb = false;
                        }
                        c.tag = format!("thr=observed:{}", c.tag);
                    }
                }
            }
            2 if idx % 12 == 2 => {
                c.bytes = long_runs_text(rng).into_bytes();
                c.sett.incl.clear();
                c.sett.excl.clear();
                c.tag = "long-letter-runs".into();
            }
            1 if idx % 6 == 1 => {
                // messy but valid UTF-8
                let n = rng.range(5, 400);
                let pool: Vec<char> = "☺☹★☆♠♣♥♦§¶†‡•…‰′″‹›€™←↑→↓∂∆∏∑−√∞∫≈≠≤≥◊\u{1}\u{2}\u{7}\u{1b}\u{fffd}\u{feff}\u{fffe}\u{0}".chars().collect();
                let mut t: String = (0..n).map(|_| *rng.pick(&pool)).collect();
                if idx % 12 == 7 {
                    // ordinary text no legacy page can read, with a replacement character / a stray mark inside
                    let base = *rng.pick(&[TEXTS.iter().find(|(n, _)| *n == "chinese").unwrap().1, TEXTS.iter().find(|(n, _)| *n == "japanese").unwrap().1, TEXTS.iter().find(|(n, _)| *n == "korean").unwrap().1]);
                    let k = rng.range(30, 600);
                    let body: Vec<char> = stretch(rng, base, k).chars().collect();
                    let pos = rng.below(body.len());
                    t = body[..pos].iter().collect::<String>() + *rng.pick(&["\u{fffd}", "\u{feff}", "\u{fffd}\u{fffd}", "\u{0}"]) + &body[pos..].iter().collect::<String>();
                }
                c.bytes = t.into_bytes();
                c.sett.incl.clear();
                c.sett.excl.clear();
                c.sett.fb = true;
                c.tag = "messy-utf8".into();
            }
            _ => {}
        }
        c
    }
    fn extra(&self, rep: &mut Report, drv: &mut Driver, rng: &mut Rng, thorough: bool) {
        md::run_mess_t3(rep, drv, rng, if thorough { 6000 } else { 600 });
        md::run_full_detect_t3(rep, drv, rng, if thorough { 800 } else { 80 });
    }
    fn oracle(&self, cx: &mut Ctx, case: &Case, raw: &RealRaw) {
        let s = &case.sett;
        let ms = match raw {
            Err(p) => {
                cx.rep.fail("oracle", "C04:panic", p, &case.bytes, Some(s), &case.tag);
                return;
            }
            Ok(Err(_)) => return,
            Ok(Ok(ms)) => ms,
        };
        if case.bytes.is_empty() {
            return;
        }
        cx.rep.oracle_checked += 1;
        let n = ms.len();
        for m in ms.iter() {
            let chaos = m.chaos();
            let regular = chaos.is_finite() && chaos >= 0.0 && chaos < s.thr;
            if !regular {
                // must be the single fallback match
                let declared = if s.pre { independent_declared(&case.bytes, 4096) } else { None };
                let sig = MARKS.iter().find(|(_, mk)| case.bytes.starts_with(mk)).map(|(e, _)| e.to_string());
                let hint = m.encoding() == "ascii" || m.encoding() == "utf-8" || Some(m.encoding().to_string()) == declared || Some(m.encoding().to_string()) == sig;
                let ok = n == 1 && s.fb && chaos == s.thr && hint;
                if ok {
                    cx.rep.count("oracle:fallback-match");
                } else {
                    cx.rep.fail(
                        "oracle",
                        "C04:chaos-not-below-threshold",
                        &format!("{} chaos={} thr={} matches={} fallback_enabled={} hint={}", m.encoding(), chaos, s.thr, n, s.fb, hint),
                        &case.bytes,
                        Some(s),
                        &case.tag,
                    );
                }
            } else {
                cx.rep.count("oracle:regular-match");
            }
            let coh = m.coherence();
            if !(coh >= 0.0 && coh <= 1.0) {
                cx.rep.fail("oracle", "C04:coherence-out-of-range", &format!("{} coherence={}", m.encoding(), coh), &case.bytes, Some(s), &case.tag);
            }
            if m.chaos_percents().to_bits() != (m.chaos() * 100.0f32).to_bits() || m.coherence_percents().to_bits() != (m.coherence() * 100.0f32).to_bits() {
                cx.rep.fail("oracle", "C04:percent-accessor", m.encoding(), &case.bytes, Some(s), &case.tag);
            }
        }
        if s.fb && s.incl.is_empty() && s.excl.is_empty() && std::str::from_utf8(&case.bytes).is_ok() {
            cx.rep.count("oracle:valid-utf8-input");
            if n == 0 {
                cx.rep.fail("oracle", "C04:valid-utf8-classified-binary", "no match for valid UTF-8 input with fallback enabled and no filters", &case.bytes, Some(s), &case.tag);
            }
        }
    }
}
