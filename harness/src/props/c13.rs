//! C13 — inputs that fit the analysis window are analysed in full.
use super::c01::direct_decode;
use super::*;

fn covering(rng: &mut Rng, len: usize) -> (usize, usize) {
    match rng.below(5) {
        0 => (1, len),
        1 => (len.max(1), 1),
        2 => {
            let steps = rng.range(1, 12);
            (steps, len / steps + 1 + rng.below(3))
        }
        3 => (rng.range(1, 2000), rng.range(len.max(1), len + 4096)),
        _ => {
            // exactly on the boundary steps*chunk == len when possible
            let steps = rng.range(1, 9);
            let chunk = (len + steps - 1) / steps;
            (steps, chunk.max(1))
        }
    }
}

pub fn run(thorough: bool, seed: u64, _replay: Option<String>) -> Report {
    let mut rep = Report::new("C13", seed);
    let mut drv = Driver::spawn();
    let mut rng = Rng::new(seed);
    let sup = supported();
    let n = if thorough { 1500 } else { 150 };
    for i in 0..n {
        let (name, base) = *rng.pick(TEXTS);
        let text = match rng.below(3) {
            0 => base.to_string(),
            1 => {
                let k = rng.range(40, 1500);
                stretch(&mut rng, base, k)
            }
            _ => base.chars().take(rng.range(1, 60)).collect(),
        };
        // characters a decoder or writer might be tempted to treat specially, *inside* the text
        let text = if i % 7 == 3 {
            let special = *rng.pick(&["\u{feff}", "\u{fffe}", "\u{fffd}", "\u{0}", "\u{feff}\u{feff}"]);
            let cs: Vec<char> = text.chars().collect();
            let mut out = String::new();
            let every = rng.range(5, 25);
            for (k, c) in cs.iter().enumerate() {
                out.push(*c);
                if k % every == every - 1 {
                    out.push_str(special);
                }
            }
            out
        } else {
            text
        };
        let text = if i % 5 == 4 {
            format!("{}{}{}", *rng.pick(&["\u{ef}\u{bb}\u{bf}", "\u{ff}\u{fe}", "\u{fe}\u{ff}", "\u{ef}\u{bb}\u{bf}"]), text, *rng.pick(&["\u{1}\u{2}\u{3}", "\u{1}\u{1b}", " \u{7}\u{7}\u{7}\u{7}"]))
        } else {
            text
        };
        // all encodings that round-trip the text
        let encs: Vec<(&str, Vec<u8>)> = sup
            .iter()
            .filter(|e| **e != "ascii" || text.is_ascii()) // 'ascii' (served by the windows-1252 codec) represents ASCII text only
            .filter_map(|e| enc_bytes(&text, e).filter(|b| !b.is_empty() && direct_decode(e, b).as_deref() == Some(&text)).map(|b| (*e, b)))
            .collect();
        if encs.len() < 2 {
            continue;
        }
        let thr = *rng.pick(&[0.2f32, 0.1, 0.5, 1.0, 0.05, 0.3]);
        // (1) same text => same verdict and chaos, probed alone, fallback off, window covering the input
        let mut seen: Vec<(String, Option<u32>, usize)> = vec![];
        for (e, bytes0) in &encs {
            for with_bom in [false, true] {
                let mut bytes = bytes0.clone();
                if with_bom {
                    match mark_of(e) {
                        Some(m) => {
                            let mut b = m.to_vec();
                            b.extend_from_slice(&bytes);
                            bytes = b;
                        }
                        None => continue,
                    }
                } else if e.starts_with("utf-16") {
                    continue; // never probed without BOM
                }
                let (steps, chunk) = covering(&mut rng, bytes.len());
                let mut s = Sett::default();
                s.steps = steps;
                s.chunk = chunk;
                s.thr = thr;
                s.fb = false;
                s.pre = false;
                s.incl = vec![e.to_string()];
                rep.evaluations += 1;
                rep.nontrivial(fp(&bytes, &s.show()));
                let raw = real_detect_raw(&bytes, &s);
                let out = outcome_of(&raw, &s);
                // T3 on a sample of them
                if i % 3 == 0 || thorough {
                    let model = model_detect(&mut drv, &bytes, &s);
                    rep.t3_compared += 1;
                    if out != model.outcome {
                        rep.fail("t3", "C13:model-disagrees", &format!("impl: {} || model: {}", out.show(), model.outcome.show()), &bytes, Some(&s), e);
                    }
                }
                rep.oracle_checked += 1;
                match &out {
                    Outcome::Ok(v) => {
                        let chaos = v.iter().find(|m| m.enc == *e).map(|m| m.chaos);
                        rep.count(if chaos.is_some() { "verdict:accepted" } else { "verdict:rejected" });
                        seen.push((format!("{}{}", e, if with_bom { "+bom" } else { "" }), chaos, bytes.len()));
                    }
                    other => rep.fail("oracle", "C13:unexpected-outcome", &other.show(), &bytes, Some(&s), e),
                }
                // (2) any other covering window gives the same full result
                let (st2, ch2) = covering(&mut rng, bytes.len());
                let mut s2 = s.clone();
                s2.steps = st2;
                s2.chunk = ch2;
                let out2 = real_detect(&bytes, &s2);
                rep.count("oracle:window-pair");
                if out2 != out {
                    rep.fail(
                        "oracle",
                        "C13:covering-windows-disagree",
                        &format!("steps={} chunk={} -> {} || steps={} chunk={} -> {}", s.steps, s.chunk, out.show(), s2.steps, s2.chunk, out2.show()),
                        &bytes,
                        Some(&s),
                        e,
                    );
                }
            }
        }
        if let Some(first) = seen.first().cloned() {
            for x in &seen {
                rep.count("oracle:encoding-pair");
                if x.1 != first.1 {
                    let bytes = encs.iter().find(|(e, _)| x.0.starts_with(e)).map(|(_, b)| b.clone()).unwrap_or_default();
                    rep.fail(
                        "oracle",
                        "C13:same-text-different-chaos",
                        &format!("text '{}' ({} chars, thr {}): {} -> chaos {:?} but {} -> chaos {:?}", name, text.chars().count(), thr, first.0, first.1, x.0, x.1),
                        &bytes,
                        None,
                        &x.0,
                    );
                }
            }
            if rep.samples.len() < 4 {
                rep.sample(format!("text {} ({} chars) thr {}: {} encodings/bom variants, chaos bits {:?}", name, text.chars().count(), thr, seen.len(), first.1));
            }
        }
    }
    // > 1 MB inputs under a covering window: ASCII bytes read by single-byte and by multi-byte codecs
    let nlarge = if thorough { 4 } else { 1 };
    for k in 0..nlarge {
        let bytes = large_fit_ascii(&mut rng, k % 2 == 1);
        let len = bytes.len();
        let mut seen: Vec<(String, Option<u32>)> = vec![];
        let windows = [(1usize, 2_000_000usize), (5, 400_000), (4, 300_000), (1, len)];
        for (j, e) in ["ascii", "utf-8", "windows-1252", "gbk"].iter().enumerate() {
            let (steps, chunk) = windows[(j + k) % windows.len()];
            let mut s = Sett::default();
            s.steps = steps;
            s.chunk = chunk;
            s.thr = 0.2;
            s.fb = false;
            s.pre = false;
            s.incl = vec![e.to_string()];
            rep.evaluations += 1;
            rep.oracle_checked += 1;
            rep.nontrivial(fp(&bytes[..4096], &format!("{}{}", s.show(), len)));
            match real_detect(&bytes, &s) {
                Outcome::Ok(v) => seen.push((e.to_string(), v.iter().find(|m| m.enc == *e).map(|m| m.chaos))),
                other => rep.fail("oracle", "C13:unexpected-outcome", &other.show(), &bytes, Some(&s), e),
            }
        }
        rep.count("oracle:large-covering-text");
        if let Some(first) = seen.first().cloned() {
            for x in &seen {
                if x.1 != first.1 {
                    rep.fail(
                        "oracle",
                        "C13:same-text-different-chaos",
                        &format!("{} bytes of ASCII under covering windows: {} -> chaos {:?} but {} -> chaos {:?}", len, first.0, first.1, x.0, x.1),
                        &bytes,
                        None,
                        &x.0,
                    );
                }
            }
        }
    }
    // (3) the chaos of a text that fits the window is a function of the text and the threshold – not of which
    // thresholds the same text was analysed under before: texts with a noisy start and a clean remainder (the
    // early stop of the analysis fires for some thresholds only), asked under several thresholds in a row, then
    // each threshold again on cold caches
    {
        let heads = ["#+#+#+#+#+#+#+#+", "<<==>>||~~--__$$%%^^&&**", "\u{1}\u{2}\u{7}#+#+#+#+", "\u{a4}$\u{a4}$\u{a4}$\u{a4}$\u{a4}$"];
        for (k, head) in heads.iter().enumerate() {
            if !thorough && k % 2 == 1 {
                continue;
            }
            let body = stretch(&mut rng, TEXTS[1 + k].1, 380 + 90 * k);
            let bytes = format!("{}{}", head.repeat(1 + k % 2), body).into_bytes();
            let thrs = [0.2f32, 0.5, 0.1, 0.3, 1.0, 0.05];
            let mk = |thr: f32| {
                let mut s = Sett::default();
                s.thr = thr;
                s.fb = false;
                s.pre = false;
                s.incl = vec!["utf-8".to_string()];
                s
            };
            charset_normalizer_rs::verif_hooks::flush_caches();
            let warm: Vec<Outcome> = thrs.iter().map(|t| real_detect(&bytes, &mk(*t))).collect();
            for (t, w) in thrs.iter().zip(warm.iter()) {
                charset_normalizer_rs::verif_hooks::flush_caches();
                let cold = real_detect(&bytes, &mk(*t));
                rep.evaluations += 1;
                rep.oracle_checked += 1;
                rep.count("oracle:threshold-sequence");
                if &cold != w {
                    rep.fail("oracle", "C13:chaos-depends-on-earlier-thresholds", &format!("thr {} after {:?}: {} || alone: {}", t, thrs, w.show(), cold.show()), &bytes, Some(&mk(*t)), "threshold-sequence");
                }
            }
        }
    }
    // (4) … nor of which *other* texts the process analysed before: a text and its "code-unit siblings" (every
    // character replaced by the character whose code point has the same low 16 / low 8 bits, or the same offset in
    // another plane) asked one after the other, then each again on cold caches – supplementary-plane texts in the
    // three encodings able to carry them
    {
        let astral: Vec<String> = vec![
            (0..48u32).filter_map(|i| char::from_u32(0x20021 + i)).collect(),
            (0..40u32).filter_map(|i| char::from_u32(0x1f600 + i)).collect(),
            (0..52u32).filter_map(|i| char::from_u32(0x1d400 + i)).collect(),
            (0..40u32).filter_map(|i| char::from_u32(0x20bb7 + 3 * i)).collect(),
            format!("{} {}", TEXTS[1].1, (0..30u32).filter_map(|i| char::from_u32(0x2f800 + i)).collect::<String>()),
            TEXTS[2].1.chars().take(120).collect(),
            TEXTS[4].1.chars().take(120).collect(),
        ];
        let alias = |c: char, how: usize| -> char {
            let u = c as u32;
            let v = match how {
                0 => u & 0xffff,
                1 => u & 0xff,
                2 => (u & 0xffff) + 0x10000,
                3 => (u & 0xffff) + 0x20000,
                _ => u ^ 0x10000,
            };
            char::from_u32(v).filter(|x| !x.is_control()).unwrap_or(c)
        };
        for (k, t) in astral.iter().enumerate() {
            for how in 0..5usize {
                if !thorough && (k + how) % 2 == 1 {
                    continue;
                }
                let sib: String = t.chars().map(|c| alias(c, how)).collect();
                if &sib == t {
                    continue;
                }
                for e in ["utf-8", "utf-16le", "gb18030"] {
                    let enc = |x: &str| -> Option<Vec<u8>> {
                        let mut b = enc_bytes(x, e)?;
                        if e == "utf-16le" {
                            let mut m = vec![0xff, 0xfe];
                            m.append(&mut b);
                            b = m;
                        }
                        Some(b)
                    };
                    let (bt, bs) = match (enc(t), enc(&sib)) {
                        (Some(a), Some(b)) => (a, b),
                        _ => continue,
                    };
                    let mut s = Sett::default();
                    s.fb = false;
                    s.pre = false;
                    s.incl = vec![e.to_string()];
                    for (first, second, tag) in [(&bs, &bt, "sibling-first"), (&bt, &bs, "text-first")] {
                        charset_normalizer_rs::verif_hooks::flush_caches();
                        let cold = real_detect(second, &s);
                        charset_normalizer_rs::verif_hooks::flush_caches();
                        let _ = real_detect(first, &s);
                        let warm = real_detect(second, &s);
                        rep.evaluations += 1;
                        rep.oracle_checked += 1;
                        rep.count(&format!("oracle:sibling-history:{}", e));
                        if cold != warm {
                            rep.fail("oracle", "C13:chaos-depends-on-earlier-texts", &format!("{} ({}, siblings by rule {}): after the other text {} || alone: {}", e, tag, how, warm.show(), cold.show()), second, Some(&s), tag);
                        }
                    }
                }
            }
        }
        charset_normalizer_rs::verif_hooks::flush_caches();
    }
    // (5) … nor of an analysis that was cut short right before: texts on which the mess detector gives up early, in the
    // middle of a word (control characters or a burst of punctuation, then a long run of letters), then texts whose own
    // score is sensitive to what a word looks like (more than ten words, one of them damaged) – each compared with its
    // answer on cold caches with nothing before it
    {
        let junk: Vec<String> = vec![
            format!("{}{}", "\u{1}".repeat(6), "a".repeat(60)),
            format!("{}{}", "!?".repeat(8), "abcdefghijklmnopqrstuvwxyzabcdefghijklmnopqrstuvwxyz"),
            format!("{}{}", "\u{2}\u{3}\u{4}\u{5}\u{6}\u{7}", "Zusammengehoerigkeitsgefuehlsduselei".repeat(2)),
            format!("{} {}", "#+#+#+#+#+#+#+#+#+#+", "x".repeat(90)),
        ];
        let targets: Vec<String> = vec![
            "alpha beta gam$ma delta epsilon zeta eta theta iota kappa lambda mu nu xi omicron".to_string(),
            "US$ rate data from four main bank offices show a steady rise over the last ten years of trade".to_string(),
            "one two thr\u{b2}ee four five six seven eight nine ten eleven twelve thirteen fourteen".to_string(),
            format!("{} co\u{ae}rp", TEXTS[0].1.chars().take(160).collect::<String>()),
        ];
        let mut s = Sett::default();
        s.fb = false;
        s.pre = false;
        for (ti, t) in targets.iter().enumerate() {
            for e in ["utf-8", "utf-16le", "windows-1252"] {
                let mut bt = match enc_bytes(t, e) {
                    Some(b) => b,
                    None => continue,
                };
                if e == "utf-16le" {
                    let mut m = vec![0xff, 0xfe];
                    m.append(&mut bt);
                    bt = m;
                }
                s.incl = vec![e.to_string()];
                charset_normalizer_rs::verif_hooks::flush_caches();
                let cold = real_detect(&bt, &s);
                for (ji, j) in junk.iter().enumerate() {
                    if !thorough && (ti + ji) % 2 == 1 {
                        continue;
                    }
                    let mut sj = Sett::default();
                    sj.fb = false;
                    sj.pre = false;
                    sj.incl = vec!["utf-8".to_string()];
                    charset_normalizer_rs::verif_hooks::flush_caches();
                    let _ = real_detect(j.as_bytes(), &sj);
                    let after = real_detect(&bt, &s);
                    rep.evaluations += 1;
                    rep.oracle_checked += 1;
                    rep.count("oracle:after-an-analysis-cut-short");
                    if after != cold {
                        rep.fail("oracle", "C13:chaos-depends-on-earlier-texts", &format!("{} right after a text the analysis gave up on early (#{}): {} || alone: {}", e, ji, after.show(), cold.show()), &bt, Some(&s), "after-cut-short");
                    }
                }
            }
        }
        charset_normalizer_rs::verif_hooks::flush_caches();
    }
    rep.model_rounds = drv.requests;
    rep
}
