//! C17 — decode helper equals the codec; chunk mode trims cut UTF-8 cleanly.
use super::*;
use charset_normalizer_rs::utils::decode;
use encoding::label::encoding_from_whatwg_label;
use encoding::DecoderTrap;

fn trap_name(t: DecoderTrap) -> &'static str {
    match t {
        DecoderTrap::Strict => "strict",
        DecoderTrap::Ignore => "ignore",
        DecoderTrap::Replace => "replace",
        _ => "other",
    }
}

fn sample_bytes(rng: &mut Rng, enc: &str) -> Vec<u8> {
    if enc == "iso-2022-jp" && rng.chance(1, 2) {
        // 7-bit stateful codec: ASCII-only byte strings with (possibly malformed) escape sequences
        let pieces: &[&[u8]] = &[b"\x1b$B", b"\x1b(B", b"\x1b(J", b"\x1b$@", b"\x1b", b"\x0e", b"\x0f", b"$3$s", b"$3", b"abc ", b"!!", b"\x1b(I", b"1", b"\x1b$", b"\x1b$(", b"\x1b$(D", b"\x1b(", b"\x1b$(D\x22\x2f", b"\x1b$A", b"\x1b$(C", b"\x1b.A", b"\x1bN"];
        let mut b = vec![];
        for _ in 0..rng.range(1, 6) {
            let piece: &[u8] = *rng.pick(pieces);
            b.extend_from_slice(piece);
        }
        return b;
    }
    match rng.below(6) {
        0 => {
            let k = rng.range(0, 40);
            random_bytes(rng, k)
        }
        1 | 2 => {
            // valid text in this encoding, maybe cut / corrupted
            let (_, t) = *rng.pick(TEXTS);
            let mut b = enc_bytes(t, enc).unwrap_or_else(|| t.as_bytes().to_vec());
            if rng.chance(1, 4) {
                // the text starts with / contains U+FEFF (for the Unicode encodings: their own byte-order mark),
                // or the bytes start with the mark of some encoding
                let special = *rng.pick(&["\u{feff}", "\u{feff}\u{feff}", "\u{fffe}", "a\u{feff}"]);
                match enc_bytes(&format!("{}{}", special, t), enc) {
                    Some(x) if rng.chance(2, 3) => b = x,
                    _ => {
                        let mut x = rng.pick(&[&b"\xef\xbb\xbf"[..], &b"\xff\xfe"[..], &b"\xfe\xff"[..], &b"\x84\x31\x95\x33"[..]]).to_vec();
                        x.extend_from_slice(&b);
                        b = x;
                    }
                }
            }
            if rng.chance(1, 2) && !b.is_empty() {
                let k = rng.range(0, b.len());
                b.truncate(k);
            }
            if rng.chance(1, 3) && !b.is_empty() {
                let i = rng.below(b.len());
                b[i] = rng.below(256) as u8;
            }
            if rng.chance(1, 4) && !b.is_empty() {
                let k = rng.below(b.len().min(4));
                b.drain(0..k);
            }
            b
        }
        3 => {
            // text in another encoding
            let (_, t) = *rng.pick(TEXTS);
            let other = *rng.pick(&supported());
            let mut b = enc_bytes(t, other).unwrap_or_else(|| t.as_bytes().to_vec());
            b.truncate(rng.range(1, 120));
            b
        }
        4 => {
            // UTF-8 edge cases
            let pool: &[&[u8]] = &[b"\xc0\x80", b"\xed\xa0\x80", b"\xf4\x90\x80\x80", b"\xe0\x9f\xbf", b"\xf0\x8f\xbf\xbf", b"\xc3", b"\xe2\x82", b"\xf0\x9f\x98", b"\x80", b"\xbf\xbf", b"\xff", b"\xfe\xff", b"\xef\xbb\xbf", b"a\xc3\xa9b", b"\xc3\x28", b"\xe2\x28\xa1", b"\xf0\x28\x8c\xbc", b"\xd8\x00", b"\x00\xd8\x00\xdc", b"\x00\xdc"];
            let mut b = vec![];
            for _ in 0..rng.range(1, 5) {
                let piece: &[u8] = *rng.pick(pool);
                b.extend_from_slice(piece);
                if rng.chance(1, 2) {
                    b.push(b'a' + rng.below(26) as u8);
                }
            }
            b
        }
        _ => vec![],
    }
}

pub fn run(thorough: bool, seed: u64, _replay: Option<String>) -> Report {
    let mut rep = Report::new("C17", seed);
    let mut drv = Driver::spawn();
    let mut rng = Rng::new(seed);
    let sup: Vec<&str> = supported().into_iter().filter(|n| encoding_from_whatwg_label(n).is_some()).collect();
    let n = if thorough { 20_000 } else { 2_400 };
    let traps = [DecoderTrap::Strict, DecoderTrap::Ignore, DecoderTrap::Replace];
    // ---- (a) helper == codec for every resolvable encoding, trap, test-only flag
    for i in 0..n {
        let enc = sup[i % sup.len()];
        let b = sample_bytes(&mut rng, enc);
        let codec = encoding_from_whatwg_label(enc).unwrap();
        let mut trap = traps[0];
        let mut only_test = false;
        // every sample in all 3 error modes x test-only on/off
        for (ti, t) in traps.iter().enumerate() {
            for ot in [false, true] {
                trap = *t;
                only_test = ot;
                let want = codec.decode(&b, trap).ok();
                let got = std::panic::catch_unwind(|| decode(&b, enc, trap, only_test, false));
                rep.evaluations += 1;
                rep.oracle_checked += 1;
                rep.nontrivial(fp(&b, &format!("{}{}{}", enc, trap_name(trap), only_test)));
                if ti == 0 && !ot {
                    rep.count(&format!("helper:strict:{}", if want.is_some() { "ok" } else { "err" }));
                }
                match got {
                    Err(_) => rep.fail("oracle", "C17:helper-panicked", &format!("{} {}", enc, trap_name(trap)), &b, None, enc),
                    Ok(got) => {
                        let got = got.ok();
                        let expect = if only_test { want.as_ref().map(|_| String::new()) } else { want.clone() };
                        if got != expect {
                            rep.fail(
                                "oracle",
                                if only_test { "C17:test-only-mode-differs" } else { "C17:helper-differs-from-codec" },
                                &format!("{} trap={} only_test={}: helper {:?} codec {:?}", enc, trap_name(trap), only_test, got.map(|s| s.chars().take(30).collect::<String>()), expect.map(|s| s.chars().take(30).collect::<String>())),
                                &b,
                                None,
                                enc,
                            );
                        }
                    }
                }
            }
        }
        if i % 3 != 0 {
            trap = traps[rng.below(3)];
            only_test = rng.chance(1, 2);
        }
        // T3: the Lean model of the helper for the modelled codecs
        if i % 2 == 0 {
            let chunk = rng.chance(1, 4);
            let real = decode(&b, enc, trap, only_test, chunk).ok();
            let model = drv.ask(&format!("helper {} {} {} {} {}", enc, trap_name(trap), only_test as u8, chunk as u8, hex(&b)));
            if model != "ok external" {
                rep.t3_compared += 1;
                let want = match &real {
                    Some(t) => format!("ok T{}", text_hex(t)),
                    None => "ok E".to_string(),
                };
                if model != want {
                    rep.fail("t3", "C17:helper-model-disagrees", &format!("{} trap={} only_test={} chunk={}: impl {} || model {}", enc, trap_name(trap), only_test, chunk, want, model), &b, None, enc);
                }
            }
        }
    }
    // ---- (b) chunk mode: every window of valid UTF-8 that contains a complete character
    let n_texts = if thorough { 400 } else { 60 };
    for _ in 0..n_texts {
        // (U+FEFF, U+FFFE, U+FFFD, U+0000 included: characters a helper might be tempted to treat specially)
        let pool: Vec<char> = "aé€😀ß中Ωz\u{7ff}\u{800}\u{ffff}\u{10000}\u{10ffff} \n\u{feff}\u{feff}\u{fffe}\u{fffd}\u{0}".chars().collect();
        let len = rng.range(1, 14);
        let text: String = (0..len).map(|_| *rng.pick(&pool)).collect();
        let bytes = text.as_bytes();
        for i in 0..bytes.len() {
            for j in i + 1..=bytes.len() {
                // complete characters inside [i, j)
                let mut inside = String::new();
                let mut pos = 0;
                for c in text.chars() {
                    let l = c.len_utf8();
                    if pos >= i && pos + l <= j {
                        inside.push(c);
                    }
                    pos += l;
                }
                if inside.is_empty() {
                    continue;
                }
                let w = &bytes[i..j];
                let got = decode(w, "utf-8", DecoderTrap::Strict, false, true);
                rep.evaluations += 1;
                rep.oracle_checked += 1;
                rep.nontrivial(fp(w, "window"));
                rep.count("window");
                if got.as_deref() != Ok(inside.as_str()) {
                    rep.fail("oracle", "C17:chunk-window-wrong", &format!("window [{},{}) of {:?}: got {:?} want {:?}", i, j, text, got, inside), w, None, "utf-8");
                }
                if (i + j) % 3 == 0 {
                    let model = drv.ask(&format!("helper utf-8 strict 0 1 {}", hex(w)));
                    rep.t3_compared += 1;
                    let want = match &got {
                        Ok(t) => format!("ok T{}", text_hex(t)),
                        Err(_) => "ok E".to_string(),
                    };
                    if model != want {
                        rep.fail("t3", "C17:chunk-model-disagrees", &format!("impl {} || model {}", want, model), w, None, "utf-8");
                    }
                }
            }
        }
        if rep.samples.len() < 2 {
            rep.sample(format!("all windows of {:?}", text));
        }
    }
    rep.sample("helper vs codec on 40 encodings x 3 traps x test-only".to_string());
    rep.model_rounds = drv.requests;
    rep
}
