//! C17 — decode helper equals the codec; chunk mode trims cut UTF-8 cleanly.
use super::*;
use charset_normalizer_rs::utils::decode;
use encoding::label::encoding_from_whatwg_label;
use encoding::DecoderTrap;

fn trap_name(t: DecoderTrap) -> &'static str {
    match t {
        DecoderTrap::Strict => "strict",
        DecoderTrap::Ignore => "ignore",
        DecoderTrap::Replace => "replace",
        _ => "other",
    }
}

fn sample_bytes(rng: &mut Rng, enc: &str) -> Vec<u8> {
    if enc == "iso-2022-jp" && rng.chance(1, 2) {
        // 7-bit stateful codec: ASCII-only byte strings with (possibly malformed) escape sequences
        let pieces: &[&[u8]] = &[b"\x1b$B", b"\x1b(B", b"\x1b(J", b"\x1b$@", b"\x1b", b"\x0e", b"\x0f", b"$3$s", b"$3", b"abc ", b"!!", b"\x1b(I", b"1", b"\x1b$", b"\x1b$(", b"\x1b$(D", b"\x1b(", b"\x1b$(D\x22\x2f", b"\x1b$A", b"\x1b$(C", b"\x1b.A", b"\x1bN"];
        let mut b = vec![];
        for _ in 0..rng.range(1, 6) {
            let piece: &[u8] = *rng.pick(pieces);
            b.extend_from_slice(piece);
        }
        return b;
    }
    match rng.below(6) {
        0 => {
            let k = rng.range(0, 40);
            random_bytes(rng, k)
        }
        1 | 2 => {
            // valid text in this encoding, maybe cut / corrupted
            let (_, t) = *rng.pick(TEXTS);
            let mut b = enc_bytes(t, enc).unwrap_or_else(|| t.as_bytes().to_vec());
            if rng.chance(1, 4) {
                // the text starts with / contains U+FEFF (for the Unicode encodings: their own byte-order mark),
                // or the bytes start with the mark of some encoding
                let special = *rng.pick(&["\u{feff}", "\u{feff}\u{feff}", "\u{fffe}", "a\u{feff}"]);
                match enc_bytes(&format!("{}{}", special, t), enc) {
                    Some(x) if rng.chance(2, 3) => b = x,
                    _ => {
                        let mut x = rng.pick(&[&b"\xef\xbb\xbf"[..], &b"\xff\xfe"[..], &b"\xfe\xff"[..], &b"\x84\x31\x95\x33"[..]]).to_vec();
                        x.extend_from_slice(&b);
                        b = x;
                    }
                }
            }
            if rng.chance(1, 2) && !b.is_empty() {
                let k = rng.range(0, b.len());
                b.truncate(k);
            }
            if rng.chance(1, 3) && !b.is_empty() {
                let i = rng.below(b.len());
                b[i] = rng.below(256) as u8;
            }
            if rng.chance(1, 4) && !b.is_empty() {
                let k = rng.below(b.len().min(4));
                b.drain(0..k);
            }
            b
        }
        3 => {
            // text in another encoding
            let (_, t) = *rng.pick(TEXTS);
            let other = *rng.pick(&supported());
            let mut b = enc_bytes(t, other).unwrap_or_else(|| t.as_bytes().to_vec());
            b.truncate(rng.range(1, 120));
            b
        }
        4 => {
            // UTF-8 edge cases
            let pool: &[&[u8]] = &[b"\xc0\x80", b"\xed\xa0\x80", b"\xf4\x90\x80\x80", b"\xe0\x9f\xbf", b"\xf0\x8f\xbf\xbf", b"\xc3", b"\xe2\x82", b"\xf0\x9f\x98", b"\x80", b"\xbf\xbf", b"\xff", b"\xfe\xff", b"\xef\xbb\xbf", b"a\xc3\xa9b", b"\xc3\x28", b"\xe2\x28\xa1", b"\xf0\x28\x8c\xbc", b"\xd8\x00", b"\x00\xd8\x00\xdc", b"\x00\xdc"];
            let mut b = vec![];
            for _ in 0..rng.range(1, 5) {
                let piece: &[u8] = *rng.pick(pool);
                b.extend_from_slice(piece);
                if rng.chance(1, 2) {
                    b.push(b'a' + rng.below(26) as u8);
                }
            }
            b
        }
        _ => vec![],
    }
}

pub fn run(thorough: bool, seed: u64, _replay: Option<String>) -> Report {
    let mut rep = Report::new("C17", seed);
    let mut drv = Driver::spawn();
    let mut rng = Rng::new(seed);
    let sup: Vec<&str> = supported().into_iter().filter(|n| encoding_from_whatwg_label(n).is_some()).collect();
    let n = if thorough { 20_000 } else { 2_400 };
    let traps = [DecoderTrap::Strict, DecoderTrap::Ignore, DecoderTrap::Replace];
    // ---- (a) helper == codec for every resolvable encoding, trap, test-only flag
    for i in 0..n {
        let mut enc = sup[i % sup.len()];
        let mut b = sample_bytes(&mut rng, enc);
        if i % 40 == 7 && sup.contains(&"big5") {
            // sequences that decode to two characters each, inside ordinary text
            enc = "big5";
            b = big5_two_codepoint_text(&mut rng);
            if i % 80 == 7 {
                b.truncate(rng.range(1, b.len().max(2)));
            }
        }
        let codec = encoding_from_whatwg_label(enc).unwrap();
        let mut trap = traps[0];
        let mut only_test = false;
        // every sample in all 3 error modes x test-only on/off
        for (ti, t) in traps.iter().enumerate() {
            for ot in [false, true] {
                trap = *t;
                only_test = ot;
                let want = codec.decode(&b, trap).ok();
                let got = std::panic::catch_unwind(|| decode(&b, enc, trap, only_test, false));
                rep.evaluations += 1;
                rep.oracle_checked += 1;
                rep.nontrivial(fp(&b, &format!("{}{}{}", enc, trap_name(trap), only_test)));
                if ti == 0 && !ot {
                    rep.count(&format!("helper:strict:{}", if want.is_some() { "ok" } else { "err" }));
                }
                match got {
                    Err(_) => rep.fail("oracle", "C17:helper-panicked", &format!("{} {}", enc, trap_name(trap)), &b, None, enc),
                    Ok(got) => {
                        let got = got.ok();
                        let expect = if only_test { want.as_ref().map(|_| String::new()) } else { want.clone() };
                        if got != expect {
                            rep.fail(
                                "oracle",
                                if only_test { "C17:test-only-mode-differs" } else { "C17:helper-differs-from-codec" },
                                &format!("{} trap={} only_test={}: helper {:?} codec {:?}", enc, trap_name(trap), only_test, got.map(|s| s.chars().take(30).collect::<String>()), expect.map(|s| s.chars().take(30).collect::<String>())),
                                &b,
                                None,
                                enc,
                            );
                        }
                    }
                }
            }
        }
        if i % 3 != 0 {
            trap = traps[rng.below(3)];
            only_test = rng.chance(1, 2);
        }
        // T3: the Lean model of the helper for the modelled codecs
        if i % 2 == 0 {
            let chunk = rng.chance(1, 4);
            let real = decode(&b, enc, trap, only_test, chunk).ok();
            let model = drv.ask(&format!("helper {} {} {} {} {}", enc, trap_name(trap), only_test as u8, chunk as u8, hex(&b)));
            if model != "ok external" {
                rep.t3_compared += 1;
                let want = match &real {
                    Some(t) => format!("ok T{}", text_hex(t)),
                    None => "ok E".to_string(),
                };
                if model != want {
                    rep.fail("t3", "C17:helper-model-disagrees", &format!("{} trap={} only_test={} chunk={}: impl {} || model {}", enc, trap_name(trap), only_test, chunk, want, model), &b, None, enc);
                }
            }
        }
    }
    // ---- (a1) every single byte value under every encoding, between two ASCII letters, strict mode, test-only on and off:
    //      an answer that depends on one particular byte value of one code page shows up here
    for enc in &sup {
        let codec = encoding_from_whatwg_label(enc).unwrap();
        for b in 0..=255u32 {
            let input = [b'a', b as u8, b'z'];
            let want = codec.decode(&input, DecoderTrap::Strict).ok();
            for only_test in [false, true] {
                let got = std::panic::catch_unwind(|| decode(&input, enc, DecoderTrap::Strict, only_test, false));
                rep.evaluations += 1;
                rep.oracle_checked += 1;
                let expect = if only_test { want.as_ref().map(|_| String::new()) } else { want.clone() };
                match got {
                    Err(_) => rep.fail("oracle", "C17:helper-panicked", &format!("{} strict only_test={}", enc, only_test), &input, None, enc),
                    Ok(got) => {
                        if got.ok() != expect {
                            rep.fail("oracle", if only_test { "C17:test-only-mode-differs" } else { "C17:helper-differs-from-codec" }, &format!("{} strict only_test={} on byte {:02x} between two letters", enc, only_test, b), &input, None, enc);
                        }
                    }
                }
            }
        }
    }
    rep.count("helper:every-single-byte-value");
    // ---- (a-h) the helper is a function of its arguments – not of the calls before it: an input that leaves a decoder in
    //      the middle of something (inside a shifted run, after a lead byte, half a code unit, an open escape sequence) and is
    //      rejected or cut there, then ordinary inputs in the same encoding, each compared with the codec on its own
    {
        let leftovers: Vec<(&str, Vec<Vec<u8>>, Vec<Vec<u8>>)> = vec![
            (
                "iso-2022-jp",
                vec![b"abc \x1b$B$3$l\xe9".to_vec(), b"\x1b(I1234\xff".to_vec(), b"\x1b$(D\x22\x2f\x80".to_vec(), b"\x1b$B$3$".to_vec(), b"\x1b$B\x7f\x7f".to_vec(), b"x\x1b$".to_vec(), b"\x1b(Jabc\x80".to_vec()],
                vec![b"1234 plain ascii".to_vec(), b"0!0!".to_vec(), b"\x1b$B$3$s$K$A$O\x1b(B ok".to_vec(), b"$3$l".to_vec(), b"\\~".to_vec(),
                     // escape sequences cut at every length at the very end (the problem is reported at different distances from the end)
                     b"abc\x1b".to_vec(), b"abc\x1b$".to_vec(), b"abc\x1b$(".to_vec(), b"abc\x1b(".to_vec(), b"\x1b$B$3\x1b$(".to_vec(), b"abc\x1b$(x".to_vec(), b"abc\x1b$x".to_vec()],
            ),
            ("euc-jp", vec![b"abc\xa4".to_vec(), b"\x8f\xb0".to_vec(), b"\x8e".to_vec(), b"\xa4\xff".to_vec()], vec![b"plain".to_vec(), b"\xa4\xb3\xa4\xf3".to_vec(), b"\xa2".to_vec()]),
            ("shift_jis", vec![b"abc\x82".to_vec(), b"\x82\xff".to_vec(), b"\xfc\xfc".to_vec()], vec![b"plain".to_vec(), b"\x82\xb1\x82\xf1".to_vec(), b"\xa0".to_vec()]),
            ("gb18030", vec![b"abc\x81".to_vec(), b"\x81\x30".to_vec(), b"\x81\x30\x81".to_vec(), b"\x84\x31\xa5".to_vec()], vec![b"plain".to_vec(), b"\xc4\xe3\xba\xc3".to_vec(), b"09".to_vec(), b"\x30".to_vec()]),
            ("gbk", vec![b"abc\x81".to_vec(), b"\xfe\xff".to_vec()], vec![b"plain".to_vec(), b"\xc4\xe3\xba\xc3".to_vec(), b"@".to_vec()]),
            ("big5", vec![b"abc\xa4".to_vec(), b"\x88\x62\x88".to_vec(), b"\xa4\xff".to_vec()], vec![b"plain".to_vec(), b"\xa7\x41\xa6\x6e".to_vec(), b"b".to_vec()]),
            ("euc-kr", vec![b"abc\xb0".to_vec(), b"\xb0\xff".to_vec()], vec![b"plain".to_vec(), b"\xbe\xc8\xb3\xe7".to_vec(), b"\xa1".to_vec()]),
            ("utf-8", vec![b"abc\xe2\x82".to_vec(), b"\xf0\x9f\x98".to_vec(), b"\xc3".to_vec(), b"\xed\xa0".to_vec()], vec![b"plain".to_vec(), b"\xac".to_vec(), b"\x80abc".to_vec(), "é€".as_bytes().to_vec()]),
            ("utf-16le", vec![b"a\x00b".to_vec(), b"\x3d\xd8".to_vec(), b"\x3d\xd8\x00".to_vec(), b"\x00\xdc".to_vec()], vec![b"a\x00".to_vec(), b"\x00\xde".to_vec(), b"\x00a\x00".to_vec()]),
            ("utf-16be", vec![b"\x00a\x00".to_vec(), b"\xd8\x3d".to_vec(), b"\xd8\x3d\xde".to_vec()], vec![b"\x00a".to_vec(), b"\xde\x00".to_vec(), b"a\x00b".to_vec()]),
            ("windows-1252", vec![b"abc\x81".to_vec()], vec![b"plain\xe9".to_vec()]),
        ];
        for (enc, firsts, seconds) in &leftovers {
            let codec = match encoding_from_whatwg_label(enc) {
                Some(c) if sup.contains(enc) => c,
                _ => continue,
            };
            for (fi, first) in firsts.iter().enumerate() {
                for (ti, t1) in traps.iter().enumerate() {
                    if !thorough && (fi + ti) % 2 == 1 && *enc != "iso-2022-jp" {
                        continue;
                    }
                    for chunk1 in [false, true] {
                        for second in seconds {
                            for t2 in traps.iter() {
                                for only_test in [false, true] {
                                    let _ = std::panic::catch_unwind(|| decode(first, enc, *t1, false, chunk1));
                                    let want = codec.decode(second, *t2).ok();
                                    let expect = if only_test { want.as_ref().map(|_| String::new()) } else { want.clone() };
                                    let got = std::panic::catch_unwind(|| decode(second, enc, *t2, only_test, false));
                                    rep.evaluations += 1;
                                    rep.oracle_checked += 1;
                                    rep.count("helper:after-a-leftover");
                                    match got {
                                        Err(_) => rep.fail("oracle", "C17:helper-panicked", &format!("{} {} after {}", enc, trap_name(*t2), hex(first)), second, None, enc),
                                        Ok(got) => {
                                            if got.clone().ok() != expect {
                                                // asked again right away (the call before it is now the same harmless one): still wrong = wrong on its own
                                                let again = std::panic::catch_unwind(|| decode(second, enc, *t2, only_test, false)).ok().and_then(|r| r.ok());
                                                let class = if again != expect { "C17:helper-differs-from-codec" } else { "C17:helper-depends-on-the-call-before" };
                                                rep.fail("oracle", class, &format!("{} trap={} only_test={} right after decode({}, trap={}, chunk={}): helper {:?} codec {:?}", enc, trap_name(*t2), only_test, hex(first), trap_name(*t1), chunk1, got.ok(), expect), second, None, enc);
                                            }
                                        }
                                    }
                                }
                            }
                        }
                    }
                }
            }
        }
    }
    // ---- (a+) thorough tier: every two-byte sequence of every multi-byte codec between two ordinary characters, strict
    //      mode: helper == codec (a writer path taken only for particular index entries shows up here)
    if thorough {
        for (enc, ctx) in [("euc-kr", "한"), ("big5", "中"), ("gbk", "中"), ("gb18030", "中"), ("euc-jp", "あ"), ("shift_jis", "あ")] {
            if !sup.contains(&enc) {
                continue;
            }
            let codec = encoding_from_whatwg_label(enc).unwrap();
            let c = enc_bytes_lossy(ctx, enc);
            for lead in 0x80..=0xffu32 {
                for trail in 0x30..=0xffu32 {
                    let mut b = c.clone();
                    b.push(b'a');
                    b.push(lead as u8);
                    b.push(trail as u8);
                    b.extend_from_slice(&c);
                    let want = codec.decode(&b, DecoderTrap::Strict).ok();
                    let got = decode(&b, enc, DecoderTrap::Strict, false, false).ok();
                    rep.evaluations += 1;
                    rep.oracle_checked += 1;
                    if want.is_some() {
                        rep.count(&format!("helper:two-byte-exhaustive-ok:{}", enc));
                    }
                    if got != want {
                        rep.fail("oracle", "C17:helper-differs-from-codec", &format!("{} strict: helper {:?} codec {:?}", enc, got, want), &b, None, enc);
                    }
                }
            }
        }
    }
    // ---- (a') the multi-byte legacy decoders of the model (Model/Cjk.lean) against the codec library, strict mode
    {
        let encs = ["euc-kr", "big5", "gbk", "gb18030", "euc-jp", "shift_jis", "iso-2022-jp"];
        let n = if thorough { 20000 } else { 2500 };
        for i in 0..n {
            let enc = *rng.pick(&encs);
            let mut b = sample_bytes(&mut rng, enc);
            // two-byte structure at random: lead/trail bytes from the interesting ranges
            if i % 5 == 0 {
                let k = rng.range(1, 12);
                b = (0..k).map(|_| *rng.pick(&[0x30u8, 0x39, 0x40, 0x41, 0x7e, 0x7f, 0x80, 0x81, 0x8e, 0x8f, 0xa0, 0xa1, 0xdf, 0xe0, 0xf0, 0xf9, 0xfc, 0xfd, 0xfe, 0xff, 0x1b, 0x24, 0x28, 0x42, 0x44, 0x49, 0x4a, 0x0a, 0x21, 0x5f, 0x88, 0x62, 0x64, 0xa3, 0xa5]) ).collect();
            }
            if i % 7 == 0 {
                // whole rows of the index: every trail byte under one lead
                let lead = rng.range(0x81, 0xff) as u8;
                b = (0x30..=0xffu32).flat_map(|t| [lead, t as u8]).collect();
                if enc == "iso-2022-jp" {
                    let lead = rng.range(0x21, 0x7f) as u8;
                    b = b"\x1b$B".to_vec();
                    b.extend((0x21..0x7fu8).flat_map(|t| [lead, t]));
                }
                // strict decoding stops at the first problem: cut the row at a random place so that long valid prefixes count
                let k = rng.range(2, b.len().max(3));
                b.truncate(k);
            }
            let real = super::c01::direct_decode(enc, &b);
            let model = drv.ask(&format!("decode {} {} 0", enc, hex(&b)));
            rep.evaluations += 1;
            rep.t3_compared += 1;
            rep.count(&format!("cjk:{}:{}", enc, if real.is_some() { "ok" } else { "err" }));
            let want = match &real {
                Some(t) => format!("ok T{}", text_hex(t)),
                None => "ok E".to_string(),
            };
            if model != want {
                rep.fail("t3", "C17:multibyte-decoder-model-disagrees", &format!("{}: codec {} || model {}", enc, want.chars().take(80).collect::<String>(), model.chars().take(80).collect::<String>()), &b, None, enc);
            }
            // the same bytes through the helper model in a lossy mode: what each rejected sequence swallows and the state
            // the decoder goes on in are part of the model too
            let trap = if i % 2 == 0 { DecoderTrap::Replace } else { DecoderTrap::Ignore };
            let real = decode(&b, enc, trap, false, false).ok();
            let model = drv.ask(&format!("helper {} {} 0 0 {}", enc, trap_name(trap), hex(&b)));
            rep.t3_compared += 1;
            let want = match &real {
                Some(t) => format!("ok T{}", text_hex(t)),
                None => "ok E".to_string(),
            };
            if model != want {
                rep.fail("t3", "C17:multibyte-lossy-model-disagrees", &format!("{} {}: helper {} || model {}", enc, trap_name(trap), want.chars().take(120).collect::<String>(), model.chars().take(120).collect::<String>()), &b, None, enc);
            }
        }
    }
    // ---- (a'') thorough tier: the two-byte space of every multi-byte decoder exhaustively (every lead byte >= 0x80 with every
    //      trail byte), every three-byte JIS X 0212 sequence of euc-jp, every two-byte sequence of iso-2022-jp's double-byte
    //      states, and every 13th four-byte sequence of gb18030 – each decoded on its own, since strict decoding stops at the first problem
    if thorough {
        let mut cases: Vec<(&str, Vec<u8>)> = Vec::new();
        for enc in ["euc-kr", "big5", "gbk", "gb18030", "euc-jp", "shift_jis"] {
            for lead in 0x80..=0xffu32 {
                for trail in 0..=0xffu32 {
                    cases.push((enc, vec![lead as u8, trail as u8]));
                }
            }
        }
        for a in 0xa0..=0xffu32 {
            for b2 in 0xa0..=0xffu32 {
                cases.push(("euc-jp", vec![0x8f, a as u8, b2 as u8]));
            }
        }
        for esc in [&b"\x1b$B"[..], b"\x1b$@", b"\x1b$(D", b"\x1b(I", b"\x1b(J", b"\x1b(B"] {
            for a in 0x20..=0x80u32 {
                for b2 in 0x20..=0x80u32 {
                    let mut v = esc.to_vec();
                    v.push(a as u8);
                    v.push(b2 as u8);
                    cases.push(("iso-2022-jp", v));
                }
            }
        }
        let mut k = 0u32;
        for a in 0x81..=0xfeu32 {
            for b2 in 0x30..=0x39u32 {
                for c in 0x81..=0xfeu32 {
                    for d in 0x30..=0x39u32 {
                        k += 1;
                        if k % 13 == 0 {
                            cases.push(("gb18030", vec![a as u8, b2 as u8, c as u8, d as u8]));
                        }
                    }
                }
            }
        }
        for (enc, b) in cases {
            let real = super::c01::direct_decode(enc, &b);
            let model = drv.ask(&format!("decode {} {} 0", enc, hex(&b)));
            rep.evaluations += 1;
            rep.t3_compared += 1;
            rep.count(&format!("cjk-exhaustive:{}:{}", enc, if real.is_some() { "ok" } else { "err" }));
            let want = match &real {
                Some(t) => format!("ok T{}", text_hex(t)),
                None => "ok E".to_string(),
            };
            if model != want {
                rep.fail("t3", "C17:multibyte-decoder-model-disagrees", &format!("{}: codec {} || model {}", enc, want, model), &b, None, enc);
            }
            // … and in replace mode between two ordinary bytes (what the rejected sequence swallows shows in what follows it)
            let mut c = vec![b'a'];
            c.extend_from_slice(&b);
            c.extend_from_slice(b"bc");
            let real = decode(&c, enc, DecoderTrap::Replace, false, false).ok();
            let model = drv.ask(&format!("helper {} replace 0 0 {}", enc, hex(&c)));
            rep.t3_compared += 1;
            let want = match &real {
                Some(t) => format!("ok T{}", text_hex(t)),
                None => "ok E".to_string(),
            };
            if model != want {
                rep.fail("t3", "C17:multibyte-lossy-model-disagrees", &format!("{} replace: helper {} || model {}", enc, want, model), &c, None, enc);
            }
        }
    }
    // ---- (b) chunk mode: every window of valid UTF-8 that contains a complete character
    let n_texts = if thorough { 400 } else { 60 };
    for _ in 0..n_texts {
        // (U+FEFF, U+FFFE, U+FFFD, U+0000 included: characters a helper might be tempted to treat specially)
        let pool: Vec<char> = "aé€😀ß中Ωz\u{7ff}\u{800}\u{ffff}\u{10000}\u{10ffff} \n\u{feff}\u{feff}\u{fffe}\u{fffd}\u{0}".chars().collect();
        let len = rng.range(1, 14);
        let text: String = (0..len).map(|_| *rng.pick(&pool)).collect();
        let bytes = text.as_bytes();
        for i in 0..bytes.len() {
            for j in i + 1..=bytes.len() {
                // complete characters inside [i, j)
                let mut inside = String::new();
                let mut pos = 0;
                for c in text.chars() {
                    let l = c.len_utf8();
                    if pos >= i && pos + l <= j {
                        inside.push(c);
                    }
                    pos += l;
                }
                if inside.is_empty() {
                    continue;
                }
                let w = &bytes[i..j];
                let got = decode(w, "utf-8", DecoderTrap::Strict, false, true);
                rep.evaluations += 1;
                rep.oracle_checked += 1;
                rep.nontrivial(fp(w, "window"));
                rep.count("window");
                if got.as_deref() != Ok(inside.as_str()) {
                    rep.fail("oracle", "C17:chunk-window-wrong", &format!("window [{},{}) of {:?}: got {:?} want {:?}", i, j, text, got, inside), w, None, "utf-8");
                }
                if (i + j) % 3 == 0 {
                    let model = drv.ask(&format!("helper utf-8 strict 0 1 {}", hex(w)));
                    rep.t3_compared += 1;
                    let want = match &got {
                        Ok(t) => format!("ok T{}", text_hex(t)),
                        Err(_) => "ok E".to_string(),
                    };
                    if model != want {
                        rep.fail("t3", "C17:chunk-model-disagrees", &format!("impl {} || model {}", want, model), w, None, "utf-8");
                    }
                }
            }
        }
        if rep.samples.len() < 2 {
            rep.sample(format!("all windows of {:?}", text));
        }
    }
    rep.sample("helper vs codec on 40 encodings x 3 traps x test-only".to_string());
    rep.model_rounds = drv.requests;
    rep
}
