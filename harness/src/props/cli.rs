//! C15 / C16 — the `normalizer` command line tool, run as a real process in temporary directories.
use super::c01::{direct_decode, strip_own_mark};
use super::*;
use charset_normalizer_rs::entity::CharsetMatch;
use std::collections::BTreeMap;
use std::path::{Path, PathBuf};
use std::process::{Command, Stdio};

pub struct CliCase {
    pub files: Vec<(String, Vec<u8>)>,
    pub args_files: Vec<String>, // names passed on the command line (may name a missing file)
    pub alternatives: bool,
    pub normalize: bool,
    pub minimal: bool,
    pub replace: bool,
    pub force: bool,
    pub threshold: Option<String>,
    /// `--verbose`: a logger is installed; what is reported, written and returned must not change
    pub verbose: bool,
}

fn cli_bin() -> String {
    std::env::var("VERIF_CLI").unwrap_or_else(|_| "/verif/.build/cli-target/debug/normalizer".to_string())
}

fn snapshot(dir: &Path) -> BTreeMap<String, Vec<u8>> {
    let mut m = BTreeMap::new();
    if let Ok(rd) = std::fs::read_dir(dir) {
        for e in rd.flatten() {
            if e.path().is_file() {
                m.insert(e.file_name().to_string_lossy().to_string(), std::fs::read(e.path()).unwrap_or_default());
            }
        }
    }
    m
}

fn printed_of(m: &CharsetMatch) -> String {
    let alts: Vec<String> = m.suitable_encodings().into_iter().filter(|e| e != m.encoding()).collect();
    format!(
        "aliases={:?};alts={:?};lang={};alphabets={:?};bom={};chaos={:.1};coherence={:.1};preferred=true",
        m.encoding_aliases(),
        alts,
        m.most_probably_language(),
        m.unicode_ranges(),
        m.bom(),
        m.chaos_percents(),
        m.coherence_percents()
    )
}

fn printed_of_json(v: &serde_json::Value) -> String {
    let arr = |k: &str| -> Vec<String> { v[k].as_array().map(|a| a.iter().map(|x| x.as_str().unwrap_or("?").to_string()).collect()).unwrap_or_default() };
    format!(
        "aliases={:?};alts={:?};lang={};alphabets={:?};bom={};chaos={};coherence={};preferred={}",
        arr("encoding_aliases"),
        arr("alternative_encodings"),
        v["language"].as_str().unwrap_or("?"),
        arr("alphabets"),
        v["has_sig_or_bom"].as_bool().unwrap_or(false),
        v["chaos"].as_str().unwrap_or("?"),
        v["coherence"].as_str().unwrap_or("?"),
        v["is_preferred"].as_bool().unwrap_or(false)
    )
}

struct Ids {
    table: Vec<Vec<u8>>,
}
impl Ids {
    fn id(&mut self, b: &[u8]) -> usize {
        if let Some(i) = self.table.iter().position(|x| x == b) {
            return i;
        }
        self.table.push(b.to_vec());
        self.table.len() - 1
    }
}

pub fn gen_case(rng: &mut Rng, corpus: &[(String, Vec<u8>)], idx: usize) -> CliCase {
    let nfiles = match rng.below(6) {
        0 | 1 | 2 => 1,
        3 | 4 => 2,
        _ => rng.range(3, 4),
    };
    let mut files = vec![];
    let names = ["a.txt", "data.csv", "README", "notes.old.txt", "x", "page.html", "b.txt", "archive.tar.gz", "über.txt", "c.koi8-r.txt"];
    for k in 0..nfiles {
        let name = loop {
            let n = names[rng.below(names.len())].to_string();
            if !files.iter().any(|(x, _): &(String, Vec<u8>)| *x == n) {
                break n;
            }
        };
        let content: Vec<u8> = match rng.below(10) {
            0 => vec![],
            1 => b"plain ascii content, nothing special here.\n".to_vec(),
            2 => random_bytes(rng, 64),
            4 => {
                // a legacy multi-byte text that ends inside a character, or has one damaged byte: no strict decoding
                // in its own code page exists, so whatever is written must not pretend there is one
                let (name, enc) = *rng.pick(&[("tradchinese", "big5"), ("chinese", "gbk"), ("korean", "euc-kr"), ("japanese", "shift_jis"), ("japanese", "euc-jp"), ("chinese", "gb18030")]);
                let t = TEXTS.iter().find(|(n, _)| *n == name).map(|x| x.1).unwrap_or(TEXTS[0].1);
                let k = rng.range(60, 900);
                let text = stretch(rng, t, k);
                let mut b = enc_bytes(&text, enc).unwrap_or_else(|| text.into_bytes());
                while b.last().map_or(false, |x| *x < 0x80) {
                    b.pop();
                }
                if rng.chance(3, 4) {
                    b.pop(); // cut inside the last (two-byte) character
                } else if b.len() > 8 {
                    let i = rng.range(2, b.len() - 2);
                    b[i] = 0xff;
                }
                b
            }
            5 if idx % 3 == 0 => {
                // a file that starts with its encoding's mark twice (the second one is content), or with a mark and nothing else
                let (enc, t) = *rng.pick(&[("gb18030", "这是一个用来测试编码检测的中文句子，内容并不重要。"), ("gb18030", "Plain words after a doubled signature."), ("utf-8", "Déjà vu, naïve café."), ("utf-16le", "Plain words in sixteen bits.")]);
                let mk = mark_of(enc).unwrap_or(b"");
                let mut b = mk.to_vec();
                if rng.chance(3, 4) {
                    b.extend_from_slice(mk);
                }
                for _ in 0..rng.range(1, 6) {
                    b.extend_from_slice(&enc_bytes_lossy(t, enc));
                }
                b
            }
            3 => b"GIF89a\x01\x00\x01\x00\x80\x00\x00\xff\xff\xff\x00\x00\x00!\xf9\x04\x01\x00\x00\x00\x00,\x00\x00\x00\x00\x01\x00\x01\x00\x00\x02\x02D\x01\x00;".to_vec(),
            _ => {
                let mut c = structured_case(rng, corpus).bytes;
                c.truncate(20_000);
                c
            }
        };
        let _ = k;
        files.push((name, content));
    }
    let mut args_files: Vec<String> = files.iter().map(|f| f.0.clone()).collect();
    let combo = idx % 12;
    let (mut normalize, mut replace, mut force, mut alternatives, mut minimal) = (false, false, false, false, false);
    match combo {
        0 => {}
        // (the remaining combinations of the five switches take turns in the two slots that used to repeat a neighbour)
        1 => match (idx / 12) % 4 {
            0 => {}
            1 => {
                normalize = true;
                replace = true;
                force = true;
                minimal = true;
            }
            2 => {
                normalize = true;
                alternatives = true;
                minimal = true;
            }
            _ => {
                normalize = true;
                replace = true;
                force = true;
                alternatives = true;
            }
        },
        2 => alternatives = true,
        3 => minimal = true,
        4 => normalize = true,
        5 => {
            normalize = true;
            minimal = (idx / 12) % 2 == 0;
        }
        6 => {
            normalize = true;
            replace = true;
            force = true;
        }
        7 => {
            normalize = true;
            replace = true;
        }
        8 => replace = true, // invalid
        9 => force = true,   // invalid
        10 => {
            normalize = true;
            alternatives = true;
        }
        _ => {
            alternatives = true;
            minimal = true;
        }
    }
    let threshold = match rng.below(10) {
        8 => Some(rng.pick(&["NaN", "nan", "inf", "-inf", "1.0000001", "-0.0"]).to_string()),
        0 => Some("1.5".to_string()),
        1 => Some("-0.1".to_string()),
        2 => Some("0.5".to_string()),
        3 => Some("1.0".to_string()),
        4 => Some("0.0".to_string()),
        _ => None,
    };
    if rng.chance(1, 12) {
        args_files.insert(rng.below(args_files.len() + 1), "no-such-file.txt".to_string());
    }
    // the derived-name collision (known finding candidate): "c.txt" next to "c.koi8-r.txt"
    if idx % 40 == 13 {
        let russian = TEXTS.iter().find(|(n, _)| *n == "russian").unwrap().1;
        files = vec![("c.txt".to_string(), enc_bytes(russian, "koi8-r").unwrap()), ("c.koi8-r.txt".to_string(), b"precious other input".to_vec())];
        args_files = vec!["c.txt".into(), "c.koi8-r.txt".into()];
        normalize = true;
        replace = false;
        force = false;
    }
    if alternatives && !normalize && idx % 2 == 0 {
        let (name, enc) = *rng.pick(&[("russian", "koi8-r"), ("russian", "windows-1251"), ("greek", "iso-8859-7"), ("hebrew", "windows-1255"), ("turkish", "windows-1254"), ("arabic", "windows-1256"), ("bulgarian", "iso-8859-5")]);
        let t = TEXTS.iter().find(|(n, _)| *n == name).unwrap().1;
        let k = rng.range(300, 1500);
        let text = stretch(rng, t, k);
        if let Some(b) = enc_bytes(&text, enc) {
            files[0].1 = b;
        }
    }
    // > 1 MB in a multi-byte code page (character boundary at byte 500 000): what gets written must
    // still be the whole text (plain invocation: valid flags, default threshold, the file exists)
    let mut threshold = threshold;
    if idx == 4 || idx % 97 == 53 {
        let (content, enc) = large_multibyte_file(rng);
        let name = format!("big-{}.txt", enc);
        files = vec![(name.clone(), content)];
        args_files = vec![name];
        normalize = true;
        replace = idx % 2 == 1;
        force = replace;
        threshold = None;
    }
    // > 1 MB declaring a legacy code page that cannot decode one byte of the tail, with a threshold under which
    // every page is given up on: whatever ends up reported, nothing may be written that is not a strict decode
    if idx == 7 || idx % 97 == 29 {
        let (content, enc) = large_declared_bad_tail(rng);
        let name = format!("declared-{}.xml", enc);
        files = vec![(name.clone(), content)];
        args_files = vec![name];
        normalize = true;
        replace = idx % 2 == 0;
        force = replace;
        alternatives = false;
        minimal = false;
        threshold = Some(if idx % 4 != 0 { "0.0".to_string() } else { "0.001".to_string() });
    }
    // > 1 MB in a legacy single-byte page that several pages read alike (no merging of look-alikes above the
    // limit): the report must still be headed by the library's best match
    if idx == 9 || idx % 97 == 61 {
        let (name, enc) = *rng.pick(&[("french", "iso-8859-1"), ("german", "iso-8859-1"), ("spanish", "windows-1252")]);
        let base = TEXTS.iter().find(|(n, _)| *n == name).map(|x| x.1).unwrap_or(TEXTS[0].1);
        let unit = enc_bytes_lossy(&stretch(rng, base, 2500), enc);
        let mut content: Vec<u8> = Vec::with_capacity(1_010_000);
        let len = 1_000_001 + rng.below(4000);
        while content.len() < len {
            content.extend_from_slice(&unit);
        }
        content.truncate(len);
        let fname = format!("big-{}.txt", enc);
        files = vec![(fname.clone(), content)];
        args_files = vec![fname];
        normalize = false;
        replace = false;
        force = false;
        alternatives = idx % 3 == 1;
        minimal = idx % 3 == 2;
        threshold = None;
    }
    // a threshold that is not a number, or lies just outside [0, 1], with otherwise valid switches and existing files:
    // rejected before anything is read
    if idx == 14 || idx == 26 || idx % 97 == 83 {
        threshold = Some(rng.pick(&["NaN", "nan", "inf", "-inf", "1.0000001", "-0.0000001"]).to_string());
        args_files = files.iter().map(|f| f.0.clone()).collect();
        normalize = idx % 2 == 1;
        replace = false;
        force = false;
    }
    // a Big5 file with sequences that decode to two characters each: what gets written is still the whole text
    if idx == 13 || idx == 25 || idx % 97 == 71 {
        let content = big5_two_codepoint_text(rng);
        files = vec![("dictionary.txt".to_string(), content)];
        args_files = vec!["dictionary.txt".into()];
        normalize = true;
        replace = idx % 2 == 0;
        force = replace;
        alternatives = false;
        minimal = false;
        threshold = None;
    }
    // a file in a non-UTF encoding that has a signature (gb18030), starting with the signature twice: the second
    // one is text and belongs into what gets written
    if idx == 11 || idx == 23 || idx % 97 == 43 {
        let t = *rng.pick(&["这是一个用来测试编码检测的中文句子，内容并不重要。", "我能吞下玻璃而不伤身体。视野无限广，窗外有蓝天。"]);
        let mk = mark_of("gb18030").unwrap_or(b"");
        let mut content = mk.to_vec();
        content.extend_from_slice(mk);
        for _ in 0..rng.range(2, 8) {
            content.extend_from_slice(&enc_bytes_lossy(t, "gb18030"));
        }
        files = vec![("notes.txt".to_string(), content)];
        args_files = vec!["notes.txt".into()];
        normalize = true;
        replace = idx % 2 == 0;
        force = replace;
        alternatives = false;
        minimal = false;
        threshold = None;
    }
    // every third invocation runs with a logger installed (never the directed > 1 MB ones: trace output of a large file is slow)
    let verbose = idx % 3 == 1 && files.iter().all(|f| f.1.len() < 200_000);
    CliCase { files, args_files, alternatives, normalize, minimal, replace, force, threshold, verbose }
}

pub fn run(prop: &'static str, thorough: bool, seed: u64) -> Report {
    let mut rep = Report::new(prop, seed);
    let mut drv = Driver::spawn();
    let mut rng = Rng::new(seed);
    let corpus = corpus(30_000);
    let bin = cli_bin();
    if !Path::new(&bin).exists() {
        rep.fail("t3", &format!("{}:cli-binary-missing", prop), &format!("{} not built", bin), &[], None, "setup");
        return rep;
    }
    let n = if thorough { 600 } else { 96 };
    for idx in 0..n {
        let mut r = rng.fork();
        let case = gen_case(&mut r, &corpus, idx);
        // (a dot in a *directory* name must not leak into the derived sibling name of a dot-less file)
        let dir: PathBuf = std::env::temp_dir().join(format!("verif-cli-{}-{}-{}{}", std::process::id(), seed, idx, if idx % 2 == 0 { ".d" } else { "" }));
        let _ = std::fs::remove_dir_all(&dir);
        std::fs::create_dir_all(&dir).unwrap();
        let dir = std::fs::canonicalize(&dir).unwrap();
        for (nm, c) in &case.files {
            std::fs::write(dir.join(nm), c).unwrap();
        }
        // a stale, longer sibling left over from an earlier run (the tool must replace it completely)
        if case.normalize && !case.replace && (idx / 12) % 2 == 0 {
            let thr0: f32 = case.threshold.as_ref().and_then(|t| t.parse().ok()).unwrap_or(0.2);
            let mut s0 = Sett::default();
            s0.thr = thr0;
            for (nm, c) in &case.files {
                if let Ok(Ok(ms)) = real_detect_raw(c, &s0) {
                    if let Some(b) = ms.get_best() {
                        let target = match nm.rsplit_once('.') {
                            None => format!("{}.{}", nm, b.encoding()),
                            Some((a, e)) => format!("{}.{}.{}", a, b.encoding(), e),
                        };
                        if !case.files.iter().any(|f| f.0 == target) {
                            let stale: Vec<u8> = std::iter::repeat(b'Z').take(c.len() * 3 + 4096).collect();
                            let _ = std::fs::write(dir.join(&target), stale);
                        }
                    }
                }
            }
        }
        let before = snapshot(&dir);
        // library view of every input, with the threshold the tool will use
        let thr: f32 = case.threshold.as_ref().and_then(|t| t.parse().ok()).unwrap_or(0.2);
        let thr_ok = (0.0..=1.0).contains(&thr);
        let mut sett = Sett::default();
        sett.thr = thr;
        let flags_invalid = (case.replace && !case.normalize) || (!case.replace && case.force) || !thr_ok;
        // run the tool
        let mut cmd = Command::new(&bin);
        if case.alternatives {
            cmd.arg("-a");
        }
        if case.normalize {
            cmd.arg("-n");
        }
        if case.minimal {
            cmd.arg("-m");
        }
        if case.replace {
            cmd.arg("-r");
        }
        if case.force {
            cmd.arg("-f");
        }
        if let Some(t) = &case.threshold {
            cmd.arg(format!("--threshold={}", t));
        }
        if case.verbose {
            cmd.arg("--verbose");
            rep.count("flags:verbose");
        }
        for f in &case.args_files {
            cmd.arg(dir.join(f));
        }
        let out = cmd.stdin(Stdio::null()).stdout(Stdio::piped()).stderr(Stdio::piped()).output().expect("run normalizer");
        let stdout = String::from_utf8_lossy(&out.stdout).to_string();
        let code = out.status.code().unwrap_or(-1);
        let after = snapshot(&dir);
        // second run of a read-only invocation: byte-identical report (C03's CLI clause)
        if !case.normalize && !flags_invalid && prop == "C16" {
            let mut cmd2 = Command::new(&bin);
            if case.alternatives {
                cmd2.arg("-a");
            }
            if case.minimal {
                cmd2.arg("-m");
            }
            if let Some(t) = &case.threshold {
                cmd2.arg(format!("--threshold={}", t));
            }
            for f in &case.args_files {
                cmd2.arg(dir.join(f));
            }
            let out2 = cmd2.stdin(Stdio::null()).output().expect("run normalizer");
            if out2.stdout != out.stdout {
                rep.fail("oracle", "C16:report-differs-between-runs", "same file, same flags, different stdout", stdout.as_bytes(), None, "rerun");
            }
        }
        rep.evaluations += 1;
        let desc = format!(
            "files={:?} args={:?} a={} n={} m={} r={} f={} thr={:?} -> exit {}",
            case.files.iter().map(|f| (f.0.clone(), f.1.len())).collect::<Vec<_>>(),
            case.args_files,
            case.alternatives,
            case.normalize,
            case.minimal,
            case.replace,
            case.force,
            case.threshold,
            code
        );
        rep.nontrivial(fp(desc.as_bytes(), ""));
        rep.count(&format!("exit:{}", code));
        rep.count(&format!("flags:{}", if flags_invalid { "invalid" } else if case.normalize { "normalize" } else { "report" }));
        // ---- library expectation, file by file in argument order (content as the tool sees it *now*)
        let mut ids = Ids { table: vec![] };
        let mut cur: BTreeMap<String, Vec<u8>> = before.clone();
        let mut model_files: Vec<String> = vec![];
        let mut lib_entries: Vec<(String, Option<String>, String)> = vec![]; // (path, encoding, printed) in expected report order
        let mut expected_missing = false;
        let mut lib_error = false;
        let mut aborted = false;
        for f in &case.args_files {
            let p = dir.join(f);
            let phex = text_hex(&p.to_string_lossy());
            match cur.get(f).cloned() {
                None => {
                    model_files.push(format!("{}|MISSING|-", phex));
                    expected_missing = true;
                    aborted = true;
                    continue;
                }
                Some(content) => {
                    let cid = ids.id(&content);
                    if aborted {
                        // never reached by the tool: the run ended at the missing file / failing detection
                        model_files.push(format!("{}|{}|-", phex, cid));
                        continue;
                    }
                    match real_detect_raw(&content, &sett) {
                        Ok(Ok(ms)) => {
                            let infos: Vec<String> = ms
                                .iter()
                                .map(|m| {
                                    let t = m.decoded_payload().unwrap_or_default().as_bytes().to_vec();
                                    let tid = ids.id(&t);
                                    let pr = ids.id(printed_of(m).as_bytes());
                                    format!("{}~{}~{}", m.encoding(), tid, pr)
                                })
                                .collect();
                            model_files.push(format!("{}|{}|{}", phex, cid, if infos.is_empty() { "-".to_string() } else { infos.join(";") }));
                            // writes the tool is expected to perform (for the oracle)
                            if !flags_invalid && case.normalize {
                                if let Some(best) = ms.get_best() {
                                    if !best.encoding().starts_with("utf") {
                                        let target = if !case.replace {
                                            let (stem, ext) = match f.rsplit_once('.') {
                                                None => (f.clone(), None),
                                                Some((a, b)) => (a.to_string(), Some(b.to_string())),
                                            };
                                            Some(match ext {
                                                None => format!("{}.{}", stem, best.encoding()),
                                                Some(e) => format!("{}.{}.{}", stem, best.encoding(), e),
                                            })
                                        } else if case.force {
                                            Some(f.clone())
                                        } else {
                                            None
                                        };
                                        if let Some(t) = target {
                                            cur.insert(t, best.decoded_payload().unwrap_or_default().as_bytes().to_vec());
                                        }
                                    }
                                }
                            }
                            let _ = &mut lib_entries;
                        }
                        _ => {
                            model_files.push(format!("{}|{}|ERR", phex, cid));
                            lib_error = true;
                            aborted = true;
                        }
                    }
                }
            }
        }
        // ---- T3: the Lean model of the tool on the same abstract situation
        let flags: String = [case.alternatives, case.normalize, case.minimal, case.replace, case.force, thr_ok].iter().map(|b| if *b { '1' } else { '0' }).collect();
        // all files present in the directory that are not arguments must be part of the model's fs too
        let mut req_files = model_files.clone();
        for (nm, c) in &before {
            if !case.args_files.contains(nm) {
                // not an input: give it to the model as an extra fs entry through a pseudo "file" that is never processed
                let _ = (nm, c);
            }
        }
        let model = drv.ask(&format!("cli {} 0 {}", flags, req_files.join(" ")));
        req_files.clear();
        // canonical view of what really happened
        let real_fs: String = {
            let mut v: Vec<String> = vec![];
            for (nm, c) in &after {
                // only files the model knows about: inputs and anything new or changed
                let known = case.args_files.contains(nm) || before.get(nm) != Some(c);
                if known {
                    v.push(format!("{}={}", text_hex(&dir.join(nm).to_string_lossy()), ids.id(c)));
                }
            }
            v.sort();
            v.join(" ")
        };
        let real_report: String = if code != 0 {
            if !stdout.trim().is_empty() {
                rep.fail("oracle", &format!("{}:stdout-not-empty-on-failure", prop), &desc, stdout.as_bytes(), None, "exit");
            }
            "err".to_string()
        } else if case.minimal {
            format!("ok minimal {}", stdout.lines().map(|l| l.replace(", ", ",")).collect::<Vec<_>>().join("/"))
        } else {
            match serde_json::from_str::<serde_json::Value>(&stdout) {
                Err(e) => {
                    rep.fail("oracle", "C16:stdout-is-not-one-json-document", &format!("{}: {}", desc, e), stdout.as_bytes(), None, "json");
                    "unparsable".to_string()
                }
                Ok(v) => {
                    let show = |e: &serde_json::Value, ids: &mut Ids| -> String {
                        let enc = e["encoding"].as_str().map(|s| s.to_string());
                        let pr = if enc.is_some() { ids.id(printed_of_json(e).as_bytes()).to_string() } else { "-".to_string() };
                        format!(
                            "{}:{}:{}:{}",
                            text_hex(e["path"].as_str().unwrap_or("?")),
                            enc.unwrap_or_else(|| "undefined".into()),
                            pr,
                            e["unicode_path"].as_str().map(text_hex).unwrap_or_else(|| "-".into())
                        )
                    };
                    match &v {
                        serde_json::Value::Object(_) => format!("ok object {}", show(&v, &mut ids)),
                        serde_json::Value::Array(a) => format!("ok array {}", a.iter().map(|e| show(e, &mut ids)).collect::<Vec<_>>().join(",")),
                        _ => "ok other".to_string(),
                    }
                }
            }
        };
        rep.t3_compared += 1;
        let (model_report, model_fs) = match model.split_once(" ## ") {
            Some((a, b)) => (a.to_string(), b.to_string()),
            None => (model.clone(), String::new()),
        };
        let model_report_c = if model_report.starts_with("err") { "err".to_string() } else { model_report.clone() };
        let relevant = if prop == "C15" { model_fs != real_fs } else { model_report_c != real_report };
        if relevant {
            rep.fail(
                "t3",
                &format!("{}:cli-model-disagrees", prop),
                &format!("{} || impl: {} ## {} || model: {} ## {}", desc, real_report, real_fs, model_report_c, model_fs),
                desc.as_bytes(),
                None,
                "cli",
            );
        }
        // ---- oracles
        rep.oracle_checked += 1;
        if prop == "C15" {
            let collision = case.args_files.iter().any(|f| {
                // a derived target equals one of the inputs
                cur.iter().any(|(nm, c)| case.args_files.contains(nm) && nm != f && before.get(nm) != Some(c))
            });
            if !case.normalize || flags_invalid || expected_missing && case.args_files.first().map(|f| !before.contains_key(f)).unwrap_or(false) {
                if !case.normalize && after != before {
                    rep.fail("oracle", "C15:written-without-normalize", &desc, desc.as_bytes(), None, "fs");
                }
                if flags_invalid && after != before {
                    rep.fail("oracle", "C15:written-despite-invalid-flags", &desc, desc.as_bytes(), None, "fs");
                }
            } else if !lib_error {
                // expected final state = `cur` (sequential writes of strictly decoded text), up to a missing-file abort
                if after != cur {
                    let class = if collision { "C15:derived-name-collides-with-input" } else { "C15:unexpected-file-system-state" };
                    let diff: Vec<String> = after.keys().chain(cur.keys()).filter(|k| after.get(*k) != cur.get(*k)).cloned().collect();
                    rep.fail("oracle", class, &format!("{} || differing files: {:?}", desc, diff), desc.as_bytes(), None, "fs");
                } else if collision {
                    // the tool did what the sequential semantics says – which destroyed another input
                    rep.fail("oracle", "C15:derived-name-collides-with-input", &format!("{} || an input file was overwritten by the normalised copy of another input", desc), desc.as_bytes(), None, "fs");
                }
                // faithful content: every new/changed file holds the UTF-8 of the strict decode of its source
                if !case.replace {
                    for f in &case.args_files {
                        if let (Some(orig), Some(now)) = (before.get(f), after.get(f)) {
                            if orig != now && !collision {
                                rep.fail("oracle", "C15:input-modified-without-replace", &format!("{} || {}", desc, f), desc.as_bytes(), None, "fs");
                            }
                        }
                    }
                }
                for (nm, c) in &after {
                    if before.get(nm) != Some(c) {
                        rep.count("oracle:file-written");
                        // find the source: the input whose best encoding produced this text
                        let ok = case.args_files.iter().any(|f| {
                            before.get(f).map_or(false, |src| {
                                if let Ok(Ok(ms)) = real_detect_raw(src, &sett) {
                                    if let Some(b) = ms.get_best() {
                                        return direct_decode(b.encoding(), strip_own_mark(b.encoding(), src)).map(|t| t.into_bytes()) == Some(c.clone()) && !b.encoding().starts_with("utf");
                                    }
                                }
                                false
                            })
                        });
                        if !ok && !collision {
                            rep.fail("oracle", "C15:written-content-is-not-the-strict-decode", &format!("{} || {}", desc, nm), desc.as_bytes(), None, "fs");
                        }
                    }
                }
            }
        } else {
            // C16
            let should_fail = flags_invalid || expected_missing || lib_error;
            if should_fail {
                if code == 0 {
                    rep.fail("oracle", "C16:bad-invocation-exits-zero", &desc, desc.as_bytes(), None, "exit");
                }
                if flags_invalid && after != before {
                    rep.fail("oracle", "C16:files-touched-despite-invalid-flags", &desc, desc.as_bytes(), None, "exit");
                }
            } else {
                if code != 0 {
                    rep.fail("oracle", "C16:readable-inputs-but-nonzero-exit", &format!("{} || stderr: {}", desc, String::from_utf8_lossy(&out.stderr).chars().take(200).collect::<String>()), desc.as_bytes(), None, "exit");
                } else if !case.minimal {
                    // every entry agrees with the library for the same file and threshold
                    if let Ok(v) = serde_json::from_str::<serde_json::Value>(&stdout) {
                        let entries: Vec<serde_json::Value> = match v {
                            serde_json::Value::Array(a) => a,
                            o => vec![o],
                        };
                        if entries.len() == 1 && !stdout.trim_start().starts_with('{') || entries.len() != 1 && !stdout.trim_start().starts_with('[') {
                            rep.fail("oracle", "C16:wrong-top-level-shape", &desc, stdout.as_bytes(), None, "json");
                        }
                        // as many entries per input as the library has to report: all its matches with --with-alternative
                        // (one "undefined" entry if it has none), the best one otherwise
                        if !case.normalize {
                            for nm in &case.args_files {
                                if case.args_files.iter().filter(|x| *x == nm).count() != 1 {
                                    continue;
                                }
                                if let Some(src) = before.get(nm) {
                                    if let Ok(Ok(ms)) = real_detect_raw(src, &sett) {
                                        let want = if case.alternatives { ms.len().max(1) } else { 1 };
                                        let got = entries.iter().filter(|e| Path::new(e["path"].as_str().unwrap_or("")).file_name().map(|x| x.to_string_lossy() == nm.as_str()).unwrap_or(false)).count();
                                        rep.count("oracle:entries-per-input");
                                        if got != want {
                                            rep.fail("oracle", "C16:number-of-entries-differs-from-library", &format!("{} || {}: {} entries in the report, the library has {} to report", desc, nm, got, want), src, None, "json");
                                        }
                                    }
                                }
                            }
                        }
                        for e in &entries {
                            let path = e["path"].as_str().unwrap_or("").to_string();
                            let nm = Path::new(&path).file_name().map(|x| x.to_string_lossy().to_string()).unwrap_or_default();
                            // the content this entry was computed from: before the run unless replaced
                            if let Some(src) = before.get(&nm) {
                                if case.normalize {
                                    continue; // with writes in between, compare through the model (T3) only
                                }
                                if let Ok(Ok(ms)) = real_detect_raw(src, &sett) {
                                    rep.count("oracle:entry-vs-library");
                                    let enc = e["encoding"].as_str();
                                    match enc {
                                        None => {
                                            if ms.len() != 0 {
                                                rep.fail("oracle", "C16:undefined-although-library-detects", &desc, src, None, "json");
                                            }
                                        }
                                        Some(enc) => match ms.iter().find(|m| m.encoding() == enc) {
                                            None => rep.fail("oracle", "C16:entry-encoding-unknown-to-library", &format!("{} || {}", desc, enc), src, None, "json"),
                                            Some(m) => {
                                                if printed_of(m) != printed_of_json(e) {
                                                    rep.fail("oracle", "C16:entry-differs-from-library", &format!("{} || tool: {} || library: {}", desc, printed_of_json(e), printed_of(m)), src, None, "json");
                                                }
                                            }
                                        },
                                    }
                                }
                            }
                        }
                        // best first
                        if let Some(first) = entries.first() {
                            let path = first["path"].as_str().unwrap_or("").to_string();
                            let nm = Path::new(&path).file_name().map(|x| x.to_string_lossy().to_string()).unwrap_or_default();
                            if let (Some(src), false) = (before.get(&nm), case.normalize) {
                                if let Ok(Ok(ms)) = real_detect_raw(src, &sett) {
                                    if let (Some(b), Some(enc)) = (ms.get_best(), first["encoding"].as_str()) {
                                        if b.encoding() != enc {
                                            rep.fail("oracle", "C16:first-entry-is-not-the-best-match", &desc, src, None, "json");
                                        }
                                    }
                                }
                            }
                        }
                    }
                } else {
                    // the one-line-per-input report: as many lines as inputs, each naming what the library reports for that
                    // input (best guess first, then – with alternatives – the other matches in the library's order)
                    let lines: Vec<&str> = stdout.lines().collect();
                    if lines.len() != case.args_files.len() {
                        rep.fail("oracle", "C16:minimal-report-line-count", &format!("{} || {} lines for {} inputs", desc, lines.len(), case.args_files.len()), stdout.as_bytes(), None, "minimal");
                    } else {
                        for (i, nm) in case.args_files.iter().enumerate() {
                            // skip inputs whose content or report another input of the same run may have touched: the same path
                            // given twice, or (writing siblings) a name that extends another input's stem
                            let stem = |x: &str| x.rsplit_once('.').map(|p| p.0.to_string()).unwrap_or_else(|| x.to_string());
                            let entangled = case.args_files.iter().enumerate().any(|(k, other)| {
                                k != i && (other == nm || (case.normalize && (nm.starts_with(&format!("{}.", stem(other))) || other.starts_with(&format!("{}.", stem(nm))))))
                            });
                            if entangled {
                                continue;
                            }
                            if let Some(src) = before.get(nm) {
                                if let Ok(Ok(ms)) = real_detect_raw(src, &sett) {
                                    rep.count("oracle:minimal-line-vs-library");
                                    let want = match ms.get_best() {
                                        None => "undefined".to_string(),
                                        Some(b) => {
                                            let mut v = vec![b.encoding().to_string()];
                                            if case.alternatives {
                                                v.extend(ms.iter().filter(|m| *m != b).map(|m| m.encoding().to_string()));
                                            }
                                            v.join(", ")
                                        }
                                    };
                                    if lines[i] != want {
                                        rep.fail("oracle", "C16:minimal-line-differs-from-library", &format!("{} || line {} is {:?}, the library reports {:?}", desc, i, lines[i], want), src, None, "minimal");
                                    }
                                }
                            }
                        }
                    }
                }
            }
        }
        if rep.samples.len() < 4 {
            rep.sample(format!("{} => {}", desc, real_report.chars().take(120).collect::<String>()));
        }
        let _ = std::fs::remove_dir_all(&dir);
    }
    rep.model_rounds = drv.requests;
    rep
}

pub fn run_c15(thorough: bool, seed: u64, _r: Option<String>) -> Report {
    run("C15", thorough, seed)
}
pub fn run_c16(thorough: bool, seed: u64, _r: Option<String>) -> Report {
    run("C16", thorough, seed)
}
