//! C11 — memoisation is unobservable: results do not depend on call history.
use super::*;
use charset_normalizer_rs::verif_hooks as vh;

fn pool(rng: &mut Rng, n_inputs: usize) -> Vec<Case> {
    // inputs that share decoded chunks, settings differing in one setting at a time
    let mut v = vec![];
    let bases: Vec<Vec<u8>> = (0..n_inputs)
        .map(|i| {
            let (_, t) = TEXTS[i % 21];
            let k = rng.range(80, 900);
            let text = stretch(rng, t, k);
            let enc = *rng.pick(&["utf-8", "utf-8", "windows-1251", "windows-1252", "koi8-r", "gb18030", "shift_jis", "euc-kr", "big5", "iso-8859-7"]);
            enc_bytes(&text, enc).unwrap_or_else(|| text.into_bytes())
        })
        .collect();
    // siblings: the same content with / without trailing white space (messy enough for a non-zero chaos)
    let mut bases = bases;
    let nb = bases.len();
    for k in 0..nb.min(4) {
        let mut b = bases[k].clone();
        if b.len() > 40 && std::str::from_utf8(&b).is_ok() {
            for j in 0..(b.len() / 60).max(1) {
                let pos = 10 + j * 50;
                if pos < b.len() && b[pos] < 0x80 {
                    b[pos] = 0x1b;
                }
            }
            let mut with_nl = b.clone();
            with_nl.extend_from_slice(*rng.pick(&[&b"\n"[..], &b" "[..], &b"\r\n"[..], &b"\n\n"[..]]));
            bases.push(b);
            bases.push(with_nl);
        }
    }
    // siblings: the same text with every non-ASCII character moved to the same position of another plane
    // (+0x10000, +0x20000) or folded back into the basic plane (low 16 bits) – distinct characters that any
    // narrowed, folded or hashed-down per-character cache key would confuse
    for k in 0..nb.min(6) {
        if let Ok(t) = String::from_utf8(bases[k].clone()) {
            for delta in [0x10000u32, 0x20000] {
                let moved: String = t.chars().map(|c| if (c as u32) >= 0x80 && (c as u32) < 0x10000 { char::from_u32(c as u32 + delta).unwrap_or(c) } else { c }).collect();
                if moved != t {
                    bases.push(moved.into_bytes());
                }
            }
        }
    }
    for t in ["\u{1d552}\u{1d553}\u{1d554} \u{1d555}\u{1d556}\u{1d557}\u{1d558} \u{1d559}\u{1d55a}\u{1d55b}\u{1d55c}\u{1d55d} \u{1d55e}\u{1d55f}\u{1d560}\u{1d561} \u{1d562}\u{1d563}\u{1d564}\u{1d565}\u{1d566} \u{1d567}\u{1d568}\u{1d569}\u{1d56a}\u{1d56b} text in double-struck letters, ", "\u{20000}\u{20001}\u{2000b}\u{20089}\u{200a2}\u{200a4}\u{201a2}\u{20213}\u{2032b}\u{20371}\u{20381}\u{203f9}\u{2044a}\u{20509}\u{205d6}\u{20628}\u{2074f}\u{20807} "] {
        let t = t.repeat(6);
        let folded: String = t.chars().map(|c| if (c as u32) >= 0x10000 { char::from_u32(c as u32 & 0xffff).unwrap_or(c) } else { c }).collect();
        bases.push(t.into_bytes());
        bases.push(folded.into_bytes());
    }
    // stateful decoders: texts in ISO-2022-JP, well formed and broken inside a shifted run (what one call leaves a
    // decoder in must not be what the next call starts from)
    {
        let jp = "\u{3053}\u{3093}\u{306b}\u{3061}\u{306f}\u{4e16}\u{754c}\u{3001}\u{3053}\u{308c}\u{306f}\u{30c6}\u{30b9}\u{30c8}\u{3067}\u{3059}\u{3002}";
        let good = enc_bytes_lossy(&format!("Subject: test mail\n\n{} plain words {} and more words {}\n", jp, jp, jp), "iso-2022-jp");
        if !good.is_empty() {
            let mut broken = b"Header: x\n\x1b$B$3$l$O".to_vec();
            broken.push(0xe9);
            broken.extend_from_slice(b" rest of the line\n");
            let mut broken2 = b"\x1b$B$3$l".to_vec();
            broken2.extend_from_slice(b"\x80\x81 tail");
            bases.push(broken);
            bases.push(good.clone());
            bases.push(broken2);
            let mut good2 = b"From: someone\n".to_vec();
            good2.extend_from_slice(&good);
            bases.push(good2);
        }
    }
    for b in bases {
        let mut variants = vec![Sett::default()];
        let mut s = Sett::default();
        s.thr = 0.1;
        variants.push(s);
        let mut s = Sett::default();
        s.thr = 0.5;
        variants.push(s);
        let mut s = Sett::default();
        s.lthr = 0.3;
        variants.push(s);
        let mut s = Sett::default();
        s.lthr = 0.0;
        variants.push(s);
        let mut s = Sett::default();
        s.steps = 3;
        s.chunk = 64;
        variants.push(s);
        let mut s = Sett::default();
        s.excl = vec!["utf-8".into()];
        variants.push(s);
        let mut s = Sett::default();
        s.incl = vec!["windows-1252".into(), "utf-8".into(), "koi8-r".into()];
        variants.push(s);
        let mut s = Sett::default();
        s.fb = false;
        s.pre = false;
        variants.push(s);
        for s in variants {
            v.push(Case { bytes: b.clone(), sett: s, tag: "pool".into() });
        }
    }
    v
}

pub fn run(thorough: bool, seed: u64, _replay: Option<String>) -> Report {
    let mut rep = Report::new("C11", seed);
    let mut drv = Driver::spawn();
    let mut rng = Rng::new(seed);
    // (0) first thing in this fresh process – stateful decoders: a well-formed ISO-2022-JP text is detected, then
    // texts on which the ISO-2022-JP probe fails inside a shifted run, then the well-formed text again (and once
    // more): whatever a failed decode leaves behind must not reach the next one
    {
        let jp = "\u{3053}\u{3093}\u{306b}\u{3061}\u{306f}\u{4e16}\u{754c}\u{3001}\u{3053}\u{308c}\u{306f}\u{30c6}\u{30b9}\u{30c8}\u{3067}\u{3059}\u{3002}";
        let good = enc_bytes_lossy(&format!("Subject: test mail\nFrom: someone\n\n{} {} {}\n", jp, jp, jp), "iso-2022-jp");
        let mut broken: Vec<Vec<u8>> = vec![];
        for tail in [&b"\xe9 rest of the line\n"[..], &b"\x80\x81 tail"[..], &b"\xff"[..]] {
            let mut b = b"Header: x\n\x1b$B$3$l$O".to_vec();
            b.extend_from_slice(tail);
            broken.push(b);
        }
        if !good.is_empty() {
            for sett in [Sett::default(), { let mut s = Sett::default(); s.incl = vec!["iso-2022-jp".into()]; s }] {
                let cold = real_detect(&good, &sett);
                for b in &broken {
                    let _ = real_detect(b, &sett);
                    let warm = real_detect(&good, &sett);
                    rep.evaluations += 1;
                    rep.oracle_checked += 1;
                    rep.count("history:stateful-decoder");
                    if warm != cold {
                        rep.fail("oracle", "C11:answer-depends-on-a-failed-decode-before-it", &format!("after a text broken inside a shifted run: {} || first call of the process: {}", warm.show(), cold.show()), &good, Some(&sett), "stateful");
                    }
                    let again = real_detect(&good, &sett);
                    if again != cold {
                        rep.fail("oracle", "C11:answer-depends-on-a-failed-decode-before-it", &format!("second call after the broken text: {} || first call of the process: {}", again.show(), cold.show()), &good, Some(&sett), "stateful");
                    }
                }
            }
        }
    }
    let p = pool(&mut rng, if thorough { 40 } else { 10 });
    // reference: every call answered on cold caches
    let reference: Vec<Outcome> = p
        .iter()
        .map(|c| {
            vh::flush_caches();
            real_detect(&c.bytes, &c.sett)
        })
        .collect();
    // (1) random histories, warm caches
    vh::flush_caches();
    let n_calls = if thorough { 6000 } else { 700 };
    let mut max_sizes = (0usize, 0usize, 0usize, 0usize);
    for i in 0..n_calls {
        let k = rng.below(p.len());
        let c = &p[k];
        let got = real_detect(&c.bytes, &c.sett);
        rep.evaluations += 1;
        rep.oracle_checked += 1;
        rep.nontrivial(fp(&c.bytes, &format!("{} {}", c.sett.show(), i)));
        if got != reference[k] {
            rep.fail(
                "oracle",
                "C11:warm-answer-differs-from-cold",
                &format!("call #{} of the history (pool item {}): warm {} || cold {}", i, k, got.show(), reference[k].show()),
                &c.bytes,
                Some(&c.sett),
                "history",
            );
        }
        let sz = vh::cache_sizes();
        max_sizes = (max_sizes.0.max(sz.0), max_sizes.1.max(sz.1), max_sizes.2.max(sz.2), max_sizes.3.max(sz.3));
        // T3 on a sample: the cache-free model gives the same answer as the warm implementation
        if i % (if thorough { 20 } else { 35 }) == 0 {
            let model = model_detect(&mut drv, &c.bytes, &c.sett);
            rep.t3_compared += 1;
            if model.outcome != got {
                rep.fail("t3", "C11:model-disagrees", &format!("impl(warm): {} || model: {}", got.show(), model.outcome.show()), &c.bytes, Some(&c.sett), "history");
            }
        }
    }
    // (1b) against a brand-new process: state a history leaves behind need not live in the memo caches (and then the
    // cache-flush hook does not reach it). Documents that declare / mark their encoding are detected, then texts without
    // any declaration; every answer of this process – which has the whole history above behind it – is compared with
    // the answer of a process that has seen nothing else.
    {
        let declared: Vec<Vec<u8>> = vec![
            b"<html><head><meta charset=\"windows-1252\"></head><body>Fran\xe7ois a d\xe9j\xe0 mang\xe9 tout le g\xe2teau, na\xefvement.</body></html>".to_vec(),
            b"<?xml version=\"1.0\" encoding=\"iso-8859-15\"?><a>d\xe9j\xe0 vu, cr\xe8me br\xfbl\xe9e</a>".to_vec(),
            b"# -*- coding: windows-1251 -*-\n# \xcf\xf0\xe8\xe2\xe5\xf2, \xec\xe8\xf0! \xdd\xf2\xee \xf2\xe5\xf1\xf2.\n".to_vec(),
            b"<meta charset=\"koi8-r\">\xf0\xd2\xc9\xd7\xc5\xd4, \xcd\xc9\xd2! \xfc\xd4\xcf \xd4\xc5\xd3\xd4.".to_vec(),
            b"<meta charset=\"windows-1258\">Fran\xe7ois a d\xe9j\xe0 mang\xe9".to_vec(),
            {
                let mut b = vec![0xff, 0xfe];
                b.extend("Bonjour, ça va très bien. Déjà vu.".encode_utf16().flat_map(|u| u.to_le_bytes()));
                b
            },
            {
                let mut b = vec![0x84, 0x31, 0x95, 0x33];
                b.extend(enc_bytes_lossy("你好，世界。这是一个测试。", "gb18030"));
                b
            },
        ];
        let plain: Vec<Vec<u8>> = vec![
            enc_bytes_lossy(&stretch(&mut rng, TEXTS[1].1, 300), "iso-8859-1"),
            enc_bytes_lossy(&stretch(&mut rng, TEXTS[2].1, 300), "windows-1251"),
            enc_bytes_lossy(&stretch(&mut rng, TEXTS[2].1, 300), "koi8-r"),
            enc_bytes_lossy(&stretch(&mut rng, TEXTS[3].1, 300), "iso-8859-7"),
            enc_bytes_lossy(&stretch(&mut rng, TEXTS[5].1, 300), "windows-1250"),
            b"Fran\xe7ois a d\xe9j\xe0 mang\xe9 tout le g\xe2teau, na\xefvement. Le c\x9cur a ses raisons que la raison ne conna\xeet point.".to_vec(),
        ];
        let sett = Sett::default();
        let mut unanswered = 0;
        for round in 0..(if thorough { 3 } else { 1 }) {
            for (k, d) in declared.iter().enumerate() {
                let _ = real_detect(d, &sett);
                // after each declared document: a rotating pair of the undeclared texts (all of them in the thorough tier)
                for (j, b) in plain.iter().enumerate() {
                    if !thorough && (j + k + round) % 3 != 0 {
                        continue;
                    }
                    let here = real_detect(b, &sett).show();
                    match fresh_process_detect(b, &sett) {
                        Some(fresh) => {
                            rep.evaluations += 1;
                            rep.oracle_checked += 1;
                            rep.count("history:against-fresh-process");
                            if fresh != here {
                                rep.fail("oracle", "C11:answer-differs-from-a-fresh-process", &format!("after a history ending in a document that declares its encoding (#{}): {} || brand-new process: {}", k, here.chars().take(400).collect::<String>(), fresh.chars().take(400).collect::<String>()), b, Some(&sett), "fresh-process");
                            }
                        }
                        None => unanswered += 1,
                    }
                }
            }
        }
        // the pool, with the random histories behind it
        for (k, c) in p.iter().enumerate() {
            if !thorough && k % 3 != 0 {
                continue;
            }
            let here = real_detect(&c.bytes, &c.sett).show();
            match fresh_process_detect(&c.bytes, &c.sett) {
                Some(fresh) => {
                    rep.evaluations += 1;
                    rep.oracle_checked += 1;
                    rep.count("history:against-fresh-process");
                    if fresh != here {
                        rep.fail("oracle", "C11:answer-differs-from-a-fresh-process", &format!("pool item {} after the histories: {} || brand-new process: {}", k, here.chars().take(400).collect::<String>(), fresh.chars().take(400).collect::<String>()), &c.bytes, Some(&c.sett), "fresh-process");
                    }
                }
                None => unanswered += 1,
            }
        }
        if unanswered > 0 {
            rep.notes.push(format!("{} fresh-process references could not be obtained (child process produced no answer)", unanswered));
            rep.count_n("history:fresh-process-unanswered", unanswered);
        }
    }
    // (1c) folded siblings: pairs of texts that become equal once letters are case-folded, compatibility characters are
    // replaced by their ordinary forms, or everything but the letters is dropped – what any folded or reduced memo key
    // would confuse – asked one after the other in both orders, each compared with its answer on cold caches
    {
        let swedish = "Provet värmdes långsamt och avståndet mellan skikten mättes till 3,5 \u{212b} respektive 4,1 \u{212b} efter två timmar; nästa mätning gav 2,9 \u{212b}, sedan 3,3 \u{212b}, 3,8 \u{212b}, 4,0 \u{212b}, 2,7 \u{212b} och 3,1 \u{212b} i följd. ";
        let ohm = "The resistor of 10 k\u{2126} was cooled to 77 \u{212a} and then to 4 \u{212a}; a second one of 47 k\u{2126} stayed at 300 \u{212a}, the third of 1 M\u{2126} at 20 \u{212a}, as noted in the log of the evening. ";
        let mut pairs: Vec<(String, String)> = vec![
            (swedish.repeat(2), swedish.repeat(2).replace('\u{212b}', "\u{c5}")),
            (ohm.repeat(2), ohm.repeat(2).replace('\u{2126}', "\u{3a9}").replace('\u{212a}', "K")),
        ];
        for k in [2usize, 3, 5, 7] {
            let t: String = stretch(&mut rng, TEXTS[k].1, 500);
            pairs.push((t.clone(), t.to_uppercase()));
            pairs.push((t.clone(), t.to_lowercase()));
            pairs.push((t.clone(), t.chars().filter(|c| c.is_alphabetic() || *c == ' ').collect()));
        }
        let sett = Sett::default();
        for (a, b) in &pairs {
            if a == b {
                continue;
            }
            for (first, second) in [(a, b), (b, a)] {
                vh::flush_caches();
                let cold = real_detect(second.as_bytes(), &sett);
                vh::flush_caches();
                let _ = real_detect(first.as_bytes(), &sett);
                let warm = real_detect(second.as_bytes(), &sett);
                rep.evaluations += 1;
                rep.oracle_checked += 1;
                rep.count("history:folded-sibling");
                if warm != cold {
                    rep.fail("oracle", "C11:warm-answer-differs-from-cold", &format!("right after its folded sibling: {} || cold {}", warm.show().chars().take(300).collect::<String>(), cold.show().chars().take(300).collect::<String>()), second.as_bytes(), Some(&sett), "folded-sibling");
                }
            }
        }
        vh::flush_caches();
    }
    // (1d) same-size siblings: texts of exactly the same byte length (and the same decoded length) but different
    // composition – what a memo keyed by sizes instead of content would confuse – each compared with its cold answer
    {
        let cyr = "\u{43f}\u{440}\u{438}\u{432}\u{435}\u{442} \u{43c}\u{438}\u{440} ";
        let mk = |cyr_words: usize, total: usize| -> Vec<u8> {
            let mut t = cyr.repeat(cyr_words);
            while t.len() < total {
                t.push_str("plain words and more ");
            }
            let mut b = t.into_bytes();
            b.truncate(total);
            while std::str::from_utf8(&b).is_err() {
                b.pop();
            }
            while b.len() < total {
                b.push(b'.');
            }
            b
        };
        let sett = Sett::default();
        for total in [80usize, 300, 1200] {
            let variants: Vec<Vec<u8>> = vec![mk(total / 20, total), mk(1, total), mk(total / 40, total)];
            for a in 0..variants.len() {
                for b2 in 0..variants.len() {
                    if a == b2 || variants[a] == variants[b2] {
                        continue;
                    }
                    vh::flush_caches();
                    let cold = fresh_process_detect(&variants[b2], &sett);
                    let _ = real_detect(&variants[a], &sett);
                    let warm = real_detect(&variants[b2], &sett).show();
                    rep.evaluations += 1;
                    rep.oracle_checked += 1;
                    rep.count("history:same-size-sibling");
                    if let Some(cold) = cold {
                        if warm != cold {
                            rep.fail("oracle", "C11:answer-differs-from-a-fresh-process", &format!("right after a text of the same size ({} bytes): {} || brand-new process: {}", total, warm.chars().take(300).collect::<String>(), cold.chars().take(300).collect::<String>()), &variants[b2], Some(&sett), "same-size-sibling");
                        }
                    }
                }
            }
        }
    }
    // (2) drive the bounded caches past their capacity (2048), then ask again
    let n_fill = if thorough { 1500 } else { 520 };
    for i in 0..n_fill {
        let mut r = rng.fork();
        let (_, t) = TEXTS[i % 21];
        let k = r.range(600, 1500);
        let text = stretch(&mut r, t, k);
        let _ = real_detect(text.as_bytes(), &Sett::default());
        rep.evaluations += 1;
    }
    let sz = vh::cache_sizes();
    rep.notes.push(format!("cache sizes after the filling phase (mess, coherence, encoding_languages, chars): {:?}; maxima during histories: {:?}", sz, max_sizes));
    rep.count_n("cache:mess-entries-after-fill", sz.0 as u64);
    rep.count_n("cache:coherence-entries-after-fill", sz.1 as u64);
    for (k, c) in p.iter().enumerate() {
        let got = real_detect(&c.bytes, &c.sett);
        rep.oracle_checked += 1;
        rep.evaluations += 1;
        if got != reference[k] {
            rep.fail("oracle", "C11:answer-after-eviction-differs", &format!("pool item {}: {} || cold {}", k, got.show(), reference[k].show()), &c.bytes, Some(&c.sett), "evicted");
        }
    }
    // (3) function level: memoised vs recomputed, keys differing in one component
    let n_fn = if thorough { 3000 } else { 400 };
    for i in 0..n_fn {
        let (_, t) = TEXTS[rng.below(21)];
        let k = rng.range(20, 400);
        let text: String = stretch(&mut rng, t, k).chars().take(k).collect();
        let thr = *rng.pick(&[0.2f32, 0.1, 0.05, 0.5, 1.0, 0.0]);
        let a = vh::mess_ratio(text.clone(), Some(thr));
        let b = vh::mess_ratio_no_cache(text.clone(), Some(thr));
        rep.oracle_checked += 1;
        rep.evaluations += 1;
        rep.nontrivial(fp(text.as_bytes(), &format!("fn{}{}", thr, i)));
        if a.to_bits() != b.to_bits() {
            rep.fail("oracle", "C11:mess-ratio-memo-differs", &format!("thr {}: memo {} recomputed {}", thr, a, b), text.as_bytes(), None, "mess_ratio");
        }
        let lthr = *rng.pick(&[0.1f32, 0.0, 0.3, 0.8]);
        let langs: Vec<&'static charset_normalizer_rs::entity::Language> = match rng.below(3) {
            0 => vec![],
            1 => vec![lang_by_name("Unknown").unwrap()],
            _ => vec![lang_by_name(*rng.pick(&["Russian", "French", "English", "Greek", "Japanese"])).unwrap()],
        };
        let a = vh::coherence_ratio(text.clone(), Some(lthr), Some(langs.clone()));
        let b = vh::coherence_ratio_no_cache(text.clone(), Some(lthr), Some(langs.clone()));
        let show = |r: &Result<vh::Coh, String>| match r {
            Ok(v) => v.iter().map(|(l, s)| format!("{}={}", l, s.to_bits())).collect::<Vec<_>>().join(","),
            Err(e) => format!("err {}", e),
        };
        if show(&a) != show(&b) {
            rep.fail("oracle", "C11:coherence-ratio-memo-differs", &format!("lthr {} langs {:?}: memo {} recomputed {}", lthr, langs.iter().map(|l| format!("{}", l)).collect::<Vec<_>>(), show(&a), show(&b)), text.as_bytes(), None, "coherence_ratio");
        }
    }
    // per-character classification: a character asked after one of its look-alikes in key space (same low
    // 16 bits / other plane / other case) must be classified as on a cold cache
    let n_ch = if thorough { 20000 } else { 2500 };
    for i in 0..n_ch {
        let c0 = loop {
            let x = if i % 3 == 0 { rng.below(0x3000) as u32 } else { rng.below(0x30000) as u32 };
            if let Some(c) = char::from_u32(x) {
                break c;
            }
        };
        let aliases: Vec<char> = [c0 as u32 ^ 0x10000, (c0 as u32 & 0xffff) + 0x20000, c0 as u32 & 0xffff, c0 as u32 & 0xff, (c0 as u32).wrapping_add(0x100000) & 0x10ffff]
            .iter()
            .filter_map(|x| char::from_u32(*x))
            .chain(c0.to_lowercase())
            .chain(c0.to_uppercase())
            .filter(|c| *c != c0)
            .collect();
        vh::flush_caches();
        let cold = vh::char_info(c0);
        for a in aliases {
            vh::flush_caches();
            let _ = vh::char_info(a);
            let warm = vh::char_info(c0);
            rep.oracle_checked += 1;
            rep.evaluations += 1;
            if warm != cold {
                rep.fail("oracle", "C11:character-memo-differs", &format!("U+{:04X} classified as {:?} on a cold cache but as {:?} after U+{:04X}", c0 as u32, cold, warm, a as u32), c0.to_string().as_bytes(), None, "char_info");
            }
        }
    }
    for n in supported() {
        let a = vh::encoding_languages(n.to_string());
        let b = vh::encoding_languages_no_cache(n.to_string());
        if a.iter().map(|l| format!("{}", l)).collect::<Vec<_>>() != b.iter().map(|l| format!("{}", l)).collect::<Vec<_>>() {
            rep.fail("oracle", "C11:encoding-languages-memo-differs", n, n.as_bytes(), None, "encoding_languages");
        }
    }
    rep.sample(format!("pool of {} (input, settings) pairs; history of {} calls; fill phase {} inputs", p.len(), n_calls, n_fill));
    rep.sample(format!("e.g. {} len={} -> {}", p[0].sett.show(), p[0].bytes.len(), reference[0].show().chars().take(120).collect::<String>()));
    rep.model_rounds = drv.requests;
    rep
}
