//! Property runners: for each property a T3 slice (model vs implementation) and a direct oracle
//! (the property's statement evaluated on the implementation by code that shares no logic with the model).
use crate::detect::*;
use crate::driver::Driver;
use crate::gen::*;
use crate::report::*;
use crate::util::*;
use charset_normalizer_rs::entity::CharsetMatches;

pub mod c01;
pub mod c02;
pub mod c03;
pub mod c04;
pub mod c05;
pub mod c06;
pub mod c07;
pub mod c08;
pub mod c09;
pub mod c10;
pub mod c11;
pub mod c12;
pub mod c13;
pub mod c14;
pub mod c17;
pub mod c18;
pub mod c19;
pub mod cli;
pub mod md;

pub struct Ctx<'a> {
    pub rep: &'a mut Report,
    pub drv: &'a mut Driver,
    pub tier_thorough: bool,
}

pub type RealRaw = Result<Result<CharsetMatches, String>, String>;

pub fn outcome_of(raw: &RealRaw, s: &Sett) -> Outcome {
    match raw {
        Err(p) => Outcome::Panic(p.clone()),
        Ok(Err(e)) => Outcome::Err(canon_err(e, s)),
        Ok(Ok(ms)) => Outcome::Ok(canon_matches(ms)),
    }
}

pub trait DetectProp {
    fn id(&self) -> &'static str;
    /// projection of an outcome this property's theorems talk about
    fn slice(&self, o: &Outcome) -> String {
        o.show()
    }
    fn gen(&self, rng: &mut Rng, corpus: &[(String, Vec<u8>)], _idx: usize) -> Case {
        structured_case(rng, corpus)
    }
    /// the property's statement evaluated on the implementation alone
    fn oracle(&self, cx: &mut Ctx, case: &Case, raw: &RealRaw);
    fn cases(&self, thorough: bool) -> usize {
        if thorough {
            4000
        } else {
            400
        }
    }
    /// cases that always run first (minimised past failures, boundary cases)
    fn directed(&self, _thorough: bool) -> Vec<Case> {
        vec![]
    }
    /// further correspondence slices of this property (components below `from_bytes`)
    fn extra(&self, _rep: &mut Report, _drv: &mut Driver, _rng: &mut Rng, _thorough: bool) {}
}

pub fn sorted_join(mut v: Vec<String>) -> String {
    v.sort();
    v.join(" ")
}

pub fn run_case(p: &dyn DetectProp, cx: &mut Ctx, case: &Case) {
    cx.rep.evaluations += 1;
    cx.rep.count(&format!("gen:{}", case.tag.split(':').next().unwrap_or("")));
    // the case in flight is on disk while the library runs: a process abort leaves it behind as replay
    let inflight = format!("{}/inflight-{}.json", cx.rep.replay_dir, cx.rep.seed);
    let _ = std::fs::write(
        &inflight,
        format!(
            "{{\"property\":{},\"kind\":\"oracle\",\"class\":\"{}:process-aborted-inside-the-library\",\"seed\":{},\"bytes_hex\":{},\"bytes_len\":{},\"settings\":{},\"detail\":\"in flight\",\"extra\":{}}}\n",
            jstr(p.id()),
            p.id(),
            cx.rep.seed,
            jstr(&if case.bytes.len() <= 200_000 { hex(&case.bytes) } else { format!("sha-omitted-len-{}", case.bytes.len()) }),
            case.bytes.len(),
            case.sett.json(),
            jstr(&case.tag)
        ),
    );
    let raw = real_detect_raw(&case.bytes, &case.sett);
    let _ = std::fs::remove_file(&inflight);
    let real = outcome_of(&raw, &case.sett);
    match &real {
        Outcome::Ok(v) => {
            cx.rep.count(&format!("result:{}", if v.is_empty() { "none".to_string() } else { v[0].enc.clone() }));
            cx.rep.count(&format!("matches:{}", v.len().min(21)));
        }
        Outcome::Err(_) => cx.rep.count("result:err"),
        Outcome::Panic(_) => cx.rep.count("result:panic"),
    }
    cx.rep.nontrivial(fp(&case.bytes, &case.sett.show()));
    // T3 (cases tagged `nomodel:` are oracle-only in the quick tier: the list-based model is slow on MB inputs)
    if !(case.tag.starts_with("nomodel:") && !cx.tier_thorough) {
        let model = model_detect(cx.drv, &case.bytes, &case.sett);
        cx.rep.model_rounds += model.rounds as u64;
        cx.rep.t3_compared += 1;
        if let Ok(mut g) = crate::detect::ANSWER_PANICS.lock() {
            for (what, input) in g.drain(..) {
                cx.rep.fail("oracle", &format!("{}:library-panicked-while-answering-the-model", p.id()), &what, &input, Some(&case.sett), &case.tag);
            }
        }
        let (a, b) = (p.slice(&real), p.slice(&model.outcome));
        if a != b {
            cx.rep.fail(
                "t3",
                &format!("{}:model-disagrees", p.id()),
                &format!("impl: {} || model: {}", a, b),
                &case.bytes,
                Some(&case.sett),
                &case.tag,
            );
        }
    }
    // oracle
    p.oracle(cx, case, &raw);
    if cx.rep.samples.len() < 4 {
        cx.rep.sample(format!("{} len={} {} -> {}", case.tag, case.bytes.len(), case.sett.show(), real.show().chars().take(160).collect::<String>()));
    }
}

pub fn run_detect_prop(p: &dyn DetectProp, thorough: bool, seed: u64, replay: Option<(Vec<u8>, Sett)>) -> Report {
    let mut rep = Report::new(p.id(), seed);
    let mut drv = Driver::spawn();
    let mut cx = Ctx { rep: &mut rep, drv: &mut drv, tier_thorough: thorough };
    if let Some((bytes, sett)) = replay {
        let case = Case { bytes, sett, tag: "replay".into() };
        run_case(p, &mut cx, &case);
        return rep;
    }
    let corpus = corpus(if thorough { 400_000 } else { 60_000 });
    for case in p.directed(thorough) {
        run_case(p, &mut cx, &case);
    }
    let mut rng = Rng::new(seed);
    let n = p.cases(thorough);
    for i in 0..n {
        let mut r = rng.fork();
        let case = p.gen(&mut r, &corpus, i);
        run_case(p, &mut cx, &case);
    }
    let mut r = rng.fork();
    p.extra(&mut rep, &mut drv, &mut r, thorough);
    rep
}

pub type CustomRun = fn(bool, u64, Option<String>) -> Report;

pub fn custom_by_id(id: &str) -> Option<CustomRun> {
    match id {
        "C03" => Some(c03::run),
        "C08" => Some(c08::run),
        "C11" => Some(c11::run),
        "C12" => Some(c12::run),
        "C13" => Some(c13::run),
        "C14" => Some(c14::run),
        "C15" => Some(cli::run_c15),
        "C16" => Some(cli::run_c16),
        "C17" => Some(c17::run),
        "C18" => Some(c18::run),
        "C19" => Some(c19::run),
        _ => None,
    }
}

pub fn by_id(id: &str) -> Option<Box<dyn DetectProp>> {
    match id {
        "C01" => Some(Box::new(c01::C01)),
        "C02" => Some(Box::new(c02::C02)),
        "C04" => Some(Box::new(c04::C04)),
        "C05" => Some(Box::new(c05::C05)),
        "C06" => Some(Box::new(c06::C06)),
        "C07" => Some(Box::new(c07::C07)),
        "C09" => Some(Box::new(c09::C09)),
        "C10" => Some(Box::new(c10::C10)),
        _ => None,
    }
}
