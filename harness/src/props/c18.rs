//! C18 — every reportable encoding name is canonical, usable and safely aliased (exhaustive).
use super::c01::{direct_decode, strip_own_mark};
use super::*;
use charset_normalizer_rs::consts::IANA_SUPPORTED_ALIASES;
use charset_normalizer_rs::utils::{decode, iana_name, is_multi_byte_encoding};
use charset_normalizer_rs::verif_hooks as vh;
use encoding::label::encoding_from_whatwg_label;
use encoding::DecoderTrap;
use std::panic::{catch_unwind, AssertUnwindSafe};

fn xn(n: &str) -> String {
    format!("x{}", hexn(n))
}

pub fn run(thorough: bool, seed: u64, _replay: Option<String>) -> Report {
    let mut rep = Report::new("C18", seed);
    let mut drv = Driver::spawn();
    let mut rng = Rng::new(seed);
    let sup = supported();
    // --- first thing in this (fresh) process: a name must canonicalise to itself also when other spellings of
    // it – or of a label that folds to the same letters – were canonicalised before it (no spelling may leave
    // something behind that changes the answer for another one)
    for n in &sup {
        let variants = [n.to_uppercase(), format!(" {} ", n), { let mut c = n.chars(); c.next().map(|f| f.to_uppercase().collect::<String>() + c.as_str()).unwrap_or_default() }, n.replace('-', "_")];
        let before: Vec<Option<String>> = variants.iter().map(|v| iana_name(v).map(|x| x.to_string())).collect();
        rep.evaluations += 1;
        rep.oracle_checked += 1;
        if iana_name(n) != Some(n) {
            rep.fail("oracle", "C18:name-not-canonical-after-other-spellings", &format!("after canonicalising {:?} (-> {:?}), iana_name({}) = {:?}", variants, before, n, iana_name(n)), n.as_bytes(), None, "history");
        }
        let after: Vec<Option<String>> = variants.iter().map(|v| iana_name(v).map(|x| x.to_string())).collect();
        if before != after {
            rep.fail("oracle", "C18:canonicaliser-depends-on-history", &format!("{:?}: {:?} before and {:?} after canonicalising {}", variants, before, after, n), n.as_bytes(), None, "history");
        }
    }
    // reportable = the crate's own decode helper resolves a codec for the name (not: the codec crate's label table)
    let reportable: Vec<&str> = sup.iter().copied().filter(|n| decode(b"", n, DecoderTrap::Strict, false, false).is_ok()).collect();
    rep.notes.push(format!("reportable names: {} of {} supported (exhaustive)", reportable.len(), sup.len()));
    // --- T3: the model's name functions against the real ones, on the label universe and on random spellings
    let mut spellings: Vec<String> = crate::dump::label_universe();
    for l in LABEL_SPELLINGS {
        spellings.push(l.to_string());
    }
    let n_rand = if thorough { 6000 } else { 800 };
    let base = spellings.clone();
    for _ in 0..n_rand {
        let l = rng.pick(&base).clone();
        spellings.push(pad_and_case(&mut rng, &l));
    }
    for l in &spellings {
        rep.evaluations += 1;
        rep.t3_compared += 1;
        rep.nontrivial(fp(l.as_bytes(), "iana"));
        let real = iana_name(l).map(|s| s.to_string()).unwrap_or_else(|| "none".into());
        let model = drv.ask(&format!("iana {}", xn(l)));
        if model != format!("ok {}", real) {
            rep.fail("t3", "C18:iana-name-model-disagrees", &format!("iana_name({:?}) = {} but model says {}", l, real, model), l.as_bytes(), None, "iana");
        }
        let realc = encoding_from_whatwg_label(l).map(|c| c.name().to_string()).unwrap_or_else(|| "none".into());
        let modelc = drv.ask(&format!("codecid {}", xn(l)));
        if modelc != format!("ok {}", realc) {
            rep.fail("t3", "C18:codec-of-label-model-disagrees", &format!("label {:?}: codec {} but model says {}", l, realc, modelc), l.as_bytes(), None, "codecid");
        }
    }
    rep.count_n("t3:spellings", spellings.len() as u64);
    for n in &sup {
        let real = IANA_SUPPORTED_ALIASES.get(n).map(|v| v.join(",")).unwrap_or_else(|| "none".into());
        let model = drv.ask(&format!("aliases {}", xn(n)));
        rep.t3_compared += 1;
        if model != format!("ok {}", real) {
            rep.fail("t3", "C18:alias-table-model-disagrees", &format!("{}: {} vs {}", n, real, model), n.as_bytes(), None, "aliases");
        }
        let mb = drv.ask(&format!("ismb {}", xn(n)));
        if mb != format!("ok {}", is_multi_byte_encoding(n) as u8) {
            rep.fail("t3", "C18:multibyte-flag-model-disagrees", n, n.as_bytes(), None, "ismb");
        }
    }
    // --- direct oracle on unrestricted detections: whatever name a match carries (main match or alternative)
    // must be canonical, found by lookup, and name the codec that produced the text – also when the input
    // starts with the mark of *another* encoding, is cut, or declares something else
    {
        let corpus = corpus(if thorough { 300_000 } else { 40_000 });
        let mut cases: Vec<Case> = vec![];
        for (mk_enc, body_enc) in [("utf-8", "windows-1252"), ("utf-8", "windows-1251"), ("utf-16le", "windows-1252"), ("utf-16be", "koi8-r"), ("gb18030", "windows-1252"), ("utf-8", "shift_jis"), ("utf-16le", "utf-8")] {
            for (_, t) in TEXTS.iter().take(if thorough { 19 } else { 6 }) {
                if let (Some(mk), Some(body)) = (mark_of(mk_enc), enc_bytes(t, body_enc)) {
                    let mut b = mk.to_vec();
                    for _ in 0..4 {
                        b.extend_from_slice(&body);
                        b.push(b' ');
                    }
                    cases.push(Case { bytes: b, sett: Sett::default(), tag: format!("mark-of-{}-before-{}", mk_enc, body_enc) });
                }
            }
        }
        for _ in 0..(if thorough { 1500 } else { 150 }) {
            let mut r = rng.fork();
            cases.push(structured_case(&mut r, &corpus));
        }
        // the boundary inputs of C01 (> 1 MB with damaged edges, size boundaries, undecodable tails, stateful splits)
        {
            use super::DetectProp;
            for c in super::c01::C01.directed(thorough) {
                if c.bytes.len() > 900_000 {
                    cases.push(c);
                }
            }
        }
        for c in &cases {
            rep.evaluations += 1;
            rep.oracle_checked += 1;
            rep.nontrivial(fp(&c.bytes, &c.sett.show()));
            if let Ok(Ok(ms)) = real_detect_raw(&c.bytes, &c.sett) {
                for top in ms.iter() {
                    for m in std::iter::once(top).chain(top.submatch().iter()) {
                        rep.count("oracle:unrestricted-detection-candidate");
                        let name = m.encoding();
                        if iana_name(name) != Some(name) {
                            rep.fail("oracle", "C18:name-not-canonical", &format!("iana_name({}) = {:?}", name, iana_name(name)), &c.bytes, Some(&c.sett), &c.tag);
                        }
                        match ms.get_by_encoding(name) {
                            Some(found) if found.suitable_encodings().contains(&name.to_string()) => {}
                            _ => rep.fail("oracle", "C18:lookup-by-name-fails", name, &c.bytes, Some(&c.sett), &c.tag),
                        }
                        if !c.bytes.is_empty() {
                            let helper = decode(strip_own_mark(name, &c.bytes), name, DecoderTrap::Strict, false, false).ok();
                            if helper.as_deref() != m.decoded_payload() {
                                rep.fail("oracle", "C18:decode-helper-differs-from-match-text", &format!("{} ({})", name, c.tag), &c.bytes, Some(&c.sett), &c.tag);
                            }
                        }
                        if catch_unwind(AssertUnwindSafe(|| m.encoding_aliases())).is_err() {
                            rep.fail("oracle", "C18:aliases-panic", name, &c.bytes, Some(&c.sett), &c.tag);
                        }
                    }
                }
            }
        }
    }
    // --- direct oracle, exhaustive over reportable names
    let probe_inputs: Vec<Vec<u8>> = {
        let mut v: Vec<Vec<u8>> = vec![b"hello world, plain text".to_vec()];
        for (_, t) in TEXTS.iter().take(19) {
            v.push(t.as_bytes().to_vec());
        }
        v
    };
    for n in &reportable {
        rep.oracle_checked += 1;
        rep.evaluations += 1;
        rep.nontrivial(fp(n.as_bytes(), "reportable"));
        // canonical
        if iana_name(n) != Some(n) {
            rep.fail("oracle", "C18:name-not-canonical", &format!("iana_name({}) = {:?}", n, iana_name(n)), n.as_bytes(), None, "");
        }
        // accepted back by the filters, and the name is what detection reports when restricted to it
        let text_in_enc: Option<Vec<u8>> = TEXTS.iter().find_map(|(_, t)| enc_bytes(t, n).filter(|b| direct_decode(n, b).is_some()));
        let mut s = Sett::default();
        s.incl = vec![n.to_string()];
        s.thr = 1.0;
        for input in text_in_enc.iter().chain(probe_inputs.iter().take(2)) {
            // UTF-16 needs its BOM
            let mut input = input.clone();
            if let Some(m) = mark_of(n) {
                if n.starts_with("utf-16") {
                    let mut b = m.to_vec();
                    b.extend(enc_bytes(TEXTS[0].1, n).unwrap_or_default());
                    input = b;
                }
            }
            match real_detect_raw(&input, &s) {
                Err(p) => rep.fail("oracle", "C18:panic", &p, &input, Some(&s), n),
                Ok(Err(e)) => rep.fail("oracle", "C18:name-rejected-by-include-list", &e, &input, Some(&s), n),
                Ok(Ok(ms)) => {
                    for m in ms.iter() {
                        rep.count("oracle:restricted-detection-match");
                        // lookup by name
                        match ms.get_by_encoding(m.encoding()) {
                            Some(found) if found.suitable_encodings().contains(&m.encoding().to_string()) => {}
                            _ => rep.fail("oracle", "C18:lookup-by-name-fails", m.encoding(), &input, Some(&s), n),
                        }
                        // the public decode helper given that name reproduces the text
                        let helper = decode(strip_own_mark(m.encoding(), &input), m.encoding(), DecoderTrap::Strict, false, false).ok();
                        if helper.as_deref() != m.decoded_payload() {
                            rep.fail("oracle", "C18:decode-helper-differs-from-match-text", m.encoding(), &input, Some(&s), n);
                        }
                        // aliases without panicking
                        let al = catch_unwind(AssertUnwindSafe(|| m.encoding_aliases()));
                        if al.is_err() {
                            rep.fail("oracle", "C18:aliases-panic", m.encoding(), &input, Some(&s), n);
                        }
                    }
                }
            }
        }
        // … and by the exclusion list, wherever the name stands in it: among other names before and behind it in the
        // alphabet, in ascending, descending and mixed order – excluded means not reported, as main name or alternative;
        // likewise a name that is one of several on the inclusion list is still probed
        if let Some(input) = &text_in_enc {
            let n: &str = n;
            let mut input = input.clone();
            if let Some(m) = mark_of(n) {
                if n.starts_with("utf-16") {
                    let mut b = m.to_vec();
                    b.extend(enc_bytes(TEXTS[0].1, n).unwrap_or_default());
                    input = b;
                }
            }
            let others = ["ascii", "big5", "utf-8", "windows-1258", "ibm866", "koi8-u"];
            let orders: Vec<Vec<&str>> = vec![
                vec![n, others[0], others[1]],
                vec![others[2], others[3], n],
                vec![others[3], n, others[0]],
                vec![others[2], others[0], n, others[1], others[5], others[4]],
            ];
            let alone = {
                let mut s1 = Sett::default();
                s1.incl = vec![n.to_string()];
                s1.thr = 1.0;
                s1.fb = false;
                matches!(real_detect_raw(&input, &s1), Ok(Ok(ms)) if ms.iter().any(|m| m.encoding() == n))
            };
            for (k, order) in orders.iter().enumerate() {
                let list: Vec<String> = order.iter().map(|x| x.to_string()).collect();
                let mut se = Sett::default();
                se.excl = list.clone();
                se.thr = 1.0;
                rep.count("oracle:name-inside-exclusion-list");
                match real_detect_raw(&input, &se) {
                    Err(p) => rep.fail("oracle", "C18:panic", &p, &input, Some(&se), n),
                    Ok(Err(e)) => rep.fail("oracle", "C18:name-rejected-by-exclude-list", &e, &input, Some(&se), n),
                    Ok(Ok(ms)) => {
                        for m in ms.iter() {
                            if m.encoding() == n || m.suitable_encodings().iter().any(|e| e == n) {
                                rep.fail("oracle", "C18:excluded-name-still-reported", &format!("{} stands at position {} of the exclusion list {:?} and is reported: {} {:?}", n, order.iter().position(|x| *x == n).unwrap_or(0), list, m.encoding(), m.suitable_encodings()), &input, Some(&se), n);
                                break;
                            }
                        }
                    }
                }
                if alone && k % 2 == 1 {
                    let mut si = Sett::default();
                    si.incl = list.clone();
                    si.thr = 1.0;
                    si.fb = false;
                    si.pre = false;
                    if let Ok(Ok(ms)) = real_detect_raw(&input, &si) {
                        let named = ms.iter().any(|m| m.encoding() == n || m.suitable_encodings().iter().any(|e| e == n));
                        // another listed name may legitimately end the search early (ascii / utf-8 qualify) – then nothing is claimed
                        let early = ms.len() == 1 && ms.iter().any(|m| m.encoding() == "ascii" || m.encoding() == "utf-8");
                        if !named && !early && !list.iter().any(|o| o != n && charset_normalizer_rs::verif_hooks::is_cp_similar(n, o)) {
                            rep.fail("oracle", "C18:included-name-not-probed", &format!("{} is accepted when listed alone but missing when listed as {:?}", n, list), &input, Some(&si), n);
                        }
                    }
                }
            }
        }
        // alias list of the name itself (through a constructed match) and alias safety
        let m = vh::new_match(b"x".to_vec(), n, 0.0, false, &[], Some("x"));
        match catch_unwind(AssertUnwindSafe(|| m.encoding_aliases())) {
            Err(_) => rep.fail("oracle", "C18:aliases-panic", n, n.as_bytes(), None, "constructed"),
            Ok(aliases) => {
                let codec_n = match encoding_from_whatwg_label(n) {
                    Some(c) => c,
                    None => {
                        rep.fail("oracle", "C18:reportable-name-unknown-to-codec-library", n, n.as_bytes(), None, "");
                        continue;
                    }
                };
                for a in aliases {
                    rep.count("oracle:alias");
                    if let Some(c) = iana_name(a) {
                        match encoding_from_whatwg_label(c) {
                            None => rep.fail("oracle", "C18:alias-resolves-to-unusable-name", &format!("{} -> {} -> {}", n, a, c), n.as_bytes(), None, ""),
                            Some(codec_c) => {
                                if codec_c.name() != codec_n.name() {
                                    rep.fail("oracle", "C18:alias-resolves-to-different-codec", &format!("{}: alias {} -> {} uses codec {} instead of {}", n, a, c, codec_c.name(), codec_n.name()), n.as_bytes(), None, "");
                                }
                                // behavioural check: all single bytes, sampled strings
                                let mut samples: Vec<Vec<u8>> = (0..=255u8).map(|b| vec![b]).collect();
                                for _ in 0..(if thorough { 200 } else { 20 }) {
                                    let k = rng.range(2, 12);
                                    samples.push(random_bytes(&mut rng, k));
                                }
                                if let Some(b) = &text_in_enc {
                                    samples.push(b.clone());
                                }
                                for smp in &samples {
                                    if codec_c.decode(smp, DecoderTrap::Strict).ok() != codec_n.decode(smp, DecoderTrap::Strict).ok() {
                                        rep.fail("oracle", "C18:alias-decodes-differently", &format!("{} vs alias {} on {}", n, a, hex(smp)), smp, None, "");
                                        break;
                                    }
                                }
                            }
                        }
                    }
                }
            }
        }
    }
    // --- matches as detection really builds them (with alternatives folded in): the alias list of a match is
    //     the table entry of *its own* name, and every alias resolves to the codec of that name
    let n_det = if thorough { 200 } else { 40 };
    for k in 0..n_det {
        let (_, t) = TEXTS[k % 19];
        let e = *rng.pick(&["iso-8859-1", "windows-1252", "iso-8859-15", "iso-8859-2", "windows-1250", "windows-1251", "koi8-r", "iso-8859-7", "macintosh", "utf-8"]);
        let bytes = enc_bytes(t, e).unwrap_or_else(|| t.as_bytes().to_vec());
        let s = Sett::default();
        if let Ok(Ok(ms)) = real_detect_raw(&bytes, &s) {
            rep.evaluations += 1;
            rep.oracle_checked += 1;
            for m in ms.iter().flat_map(|m| std::iter::once(m).chain(m.submatch().iter())) {
                rep.count(if m.has_submatch() { "oracle:aliases-of-match-with-alternatives" } else { "oracle:aliases-of-plain-match" });
                let got = match catch_unwind(AssertUnwindSafe(|| m.encoding_aliases())) {
                    Ok(a) => a,
                    Err(_) => {
                        rep.fail("oracle", "C18:aliases-panic", m.encoding(), &bytes, Some(&s), "detected");
                        continue;
                    }
                };
                let codec_n = encoding_from_whatwg_label(m.encoding());
                for a in &got {
                    if let Some(c) = iana_name(a) {
                        let codec_c = encoding_from_whatwg_label(c);
                        let same = match (&codec_c, &codec_n) {
                            (Some(x), Some(y)) => x.name() == y.name(),
                            _ => false,
                        };
                        if !same {
                            rep.fail("oracle", "C18:alias-resolves-to-different-codec", &format!("match {} (alternatives {:?}): alias {} -> {} is another codec", m.encoding(), m.suitable_encodings(), a, c), &bytes, Some(&s), "detected");
                            break;
                        }
                    }
                }
            }
        }
    }
    rep.sample(format!("reportable: {}", reportable.join(" ")));
    rep.sample(format!("spelling e.g. {:?} -> {:?}", spellings[spellings.len() - 1], iana_name(&spellings[spellings.len() - 1])));
    rep.model_rounds = drv.requests;
    rep
}
