//! C10 — alternatives partition the accepted encodings; match fields are coherent.
use super::*;
use charset_normalizer_rs::consts::IANA_SUPPORTED_ALIASES;
use charset_normalizer_rs::entity::Language;
use charset_normalizer_rs::utils::iana_name;
use charset_normalizer_rs::verif_hooks as vh;
use std::collections::BTreeSet;

pub struct C10;

fn enc_decode_ok(b: &[u8], enc: &str) -> Option<String> {
    encoding::label::encoding_from_whatwg_label(enc).and_then(|c| c.decode(b, encoding::DecoderTrap::Strict).ok())
}

fn tied_language(enc: &str) -> Option<&'static str> {
    match enc {
        "euc-kr" => Some("Korean"),
        "big5" | "gbk" | "gb18030" => Some("Chinese"),
        "euc-jp" | "shift_jis" | "iso-2022-jp" => Some("Japanese"),
        _ => None,
    }
}

impl DetectProp for C10 {
    fn id(&self) -> &'static str {
        "C10"
    }
    fn slice(&self, o: &Outcome) -> String {
        match o {
            Outcome::Ok(v) => format!(
                "ok {}",
                sorted_join(v.iter().map(|m| format!("{}+{}:{}:{:?}:{}:{}", m.enc, m.subs.join("+"), m.chaos, m.text, m.coh.iter().map(|x| x.0.clone()).collect::<Vec<_>>().join(","), m.lang)).collect())
            ),
            other => other.show(),
        }
    }
    fn gen(&self, rng: &mut Rng, corpus: &[(String, Vec<u8>)], idx: usize) -> Case {
        let mut c = structured_case(rng, corpus);
        if idx % 3 == 0 {
            // latin text: many coinciding code pages
            let (_, t) = TEXTS[rng.below(7)];
            let e = *rng.pick(&["iso-8859-1", "windows-1252", "iso-8859-15", "macintosh", "ibm866", "windows-1250"]);
            c.bytes = enc_bytes(t, e).unwrap_or_else(|| t.as_bytes().to_vec());
            c.tag = format!("latin:{}", e);
            c.sett.incl.clear();
            c.sett.excl.clear();
        }
        if idx % 5 == 1 {
            c.sett.thr = 1.0;
        }
        if idx % 4 == 2 {
            c = declared_ascii_case(rng);
        }
        if idx % 8 == 5 {
            c = declared_self_case(rng);
        }
        if idx % 16 == 7 {
            c = multi_candidate_case(rng);
        }
        if idx % 16 == 3 || idx % 16 == 11 {
            c = declared_tied_case(rng);
        }
        if idx % 16 == 13 || idx % 16 == 6 {
            // chunks that read the same under a single-byte page and under an encoding tied to one language
            c.bytes = ascii_with_double_byte_pairs(rng);
            c.sett = Sett::default();
            if idx % 32 == 6 {
                c.sett.incl = vec!["windows-1252".into(), "big5".into(), "euc-kr".into(), "gbk".into(), "shift_jis".into()];
            }
            c.tag = "ascii-chunks-double-byte-pairs".into();
        }
        c
    }
    fn directed(&self, thorough: bool) -> Vec<Case> {
        // inputs close below the 1,000,000-byte limit whose *decoded* form is much larger than the input
        // (legacy single-byte Greek / Cyrillic, two-byte CJK): still "at most 1,000,000 bytes", so code pages
        // that read them identically must share a match
        let mut rng = Rng::new(1010);
        let mut v = vec![];
        let picks: &[(&str, &str, usize)] = &[("greek", "iso-8859-7", 640_000), ("russian", "windows-1251", 990_000), ("chinese", "gbk", 700_000), ("french", "iso-8859-1", 999_999)];
        for (k, (name, enc, size)) in picks.iter().enumerate() {
            if !thorough && k > 0 {
                break;
            }
            let base = TEXTS.iter().find(|(n, _)| n == name).map(|x| x.1).unwrap_or(TEXTS[0].1);
            let unit = enc_bytes_lossy(&stretch(&mut rng, base, 3000), enc);
            if unit.is_empty() {
                continue;
            }
            let mut b = Vec::with_capacity(*size + unit.len());
            while b.len() < *size {
                b.extend_from_slice(&unit);
            }
            b.truncate(*size);
            if *enc == "gbk" {
                // do not cut a two-byte character
                while enc_decode_ok(&b, enc).is_none() && !b.is_empty() {
                    b.pop();
                }
            }
            v.push(Case { bytes: b, sett: Sett::default(), tag: format!("nomodel:large-legacy-below-limit:{}", enc) });
        }
        // neighbours across block boundaries: every block boundary of the range table that is not a multiple of 128
        // (resp. 256, 4096) lies inside one "page"; texts in which a character of the later block only ever follows a
        // character of the earlier block directly (and the other way round) – unicode_ranges() must still be the union
        // of what each character yields alone. Three texts per direction, every third boundary each, so that no block
        // of a text is also reached from a position that follows a space.
        let table = vh::unicode_ranges();
        let mut bounds: Vec<(char, char)> = vec![];
        for (_, start, _) in table.iter() {
            if *start < 0x80 || *start % 4096 == 0 {
                continue;
            }
            if let (Some(a), Some(b)) = (char::from_u32(*start - 1), char::from_u32(*start)) {
                if vh::unicode_range(a).is_some() && vh::unicode_range(b).is_some() && vh::unicode_range(a) != vh::unicode_range(b) {
                    bounds.push((a, b));
                }
            }
        }
        bounds.sort();
        bounds.dedup();
        for dir in 0..2 {
            for k in 0..3usize {
                let mut t = String::from("The quick brown fox jumps over the lazy dog and keeps running through the quiet forest. ");
                for (i, (a, b)) in bounds.iter().enumerate() {
                    if i % 3 != k {
                        continue;
                    }
                    let (x, y) = if dir == 0 { (*a, *b) } else { (*b, *a) };
                    t.push_str("word ");
                    t.push(x);
                    t.push(y);
                    t.push(' ');
                }
                t.push_str("and then the story goes on in plain words until the very end of the page.");
                let mut st = Sett::default();
                st.incl = vec!["utf-8".to_string()];
                st.thr = 1.0;
                v.push(Case { bytes: t.into_bytes(), sett: st, tag: format!("block-boundary-neighbours:dir{}:{}", dir, k) });
            }
        }
        v
    }
    fn oracle(&self, cx: &mut Ctx, case: &Case, raw: &RealRaw) {
        let s = &case.sett;
        let ms = match raw {
            Ok(Ok(ms)) => ms,
            Err(p) => {
                cx.rep.fail("oracle", "C10:panic", p, &case.bytes, Some(s), &case.tag);
                return;
            }
            _ => return,
        };
        if case.bytes.is_empty() {
            return;
        }
        cx.rep.oracle_checked += 1;
        let small = case.bytes.len() <= 1_000_000;
        // no encoding twice
        let mut seen: BTreeSet<String> = BTreeSet::new();
        for m in ms.iter() {
            for e in m.suitable_encodings() {
                if !seen.insert(e.clone()) {
                    cx.rep.fail("oracle", "C10:encoding-occurs-twice", &e, &case.bytes, Some(s), &case.tag);
                }
            }
        }
        let items: Vec<_> = ms.iter().collect();
        for (i, m) in items.iter().enumerate() {
            // alternatives share text and chaos with the main entry
            for sub in m.submatch() {
                cx.rep.count("oracle:alternative");
                if sub.decoded_payload() != m.decoded_payload() || sub.chaos().to_bits() != m.chaos().to_bits() {
                    cx.rep.fail(
                        "oracle",
                        "C10:alternative-differs-from-main",
                        &format!("{} listed beside {} but text equal = {}, chaos {} vs {}", sub.encoding(), m.encoding(), sub.decoded_payload() == m.decoded_payload(), sub.chaos(), m.chaos()),
                        &case.bytes,
                        Some(s),
                        &case.tag,
                    );
                }
            }
            if small {
                for other in items.iter().skip(i + 1) {
                    if other.decoded_payload() == m.decoded_payload() && other.chaos().to_bits() == m.chaos().to_bits() {
                        cx.rep.fail("oracle", "C10:two-matches-identical-text-and-chaos", &format!("{} and {}", m.encoding(), other.encoding()), &case.bytes, Some(s), &case.tag);
                    }
                }
            }
            // languages
            let langs: Vec<String> = m.languages().iter().map(|l| format!("{}", l)).collect();
            let set: BTreeSet<&String> = langs.iter().collect();
            if set.len() != langs.len() {
                cx.rep.fail("oracle", "C10:language-repeated", &format!("{}: {:?}", m.encoding(), langs), &case.bytes, Some(s), &case.tag);
            }
            if let Some(t) = tied_language(m.encoding()) {
                cx.rep.count("oracle:tied-language-encoding");
                if langs.iter().any(|l| l != t) {
                    cx.rep.fail("oracle", "C10:foreign-language-for-tied-encoding", &format!("{}: {:?}", m.encoding(), langs), &case.bytes, Some(s), &case.tag);
                }
            }
            // most probable language
            let want: String = if let Some(l) = langs.first() {
                l.clone()
            } else if m.suitable_encodings().iter().any(|e| e == "ascii") {
                "English".into()
            } else if let Some(t) = tied_language(m.encoding()) {
                t.into()
            } else {
                // a fixed function of the encoding: must not depend on this input
                let other = vh::new_match(b"zz".to_vec(), m.encoding(), 0.0, false, &[], Some("zz"));
                format!("{}", other.most_probably_language())
            };
            if format!("{}", m.most_probably_language()) != want {
                cx.rep.fail("oracle", "C10:most-probable-language", &format!("{}: got {} want {}", m.encoding(), m.most_probably_language(), want), &case.bytes, Some(s), &case.tag);
            }
            let _: &Language = m.most_probably_language();
            // unicode ranges: sorted, duplicate free, union of per-character ranges
            let ranges = m.unicode_ranges();
            let mut sorted = ranges.clone();
            sorted.sort();
            sorted.dedup();
            let want: BTreeSet<String> = m.decoded_payload().unwrap_or_default().chars().filter_map(|c| vh::unicode_range(c).map(|r| r.to_string())).collect();
            if sorted != ranges || want.iter().cloned().collect::<Vec<_>>() != ranges {
                cx.rep.fail("oracle", "C10:unicode-ranges", &format!("{}: {:?}", m.encoding(), ranges), &case.bytes, Some(s), &case.tag);
            }
            // T3 for the accessor: the model's `unicodeRangesOf` over the dumped block table
            if case.bytes.len() <= 20_000 {
                let line = match m.decoded_payload() {
                    Some(t) if !t.is_empty() => format!("uranges {}", hex(t.as_bytes())),
                    Some(_) => "uranges -".to_string(),
                    None => "uranges none".to_string(),
                };
                let model = cx.drv.ask(&line);
                let real = format!("ok {}", ranges.iter().map(|r| format!("x{}", hex(r.as_bytes()))).collect::<Vec<_>>().join(","));
                cx.rep.count("t3:unicode-ranges");
                cx.rep.t3_compared += 1;
                if model.trim_end() != real.trim_end() {
                    cx.rep.fail("t3", "C10:unicode-ranges-model-disagrees", &format!("{}: impl {:?} || model {}", m.encoding(), ranges, model), &case.bytes, Some(s), &case.tag);
                }
            }
            // lookup by candidate name and by every label canonicalising to it
            for e in m.suitable_encodings() {
                let mut labels: Vec<String> = vec![e.clone(), e.to_uppercase(), format!(" {}\t", e)];
                if let Some(al) = IANA_SUPPORTED_ALIASES.get(e.as_str()) {
                    labels.extend(al.iter().map(|a| a.to_string()));
                }
                for l in labels {
                    if iana_name(&l) == Some(e.as_str()) {
                        cx.rep.count("oracle:lookup");
                        match ms.get_by_encoding(&l) {
                            Some(found) if std::ptr::eq(found, *m) => {}
                            _ => cx.rep.fail("oracle", "C10:lookup-by-name", &format!("label {:?} (canonical {}) does not return the match of {}", l, e, m.encoding()), &case.bytes, Some(s), &case.tag),
                        }
                    }
                }
            }
        }
    }
}
