//! C19 — languages are listed by score; the language threshold is a pure cut-off.
use super::*;
use charset_normalizer_rs::entity::Language;
use charset_normalizer_rs::verif_hooks as vh;
use counter::Counter;

/// the layers of a decoded text with, per layer, the candidate languages and their scores in
/// evaluation order (glue of `coherence_ratio` re-stated from the real component functions)
fn layers_of(text: &str, include: &[&'static Language]) -> Vec<Vec<(&'static Language, f32)>> {
    let ignore_non_latin = include.len() == 1 && format!("{}", include[0]) == "Unknown";
    let include: Vec<&'static Language> = if ignore_non_latin { vec![] } else { include.to_vec() };
    let mut out = vec![];
    for layer in vh::alpha_unicode_split(text) {
        if layer.chars().count() <= 32 {
            continue;
        }
        let most_common = layer.chars().collect::<Counter<_>>().most_common_ordered();
        let popular: Vec<char> = most_common.iter().map(|(c, _)| *c).collect();
        let langs = if include.is_empty() { vh::alphabet_languages(&popular, ignore_non_latin) } else { include.clone() };
        let s: String = popular.iter().collect();
        out.push(langs.iter().map(|l| (*l, vh::characters_popularity_compare(l, &s).unwrap_or(0.0))).collect());
    }
    out
}

/// does the sufficiency counter (scores >= 0.8 among those reaching `thr`) hit 3 before the very last candidate?
fn break_taken(layers: &[Vec<(&'static Language, f32)>], thr: f32) -> bool {
    let total: usize = layers.iter().map(|l| l.len()).sum();
    let mut seen = 0;
    let mut suff = 0;
    for l in layers {
        for (_, s) in l {
            seen += 1;
            if *s < thr {
                continue;
            }
            if *s >= 0.8 {
                suff += 1;
            }
            if suff >= 3 && seen < total {
                return true;
            }
        }
    }
    false
}

fn show_layers(layers: &[Vec<(&'static Language, f32)>]) -> String {
    layers
        .iter()
        .map(|l| if l.is_empty() { "-".to_string() } else { l.iter().map(|(n, s)| format!("{}={}", n, fbits(*s))).collect::<Vec<_>>().join(",") })
        .collect::<Vec<_>>()
        .join(" ")
}

pub fn run(thorough: bool, seed: u64, _replay: Option<String>) -> Report {
    let mut rep = Report::new("C19", seed);
    let mut drv = Driver::spawn();
    let mut rng = Rng::new(seed);
    sort_small_t3(&mut rep, &mut drv, &mut rng, if thorough { 5000 } else { 600 });
    merge_t3(&mut rep, &mut drv, &mut rng, if thorough { 3000 } else { 300 });
    let n = if thorough { 1500 } else { 160 };
    let grid: Vec<f32> = vec![0.0, 0.05, 0.1, 0.2, 0.3, 0.4, 0.5, 0.55, 0.6, 0.65, 0.7, 0.72, 0.74, 0.76, 0.78, 0.8];
    for i in 0..n {
        // mono- and multi-script texts with several candidate languages of close scores
        let k = rng.range(1, 3);
        let mut text = String::new();
        for _ in 0..k {
            let (_, t) = TEXTS[rng.below(21)];
            let len = rng.range(60, 700);
            text.push_str(&stretch(&mut rng, t, len));
            text.push(' ');
        }
        let mut text: String = text.chars().take(rng.range(80, 1800)).collect();
        if i % 6 == 5 {
            // a short quotation in another script: a second alphabet layer right at the "too small" rule
            // (about 32 letters; more than 32 bytes in UTF-8)
            let other = *rng.pick(&["russian", "greek", "bulgarian", "hebrew", "arabic", "thai", "ukrainian"]);
            let src = TEXTS.iter().find(|(n, _)| *n == other).unwrap().1;
            let want = rng.range(12, 40);
            let letters: String = src.chars().filter(|c| c.is_alphabetic()).take(want).collect();
            text.push_str(" \u{ab}");
            text.push_str(&letters);
            text.push_str("\u{bb} ");
            text.push_str(&stretch(&mut rng, TEXTS[0].1, 200));
        }
        // directed (no random choices, so the cases around them stay what they were): a foreign Latin layer *first*, then the
        // script a legacy code page is made for – that page scores the same target languages in both layers
        let two_layer_page: Option<(&str, &str)> = if (40..52).contains(&i) {
            Some([("russian", "windows-1251"), ("russian", "koi8-r"), ("bulgarian", "iso-8859-5"), ("greek", "iso-8859-7"), ("greek", "windows-1253"), ("hebrew", "windows-1255")][i % 6])
        } else {
            None
        };
        if let Some((native, _)) = two_layer_page {
            let a = TEXTS[0].1;
            let b = TEXTS.iter().find(|(n, _)| *n == native).map(|x| x.1).unwrap_or(TEXTS[0].1);
            let latin: String = a.chars().take(90 + 7 * (i % 5)).collect();
            let other: String = b.chars().take(160 + 11 * (i % 4)).collect();
            text = if i % 12 < 6 { format!("{} {}", latin, other) } else { format!("{} {} {}", latin, other, latin) };
        }
        if i < 15 {
            // directed: a first alphabet layer with >= 3 sufficient scores followed by a second layer
            let firsts = ["russian", "bulgarian", "ukrainian"];
            let seconds = ["french", "german", "english", "spanish", "polish"];
            let a = TEXTS.iter().find(|(n, _)| *n == firsts[i % 3]).unwrap().1;
            let b = TEXTS.iter().find(|(n, _)| *n == seconds[i % 5]).unwrap().1;
            text = format!("{} {}", stretch(&mut rng, a, 700), stretch(&mut rng, b, 500));
        }
        if (15..40).contains(&i) {
            // synthetic: character frequencies follow the reference order of one language per alphabet
            let table = vh::languages_table();
            let pick = |name: &str| table.iter().find(|x| format!("{}", x.0) == name).map(|x| x.1).unwrap_or("");
            let firsts = ["Russian", "Bulgarian", "Ukrainian", "English", "Greek"];
            let seconds = ["French", "Polish", "Russian", "Turkish", "Hebrew"];
            let synth = |alpha: &str, rng: &mut Rng| -> String {
                let chars: Vec<char> = alpha.chars().collect();
                let mut v: Vec<char> = vec![];
                for (k, c) in chars.iter().enumerate() {
                    for _ in 0..(chars.len() - k) * 2 {
                        v.push(*c);
                    }
                }
                // shuffle so that the text is not sorted (frequencies are what matters)
                for j in (1..v.len()).rev() {
                    v.swap(j, rng.below(j + 1));
                }
                let mut out = String::new();
                for (j, c) in v.iter().enumerate() {
                    out.push(*c);
                    if j % 6 == 5 {
                        out.push(' ');
                    }
                }
                out
            };
            let a = pick(firsts[i % 5]);
            let b = pick(seconds[(i / 5) % 5]);
            text = format!("{} {}", synth(a, &mut rng), synth(b, &mut rng));
        }
        // ---- T3: the loop of coherence_ratio (threshold / sufficiency / break / per-language max / sort)
        let include: Vec<&'static Language> = match rng.below(4) {
            0 => vec![lang_by_name("Unknown").unwrap()],
            1 => vec![lang_by_name("Russian").unwrap(), lang_by_name("Ukrainian").unwrap(), lang_by_name("Serbian").unwrap(), lang_by_name("Bulgarian").unwrap(), lang_by_name("Kazakh").unwrap()],
            _ => vec![],
        };
        let layers = layers_of(&text, &include);
        let thr = *rng.pick(&grid);
        let real = vh::coherence_ratio_no_cache(text.clone(), Some(thr), Some(include.clone())).unwrap_or_default();
        let real_s: Vec<(String, u32)> = real.iter().map(|(l, s)| (format!("{}", l), fbits(*s))).collect();
        if !layers.is_empty() {
            let model = drv.ask(&format!("coh {} {}", fbits(thr), show_layers(&layers)));
            rep.t3_compared += 1;
            let mut want = real_s.clone();
            let parsed: Vec<(String, u32)> = model
                .strip_prefix("ok ")
                .filter(|s| *s != "-")
                .map(|s| s.split(',').filter(|x| !x.is_empty()).map(|p| { let mut it = p.split('='); (it.next().unwrap_or("").to_string(), it.next().unwrap_or("0").parse().unwrap_or(0)) }).collect())
                .unwrap_or_default();
            let mut got = parsed.clone();
            // tie order among equal scores is std's unstable sort (> 20 entries) – compare as multisets + score order
            let key = |v: &mut Vec<(String, u32)>| v.sort_by(|a, b| b.1.cmp(&a.1).then(a.0.cmp(&b.0)));
            let same_order_scores = parsed.iter().map(|x| x.1).collect::<Vec<_>>() == real_s.iter().map(|x| x.1).collect::<Vec<_>>();
            key(&mut want);
            key(&mut got);
            // (exact since the small-element sort of std is modelled: also above 20 entries)
            if want != got || !same_order_scores || parsed != real_s {
                rep.fail("t3", "C19:coherence-loop-model-disagrees", &format!("thr {} layers [{}]: impl {:?} || model {}", thr, show_layers(&layers), real_s, model), text.as_bytes(), None, "coh");
            }
        }
        // ---- T3: the whole of coherence_ratio (alpha_unicode_split, most common characters,
        //      alphabet_languages, jaro, loop, filter, sort) from the text alone
        {
            let mut chars: std::collections::BTreeSet<char> = text.chars().collect();
            let lowered: Vec<char> = chars.iter().flat_map(|c| c.to_lowercase()).collect();
            chars.extend(lowered);
            let env: Vec<String> = chars
                .iter()
                .map(|c| {
                    format!(
                        "{}:{}:{}:{}",
                        *c as u32,
                        c.is_alphabetic() as u8,
                        vh::is_accentuated(*c) as u8,
                        c.to_lowercase().map(|x| (x as u32).to_string()).collect::<Vec<_>>().join(".")
                    )
                })
                .collect();
            let incl = if include.is_empty() { "-".to_string() } else { include.iter().map(|l| format!("{}", l)).collect::<Vec<_>>().join(",") };
            let line = format!("cohfull {} {} {} {}", fbits(thr), if text.is_empty() { "-".to_string() } else { hex(text.as_bytes()) }, incl, if env.is_empty() { "-".to_string() } else { env.join(",") });
            let model = drv.ask(&line);
            rep.t3_compared += 1;
            rep.count("t3:coherence-ratio-full");
            let real_full = if real_s.is_empty() { "ok -".to_string() } else { format!("ok {}", real_s.iter().map(|(n, s)| format!("{}={}", n, s)).collect::<Vec<_>>().join(",")) };
            if model.trim_end() != real_full {
                rep.fail("t3", "C19:coherence-ratio-model-disagrees", &format!("thr {} include [{}]: impl {} || model {}", thr, incl, real_full, model), text.as_bytes(), None, "cohfull");
            }
        }
        // ---- oracle on detection: single chunk, encoding probed alone, threshold sweep
        let mut enc = *rng.pick(&["utf-8", "utf-8", "utf-16le", "gb18030"]);
        // a code page that targets particular languages, reading a text it can represent (scores of exactly 0 occur here)
        if i % 4 == 3 {
            let page = *rng.pick(&["iso-8859-7", "windows-1251", "windows-1255", "koi8-r", "iso-8859-5", "windows-1253", "ibm866", "windows-1256", "windows-874"]);
            if enc_bytes(&text, page).is_some() {
                enc = page;
            }
        }
        if let Some((_, page)) = two_layer_page {
            if enc_bytes(&text, page).is_some() {
                enc = page;
            }
        }
        let mut bytes = enc_bytes(&text, enc).unwrap_or_else(|| text.clone().into_bytes());
        if enc == "utf-16le" {
            let mut b = b"\xff\xfe".to_vec();
            b.extend(bytes);
            bytes = b;
        }
        let mut base = Sett::default();
        base.steps = 1;
        base.chunk = bytes.len() + 1;
        // any window with steps x chunk_size >= length is a single-chunk analysis: besides the roomy one, use
        // windows that fit exactly (length = steps x chunk_size, one or several steps) and barely
        let len = bytes.len();
        match i % 4 {
            1 => base.chunk = len,
            2 => {
                if let Some(d) = [2usize, 3, 4, 5, 7, 8, 10].iter().copied().filter(|d| len % d == 0 && len > 0).last() {
                    base.steps = d;
                    base.chunk = len / d;
                } else {
                    base.steps = 2;
                    base.chunk = len / 2 + 1;
                }
            }
            3 => {
                base.steps = rng.range(2, 6);
                base.chunk = len / base.steps + 1;
            }
            _ => {}
        }
        rep.count(&format!("sweep:window:{}", if base.steps * base.chunk == len { "exact-fit" } else if base.steps == 1 { "roomy" } else { "several-steps" }));
        base.incl = vec![enc.to_string()];
        base.thr = 1.0;
        base.fb = false;
        let mut lists: Vec<(f32, Vec<(String, f32)>)> = vec![];
        // the grid, then – once the scores are known from the run at 0 – thresholds *at* the leading scores and one
        // float step above / below them: the cut-off lies exactly at the score, not at a rounded neighbour
        let mut work: Vec<f32> = grid.clone();
        let mut wi = 0;
        while wi < work.len() {
            let t = work[wi];
            wi += 1;
            if wi == 2 {
                if let Some((_, l0)) = lists.first() {
                    let extra: Vec<f32> = l0
                        .iter()
                        .take(if thorough { 4 } else { 2 })
                        .flat_map(|(_, sc)| {
                            let b = sc.to_bits();
                            [*sc, f32::from_bits(b + 1), f32::from_bits(b.saturating_sub(1)), *sc + 0.0004, (*sc - 0.0004).max(0.0)]
                        })
                        .filter(|x| x.is_finite() && *x >= 0.0 && *x <= 1.0)
                        .collect();
                    rep.count_n("sweep:thresholds-at-scores", extra.len() as u64);
                    work.extend(extra);
                }
            }
            let mut s = base.clone();
            s.lthr = t;
            if let Ok(Ok(ms)) = real_detect_raw(&bytes, &s) {
                if let Some(m) = ms.iter().find(|m| m.encoding() == enc) {
                    let coh = vh::match_coherences(m);
                    rep.oracle_checked += 1;
                    // ordered by non-increasing score, coherence() = first score, most probable = first language
                    if coh.windows(2).any(|w| w[0].1 < w[1].1) {
                        rep.fail("oracle", "C19:list-not-sorted-by-score", &format!("lthr {}: {:?}", t, coh.iter().map(|(l, s)| (format!("{}", l), *s)).collect::<Vec<_>>()), &bytes, Some(&s), enc);
                    }
                    if let Some(first) = coh.first() {
                        if m.coherence().to_bits() != first.1.to_bits() || format!("{}", m.most_probably_language()) != format!("{}", first.0) {
                            rep.fail("oracle", "C19:coherence-or-language-is-not-the-head", &format!("lthr {}", t), &bytes, Some(&s), enc);
                        }
                    }
                    if coh.iter().any(|(_, sc)| *sc < t) {
                        rep.fail("oracle", "C19:listed-below-threshold", &format!("lthr {}", t), &bytes, Some(&s), enc);
                    }
                    // a single chunk: what the match lists is what the coherence analysis of its text yields for the
                    // languages its encoding targets – nothing dropped or added on the way into the match
                    if let Some(txt) = m.decoded_payload() {
                        let targets: Vec<&'static charset_normalizer_rs::entity::Language> =
                            if charset_normalizer_rs::utils::is_multi_byte_encoding(enc) { vh::mb_encoding_languages(enc) } else { vh::encoding_languages(enc.to_string()) };
                        if let Ok(direct) = vh::coherence_ratio(txt.to_string(), Some(t), Some(targets)) {
                            let merged = vh::merge_coherence_ratios(&[direct]);
                            let a: Vec<(String, u32)> = coh.iter().map(|(l, x)| (format!("{}", l), x.to_bits())).collect();
                            let b: Vec<(String, u32)> = merged.iter().map(|(l, x)| (format!("{}", l), x.to_bits())).collect();
                            rep.count("oracle:match-list-vs-coherence-of-text");
                            if a != b && enc != "ascii" {
                                rep.fail("oracle", "C19:match-list-differs-from-coherence-of-its-text", &format!("lthr {}: match lists {:?} but the analysis of its text gives {:?}", t, a, b), &bytes, Some(&s), enc);
                            }
                        }
                    }
                    lists.push((t, coh.iter().map(|(l, s)| (format!("{}", l), *s)).collect()));
                    // the same call under the roomy window (1, len + 1) must list the same languages with the same scores
                    if s.steps != 1 || s.chunk != len + 1 {
                        let mut s1 = s.clone();
                        s1.steps = 1;
                        s1.chunk = len + 1;
                        if let Ok(Ok(ms1)) = real_detect_raw(&bytes, &s1) {
                            let a: Vec<(String, u32)> = coh.iter().map(|(l, x)| (format!("{}", l), x.to_bits())).collect();
                            let b: Option<Vec<(String, u32)>> = ms1.iter().find(|m| m.encoding() == enc).map(|m| vh::match_coherences(m).iter().map(|(l, x)| (format!("{}", l), x.to_bits())).collect());
                            if b.as_ref() != Some(&a) {
                                rep.fail("oracle", "C19:covering-window-not-analysed-as-a-single-chunk", &format!("lthr {}: steps={} chunk={} lists {:?} but steps=1 chunk={} lists {:?}", t, s.steps, s.chunk, a, len + 1, b), &bytes, Some(&s), enc);
                            }
                        }
                    }
                }
            }
        }
        rep.evaluations += 1;
        rep.nontrivial(fp(&bytes, &format!("sweep{}", i)));
        // pure cut-off: list(t) = list(0) restricted to score >= t
        if let Some((_, l0)) = lists.first().cloned() {
            // the layers as the detection scores them: against the target languages of the probed encoding (all
            // languages of the alphabet for the Unicode encodings) – the known finding is matched on *this* computation
            let enc_targets: Vec<&'static charset_normalizer_rs::entity::Language> =
                if charset_normalizer_rs::utils::is_multi_byte_encoding(enc) { vh::mb_encoding_languages(enc) } else { vh::encoding_languages(enc.to_string()) };
            let det_layers = layers_of(&text, &enc_targets);
            for (t, lt) in &lists {
                let want: Vec<&(String, f32)> = l0.iter().filter(|(_, s)| s >= t).collect();
                let same = want.len() == lt.len() && want.iter().all(|w| lt.iter().any(|x| x.0 == w.0 && x.1.to_bits() == w.1.to_bits()));
                if !same {
                    let known = break_taken(&det_layers, 0.0) || break_taken(&det_layers, *t);
                    let class = if known { "C19:sufficiency-break-hides-languages" } else { "C19:threshold-is-not-a-pure-cutoff" };
                    rep.fail(
                        "oracle",
                        class,
                        &format!("{} text of {} chars: at lthr 0 {:?}, at lthr {} {:?}", enc, text.chars().count(), l0, t, lt),
                        &bytes,
                        Some(&base),
                        enc,
                    );
                    break;
                }
            }
            rep.count(&format!("sweep:languages-at-0:{}", l0.len().min(12)));
            if break_taken(&det_layers, 0.0) {
                rep.count("sweep:sufficiency-break-taken");
            }
        }
        if rep.samples.len() < 3 && !real_s.is_empty() {
            rep.sample(format!("thr {} include {:?}: {:?}", thr, include.iter().map(|l| format!("{}", l)).collect::<Vec<_>>(), real_s.iter().take(5).collect::<Vec<_>>()));
        }
    }
    rep.model_rounds = drv.requests;
    rep
}


/// same layout class as `CoherenceMatch` / `(&Language, OrderedFloat<f32>)`: 16 bytes, no interior
/// mutability, not `Copy` – takes std's `small_sort_general` (≤ 32) and the Lomuto cyclic partition
#[derive(Clone)]
struct Small {
    id: usize,
    key: u64,
}

/// std's `sort_unstable_by` on a 16-byte element type vs `sortUnstableSmall`, exact permutations
fn sort_small_t3(rep: &mut Report, drv: &mut Driver, rng: &mut Rng, cases: usize) {
    assert_eq!(std::mem::size_of::<Small>(), 16);
    // the crate's own element type: `CoherenceMatch` is (reference, f32) = 16 bytes on this target
    assert_eq!(std::mem::size_of::<(&'static charset_normalizer_rs::entity::Language, ordered_float::OrderedFloat<f32>)>(), 16, "element size of the language lists changed: the sort model's small-sort/partition choice must be revisited");
    for k in 0..cases {
        let n = match k % 10 {
            0 => rng.range(0, 3),
            1 | 2 => rng.range(2, 20),
            3 => 20,
            4 => 21,
            5 | 6 => rng.range(21, 33),
            7 => rng.range(33, 48),
            8 => rng.range(48, 100),
            _ => rng.range(100, 300),
        };
        // keys: distinct / few distinct values (many ties) / nearly sorted / reversed / organ pipe
        let kind = rng.below(6);
        let keys: Vec<u64> = (0..n)
            .map(|i| match kind {
                0 => rng.below(1_000_000) as u64,
                1 => rng.below(4) as u64,
                2 => (i as u64) * 2 + rng.below(4) as u64,
                3 => (n - i) as u64 + rng.below(2) as u64,
                4 => (if i < n / 2 { i } else { n - i }) as u64,
                _ => rng.below(n.max(1) / 3 + 1) as u64,
            })
            .collect();
        let mut v: Vec<Small> = (0..n).map(|id| Small { id, key: keys[id] }).collect();
        v.sort_unstable_by(|a, b| a.key.cmp(&b.key));
        let real = v.iter().map(|x| x.id.to_string()).collect::<Vec<_>>().join(" ");
        let ks = if keys.is_empty() { "-".to_string() } else { keys.iter().map(|x| x.to_string()).collect::<Vec<_>>().join(",") };
        let model = drv.ask(&format!("sortsmall {} {}", n, ks));
        rep.evaluations += 1;
        rep.t3_compared += 1;
        rep.nontrivial(fp(ks.as_bytes(), "sortsmall"));
        rep.count(&format!("sortsmall:n{}", if n <= 20 { "<=20" } else if n <= 32 { "21..32" } else if n < 64 { "33..63" } else { ">=64" }));
        if model.trim_end() != format!("ok {}", real).trim_end() {
            rep.fail("t3", "C19:small-sort-model-disagrees", &format!("n={} kind={} std: {} || model: {}", n, kind, real, model), ks.as_bytes(), None, "sortsmall");
        }
    }
}

/// `merge_coherence_ratios` vs `mergeModel` on lists of per-chunk results
fn merge_t3(rep: &mut Report, drv: &mut Driver, rng: &mut Rng, cases: usize) {
    let table = vh::languages_table();
    let names: Vec<String> = table.iter().map(|x| format!("{}", x.0)).collect();
    for _ in 0..cases {
        let chunks = rng.range(0, 6);
        let pool = rng.range(1, names.len());
        let mut lists: Vec<Vec<(String, f32)>> = vec![];
        for _ in 0..chunks {
            let len = match rng.below(4) { 0 => 0, 1 => rng.range(1, 4), 2 => rng.range(4, 20), _ => rng.range(15, 41) };
            let mut l: Vec<(String, f32)> = vec![];
            for _ in 0..len {
                let name = names[rng.below(pool)].clone();
                // coherence_ratio's lists have one entry per language; duplicates are also legal input here
                if rng.chance(9, 10) && l.iter().any(|x| x.0 == name) {
                    continue;
                }
                let score = match rng.below(4) {
                    0 => (rng.below(20) as f32) / 20.0,
                    1 => 0.5,
                    _ => (rng.below(1_000_000) as f32) / 1_000_000.0,
                };
                l.push((name, score));
            }
            lists.push(l);
        }
        let coh: Vec<vh::Coh> = lists.iter().map(|l| l.iter().map(|(n, s)| (lang_by_name(n).unwrap(), *s)).collect()).collect();
        let real = vh::merge_coherence_ratios(&coh);
        let show = |l: &[(String, u32)]| if l.is_empty() { "-".to_string() } else { l.iter().map(|(n, s)| format!("{}={}", n, s)).collect::<Vec<_>>().join(",") };
        let real_s = show(&real.iter().map(|(l, s)| (format!("{}", l), if *s == 0.0 { 0 } else { s.to_bits() })).collect::<Vec<_>>());
        let line = format!(
            "merge {}",
            if lists.is_empty() { "-".to_string() } else { lists.iter().map(|l| show(&l.iter().map(|(n, s)| (n.clone(), s.to_bits())).collect::<Vec<_>>())).collect::<Vec<_>>().join(" ") }
        );
        let model = drv.ask(&line);
        rep.evaluations += 1;
        rep.t3_compared += 1;
        rep.nontrivial(fp(line.as_bytes(), "merge"));
        rep.count(&format!("merge:languages{}", if real.len() > 20 { ">20" } else if real.len() > 1 { "2..20" } else { "<2" }));
        if model.trim_end() != format!("ok {}", real_s) {
            rep.fail("t3", "C19:merge-model-disagrees", &format!("impl: {} || model: {}", real_s, model), line.as_bytes(), None, "merge");
        }
    }
}
