//! C06 — self-identifying content is believed exactly when it checks out.
use super::*;
use charset_normalizer_rs::utils::iana_name;
use charset_normalizer_rs::verif_hooks as vh;

pub struct C06;

impl DetectProp for C06 {
    fn id(&self) -> &'static str {
        "C06"
    }
    fn directed(&self, thorough: bool) -> Vec<Case> {
        // > 1 MB declaring a legacy page that cannot decode one byte somewhere beyond the 500,000-byte prefix
        let mut rng = Rng::new(606);
        let mut v = vec![];
        for k in 0..(if thorough { 8 } else { 3 }) {
            let (b, enc) = large_declared_bad_byte(&mut rng, k % 4);
            v.push(Case { bytes: b, sett: Sett::default(), tag: format!("nomodel:large-declared-bad-byte:{}", enc) });
        }
        v
    }
    fn gen(&self, rng: &mut Rng, corpus: &[(String, Vec<u8>)], idx: usize) -> Case {
        let mut c = structured_case(rng, corpus);
        if idx % 10 == 9 {
            return declaration_at_zone_edge(rng);
        }
        if idx % 20 == 7 {
            return conflicting_hints_case(rng);
        }
        if idx % 20 == 13 {
            return misdeclared_legacy_case(rng);
        }
        if idx % 10 == 4 {
            // a keyword-like fragment with a label that names nothing, before the real declaration
            let first = *rng.pick(&["Content-Transfer-Encoding: 7bit\n", "Content-Encoding: gzip\n", "Accept-Encoding: br\n", "<?xml version=\"1.0\" encoding=\"utf-57\"?>\n", "transfer-coding = chunked\n"]);
            let label = *rng.pick(&["windows-1252", "koi8-r", "iso-8859-2", "utf-8", "windows-1251", "latin1"]);
            let second = match rng.below(3) {
                0 => format!("Content-Type: text/plain; charset={}\n\n", label),
                1 => format!("# -*- coding: {} -*-\n", label),
                _ => format!("<meta charset=\"{}\">\n", label),
            };
            let body = b"Plain words of body text follow the headers, nothing special in them at all.\n";
            let mut b = first.as_bytes().to_vec();
            b.extend_from_slice(second.as_bytes());
            for _ in 0..rng.range(1, 6) {
                b.extend_from_slice(body);
            }
            c.bytes = b;
            c.sett = Sett::default();
            c.tag = format!("two-declarations:{}", label);
            return c;
        }
        match idx % 6 {
            0 | 1 => {
                // declaration (fitting or contradicting) x BOM x ASCII / UTF-8 body
                let body: Vec<u8> = match rng.below(4) {
                    0 => b"Plain ascii body with nothing special in it, just some words to analyse here.".to_vec(),
                    1 => TEXTS[rng.below(19)].1.as_bytes().to_vec(),
                    2 => {
                        let (_, t) = TEXTS[rng.below(19)];
                        let e = *rng.pick(&supported());
                        enc_bytes(t, e).unwrap_or_else(|| t.as_bytes().to_vec())
                    }
                    _ => declared_ascii_case(rng).bytes,
                };
                let label = *rng.pick(LABEL_SPELLINGS);
                let kw = *rng.pick(&["charset", "encoding", "coding"]);
                let sep = *rng.pick(&["=", ":", ": ", "=\"", "='", " = ", "==========", "==========="]);
                // the keyword may be glued to a preceding word (vim's `fileencoding=`, php's `default_charset =`):
                // the pattern has no word boundary, such a declaration counts like any other
                let glue = if rng.chance(1, 3) { *rng.pick(&["file", "default_", "input", "x", "_", "9", "Content-"]) } else { "" };
                let decl = format!("{}{}{}{} ", glue, kw, sep, label.trim());
                let mut b = vec![];
                if rng.chance(1, 3) {
                    b.extend_from_slice(rng.pick(MARKS).1);
                }
                let pad = match rng.below(5) {
                    0 => 4096usize.saturating_sub(decl.len() + rng.below(6)),
                    1 => 4096,
                    _ => rng.below(30),
                };
                b.extend(std::iter::repeat(b' ').take(pad));
                b.extend(decl.bytes());
                b.extend(body);
                c.bytes = b;
                c.tag = "declaration".into();
            }
            2 => {
                // chaos exactly at / around 10 %: k control characters in n ASCII characters (8k/n)
                let n = *rng.pick(&[79usize, 80, 81, 159, 160, 161, 40, 41]);
                let k = if n > 100 { 2 } else { 1 };
                let mut b: Vec<u8> = (0..n - k).map(|i| if i % 6 == 5 { b' ' } else { b'a' + (i % 26) as u8 }).collect();
                for j in 0..k {
                    b.insert(10 + 7 * j, 1u8);
                }
                c.bytes = b;
                c.sett = Sett::default();
                c.sett.thr = *rng.pick(&[0.2f32, 0.5, 1.0]);
                c.tag = "chaos-at-0.1".into();
            }
            3 => c = declared_ascii_case(rng),
            _ => {}
        }
        if rng.chance(1, 4) {
            c.sett.pre = false;
        }
        c
    }
    fn extra(&self, rep: &mut Report, _drv: &mut Driver, rng: &mut Rng, thorough: bool) {
        // whether a self-identifying candidate "has chaos below 10 %" is a fact about the content and the threshold
        // of *this* call: the same content asked under other thresholds before must not change the answer
        let heads = ["\u{1}", "\u{1}\u{2}", "#+#+#+#+", "\u{7}x\u{7}"];
        for (k, head) in heads.iter().enumerate() {
            if !thorough && k >= 2 {
                break;
            }
            let body = stretch(rng, TEXTS[0].1, 360 + 40 * k);
            let mut text = String::new();
            for (i, c) in body.chars().enumerate() {
                if i == 7 {
                    text.push_str(head);
                }
                text.push(c);
            }
            let bytes = text.into_bytes();
            let thrs = [0.3f32, 0.2, 0.5, 0.1, 0.25];
            let mk = |thr: f32| {
                let mut s = Sett::default();
                s.thr = thr;
                s
            };
            vh::flush_caches();
            let warm: Vec<Outcome> = thrs.iter().map(|t| real_detect(&bytes, &mk(*t))).collect();
            for (t, w) in thrs.iter().zip(warm.iter()) {
                vh::flush_caches();
                let cold = real_detect(&bytes, &mk(*t));
                rep.evaluations += 1;
                rep.oracle_checked += 1;
                rep.count("oracle:threshold-sequence");
                if &cold != w {
                    rep.fail("oracle", "C06:answer-depends-on-earlier-thresholds", &format!("thr {} after {:?}: {} || alone: {}", t, thrs, w.show(), cold.show()), &bytes, Some(&mk(*t)), "threshold-sequence");
                }
            }
        }
    }
    fn oracle(&self, cx: &mut Ctx, case: &Case, raw: &RealRaw) {
        let s = &case.sett;
        let ms = match raw {
            Ok(Ok(ms)) => ms,
            Err(p) => {
                cx.rep.fail("oracle", "C06:panic", p, &case.bytes, Some(s), &case.tag);
                return;
            }
            _ => return,
        };
        if case.bytes.is_empty() {
            return;
        }
        cx.rep.oracle_checked += 1;
        let full = canon_matches(ms);
        let canon = |v: &[String]| -> Vec<String> { v.iter().filter_map(|n| iana_name(n).map(|x| x.to_string())).collect() };
        let (incl, excl) = (canon(&s.incl), canon(&s.excl));
        let sig = MARKS.iter().find(|(_, mk)| case.bytes.starts_with(mk)).map(|(e, _)| e.to_string());
        let declared = if s.pre { independent_declared(&case.bytes, 4096) } else { None };
        // the crate's scan of the first 4096 bytes against the independent one
        {
            let theirs = vh::any_specified_encoding(&case.bytes, 4096);
            let ours = independent_declared(&case.bytes, 4096);
            cx.rep.count("oracle:declaration-scan");
            if theirs != ours {
                cx.rep.fail("oracle", "C06:declaration-scan-differs", &format!("the content declares {:?} (first label in the 4096-byte zone naming a known encoding) but the scan reports {:?}", ours, theirs), &case.bytes, Some(s), &case.tag);
            }
        }
        if declared.is_some() {
            cx.rep.count("oracle:declaration-seen");
        }
        // a declaration or mark that does not fit the bytes is never taken for granted: whichever self-identified
        // encoding is reported (as a regular match or as the fallback) must strictly decode the input – decided by
        // the codec library itself, not by probing the implementation
        for m in ms.iter() {
            let enc = m.encoding().to_string();
            if Some(&enc) == declared.as_ref() || Some(&enc) == sig.as_ref() {
                cx.rep.count("oracle:self-identified-encoding-reported");
                let stripped = super::c01::strip_own_mark(&enc, &case.bytes);
                if super::c01::direct_decode(&enc, stripped).is_none() {
                    cx.rep.fail("oracle", "C06:misfitting-self-identification-taken-for-granted", &format!("{} is declared / marked in the content and reported, but does not strictly decode the input", enc), &case.bytes, Some(s), &case.tag);
                }
            }
        }
        if sig.is_some() {
            cx.rep.count("oracle:mark-seen");
        }
        let mut hints: Vec<String> = vec![];
        for h in declared.iter().chain(sig.iter()).cloned().chain(["ascii".to_string(), "utf-8".to_string()]) {
            let ok = supported().contains(&h.as_str()) && (incl.is_empty() || incl.contains(&h)) && !excl.contains(&h);
            if ok && !hints.contains(&h) {
                hints.push(h);
            }
        }
        // first hint that qualifies when probed alone
        let mut first_q: Option<String> = None;
        let mut accepted_not_q: Vec<String> = vec![];
        for h in &hints {
            let mut s1 = s.clone();
            s1.incl = vec![h.clone()];
            s1.excl = vec![];
            s1.fb = false;
            if let Outcome::Ok(v) = real_detect(&case.bytes, &s1) {
                if let Some(m) = v.iter().find(|m| m.enc == *h) {
                    let q = f32::from_bits(m.chaos) < 0.1 || Some(h.clone()) == sig;
                    if q {
                        first_q = Some(h.clone());
                        break;
                    } else {
                        accepted_not_q.push(h.clone());
                    }
                }
            }
        }
        match &first_q {
            Some(h) => {
                cx.rep.count("oracle:early-exit-expected");
                let ok = full.len() == 1 && full[0].cands().contains(h);
                if !ok {
                    cx.rep.fail("oracle", "C06:first-qualifying-hint-not-returned-alone", &format!("hints {:?}: {} qualifies when probed alone but the result is {}", hints, h, Outcome::Ok(full.clone()).show().chars().take(300).collect::<String>()), &case.bytes, Some(s), &case.tag);
                }
            }
            None => {
                cx.rep.count("oracle:no-hint-qualifies");
                // no early stop: every hint accepted alone must still be in the result
                let all: Vec<String> = full.iter().flat_map(|m| m.cands()).collect();
                for h in &accepted_not_q {
                    if !all.contains(h) {
                        cx.rep.fail("oracle", "C06:accepted-hint-missing-without-early-exit", &format!("{} accepted alone (chaos >= 0.1), no hint qualifies, yet it is missing from {:?}", h, all), &case.bytes, Some(s), &case.tag);
                    }
                }
                // a single-element result must then not be an "early exit" on a non-hint: nothing to check;
                // a result that stopped early would miss encodings accepted alone later in the order (C09 converse)
                // (the single probes run without the last-resort candidates, so "accepted alone" means accepted on merit)
                {
                    for e in ["windows-1252", "iso-8859-1", "ibm866", "koi8-r", "windows-1251", "gbk", "big5", "euc-kr", "shift_jis", "iso-8859-7"] {
                        if all.iter().any(|x| x == e) || excl.iter().any(|x| x == e) || (!incl.is_empty() && !incl.iter().any(|x| x == e)) {
                            continue;
                        }
                        let mut s1 = s.clone();
                        s1.incl = vec![e.to_string()];
                        s1.excl = vec![];
                        s1.fb = false;
                        if let Outcome::Ok(v) = real_detect(&case.bytes, &s1) {
                            if v.len() == 1 {
                                let explained = supported().iter().any(|f| {
                                    vh::is_cp_similar(e, f) && !all.iter().any(|x| x == f) && {
                                        let mut s2 = s.clone();
                                        s2.incl = vec![f.to_string()];
                                        s2.excl = vec![];
                                        s2.fb = false;
                                        matches!(real_detect(&case.bytes, &s2), Outcome::Ok(v) if v.is_empty())
                                    }
                                });
                                if !explained {
                                    cx.rep.fail("oracle", "C06:stopped-early-without-qualifying-hint", &format!("{} is accepted alone but missing; no hint qualifies; result {:?}", e, all), &case.bytes, Some(s), &case.tag);
                                }
                            }
                        }
                    }
                }
            }
        }
    }
}
