//! Correspondence (T3) for the mess detector: `Model/Md.lean` (the eight plugins and the `mess_ratio`
//! loop) against `md::mess_ratio` of the compiled crate, bit for bit.  The Unicode side – the
//! per-character record, `remove_accent`, `is_suspiciously_successive_range` – is read from the crate
//! and handed to the model with the request; everything the plugins compute from it is Lean code.
use super::*;
use charset_normalizer_rs::verif_hooks as vh;
use std::collections::{BTreeMap, BTreeSet};

const PLUGINS: [&str; 8] = ["symbol-punct", "accentuated", "unprintable", "susp-range", "dup-accent", "weird-word", "cjk-stop", "archaic-case"];

/// request line `mess <thr> <text> <infos> <pairs>`
pub fn mess_line(text: &str, thr: f32) -> String {
    let ranges = vh::unicode_ranges();
    let rid = |r: Option<&'static str>| -> usize {
        match r {
            None => 0,
            Some(n) => 1 + ranges.iter().position(|(x, _, _)| *x == n).expect("range name not in the table"),
        }
    };
    let mut chars: BTreeSet<char> = text.chars().collect();
    chars.insert('\n');
    let mut infos = vec![];
    let mut present: BTreeMap<usize, Option<&'static str>> = BTreeMap::new();
    for c in &chars {
        let (flags, range) = vh::char_info(*c);
        let id = rid(range);
        present.insert(id, range);
        infos.push(format!("{}:{}:{}:{}", *c as u32, flags, id, vh::remove_accent(*c) as u32));
    }
    let mut pairs = vec![];
    for (a, ra) in &present {
        for (b, rb) in &present {
            if vh::is_suspiciously_successive_range(*ra, *rb) {
                pairs.push(format!("{}:{}", a, b));
            }
        }
    }
    let th = if text.is_empty() { "-".to_string() } else { hex(text.as_bytes()) };
    format!("mess {} {} {} {}", thr.to_bits(), th, infos.join(","), if pairs.is_empty() { "-".to_string() } else { pairs.join(",") })
}

fn pool_text(rng: &mut Rng) -> String {
    // pools aimed at one plugin each, mixed at random
    const ACC_UP: &str = "ÀÁÂÃÄÅÈÉÊËÌÍÎÏÒÓÔÕÖÙÚÛÜÝŠŽČĚŘ";
    const ACC_LO: &str = "àáâãäåèéêëìíîïòóôõöùúûüýšžčěřñç";
    const SYM: &str = "±§¶©®™°¤¢£¥×÷¬¦«»†‡•…‰€→←↑↓∑∏√∞≈≠≤≥■□▲▼◆○●★☆♠♣♥♦";
    const PUNCT: &str = "!?.,;:-()[]{}'\"/\\¡¿‐–—‘’“”„";
    const CJK: &str = "我能吞下玻璃而不伤身体视野无限广窗外有蓝天丅丄丅丄的一是在不了有和人这中大为上个国";
    const KANA: &str = "あいうえおかきくけこアイウエオカキクケコ";
    const HANGUL: &str = "가나다라마바사아자차카타파하";
    const CYR: &str = "абвгдежзийклмнопрстуфхцчшщъыьэюяАБВГДЕЖЗ";
    const GREEK: &str = "αβγδεζηθικλμνξοπρστυφχψωΑΒΓΔ";
    const THAI: &str = "กขฃคฅฆงจฉชซฌญฎฏฐฑฒณดตถทธน";
    const ARAB: &str = "ابتثجحخدذرزسشصضطظعغفقكلمنهوي";
    const CTRL: &str = "\u{1}\u{2}\u{7}\u{1b}\u{0}\u{7f}\u{85}\u{9c}\u{1a}\u{feff}";
    const EMO: &str = "😀😂👍🏽🇫🇷✨🔥";
    const ASCII_W: &str = "the quick brown fox jumps over lazy dog HELLO World camelCaseIdentifier x86_64 <tag> a-b=c~d|e";
    let pools: [&str; 14] = [ACC_UP, ACC_LO, SYM, PUNCT, CJK, KANA, HANGUL, CYR, GREEK, THAI, ARAB, CTRL, EMO, ASCII_W];
    let n = match rng.below(5) {
        0 => rng.range(0, 12),
        1 => rng.range(12, 80),
        2 => rng.range(500, 530),
        3 => rng.range(1015, 1040),
        _ => rng.range(80, 700),
    };
    // a few pools dominate one text
    let k = rng.range(1, 4);
    let chosen: Vec<Vec<char>> = (0..k).map(|_| rng.pick(&pools).chars().collect()).collect();
    let ascii: Vec<char> = "abcdefghijklmnopqrstuvwxyzABCDEFGHIJKLMNOPQRSTUVWXYZ".chars().collect();
    let mut s = String::new();
    let mut word = 0usize;
    let wl = rng.range(2, 30);
    for _ in 0..n {
        let r = rng.below(100);
        if word >= wl && r < 60 {
            s.push(*rng.pick(&[' ', ' ', ' ', '\n', ',', '.', '\t']));
            word = 0;
            continue;
        }
        word += 1;
        if r < 35 {
            s.push(*rng.pick(&ascii));
        } else if r < 40 {
            s.push((b'0' + rng.below(10) as u8) as char);
        } else {
            let p = rng.pick(&chosen);
            s.push(*rng.pick(p));
        }
    }
    s
}

fn mojibake(rng: &mut Rng) -> String {
    // a built-in text written in one encoding and read in another (what detection feeds the plugins)
    let (_, t) = *rng.pick(TEXTS);
    let sup = supported();
    for _ in 0..20 {
        let e1 = *rng.pick(&sup);
        let e2 = *rng.pick(&sup);
        if let Some(b) = enc_bytes(t, e1) {
            if let Ok(s) = charset_normalizer_rs::utils::decode(&b, e2, encoding::DecoderTrap::Ignore, false, false) {
                if !s.is_empty() {
                    return s;
                }
            }
        }
    }
    t.to_string()
}

/// exhaustive: `is_suspiciously_successive_range` / `is_unicode_range_secondary` on every (pair of) row(s)
/// of the block table against `Model/RangeRules.lean`
pub fn run_range_rules_t3(rep: &mut Report, drv: &mut Driver) {
    let ranges = vh::unicode_ranges();
    let mut ids: Vec<Option<&'static str>> = vec![None];
    ids.extend(ranges.iter().map(|(n, _, _)| Some(*n)));
    let mut real = String::with_capacity(ids.len() * ids.len());
    for a in &ids {
        for b in &ids {
            real.push(if vh::is_suspiciously_successive_range(*a, *b) { '1' } else { '0' });
        }
    }
    let model = drv.ask("suspall");
    rep.evaluations += 1;
    rep.t3_compared += (ids.len() * ids.len()) as u64;
    rep.count_n("md:range-pair-exhaustive", (ids.len() * ids.len()) as u64);
    if model != format!("ok {}", real) {
        let m = model.strip_prefix("ok ").unwrap_or("");
        let pos = real.chars().zip(m.chars()).position(|(x, y)| x != y);
        let detail = match pos {
            Some(p) => format!("first difference at pair ({:?}, {:?})", ids[p / ids.len()], ids[p % ids.len()]),
            None => format!("lengths differ: {} vs {}", real.len(), m.len()),
        };
        rep.fail("t3", "C04:range-rules-model-disagrees", &detail, b"", None, "suspall");
    }
    let real2: String = ranges.iter().map(|(n, _, _)| if vh::is_unicode_range_secondary(n) { '1' } else { '0' }).collect();
    let model2 = drv.ask("secondaryall");
    rep.t3_compared += ranges.len() as u64;
    if model2 != format!("ok {}", real2) {
        rep.fail("t3", "C04:range-secondary-model-disagrees", "is_unicode_range_secondary differs on some row", b"", None, "secondaryall");
    }
}

/// `new_mess_detector_character` against `Model/CharFlags.lean`, from primitive Unicode facts computed here
/// with the standard library and icu_properties (not with the crate): all code points (thorough) or a
/// dense sample (quick)
pub fn run_flags_t3(rep: &mut Report, drv: &mut Driver, thorough: bool) {
    use icu_properties::{maps, sets, Script};
    let gcmap = maps::general_category();
    let scmap = maps::script();
    let (ec, em, emb, ep, ui) = (sets::emoji_component(), sets::emoji_modifier(), sets::emoji_modifier_base(), sets::emoji_presentation(), sets::unified_ideograph());
    let mut batch: Vec<(char, u32)> = vec![];
    let mut lines: Vec<String> = vec![];
    let mut n = 0u64;
    let flush = |batch: &mut Vec<(char, u32)>, lines: &mut Vec<String>, rep: &mut Report, drv: &mut Driver| {
        if batch.is_empty() {
            return;
        }
        let ans = drv.ask(&format!("flags {}", lines.join(",")));
        let got: Vec<u32> = ans.strip_prefix("ok ").map(|s| s.split(',').filter_map(|x| x.parse().ok()).collect()).unwrap_or_default();
        if got.len() != batch.len() {
            rep.fail("t3", "C04:char-flags-model-disagrees", &format!("bad answer: {}", ans.chars().take(100).collect::<String>()), b"", None, "flags");
        } else {
            for ((c, real), g) in batch.iter().zip(got.iter()) {
                if real != g {
                    rep.fail("t3", "C04:char-flags-model-disagrees", &format!("U+{:04X}: crate flags {:#x}, model {:#x}", *c as u32, real, g), c.to_string().as_bytes(), None, "flags");
                    break;
                }
            }
        }
        batch.clear();
        lines.clear();
    };
    for cp in 0u32..0x110000 {
        let c = match char::from_u32(cp) {
            Some(c) => c,
            None => continue,
        };
        if !thorough && cp >= 0x3400 && cp % 11 != 0 && !(0xFE00..0x10000).contains(&cp) && !(0x1F000..0x1FB00).contains(&cp) {
            continue;
        }
        let bits: u32 = (c.is_whitespace() as u32)
            | (c.is_numeric() as u32) << 1
            | (c.is_alphabetic() as u32) << 2
            | (c.is_lowercase() as u32) << 3
            | (c.is_uppercase() as u32) << 4
            | ((ec.contains(c) || em.contains(c) || emb.contains(c) || ep.contains(c)) as u32) << 5
            | (ui.contains(c) as u32) << 6
            | (vh::is_accentuated(c) as u32) << 7;
        let gc = gcmap.get(c) as u8;
        let sc = match scmap.get(c) {
            Script::Latin => 1,
            Script::Han => 2,
            Script::Hangul => 3,
            Script::Katakana => 4,
            Script::Hiragana => 5,
            Script::Thai => 6,
            _ => 0,
        };
        batch.push((c, vh::char_info(c).0));
        lines.push(format!("{}:{}:{}:{}", cp, bits, gc, sc));
        n += 1;
        if batch.len() == 2000 {
            flush(&mut batch, &mut lines, rep, drv);
        }
    }
    flush(&mut batch, &mut lines, rep, drv);
    rep.t3_compared += n;
    rep.count_n("md:char-flags-compared", n);
}

/// `n` texts: model vs implementation
pub fn run_mess_t3(rep: &mut Report, drv: &mut Driver, rng: &mut Rng, n: usize) {
    run_range_rules_t3(rep, drv);
    run_flags_t3(rep, drv, n > 1000);
    for i in 0..n {
        let text = match i % 8 {
            5 => long_runs_text(rng),
            7 => adjacent_blocks_text(rng),
            0 | 4 => mojibake(rng),
            1 | 6 => {
                let (_, t) = *rng.pick(TEXTS);
                let k = rng.range(1, 1500);
                stretch(rng, t, k).chars().take(k).collect()
            }
            _ => pool_text(rng),
        };
        let thr = match rng.below(8) {
            0 => 0.0f32,
            1 => 1.0,
            2 => 0.05,
            3 => 10.0,
            4 => rng.below(1000) as f32 / 1000.0,
            _ => 0.2,
        };
        let real = vh::mess_ratio_no_cache(text.clone(), Some(thr));
        let ans = drv.ask(&mess_line(&text, thr));
        rep.evaluations += 1;
        rep.t3_compared += 1;
        rep.count("md:t3");
        rep.nontrivial(fp(text.as_bytes(), &format!("mess{}", thr.to_bits())));
        let mut it = ans.split(' ');
        let (ok, bits, parts) = (it.next(), it.next(), it.next());
        let model_bits = bits.and_then(|b| b.parse::<u32>().ok());
        let real_key = if real.is_nan() { 0x7f80_0001 } else if real == 0.0 { 0 } else { real.to_bits() };
        if ok != Some("ok") || model_bits != Some(real_key) {
            rep.fail(
                "t3",
                "C04:mess-model-disagrees",
                &format!("mess_ratio(text, {}) = {} (bits {}) but model answers '{}'", thr, real, real_key, ans.chars().take(120).collect::<String>()),
                text.as_bytes(),
                None,
                "mess",
            );
            continue;
        }
        // which plugins contributed (taken from the model, whose total has just been confirmed)
        if let Some(p) = parts {
            for (k, r) in p.split(',').enumerate() {
                if r != "0" && k < 8 {
                    rep.count(&format!("md:plugin-nonzero:{}", PLUGINS[k]));
                }
            }
        }
        if real >= thr {
            rep.count("md:ratio>=threshold");
        }
        // the property's clause on the implementation itself
        rep.oracle_checked += 1;
        if !(real.is_finite() && real >= 0.0) {
            rep.fail("oracle", "C04:mess-ratio-negative-or-not-finite", &format!("mess_ratio = {}", real), text.as_bytes(), None, "mess");
        }
    }
}


/// whole detections with the mess detector, the coherence detector and the merge step computed *inside*
/// the model (`worldFull`): only facts about single characters and the CJK decoders come from the crate
pub fn run_full_detect_t3(rep: &mut Report, drv: &mut Driver, rng: &mut Rng, n: usize) {
    let corpus = corpus(20_000);
    for _ in 0..n {
        let mut r = rng.fork();
        let mut c = structured_case(&mut r, &corpus);
        if c.bytes.len() > 4000 {
            c.bytes.truncate(4000);
        }
        c.sett.trace = false;
        let real = real_detect(&c.bytes, &c.sett);
        let full = model_detect_mode(drv, &c.bytes, &c.sett, true);
        rep.evaluations += 1;
        rep.t3_compared += 1;
        rep.count("t3:whole-detection-in-full-model");
        rep.nontrivial(fp(&c.bytes, &format!("full{}", c.sett.show())));
        if real != full.outcome {
            rep.fail(
                "t3",
                "C04:full-model-detection-disagrees",
                &format!("impl: {} || full model: {}", real.show(), full.outcome.show()),
                &c.bytes,
                Some(&c.sett),
                &c.tag,
            );
        }
    }
}
