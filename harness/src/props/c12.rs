//! C12 — concurrent detections are independent.
use super::*;
use charset_normalizer_rs::verif_hooks as vh;
use std::sync::{Arc, Barrier};

pub fn run(thorough: bool, seed: u64, _replay: Option<String>) -> Report {
    let mut rep = Report::new("C12", seed);
    let mut drv = Driver::spawn();
    let mut rng = Rng::new(seed);
    let corpus = corpus(30_000);
    // pool of requests with serial reference answers
    let n_pool = if thorough { 60 } else { 24 };
    let mut pool: Vec<Case> = vec![];
    for _ in 0..n_pool {
        let mut r = rng.fork();
        let mut c = structured_case(&mut r, &corpus);
        c.sett.trace = false;
        if c.bytes.len() > 6000 {
            c.bytes.truncate(6000);
        }
        pool.push(c);
    }
    // larger legacy single-byte payloads (10-40 kB): long-running probes that overlap in time
    for (name, enc) in [("russian", "windows-1251"), ("greek", "iso-8859-7"), ("french", "iso-8859-1"), ("polish", "iso-8859-2"), ("hebrew", "windows-1255"), ("turkish", "windows-1254")] {
        let base = TEXTS.iter().find(|(n, _)| *n == name).unwrap().1;
        let k = rng.range(9_000, 30_000);
        let text = stretch(&mut rng, base, k);
        let b = enc_bytes_lossy(&text, enc);
        if !b.is_empty() {
            pool.push(Case { bytes: b, sett: Sett::default(), tag: format!("legacy-large:{}", enc) });
        }
    }
    // families: one content (messy head, clean tail: an early checkpoint of the mess detector is high)
    // requested with different thresholds by different threads
    let fam_start = pool.len();
    for f in 0..3 {
        let head: String = match f { 0 => "#+#+#+#+#+#+#+#+".repeat(1), 1 => "<<==>>||~~--__$$%%^^&&**".to_string(), _ => "\u{1}\u{2}\u{7}#+#+#+#+".to_string() };
        let body = stretch(&mut rng, TEXTS[1 + f].1, 450);
        let bytes = format!("{}{}", head, body).into_bytes();
        for thr in [0.2f32, 0.45, 0.1, 0.3] {
            let mut s = Sett::default();
            s.thr = thr;
            pool.push(Case { bytes: bytes.clone(), sett: s, tag: format!("threshold-family:{}", f) });
        }
    }
    // settings families: one content requested by different threads with different filters, language
    // thresholds, windows or switches (anything a call might park in shared state between two steps)
    let sfam_start = pool.len();
    let mut n_sfam = 0;
    for f in 0..4 {
        let (name, enc) = [("russian", "windows-1251"), ("french", "iso-8859-1"), ("greek", "utf-8"), ("polish", "iso-8859-2")][f];
        let base = TEXTS.iter().find(|(n, _)| *n == name).unwrap().1;
        // families 0/1 are tiny (a call takes microseconds, so whatever a call does before and after the probing
        // loop makes up most of it and calls of different threads interleave there), 2/3 are ordinary
        let text = if f < 2 { base.chars().take(48).collect::<String>() } else { stretch(&mut rng, base, 700 + 300 * f) };
        let bytes = enc_bytes_lossy(&text, enc);
        if bytes.is_empty() {
            continue;
        }
        let variants: Vec<Sett> = {
            let d = Sett::default();
            let mut v = vec![];
            let mut a = d.clone(); a.incl = vec![enc.to_string(), "utf-8".into()]; v.push(a);
            let mut a = d.clone(); a.excl = vec![enc.to_string(), "utf-8".into(), "ascii".into()]; v.push(a);
            let mut a = d.clone(); a.incl = vec!["koi8-r".into(), "ibm866".into(), "iso-8859-15".into(), "windows-1250".into()]; v.push(a);
            let mut a = d.clone(); a.excl = vec!["windows-1252".into(), "iso-8859-1".into()]; a.lthr = 0.5; v.push(a);
            let mut a = d.clone(); a.steps = 2; a.chunk = 64; a.fb = false; v.push(a);
            let mut a = d.clone(); a.pre = false; a.lthr = 0.01; v.push(a);
            v
        };
        for s in variants {
            pool.push(Case { bytes: bytes.clone(), sett: s, tag: format!("settings-family:{}", f) });
        }
        n_sfam += 1;
    }
    let reference: Vec<Outcome> = pool
        .iter()
        .map(|c| {
            vh::flush_caches();
            real_detect(&c.bytes, &c.sett)
        })
        .collect();
    // model agrees with the serial reference (ties the reference to the theorems' model)
    for (k, c) in pool.iter().enumerate().take(if thorough { 60 } else { 12 }) {
        let model = model_detect(&mut drv, &c.bytes, &c.sett);
        rep.t3_compared += 1;
        if model.outcome != reference[k] {
            rep.fail("t3", "C12:model-disagrees-with-serial-reference", &format!("impl: {} || model: {}", reference[k].show(), model.outcome.show()), &c.bytes, Some(&c.sett), "serial");
        }
    }
    let pool = Arc::new(pool);
    let reference = Arc::new(reference);
    let rounds = if thorough { 120 } else { 24 };
    let thread_counts = [2usize, 3, 4, 8, 16, 32, 64];
    for round in 0..rounds {
        let n = thread_counts[round % thread_counts.len()];
        // identical inputs (everyone the same request), overlapping, or all different
        let mode = round % 5;
        let base = rng.below(pool.len());
        let fam = fam_start + 4 * rng.below(3);
        let sfam = sfam_start + 6 * rng.below(n_sfam.max(1));
        let assign: Vec<usize> = (0..n)
            .map(|i| match mode {
                0 => base,
                1 => (base + i % 3) % pool.len(),
                3 => fam + i % 4,
                4 if n_sfam > 0 => sfam + i % 6,
                _ => rng.below(pool.len()),
            })
            .collect();
        vh::flush_caches(); // cold caches: everybody misses and races to fill
        let barrier = Arc::new(Barrier::new(n));
        let mut handles = vec![];
        for &k in &assign {
            let pool = pool.clone();
            let barrier = barrier.clone();
            handles.push(std::thread::spawn(move || {
                barrier.wait();
                let c = &pool[k];
                // two calls per thread: the second one runs on caches other threads are filling
                let a = real_detect(&c.bytes, &c.sett);
                let mut b = real_detect(&c.bytes, &c.sett);
                if mode == 4 {
                    // settings families: keep calling for a while so that the calls of different threads interleave
                    let reps = if c.bytes.len() < 200 { 400 } else { 12 };
                    for _ in 0..reps {
                        let x = real_detect(&c.bytes, &c.sett);
                        if x != a {
                            b = x;
                        }
                    }
                }
                (k, a, b)
            }));
        }
        for h in handles {
            rep.evaluations += 1;
            rep.oracle_checked += 1;
            match h.join() {
                Err(_) => rep.fail("oracle", "C12:thread-panicked", &format!("round {} with {} threads", round, n), &[], None, "herd"),
                Ok((k, a, b)) => {
                    rep.nontrivial(fp(&pool[k].bytes, &format!("{} r{} n{}", pool[k].sett.show(), round, n)));
                    for got in [a, b] {
                        if got != reference[k] {
                            rep.fail(
                                "oracle",
                                "C12:concurrent-answer-differs-from-serial",
                                &format!("round {} ({} threads, mode {}): {} || serial {}", round, n, mode, got.show(), reference[k].show()),
                                &pool[k].bytes,
                                Some(&pool[k].sett),
                                "herd",
                            );
                        }
                    }
                }
            }
        }
        rep.count(&format!("herd:{}-threads", n));
        rep.count(&format!("herd:mode-{}", ["identical", "overlapping", "random", "threshold-family", "settings-family"][mode]));
        // no poisoned state left behind: a serial call and a flush (which locks every cache) still work
        let ok = std::panic::catch_unwind(|| {
            vh::flush_caches();
            vh::cache_sizes()
        });
        if ok.is_err() {
            rep.fail("oracle", "C12:poisoned-state-after-herd", &format!("round {}", round), &[], None, "herd");
        }
        let k = assign[0];
        if real_detect(&pool[k].bytes, &pool[k].sett) != reference[k] {
            rep.fail("oracle", "C12:serial-call-after-herd-differs", &format!("round {}", round), &pool[k].bytes, Some(&pool[k].sett), "herd");
        }
    }
    // setting herds: one content, every thread its own language threshold (then: its own chaos threshold), many
    // repetitions each, so that calls which differ in that one setting keep overlapping – each answer compared with the
    // serial answer for that thread's setting
    {
        let texts = [("turkish", "utf-8"), ("russian", "utf-8"), ("greek", "iso-8859-7"), ("french", "windows-1252")];
        for (hr, (name, enc)) in texts.iter().enumerate() {
            if !thorough && hr >= 2 {
                break;
            }
            let base = TEXTS.iter().find(|(x, _)| x == name).map(|x| x.1).unwrap_or(TEXTS[1].1);
            let bytes = enc_bytes_lossy(&stretch(&mut rng, base, 900 + 300 * hr), enc);
            if bytes.is_empty() {
                continue;
            }
            let variants: Vec<Sett> = (0..8)
                .map(|k| {
                    let mut s = Sett::default();
                    if hr % 2 == 0 {
                        s.lthr = [0.1f32, 0.8, 0.0, 0.5, 0.3, 0.75, 0.05, 0.65][k];
                    } else {
                        s.thr = [0.2f32, 0.05, 0.5, 0.1, 0.3, 0.01, 1.0, 0.15][k];
                    }
                    s
                })
                .collect();
            let serial: Vec<Outcome> = variants.iter().map(|s| { vh::flush_caches(); real_detect(&bytes, s) }).collect();
            vh::flush_caches();
            let bytes = Arc::new(bytes);
            let variants = Arc::new(variants);
            let barrier = Arc::new(Barrier::new(8));
            let handles: Vec<_> = (0..8)
                .map(|k| {
                    let (bytes, variants, barrier) = (bytes.clone(), variants.clone(), barrier.clone());
                    std::thread::spawn(move || {
                        barrier.wait();
                        let mut wrong: Option<Outcome> = None;
                        let first = real_detect(&bytes, &variants[k]);
                        for _ in 0..60 {
                            let x = real_detect(&bytes, &variants[k]);
                            if x != first && wrong.is_none() {
                                wrong = Some(x);
                            }
                        }
                        (k, first, wrong)
                    })
                })
                .collect();
            for h in handles {
                rep.evaluations += 61;
                rep.oracle_checked += 1;
                match h.join() {
                    Err(_) => rep.fail("oracle", "C12:thread-panicked", &format!("setting herd {}", hr), &bytes, None, "setting-herd"),
                    Ok((k, first, wrong)) => {
                        for got in std::iter::once(first).chain(wrong.into_iter()) {
                            if got != serial[k] {
                                rep.fail("oracle", "C12:concurrent-answer-differs-from-serial", &format!("setting herd {} (8 threads, one content, thread {} with {}): {} || serial {}", hr, k, variants[k].show(), got.show().chars().take(300).collect::<String>(), serial[k].show().chars().take(300).collect::<String>()), &bytes, Some(&variants[k]), "setting-herd");
                            }
                        }
                    }
                }
            }
            rep.count("herd:mode-setting-herd");
        }
    }
    // heavy herds: many bytes in flight at once – every single request well below the library's size limits, their sum
    // well above them (8 × ~300 kB, 48 × ~24 kB of legacy single-byte text, every thread its own content) – compared
    // with the same requests answered one at a time
    {
        let shapes: &[(usize, usize)] = if thorough { &[(8, 300_000), (48, 24_000), (16, 140_000), (4, 600_000), (64, 17_000), (8, 300_000)] } else { &[(8, 300_000), (48, 24_000)] };
        for (hr, (n, size)) in shapes.iter().enumerate() {
            let sources = [("french", "windows-1252"), ("russian", "windows-1251"), ("greek", "iso-8859-7"), ("polish", "iso-8859-2"), ("german", "iso-8859-1"), ("turkish", "windows-1254")];
            let mut cases: Vec<Case> = vec![];
            for i in 0..*n {
                let (name, enc) = sources[(i + hr) % sources.len()];
                let base = TEXTS.iter().find(|(x, _)| *x == name).map(|x| x.1).unwrap_or(TEXTS[1].1);
                let unit = enc_bytes_lossy(&stretch(&mut rng, base, 1500 + 37 * i), enc);
                if unit.is_empty() {
                    continue;
                }
                let bytes: Vec<u8> = unit.iter().cycle().take(size + 13 * i).cloned().collect();
                cases.push(Case { bytes, sett: Sett::default(), tag: format!("heavy-herd:{}x{}", n, size) });
            }
            let serial: Vec<Outcome> = cases.iter().map(|c| real_detect(&c.bytes, &c.sett)).collect();
            let cases = Arc::new(cases);
            let barrier = Arc::new(Barrier::new(cases.len()));
            let handles: Vec<_> = (0..cases.len())
                .map(|k| {
                    let cases = cases.clone();
                    let barrier = barrier.clone();
                    std::thread::spawn(move || {
                        barrier.wait();
                        let a = real_detect(&cases[k].bytes, &cases[k].sett);
                        let b = real_detect(&cases[k].bytes, &cases[k].sett);
                        (k, a, b)
                    })
                })
                .collect();
            for h in handles {
                rep.evaluations += 1;
                rep.oracle_checked += 1;
                match h.join() {
                    Err(_) => rep.fail("oracle", "C12:thread-panicked", &format!("heavy herd {}", hr), &[], None, "heavy-herd"),
                    Ok((k, a, b)) => {
                        for got in [a, b] {
                            if got != serial[k] {
                                rep.fail("oracle", "C12:concurrent-answer-differs-from-serial", &format!("heavy herd {} ({} threads × ~{} bytes), thread {}: {} || serial {}", hr, n, size, k, got.show().chars().take(300).collect::<String>(), serial[k].show().chars().take(300).collect::<String>()), &cases[k].bytes, Some(&cases[k].sett), &cases[k].tag);
                            }
                        }
                    }
                }
            }
            rep.count("herd:mode-heavy");
        }
    }
    // first sight: everything above was answered serially once before the threads met it, so work a process does only
    // the first time it sees something (resolving a declared label, filling a table on demand) was done without
    // competition. Here every round brings a document nobody has seen – a new spelling of a declared label (case
    // pattern, alias, unknown token), new content – to all threads at once; the serial answer is computed afterwards
    {
        let labels: [(&str, &[&str]); 8] = [
            ("windows-1251", &["windows-1251", "cp1251", "x-cp1251"]),
            ("iso-8859-1", &["iso-8859-1", "latin1", "l1", "iso_8859-1", "iso8859-1"]),
            ("windows-1252", &["windows-1252", "cp1252", "x-cp1252"]),
            ("koi8-r", &["koi8-r", "koi8_r", "koi"]),
            ("iso-8859-7", &["iso-8859-7", "greek", "greek8", "iso_8859-7"]),
            ("iso-8859-2", &["iso-8859-2", "latin2", "l2"]),
            ("utf-8", &["utf-8", "utf8", "unicode-1-1-utf-8"]),
            ("shift_jis", &["shift_jis", "sjis", "ms_kanji", "x-sjis"]),
        ];
        let texts = [("russian", 0usize), ("french", 1), ("french", 2), ("russian", 3), ("greek", 4), ("polish", 5), ("greek", 6), ("japanese", 7)];
        let n_first = if thorough { 48 } else { 14 };
        for r in 0..n_first {
            let (tname, li) = texts[r % texts.len()];
            let (enc, spellings) = labels[li];
            let base = match TEXTS.iter().find(|(n, _)| *n == tname) { Some(t) => t.1, None => TEXTS[1].1 };
            let spelling = spellings[(r / texts.len()) % spellings.len()];
            // a case pattern nobody used before: bits of the round number (plus the seed) choose upper / lower
            let bits = (r as u64).wrapping_mul(0x9e37).wrapping_add(seed.wrapping_mul(77)) | 1;
            let label: String = if r % 7 == 6 {
                format!("x-unknown-{}-{}", seed, r)
            } else {
                spelling.chars().enumerate().map(|(i, c)| if (bits >> (i % 60)) & 1 == 1 { c.to_ascii_uppercase() } else { c }).collect()
            };
            let k = 200 + 37 * r;
            let body = stretch(&mut rng, base, k);
            let decl = match r % 3 { 0 => format!("<meta charset=\"{}\">\n", label), 1 => format!("<?xml version=\"1.0\" encoding=\"{}\"?>\n", label), _ => format!("# -*- coding: {} -*-\n", label) };
            let mut bytes = decl.into_bytes();
            bytes.extend(enc_bytes_lossy(&body, enc));
            let case = Arc::new(Case { bytes, sett: Sett::default(), tag: format!("first-sight:{}", label) });
            let n = [8usize, 16, 4, 32][r % 4];
            let barrier = Arc::new(Barrier::new(n));
            let handles: Vec<_> = (0..n)
                .map(|_| {
                    let case = case.clone();
                    let barrier = barrier.clone();
                    std::thread::spawn(move || {
                        barrier.wait();
                        let a = real_detect(&case.bytes, &case.sett);
                        let b = real_detect(&case.bytes, &case.sett);
                        (a, b)
                    })
                })
                .collect();
            let mut answers = vec![];
            for h in handles {
                rep.evaluations += 1;
                rep.oracle_checked += 1;
                match h.join() {
                    Err(_) => rep.fail("oracle", "C12:thread-panicked", &format!("first-sight round {} with {} threads", r, n), &case.bytes, Some(&case.sett), &case.tag),
                    Ok((a, b)) => {
                        answers.push(a);
                        answers.push(b);
                    }
                }
            }
            rep.count("herd:mode-first-sight");
            let serial = real_detect(&case.bytes, &case.sett);
            let cold = {
                let ok = std::panic::catch_unwind(|| vh::flush_caches());
                if ok.is_err() {
                    rep.fail("oracle", "C12:poisoned-state-after-herd", &format!("first-sight round {}", r), &case.bytes, Some(&case.sett), &case.tag);
                }
                real_detect(&case.bytes, &case.sett)
            };
            if let Outcome::Panic(p) = &serial {
                rep.fail("oracle", "C12:serial-call-after-herd-panics", &format!("first-sight round {} (label {}): {}", r, label, p), &case.bytes, Some(&case.sett), &case.tag);
            }
            if serial != cold {
                rep.fail("oracle", "C12:serial-call-after-herd-differs", &format!("first-sight round {}: {} || on cold caches {}", r, serial.show(), cold.show()), &case.bytes, Some(&case.sett), &case.tag);
            }
            for got in answers {
                if let Outcome::Panic(p) = &got {
                    rep.fail("oracle", "C12:concurrent-call-panicked", &format!("first-sight round {} ({} threads, label {}): {}", r, n, label, p), &case.bytes, Some(&case.sett), &case.tag);
                } else if got != cold {
                    rep.fail("oracle", "C12:concurrent-answer-differs-from-serial", &format!("first-sight round {} ({} threads): {} || serial {}", r, n, got.show(), cold.show()), &case.bytes, Some(&case.sett), &case.tag);
                }
            }
        }
    }
    rep.sample(format!("{} rounds, thread counts {:?}, pool {} requests, cold caches each round, 2 calls per thread", rounds, thread_counts, pool.len()));
    rep.sample(format!("e.g. {} len={} -> {}", pool[0].sett.show(), pool[0].bytes.len(), reference[0].show().chars().take(100).collect::<String>()));
    rep.model_rounds = drv.requests;
    rep
}
