//! C14 — detecting from a path equals detecting from the file's bytes.
use super::*;
use std::path::PathBuf;

fn real_from_path(p: &std::path::Path, s: &Sett) -> Outcome {
    let r = std::panic::catch_unwind(std::panic::AssertUnwindSafe(|| charset_normalizer_rs::from_path(p, Some(s.to_real()))));
    match r {
        Err(e) => Outcome::Panic(panic_msg(e)),
        Ok(Err(e)) => {
            if e.starts_with("Error opening file") {
                Outcome::Err("io open".into())
            } else if e.starts_with("Error reading from file") {
                Outcome::Err("io read".into())
            } else {
                Outcome::Err(canon_err(&e, s))
            }
        }
        Ok(Ok(ms)) => Outcome::Ok(canon_matches(&ms)),
    }
}

pub fn run(thorough: bool, seed: u64, _replay: Option<String>) -> Report {
    let mut rep = Report::new("C14", seed);
    let mut drv = Driver::spawn();
    let mut rng = Rng::new(seed);
    let dir: PathBuf = std::env::temp_dir().join(format!("verif-c14-{}-{}", std::process::id(), seed));
    let _ = std::fs::remove_dir_all(&dir);
    std::fs::create_dir_all(&dir).expect("temp dir");
    let corpus = corpus(if thorough { 400_000 } else { 60_000 });
    let n = if thorough { 1200 } else { 150 };
    let mut contents: Vec<(Vec<u8>, Sett, String)> = vec![];
    contents.push((vec![], Sett::default(), "empty".into()));
    // empty and one-byte files under settings that name an unknown encoding (include / exclude): the same error as for the bytes
    for (k, b) in [vec![], vec![b'a'], vec![]].into_iter().enumerate() {
        let mut s = Sett::default();
        if k % 2 == 0 {
            s.incl = vec!["utf-8".into(), "not-a-code-page".into()];
        } else {
            s.excl = vec!["klingon-8".into()];
        }
        if k == 2 {
            s.incl = vec![];
            s.excl = vec!["utf-8".into(), "ascii".into()];
        }
        contents.push((b, s, format!("tiny-unknown-or-excluding-filter:{}", k)));
    }
    contents.push((vec![b'a'], Sett::default(), "one-byte".into()));
    for len in [999_999usize, 1_000_000, 1_000_001, 500_000, 500_001] {
        if !thorough && len != 1_000_001 {
            continue;
        }
        let mut b: Vec<u8> = std::iter::repeat(*b"The quick brown fox. ").take(len / 21 + 1).flatten().collect();
        b.truncate(len);
        let mut s = Sett::default();
        s.incl = vec!["ascii".into(), "utf-8".into(), "windows-1252".into()];
        contents.push((b, s, format!("size-{}", len)));
    }
    // files well beyond every internal limit (1,000,000 / 500,000 and sums of them): head ASCII, tail UTF-8
    for len in [1_500_001usize, 2_100_000, 4_200_000] {
        let mut b: Vec<u8> = std::iter::repeat(*b"The quick brown fox jumps over the lazy dog. ").take(len / 45 + 1).flatten().collect();
        b.truncate(len - 40);
        b.extend_from_slice("…fin: déjà vu, naïve café, Ünïcödé at the very end".as_bytes());
        contents.push((b, Sett::default(), format!("size-{}-utf8-tail", len)));
    }
    // sizes that are exact multiples of common block sizes (a reader that works in blocks must not lose the last one)
    for (k, len) in [4096usize, 8192, 32768, 65536, 131072, 196608, 262144, 1 << 20].iter().enumerate() {
        if !thorough && ![65536usize, 131072, 8192].contains(len) {
            continue;
        }
        let unit: &[u8] = if k % 2 == 0 { b"Block after block of plain text, line by line.\n" } else { "Bl\u{f6}cke \u{fc}ber Bl\u{f6}cke, Zeile f\u{fc}r Zeile.\n".as_bytes() };
        let b: Vec<u8> = unit.iter().cycle().take(*len).cloned().collect();
        let mut s = Sett::default();
        if *len > 300_000 {
            s.incl = vec!["ascii".into(), "utf-8".into(), "windows-1252".into()];
        }
        contents.push((b, s, format!("size-multiple-of-block:{}", len)));
    }
    // files beyond the limits whose *head* is unusual – NUL-separated listings, control characters, UTF-16 without a mark,
    // a head that looks nothing like the rest – with valid and with unknown filter names: whatever a reader might
    // conclude from peeking at the first block must be what the whole content gives
    {
        let line = b"usr/share/doc/package/changelog.gz\0usr/share/doc/package/copyright\0usr/bin/tool\0";
        let mut nul_listing: Vec<u8> = line.iter().cycle().take(1_000_300).cloned().collect();
        nul_listing[5] = 0;
        contents.push((nul_listing.clone(), Sett::default(), "size-1000300-nul-separated".into()));
        let mut s_bad = Sett::default();
        s_bad.incl = vec!["no-such-charset".into()];
        contents.push((nul_listing.clone(), s_bad, "size-1000300-nul-separated-unknown-filter".into()));
        let mut ctrl: Vec<u8> = (0..4096u32).map(|i| (i % 32) as u8).collect();
        ctrl.extend(std::iter::repeat(*b"plain text after a block of control characters. ").take(21_000).flatten());
        contents.push((ctrl, Sett::default(), "size-1MB-control-head".into()));
        if thorough {
            let text = "The quick brown fox jumps over the lazy dog. ".repeat(12_000);
            let utf16: Vec<u8> = text.encode_utf16().flat_map(|u| u.to_le_bytes()).collect();
            contents.push((utf16, Sett::default(), "size-1MB-utf16le-no-mark".into()));
            let mut bin_head: Vec<u8> = (0..4096u32).map(|i| (i.wrapping_mul(97) % 256) as u8).collect();
            bin_head.extend(std::iter::repeat(*b"and then ordinary prose for more than a million bytes. ").take(19_000).flatten());
            contents.push((bin_head, Sett::default(), "size-1MB-binary-head".into()));
            let mut small_nul = nul_listing.clone();
            small_nul.truncate(999_999);
            contents.push((small_nul, Sett::default(), "size-999999-nul-separated".into()));
        }
    }
    for _ in 0..n {
        let mut r = rng.fork();
        let c = structured_case(&mut r, &corpus);
        contents.push((c.bytes, c.sett, c.tag));
    }
    for (i, (bytes, s, tag)) in contents.iter().enumerate() {
        let p = dir.join(format!("f{}.bin", i));
        std::fs::write(&p, bytes).expect("write temp file");
        // the same file reached in different ways: directly, through symbolic links (absolute, relative,
        // chained, with a long target name), through a hard link, through a path with `..` components
        let sub = dir.join("sub");
        let _ = std::fs::create_dir_all(&sub);
        let access = i % 6;
        let p_access: PathBuf = match access {
            1 => { let l = dir.join(format!("abs-link-{}", i)); let _ = std::os::unix::fs::symlink(&p, &l); l }
            2 => { let l = sub.join(format!("rel-link-{}", i)); let _ = std::os::unix::fs::symlink(PathBuf::from("..").join(format!("f{}.bin", i)), &l); l }
            3 => {
                let l1 = dir.join(format!("chain-a-{}", i));
                let l2 = dir.join(format!("chain-b-{}-with-a-rather-long-name-{}", i, "x".repeat(i % 97)));
                let _ = std::os::unix::fs::symlink(&p, &l1);
                let _ = std::os::unix::fs::symlink(&l1, &l2);
                l2
            }
            4 => { let l = dir.join(format!("hard-{}", i)); let _ = std::fs::hard_link(&p, &l); l }
            5 => sub.join("..").join("sub").join("..").join(format!("f{}.bin", i)),
            _ => p.clone(),
        };
        rep.count(&format!("access:{}", ["direct", "symlink-abs", "symlink-rel", "symlink-chain", "hardlink", "dotdot"][access]));
        let via_path = real_from_path(&p_access, s);
        if access != 0 {
            let direct = real_from_path(&p, s);
            rep.evaluations += 1;
            if direct != via_path {
                rep.fail("oracle", "C14:path-result-depends-on-how-the-file-is-reached", &format!("via {}: {} || direct: {}", p_access.display(), via_path.show(), direct.show()), bytes, Some(s), tag);
            }
            let _ = std::fs::remove_file(&p_access);
        }
        let via_bytes = real_detect(bytes, s);
        rep.evaluations += 1;
        rep.oracle_checked += 1;
        rep.nontrivial(fp(bytes, &s.show()));
        rep.count(&format!("file:{}", if bytes.is_empty() { "empty" } else if bytes.len() > 1_000_000 { ">1MB" } else { "regular" }));
        if via_path != via_bytes {
            rep.fail("oracle", "C14:path-result-differs-from-bytes-result", &format!("from_path: {} || from_bytes: {}", via_path.show(), via_bytes.show()), bytes, Some(s), tag);
        }
        // T3: the model of from_path on a file node = model of from_bytes on its content
        if bytes.len() < 200_000 && (thorough || i % 2 == 0) {
            let model = model_detect(&mut drv, bytes, s);
            rep.t3_compared += 1;
            if model.outcome != via_path {
                rep.fail("t3", "C14:model-disagrees", &format!("from_path: {} || model: {}", via_path.show(), model.outcome.show()), bytes, Some(s), tag);
            }
        }
        let _ = std::fs::remove_file(&p);
        if rep.samples.len() < 3 {
            rep.sample(format!("file {} ({} bytes) -> {}", tag, bytes.len(), via_path.show().chars().take(100).collect::<String>()));
        }
    }
    // the same path rewritten in place with other content of the same length (same second, same size): what the path
    // answers is what the file holds *now*
    {
        let p = dir.join("rewritten.txt");
        let versions: Vec<Vec<u8>> = vec![
            b"plain ascii text of a certain length, nothing special....".to_vec(),
            "d\u{e9}j\u{e0} vu: na\u{ef}ve caf\u{e9} cr\u{e8}me br\u{fb}l\u{e9}e, no\u{eb}l".as_bytes().to_vec(),
            enc_bytes_lossy("\u{41f}\u{440}\u{438}\u{432}\u{435}\u{442}, \u{43c}\u{438}\u{440}! \u{42d}\u{442}\u{43e} \u{43f}\u{440}\u{43e}\u{432}\u{435}\u{440}\u{43a}\u{430} \u{43a}\u{43e}\u{434}\u{438}\u{440}\u{43e}\u{432}\u{43a}\u{438} \u{442}\u{435}\u{43a}\u{441}\u{442}\u{430}.", "windows-1251"),
        ];
        let len = versions.iter().map(|v| v.len()).min().unwrap_or(0);
        let s0 = Sett::default();
        for round in 0..(if thorough { 12 } else { 6 }) {
            let mut v = versions[round % versions.len()].clone();
            v.truncate(len);
            std::fs::write(&p, &v).expect("rewrite temp file");
            let via_path = real_from_path(&p, &s0);
            let via_bytes = real_detect(&v, &s0);
            rep.evaluations += 1;
            rep.oracle_checked += 1;
            rep.count("history:rewritten-in-place");
            if via_path != via_bytes {
                rep.fail("oracle", "C14:path-answers-for-earlier-content", &format!("round {}: from_path: {} || from_bytes(current content): {}", round, via_path.show(), via_bytes.show()), &v, Some(&s0), "rewritten-in-place");
            }
        }
        let _ = std::fs::remove_file(&p);
    }
    // fault kinds
    let s = Sett::default();
    let mut fault = |rep: &mut Report, kind: &str, p: &std::path::Path, want: &str| {
        rep.evaluations += 1;
        rep.oracle_checked += 1;
        rep.nontrivial(fp(kind.as_bytes(), "fault"));
        rep.count(&format!("fault:{}", kind));
        let got = real_from_path(p, &s);
        let ok = matches!(&got, Outcome::Err(e) if e == want || want == "io any" && e.starts_with("io "));
        if !ok {
            rep.fail("oracle", "C14:fault-not-reported-as-error", &format!("{}: expected a returned I/O error ({}) but got {}", kind, want, got.show()), kind.as_bytes(), Some(&s), kind);
        }
    };
    fault(&mut rep, "nonexistent", &dir.join("does-not-exist"), "io open");
    fault(&mut rep, "directory", &dir, "io read");
    let dangling = dir.join("dangling");
    let _ = std::os::unix::fs::symlink(dir.join("nowhere"), &dangling);
    fault(&mut rep, "dangling-symlink", &dangling, "io open");
    let regular = dir.join("regular");
    std::fs::write(&regular, b"x").unwrap();
    fault(&mut rep, "not-a-directory", &regular.join("child"), "io open");
    // symlink to a readable file behaves like the file
    let link = dir.join("link");
    let _ = std::os::unix::fs::symlink(&regular, &link);
    if real_from_path(&link, &s) != real_detect(b"x", &s) {
        rep.fail("oracle", "C14:symlink-differs", "symlink to a regular file", b"x", Some(&s), "symlink");
    }
    // permission denied: only meaningful when not running as root
    {
        use std::os::unix::fs::PermissionsExt;
        let secret = dir.join("secret");
        std::fs::write(&secret, b"top secret text").unwrap();
        let _ = std::fs::set_permissions(&secret, std::fs::Permissions::from_mode(0o000));
        if std::fs::File::open(&secret).is_err() {
            fault(&mut rep, "permission-denied", &secret, "io open");
        } else {
            rep.notes.push("permission-denied could not be produced (running as root: chmod 000 does not deny); fault kind not exercised in this run".into());
        }
        let _ = std::fs::set_permissions(&secret, std::fs::Permissions::from_mode(0o600));
    }
    let _ = std::fs::remove_dir_all(&dir);
    // files whose metadata reports a size of 0 although reading them yields content (procfs): the result is that of the
    // bytes read, not of "an empty file" (skipped where /proc is not available; only files with stable content)
    for p in ["/proc/version", "/proc/filesystems", "/proc/sys/kernel/ostype"] {
        let path = std::path::Path::new(p);
        if let (Ok(a), Ok(b)) = (std::fs::read(path), std::fs::read(path)) {
            if a != b || a.is_empty() {
                continue;
            }
            let s = Sett::default();
            let via_path = real_from_path(path, &s);
            let via_bytes = real_detect(&a, &s);
            rep.evaluations += 1;
            rep.oracle_checked += 1;
            rep.count("file:reports-size-zero");
            if via_path != via_bytes {
                rep.fail("oracle", "C14:path-result-differs-from-bytes-result", &format!("{} (metadata reports {} bytes, reading yields {}): from_path: {} || from_bytes: {}", p, std::fs::metadata(path).map(|m| m.len()).unwrap_or(0), a.len(), via_path.show(), via_bytes.show()), &a, Some(&s), "procfs");
            }
        }
    }
    rep.model_rounds = drv.requests;
    rep
}
