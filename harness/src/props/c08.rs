//! C08 — ranking: a candidate preferred over all others comes first.
use super::*;
use charset_normalizer_rs::entity::{CharsetMatch, CharsetMatches};
use charset_normalizer_rs::verif_hooks as vh;
use std::cmp::Ordering;

/// same size class as `CharsetMatch` (128 bytes): takes std's Hoare partition + 16-element small sort
#[derive(Clone)]
struct Big {
    id: usize,
    _pad: [u64; 15],
}

/// the documented pairwise rule, written independently of `impl Ord for CharsetMatch`
fn preferred(a: &CharsetMatch, b: &CharsetMatch) -> bool {
    let (ca, cb) = (a.chaos(), b.chaos());
    if (ca - cb).abs() < 0.01 {
        let (ha, hb) = (a.coherence(), b.coherence());
        if (ha - hb).abs() > 0.02 {
            return ha > hb;
        }
        let (ma, mb) = (a.multi_byte_usage(), b.multi_byte_usage());
        if (ma - mb).abs() > f32::EPSILON {
            return ma > mb;
        }
    }
    ca < cb
}

fn english() -> &'static charset_normalizer_rs::entity::Language {
    lang_by_name("English").unwrap()
}

fn check_order(rep: &mut Report, ms: &CharsetMatches, what: &str, bytes: &[u8], sett: Option<&Sett>) {
    rep.oracle_checked += 1;
    let items: Vec<&CharsetMatch> = ms.iter().collect();
    let n = items.len();
    rep.count(&format!("oracle:list-len-{}", if n > 20 { ">20".to_string() } else if n > 1 { "2..20".to_string() } else { n.to_string() }));
    match (ms.get_best(), items.first()) {
        (None, None) => {}
        (Some(a), Some(b)) if std::ptr::eq(a, *b) => {}
        _ => rep.fail("oracle", "C08:get-best-is-not-first", what, bytes, sett, what),
    }
    if n < 2 {
        return;
    }
    for (i, w) in items.iter().enumerate() {
        let wins = items.iter().enumerate().all(|(j, y)| i == j || (preferred(w, y) && !preferred(y, w)));
        if wins {
            rep.count("oracle:winner-exists");
            if i != 0 {
                rep.fail("oracle", "C08:winner-not-first", &format!("{}: preferred-to-all match {} is at position {} of {}", what, w.encoding(), i, n), bytes, sett, what);
            }
        }
        let loses = items.iter().enumerate().all(|(j, y)| i == j || (preferred(y, w) && !preferred(w, y)));
        if loses {
            rep.count("oracle:loser-exists");
            if i != n - 1 {
                rep.fail("oracle", "C08:loser-not-last", &format!("{}: match {} every other is preferred to is at position {} of {}", what, w.encoding(), i, n), bytes, sett, what);
            }
        }
    }
}

pub fn run(thorough: bool, seed: u64, _replay: Option<String>) -> Report {
    let mut rep = Report::new("C08", seed);
    let mut drv = Driver::spawn();
    let mut rng = Rng::new(seed);
    // ---- (1) std's sort_unstable on a 128-byte type vs the Lean sort model, exact permutations
    assert_eq!(std::mem::size_of::<Big>(), 128);
    assert_eq!(std::mem::size_of::<CharsetMatch>(), 128, "CharsetMatch changed size: the sort model's partition/small-sort choice must be revisited");
    let n_sort = if thorough { 6000 } else { 700 };
    for k in 0..n_sort {
        let n = match k % 10 {
            0 => rng.range(0, 3),
            1..=3 => rng.range(2, 20),
            4 => 20,
            5 => 21,
            6 | 7 => rng.range(21, 45),
            8 => rng.range(45, 70),
            _ => rng.range(60, 140),
        };
        // outcome matrix: total order / tournament with cycles / random / many ties / adversarial (forces heapsort)
        let kind = rng.below(6);
        let perm: Vec<usize> = {
            let mut p: Vec<usize> = (0..n).collect();
            for i in (1..n).rev() {
                p.swap(i, rng.below(i + 1));
            }
            p
        };
        let mut m = vec![vec![false; n]; n];
        for i in 0..n {
            for j in 0..n {
                if i == j {
                    continue;
                }
                m[i][j] = match kind {
                    0 => perm[i] < perm[j],
                    1 => perm[i] / 3 < perm[j] / 3, // ties
                    2 => rng.chance(1, 2),
                    3 => (perm[i] < perm[j]) ^ rng.chance(1, 10),
                    4 => i < j && rng.chance(9, 10) || i > j && rng.chance(1, 10),
                    _ => (perm[i] + 1) % n.max(1) == perm[j] || (perm[i] < perm[j] && rng.chance(1, 3)),
                };
            }
        }
        let mut v: Vec<Big> = (0..n).map(|id| Big { id, _pad: [0; 15] }).collect();
        let mm = m.clone();
        let r = std::panic::catch_unwind(std::panic::AssertUnwindSafe(|| {
            v.sort_unstable_by(|a, b| if mm[a.id][b.id] { Ordering::Less } else if mm[b.id][a.id] { Ordering::Greater } else { Ordering::Equal });
            v.iter().map(|x| x.id.to_string()).collect::<Vec<_>>().join(" ")
        }));
        let real = match r {
            Ok(s) => s,
            Err(_) => "panic".to_string(),
        };
        // is_less(a,b) := compare(a,b) == Less
        let bits: String = (0..n).flat_map(|i| (0..n).map(move |j| (i, j))).map(|(i, j)| if m[i][j] { '1' } else { '0' }).collect();
        let model = drv.ask(&format!("sort {} {}", n, if bits.is_empty() { "-".to_string() } else { bits.clone() }));
        rep.evaluations += 1;
        rep.t3_compared += 1;
        rep.nontrivial(fp(bits.as_bytes(), "sort"));
        rep.count(&format!("sort:n{}", if n <= 20 { "<=20" } else if n < 64 { "21..63" } else { ">=64" }));
        if model.trim_end() != format!("ok {}", real).trim_end() {
            rep.fail("t3", "C08:sort-model-disagrees", &format!("n={} kind={} std: {} || model: {}", n, kind, real, model), bits.as_bytes(), None, "sort");
        }
        if rep.samples.is_empty() && n > 20 {
            rep.sample(format!("sort n={} kind={} -> {}", n, kind, real));
        }
    }
    // ---- (2) cmp on values around the 0.01 / 0.02 / EPSILON boundaries
    let n_cmp = if thorough { 20000 } else { 3000 };
    let near = |rng: &mut Rng, base: f32, d: f32| -> f32 {
        let x = base + d;
        let bits = x.to_bits() as i64 + rng.range(0, 6) as i64 - 3;
        f32::from_bits(bits.max(0) as u32)
    };
    for _ in 0..n_cmp {
        let ca = rng.below(1000) as f32 / 1000.0;
        let cb = match rng.below(4) {
            0 => near(&mut rng, ca, 0.01),
            1 => near(&mut rng, ca, -0.01).max(0.0),
            2 => ca,
            _ => rng.below(1000) as f32 / 1000.0,
        };
        let ha = rng.below(1000) as f32 / 1000.0;
        let hb = match rng.below(4) {
            0 => near(&mut rng, ha, 0.02),
            1 => near(&mut rng, ha, -0.02).max(0.0),
            2 => ha,
            _ => rng.below(1000) as f32 / 1000.0,
        };
        let la = rng.range(1, 400);
        let ta = rng.range(0, la);
        let (lb, tb) = match rng.below(3) {
            0 => (la, ta),
            1 => (la, (ta + 1).min(la)),
            _ => {
                let l = rng.range(1, 400);
                (l, rng.range(0, l))
            }
        };
        let mk = |c: f32, h: f32, t: usize, l: usize| {
            let coh: Vec<(&'static charset_normalizer_rs::entity::Language, f32)> = if h == 0.0 { vec![] } else { vec![(english(), h)] };
            vh::new_match(vec![0u8; l], "utf-8", c, false, &coh, Some(&"a".repeat(t)))
        };
        let (a, b) = (mk(ca, ha, ta, la), mk(cb, hb, tb, lb));
        let real = match a.cmp(&b) {
            Ordering::Less => "lt",
            Ordering::Equal => "eq",
            Ordering::Greater => "gt",
        };
        let model = drv.ask(&format!("cmp {} {} {} {} {} {} {} {}", fbits(ca), fbits(ha), ta, la, fbits(cb), fbits(hb), tb, lb));
        rep.evaluations += 1;
        rep.t3_compared += 1;
        rep.nontrivial(fp(&[], &format!("{} {} {} {} {} {} {} {}", ca, ha, ta, la, cb, hb, tb, lb)));
        rep.count(&format!("cmp:{}", real));
        if model != format!("ok {}", real) {
            rep.fail("t3", "C08:cmp-model-disagrees", &format!("a=({},{},{}/{}) b=({},{},{}/{}) real {} model {}", ca, ha, ta, la, cb, hb, tb, lb, real, model), &[], None, "cmp");
        }
        // oracle: is_less agrees with the documented rule
        rep.oracle_checked += 1;
        if (real == "lt") != preferred(&a, &b) {
            rep.fail("oracle", "C08:cmp-differs-from-documented-rule", &format!("a=({},{},{}/{}) b=({},{},{}/{}) cmp={} preferred={}", ca, ha, ta, la, cb, hb, tb, lb, real, preferred(&a, &b)), &[], None, "cmp");
        }
    }
    // ---- (3) container histories through the public API
    let n_hist = if thorough { 3000 } else { 400 };
    let texts = ["alpha", "beta", "gamma", "delta", "epsilon", "zeta"];
    for _ in 0..n_hist {
        let n = match rng.below(5) {
            0 => rng.range(1, 4),
            1 | 2 => rng.range(3, 20),
            3 => rng.range(19, 23),
            _ => rng.range(22, 41),
        };
        let nfirst = rng.range(0, n);
        let chaos_pool: Vec<f32> = (0..rng.range(1, 6)).map(|_| rng.below(300) as f32 / 1000.0).collect();
        let mut items = vec![];
        let sup = supported();
        for i in 0..n {
            let c = *rng.pick(&chaos_pool) + if rng.chance(1, 4) { 0.0099 } else { 0.0 };
            let h = if rng.chance(1, 4) { 0.0 } else { rng.below(1000) as f32 / 1000.0 };
            let t = *rng.pick(&texts);
            let l = rng.range(t.len(), t.len() + 6);
            items.push((sup[i % sup.len()].to_string(), c, h, t.to_string(), l));
        }
        // the same candidate (encoding and text) arriving again with other scores – results of several detections of
        // one input pooled in one container: in the middle of the history and, every fourth time, as its last step
        if n >= 2 {
            let dups = if rng.chance(1, 3) { rng.range(1, 3) } else { 0 };
            for _ in 0..dups {
                let src = rng.below(n);
                let dst = rng.below(n);
                if src != dst {
                    items[dst].0 = items[src].0.clone();
                    if rng.chance(2, 3) {
                        items[dst].3 = items[src].3.clone();
                        items[dst].4 = items[src].4;
                    }
                }
            }
            if rng.chance(1, 4) {
                let src = rng.below(n - 1);
                let last = n - 1;
                items[last].0 = items[src].0.clone();
                items[last].3 = items[src].3.clone();
                items[last].4 = items[src].4;
                if rng.chance(1, 2) {
                    items[last].1 = items[src].1; // same chaos, other coherence
                }
            }
        }
        let build = |it: &(String, f32, f32, String, usize)| {
            let coh: Vec<(&'static charset_normalizer_rs::entity::Language, f32)> = if it.2 == 0.0 { vec![] } else { vec![(english(), it.2)] };
            vh::new_match(vec![0u8; it.4], &it.0, it.1, false, &coh, Some(&it.3))
        };
        let req = format!(
            "container 1000000 {} {}",
            nfirst,
            items.iter().map(|it| format!("{}|{}|{}|{}|{}", it.0, fbits(it.1), fbits(it.2), text_hex(&it.3), it.4)).collect::<Vec<_>>().join(" ")
        );
        let mut c = CharsetMatches::new(Some(items[..nfirst].iter().map(build).collect()));
        for it in &items[nfirst..] {
            c.append(build(it));
            // the ranking guarantee holds after every step of the history, not only at its end
            check_order(&mut rep, &c, "container-history-step", req.as_bytes(), None);
        }
        let real = c
            .iter()
            .map(|m| format!("{}[{}]", m.encoding(), m.submatch().iter().map(|s| s.encoding().to_string()).collect::<Vec<_>>().join(",")))
            .collect::<Vec<_>>()
            .join(" ");
        let model = drv.ask(&req);
        rep.evaluations += 1;
        rep.t3_compared += 1;
        rep.nontrivial(fp(req.as_bytes(), "container"));
        if model.trim_end() != format!("ok {}", real).trim_end() {
            rep.fail("t3", "C08:container-model-disagrees", &format!("real: {} || model: {}", real, model), req.as_bytes(), None, "container");
        }
        check_order(&mut rep, &c, "container-history", req.as_bytes(), None);
        if rep.samples.len() < 3 {
            rep.sample(format!("history new({})+{} appends -> {}", nfirst, n - nfirst, real));
        }
    }
    // ---- (3b) payloads above TOO_BIG_SEQUENCE: no merging, but still re-sorted on every insertion
    let n_big = if thorough { 12 } else { 3 };
    for k in 0..n_big {
        let n = rng.range(2, 6);
        let nfirst = if k % 2 == 0 { 0 } else { rng.range(0, n) };
        let sup = supported();
        let mut items = vec![];
        for i in 0..n {
            let c = (n - i) as f32 * 0.03 + if rng.chance(1, 3) { 0.0 } else { 0.001 };
            let h = rng.below(1000) as f32 / 1000.0;
            items.push((sup[(i + 7) % sup.len()].to_string(), c, h, "same text".to_string(), 1_000_001usize));
        }
        let build = |it: &(String, f32, f32, String, usize)| {
            let coh: Vec<(&'static charset_normalizer_rs::entity::Language, f32)> = vec![(english(), it.2)];
            vh::new_match(vec![0u8; it.4], &it.0, it.1, false, &coh, Some(&it.3))
        };
        let mut c = CharsetMatches::new(Some(items[..nfirst].iter().map(build).collect()));
        for it in &items[nfirst..] {
            c.append(build(it));
        }
        let real = c
            .iter()
            .map(|m| format!("{}[{}]", m.encoding(), m.submatch().iter().map(|s| s.encoding().to_string()).collect::<Vec<_>>().join(",")))
            .collect::<Vec<_>>()
            .join(" ");
        let req = format!(
            "container 1000000 {} {}",
            nfirst,
            items.iter().map(|it| format!("{}|{}|{}|{}|{}", it.0, fbits(it.1), fbits(it.2), text_hex(&it.3), it.4)).collect::<Vec<_>>().join(" ")
        );
        let model = drv.ask(&req);
        rep.evaluations += 1;
        rep.t3_compared += 1;
        rep.nontrivial(fp(req.as_bytes(), "container-big"));
        rep.count("container:payload>1MB");
        if model.trim_end() != format!("ok {}", real).trim_end() {
            rep.fail("t3", "C08:container-model-disagrees", &format!("(payload > 1 MB) real: {} || model: {}", real, model), req.as_bytes(), None, "container-big");
        }
        check_order(&mut rep, &c, "container-history-big-payload", req.as_bytes(), None);
    }
    // ---- (3c) a real >1 MB legacy single-byte input (30+ matches, no merging): oracle on the implementation
    {
        let base = TEXTS.iter().find(|(n, _)| *n == "russian").unwrap().1;
        let unit = enc_bytes(base, "windows-1251").unwrap();
        let mut b: Vec<u8> = Vec::with_capacity(1_100_000);
        while b.len() < 1_050_000 {
            b.extend_from_slice(&unit);
            b.push(b' ');
        }
        let s = Sett::default();
        if let Ok(Ok(ms)) = real_detect_raw(&b, &s) {
            rep.evaluations += 1;
            rep.count("detection:>1MB");
            check_order(&mut rep, &ms, "detection-large", &b, Some(&s));
            if thorough {
                let model = model_detect(&mut drv, &b, &s);
                rep.t3_compared += 1;
                let order = |o: &Outcome| match o {
                    Outcome::Ok(v) => v.iter().map(|m| m.enc.clone()).collect::<Vec<_>>().join(" "),
                    other => other.show(),
                };
                let real = Outcome::Ok(canon_matches(&ms));
                if order(&real) != order(&model.outcome) {
                    rep.fail("t3", "C08:detection-order-model-disagrees", &format!("real: {} || model: {}", order(&real), order(&model.outcome)), &b, Some(&s), "large");
                }
            }
        }
    }
    // ---- (4) result lists detection really produces (incl. > 20 matches: threshold 1, many code pages)
    let corpus = corpus(60_000);
    let n_det = if thorough { 600 } else { 60 };
    for i in 0..n_det {
        let mut r = rng.fork();
        let mut case = structured_case(&mut r, &corpus);
        case.sett.incl.clear();
        case.sett.excl.clear();
        if i % 2 == 0 {
            case.sett.thr = 1.0;
            // bytes that decode differently in every single-byte code page
            let k = r.range(30, 300);
            case.bytes = (0..k).map(|_| if r.chance(1, 3) { 0x80 + r.below(0x7f) as u8 } else { b'a' + r.below(26) as u8 }).collect();
            case.tag = "many-code-pages".into();
        }
        if let Ok(Ok(ms)) = real_detect_raw(&case.bytes, &case.sett) {
            rep.evaluations += 1;
            rep.nontrivial(fp(&case.bytes, &case.sett.show()));
            check_order(&mut rep, &ms, "detection", &case.bytes, Some(&case.sett));
            // and the model produces the same order
            let model = model_detect(&mut drv, &case.bytes, &case.sett);
            rep.t3_compared += 1;
            let order = |o: &Outcome| match o {
                Outcome::Ok(v) => v.iter().map(|m| m.enc.clone()).collect::<Vec<_>>().join(" "),
                other => other.show(),
            };
            let real = Outcome::Ok(canon_matches(&ms));
            if order(&real) != order(&model.outcome) {
                rep.fail("t3", "C08:detection-order-model-disagrees", &format!("real: {} || model: {}", order(&real), order(&model.outcome)), &case.bytes, Some(&case.sett), &case.tag);
            }
        }
    }
    rep.model_rounds = drv.requests;
    rep
}
