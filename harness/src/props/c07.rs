//! C07 — BOM/signature flag is truthful; UTF-16 only with its BOM.
use super::c01::direct_decode;
use super::*;

pub struct C07;

impl DetectProp for C07 {
    fn id(&self) -> &'static str {
        "C07"
    }
    fn directed(&self, thorough: bool) -> Vec<Case> {
        large_unicode_cases(thorough)
    }
    fn slice(&self, o: &Outcome) -> String {
        match o {
            Outcome::Ok(v) => format!("ok {}", sorted_join(v.iter().map(|m| format!("{}:{}:{:?}:{}", m.enc, m.bom, m.text, m.subs.join(","))).collect())),
            other => other.show(),
        }
    }
    fn gen(&self, rng: &mut Rng, corpus: &[(String, Vec<u8>)], idx: usize) -> Case {
        let mut c = structured_case(rng, corpus);
        if idx % 2 == 0 {
            // force a mark situation
            let (e, m) = *rng.pick(MARKS);
            let body: Vec<u8> = match rng.below(6) {
                0 => vec![],
                1 => m.to_vec(), // doubled
                2 => {
                    let k = rng.below(40) + 1;
                    random_bytes(rng, k)
                }
                3 => {
                    let (_, t) = *rng.pick(TEXTS);
                    enc_bytes(t, e).unwrap_or_default()
                }
                4 => {
                    let (_, t) = *rng.pick(TEXTS);
                    let other = *rng.pick(&supported());
                    enc_bytes(t, other).unwrap_or_else(|| t.as_bytes().to_vec())
                }
                _ => {
                    let (_, t) = *rng.pick(TEXTS);
                    let mut b = enc_bytes(t, e).unwrap_or_default();
                    let k = rng.below(b.len().max(1));
                    b.truncate(k);
                    b
                }
            };
            let mut b = m.to_vec();
            b.extend(body);
            c.bytes = b;
            c.tag = format!("mark:{}", e);
            if rng.chance(2, 3) {
                c.sett.incl.clear();
                c.sett.excl.clear();
            }
        } else if idx % 10 == 3 || idx % 10 == 7 {
            // the payload starts with one encoding's mark, declares another one, and nothing passes: fallback on the declared page
            c = marked_declared_fallback_case(rng);
        } else if idx % 10 == 1 {
            // UTF-16 text without BOM
            let (_, t) = *rng.pick(TEXTS);
            c.bytes = enc_bytes(t, *rng.pick(&["utf-16le", "utf-16be"])).unwrap_or_default();
            c.tag = "utf16-no-bom".into();
        } else if idx % 10 == 5 || idx % 10 == 9 {
            // no mark, but the content *declares* UTF-16 (either byte order, several spellings) and reads as clean
            // UTF-16 when taken two bytes at a time: only letters and digits, even length
            let label = *rng.pick(&["utf-16be", "utf-16le", "UTF-16BE", "utf-16", "unicodefffe", "csunicode", "ucs-2", "unicode"]);
            let decl = *rng.pick(&["charset=", "encoding=", "coding:"]);
            let letters: String = (0..rng.range(0, 40)).map(|_| (b'a' + rng.below(26) as u8) as char).collect();
            let mut text = match rng.below(3) {
                0 => format!("{}{}", decl, label),
                1 => format!("{}{}{}", letters, decl, label),
                _ => format!("lang=en;{}{}", decl, label),
            };
            if text.len() % 2 == 1 {
                text.insert(0, 'x');
            }
            c.bytes = text.into_bytes();
            c.sett = Sett::default();
            if idx % 20 == 9 {
                c.sett.fb = false;
            }
            c.tag = "utf16-declared-no-bom".into();
        }
        c
    }
    fn oracle(&self, cx: &mut Ctx, case: &Case, raw: &RealRaw) {
        let s = &case.sett;
        let ms = match raw {
            Err(p) => {
                cx.rep.fail("oracle", "C07:panic", p, &case.bytes, Some(s), &case.tag);
                return;
            }
            Ok(Err(_)) => return,
            Ok(Ok(ms)) => ms,
        };
        if case.bytes.is_empty() {
            return;
        }
        cx.rep.oracle_checked += 1;
        let starts = |enc: &str| mark_of(enc).map(|m| case.bytes.starts_with(m)).unwrap_or(false);
        for m in ms.iter() {
            let mut ents = vec![m];
            ents.extend(m.submatch().iter());
            for e in ents {
                let enc = e.encoding();
                if e.bom() {
                    cx.rep.count("oracle:flag-set");
                    if !starts(enc) {
                        cx.rep.fail("oracle", "C07:flag-without-mark", enc, &case.bytes, Some(s), &case.tag);
                    } else {
                        let after = &case.bytes[mark_of(enc).unwrap().len()..];
                        if direct_decode(enc, after).as_deref() != e.decoded_payload() {
                            cx.rep.fail("oracle", "C07:text-does-not-start-after-mark", enc, &case.bytes, Some(s), &case.tag);
                        }
                    }
                }
                if (enc == "utf-16le" || enc == "utf-16be") && !starts(enc) {
                    cx.rep.fail("oracle", "C07:utf16-without-bom", enc, &case.bytes, Some(s), &case.tag);
                }
            }
            // mark ⇒ flag for the main encoding of a regular match
            if starts(m.encoding()) && m.chaos() < s.thr {
                cx.rep.count("oracle:mark-and-regular");
                if !m.bom() {
                    cx.rep.fail("oracle", "C07:mark-but-no-flag", m.encoding(), &case.bytes, Some(s), &case.tag);
                }
            }
        }
    }
}
