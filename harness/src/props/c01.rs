//! C01 — every reported candidate really decodes the input.
use super::*;
use charset_normalizer_rs::entity::CharsetMatch;
use encoding::label::encoding_from_whatwg_label;
use encoding::DecoderTrap;

pub struct C01;

/// strict decode by the codec crate itself (no code of the repository involved)
pub fn direct_decode(enc: &str, bytes: &[u8]) -> Option<String> {
    encoding_from_whatwg_label(enc)?.decode(bytes, DecoderTrap::Strict).ok()
}

pub fn strip_own_mark<'a>(enc: &str, bytes: &'a [u8]) -> &'a [u8] {
    match mark_of(enc) {
        Some(m) if bytes.starts_with(m) => &bytes[m.len()..],
        _ => bytes,
    }
}

/// byte windows the documented sampling rule looks at (for classifying the known ascii finding only)
pub fn sampled_windows(len: usize, s: &Sett) -> Vec<(usize, usize)> {
    let (mut steps, mut chunk) = (s.steps, s.chunk);
    if len <= chunk.saturating_mul(steps) {
        steps = 1;
        chunk = len;
    }
    if steps > 1 && len / steps < chunk {
        chunk = len / steps;
    }
    let mut v = vec![];
    if len > 1_000_000 {
        v.push((500_000, len)); // remainder is decoded and tested as a whole
    }
    let step = (len / steps.max(1)).max(1);
    let mut off = 0;
    while off < len {
        v.push((off, (off + chunk).min(len)));
        off += step;
    }
    v
}

fn entries(m: &CharsetMatch) -> Vec<&CharsetMatch> {
    let mut v = vec![m];
    v.extend(m.submatch().iter());
    v
}

impl DetectProp for C01 {
    fn id(&self) -> &'static str {
        "C01"
    }
    fn slice(&self, o: &Outcome) -> String {
        match o {
            Outcome::Ok(v) => format!(
                "ok {}",
                sorted_join(v.iter().flat_map(|m| m.cands().into_iter().map(move |e| format!("{}:{:?}", e, m.text))).collect())
            ),
            other => other.show(),
        }
    }
    fn gen(&self, rng: &mut Rng, corpus: &[(String, Vec<u8>)], idx: usize) -> Case {
        let mut c = structured_case(rng, corpus);
        if idx % 7 == 3 {
            // anomalies between the sampled chunks of an otherwise plain text
            let n = rng.range(3000, 20000);
            let ti = rng.below(4);
            let text = stretch(rng, TEXTS[ti].1, n);
            let enc = *rng.pick(&["utf-8", "windows-1252", "iso-8859-15", "macintosh"]);
            let mut b = enc_bytes(&text, enc).unwrap_or_else(|| text.clone().into_bytes());
            for _ in 0..rng.range(1, 3) {
                let pos = rng.below(b.len());
                let ins: &[u8] = *rng.pick(&[&b"\xe9"[..], &b"\xc3\xa9"[..], &b"\x81"[..], &b"\xff"[..], &b"\x8d"[..], &b"\xe2\x28\xa1"[..]]);
                for (k, x) in ins.iter().enumerate() {
                    b.insert(pos + k, *x);
                }
            }
            c.bytes = b;
            c.tag = format!("anomaly-between-chunks:{}", enc);
            c.sett.incl.clear();
            c.sett.excl.clear();
        }
        c
    }
    fn cases(&self, thorough: bool) -> usize {
        if thorough {
            3000
        } else {
            300
        }
    }
    fn directed(&self, thorough: bool) -> Vec<Case> {
        let mut v = vec![];
        // 10 kB ASCII with one é at offset 1000 (the known ascii finding)
        let mut b: Vec<u8> = std::iter::repeat(*b"The quick brown fox jumps over the lazy dog. ").take(230).flatten().collect();
        b.splice(1000..1000, "é".bytes());
        v.push(Case { bytes: b, sett: Sett::default(), tag: "directed:ascii-one-eacute".into() });
        // steps=1 chunk=0: sampled chunks are empty
        let mut s = Sett::default();
        s.steps = 1;
        s.chunk = 0;
        v.push(Case { bytes: "Привет, мир! Это проверка кодировки.".as_bytes().to_vec(), sett: s, tag: "directed:chunk0".into() });
        // large single-byte inputs on both sides of the lazy limits, anomaly in the tail
        let big = |len: usize, pos: usize| -> Vec<u8> {
            let mut b: Vec<u8> = std::iter::repeat(*b"Lorem ipsum dolor sit amet, consectetur adipiscing elit. ").take(len / 57 + 1).flatten().collect();
            b.truncate(len);
            b[pos] = 0xe9;
            b
        };
        // quick: one lazy-path input, probing restricted to a handful of encodings (model speed)
        let mut s = Sett::default();
        s.incl = vec!["ascii".into(), "utf-8".into(), "windows-1252".into(), "koi8-r".into(), "iso-8859-15".into()];
        v.push(Case { bytes: big(1_000_050, 900_000), sett: s.clone(), tag: "directed:large-filtered:tail".into() });
        // between the 500,000-byte prefix limit and the 1,000,000-byte limit: the only byte the sibling code pages read
        // differently (same width in UTF-8) lies beyond the first 500,000 characters and outside every sampled chunk –
        // pages listed beside each other must still decode the whole input alike
        {
            let french = enc_bytes_lossy("Le c\u{153}ur a ses raisons que la raison ne conna\u{ee}t point ; d\u{e9}j\u{e0} l'\u{e9}t\u{e9} s'ach\u{e8}ve. ", "windows-1252");
            let mid = |len: usize, pos: usize, byte: u8, accented: bool| -> Vec<u8> {
                let unit: Vec<u8> = if accented { french.clone() } else { b"Lorem ipsum dolor sit amet, consectetur adipiscing elit. ".to_vec() };
                let mut b: Vec<u8> = unit.iter().cycle().take(len).cloned().collect();
                b[pos] = byte;
                b
            };
            v.push(Case { bytes: mid(600_000, 550_001, 0xf0, true), sett: Sett::default(), tag: "nomodel:mid-size:distinguishing-byte-beyond-500000:accented".into() });
            if thorough {
                v.push(Case { bytes: mid(600_000, 550_001, 0xf0, false), sett: Sett::default(), tag: "nomodel:mid-size:distinguishing-byte-beyond-500000".into() });
                v.push(Case { bytes: mid(999_000, 998_999, 0xfe, false), sett: Sett::default(), tag: "nomodel:mid-size:distinguishing-byte-last".into() });
                v.push(Case { bytes: mid(500_200, 500_100, 0xd0, true), sett: Sett::default(), tag: "nomodel:mid-size:distinguishing-byte-just-beyond".into() });
            }
        }
        // > 1 MB declaring a code page that cannot decode one tail byte; threshold 0 so that only the
        // fallback slots can answer
        let mut rng = Rng::new(4242);
        for k in 0..(if thorough { 6 } else { 2 }) {
            let (b, enc) = large_declared_bad_byte(&mut rng, k % 4);
            let mut s = Sett::default();
            s.thr = if k % 2 == 0 { 0.0 } else { 0.001 };
            if k % 3 != 2 {
                s.incl = vec![enc.to_string(), "ascii".into(), "utf-8".into()];
                v.push(Case { bytes: b, sett: s, tag: format!("directed:large-declared-bad-tail:{}", enc) });
            } else {
                v.push(Case { bytes: b, sett: s, tag: format!("nomodel:large-declared-bad-tail:{}", enc) });
            }
        }
        // exactly at / around 1 000 000 bytes: a code page with unmapped bytes, one of them in the tail
        for (k, len) in [1_000_000usize, 1_000_001, 999_999].iter().enumerate() {
            if k > 0 && !thorough {
                break;
            }
            let line = b"plain text line without anything special in it, repeated many times over.\n";
            let mut b: Vec<u8> = Vec::with_capacity(*len);
            while b.len() < *len {
                b.extend_from_slice(line);
            }
            b.truncate(*len);
            b[700_001] = 0xff; // unmapped in windows-1253 / iso-8859-7
            let mut s = Sett::default();
            s.incl = vec!["windows-1253".into(), "iso-8859-7".into(), "utf-8".into()];
            v.push(Case { bytes: b, sett: s, tag: format!("directed:size-boundary:{}", len) });
        }
        // > 1 MB in a multi-byte encoding with a damaged edge: cut inside the last character, or a stray
        // trail byte in front (a multi-byte decoder must see the whole payload strictly, edges included)
        {
            let samples: &[(&str, &str)] = &[("utf-8", "Привет, мир! Это проверка кодировки, довольно длинная строка текста. "), ("utf-8", "日本語のテキストです。文字コードの判定を試します。"), ("gbk", "这是一个用来测试编码检测的中文句子，内容并不重要。"), ("shift_jis", "日本語のテキストです。文字コードの判定を試します。"), ("euc-kr", "한국어 문장입니다. 인코딩 판별을 시험합니다. ")];
            for (k, (enc, text)) in samples.iter().enumerate() {
                if !thorough && k != 0 && k != 2 {
                    continue;
                }
                let unit = enc_bytes(text, enc).unwrap_or_default();
                if unit.is_empty() {
                    continue;
                }
                let mut base: Vec<u8> = Vec::with_capacity(1_050_000);
                while base.len() < 1_000_100 {
                    base.extend_from_slice(&unit);
                }
                for damage in 0..3 {
                    if !thorough && damage != k % 3 && damage != 0 {
                        continue;
                    }
                    let mut b = base.clone();
                    match damage {
                        0 => { b.pop(); }                          // cut inside the last character
                        1 => { b.insert(0, unit[unit.len() - 1]); } // stray trail byte in front
                        _ => { b.pop(); b.pop(); b.insert(0, 0xA9); }
                    }
                    let mut s = Sett::default();
                    s.incl = vec![enc.to_string(), "utf-8".into(), "ascii".into()];
                    v.push(Case { bytes: b, sett: s, tag: format!("directed:large-multibyte-damaged-edge:{}:{}", enc, damage) });
                }
            }
        }
        // > 1 MB in a code page with unassigned byte values: one such byte inside the first 500,000 bytes, outside every
        // sampled chunk – the only place it can be seen is the whole-prefix fit check (quick: 0xFF in iso-8859-7; thorough:
        // every unassigned value of three pages, at varying offsets)
        {
            let pages: &[(&str, &str)] = if thorough { &[("iso-8859-7", "greek"), ("windows-1253", "greek"), ("windows-1255", "hebrew")] } else { &[("iso-8859-7", "greek")] };
            let mut rng4 = Rng::new(9191);
            for (page, name) in pages {
                let base = TEXTS.iter().find(|(n, _)| n == name).map(|x| x.1).unwrap_or(TEXTS[0].1);
                let unit = enc_bytes_lossy(&stretch(&mut rng4, base, 2000), page);
                if unit.is_empty() {
                    continue;
                }
                let holes: Vec<u8> = (0x80..=0xffu32).map(|b| b as u8).filter(|b| direct_decode(page, &[*b]).is_none()).collect();
                let picks: Vec<u8> = if thorough { holes.clone() } else { holes.iter().cloned().filter(|b| *b == 0xff).collect() };
                for (k, hole) in picks.iter().enumerate() {
                    let len = 1_050_000 + 37 * k;
                    let mut b: Vec<u8> = unit.iter().cycle().take(len).cloned().collect();
                    let pos = [100_000usize, 3_000, 499_000, 250_123][k % 4];
                    b[pos] = *hole;
                    let mut s = Sett::default();
                    if k % 2 == 1 {
                        s.incl = vec![page.to_string(), "utf-8".into(), "ascii".into()];
                    }
                    v.push(Case { bytes: b, sett: s, tag: format!("nomodel:large-unassigned-byte-in-prefix:{}:{:02x}", page, hole) });
                }
            }
        }
        // multi-byte sequences that decode to two characters each, inside ordinary text (Big5)
        {
            let mut rng3 = Rng::new(4242);
            for k in 0..(if thorough { 6 } else { 2 }) {
                let b = big5_two_codepoint_text(&mut rng3);
                let mut s = Sett::default();
                if k % 2 == 1 {
                    s.incl = vec!["big5".into()];
                }
                v.push(Case { bytes: b, sett: s, tag: "directed:big5-two-codepoint-sequences".into() });
            }
        }
        // a stateful 7-bit encoding switched to two-byte mode right before byte 500,000
        {
            let mut rng2 = Rng::new(777);
            v.push(large_stateful_split_case(&mut rng2));
            if thorough {
                v.push(large_stateful_split_case(&mut rng2));
            }
        }
        if thorough {
            v.push(Case { bytes: big(1_000_050, 499_990), sett: s.clone(), tag: "directed:large-filtered:head".into() });
            for (len, pos) in [(1_000_050usize, 900_000usize), (999_990, 700_000), (1_200_000, 1_199_999)] {
                v.push(Case { bytes: big(len, pos), sett: Sett::default(), tag: format!("directed:large:{}:{}", len, pos) });
            }
        }
        v
    }
    fn oracle(&self, cx: &mut Ctx, case: &Case, raw: &RealRaw) {
        let s = &case.sett;
        let ms = match raw {
            Err(p) => {
                cx.rep.fail("oracle", "C01:panic", p, &case.bytes, Some(s), &case.tag);
                return;
            }
            Ok(Err(_)) => return,
            Ok(Ok(ms)) => ms,
        };
        if case.bytes.is_empty() {
            return;
        }
        cx.rep.oracle_checked += 1;
        for m in ms.iter() {
            // every encoding listed beside the match – whatever the library keeps for it internally – must decode the
            // input to the text the *match* exposes
            for enc in m.suitable_encodings() {
                let enc: &str = enc.as_str();
                if enc == m.encoding() {
                    continue;
                }
                cx.rep.count("oracle:alternative-vs-exposed-text");
                let want = direct_decode(enc, strip_own_mark(enc, &case.bytes));
                if want.as_deref() != m.decoded_payload() {
                    let at = match (&want, m.decoded_payload()) {
                        (Some(w), Some(g)) => w.chars().zip(g.chars()).position(|(a, b)| a != b).map(|p| p.to_string()).unwrap_or_else(|| "length".into()),
                        _ => "-".into(),
                    };
                    cx.rep.fail("oracle", "C01:alternative-decodes-to-another-text", &format!("{} is listed beside {} but strictly decodes the input to a different text (first difference at character {})", enc, m.encoding(), at), &case.bytes, Some(s), &case.tag);
                }
            }
            for e in entries(m) {
                let enc = e.encoding();
                cx.rep.count("oracle:candidate");
                if e.raw() != &case.bytes[..] {
                    cx.rep.fail("oracle", "C01:raw-modified", enc, &case.bytes, Some(s), &case.tag);
                }
                let want = direct_decode(enc, strip_own_mark(enc, &case.bytes));
                let got = e.decoded_payload().map(|x| x.to_string());
                match (&want, &got) {
                    (Some(w), Some(g)) if w == g => {}
                    (None, _) => cx.rep.fail("oracle", "C01:candidate-does-not-decode", &format!("{} does not strictly decode the input", enc), &case.bytes, Some(s), &case.tag),
                    _ => cx.rep.fail(
                        "oracle",
                        "C01:text-differs-from-strict-decode",
                        &format!("{}: exposed text {:?} != strict decode {:?}", enc, got.as_ref().map(|x| x.chars().take(40).collect::<String>()), want.as_ref().map(|x| x.chars().take(40).collect::<String>())),
                        &case.bytes,
                        Some(s),
                        &case.tag,
                    ),
                }
                if enc == "ascii" {
                    let bad: Vec<usize> = case.bytes.iter().enumerate().filter(|(_, b)| **b >= 0x80).map(|(i, _)| i).collect();
                    if !bad.is_empty() {
                        let mut w = sampled_windows(case.bytes.len(), s);
                        // a fallback entry (chaos == threshold) comes from a probe that may have given up after
                        // max(2, steps/4) chunks: only those first windows were certainly examined
                        if e.chaos().to_bits() == s.thr.to_bits() {
                            let lazy_tail = if case.bytes.len() > 1_000_000 { 1 } else { 0 };
                            let steps_n = if case.bytes.len() <= s.chunk.saturating_mul(s.steps) { 1 } else { s.steps };
                            let certain = 2usize.max(steps_n / 4);
                            w.truncate(lazy_tail + certain);
                            if lazy_tail == 1 {
                                w.remove(0); // the remainder is not looked at after a give-up
                            }
                        }
                        let inside = bad.iter().any(|i| w.iter().any(|(a, b)| a <= i && i < b));
                        let class = if inside { "C01:ascii-nonascii-inside-sampled-chunk" } else { "C01:ascii-nonascii-outside-sampled-chunks" };
                        cx.rep.fail("oracle", class, &format!("ascii reported; {} byte(s) >= 0x80, first at {}", bad.len(), bad[0]), &case.bytes, Some(s), &case.tag);
                    }
                }
            }
        }
    }
}
