//! C05 — include/exclude are exact filters and accept any label spelling.
use super::*;
use charset_normalizer_rs::utils::iana_name;

pub struct C05;

fn canon_list(v: &[String]) -> Option<Vec<String>> {
    v.iter().map(|n| iana_name(n).map(|s| s.to_string())).collect()
}

/// Which supported encoding a filter entry *spells*, decided without the crate's canonicaliser: a supported
/// name verbatim, or what the codec library's WHATWG label table (trim + ASCII lower-case) resolves it to.
fn spells(n: &str) -> Option<String> {
    if supported().contains(&n) {
        return Some(n.to_string());
    }
    encoding::label::encoding_from_whatwg_label(n).map(|e| e.whatwg_name().unwrap_or(e.name()).to_string())
}

impl DetectProp for C05 {
    fn id(&self) -> &'static str {
        "C05"
    }
    fn slice(&self, o: &Outcome) -> String {
        match o {
            Outcome::Ok(v) => format!("ok {}", sorted_join(v.iter().flat_map(|m| m.cands()).collect())),
            other => other.show(),
        }
    }
    fn gen(&self, rng: &mut Rng, corpus: &[(String, Vec<u8>)], _idx: usize) -> Case {
        let mut c = structured_case(rng, corpus);
        // always some filter, through all kinds of spellings
        let sup = supported();
        c.sett.incl.clear();
        c.sett.excl.clear();
        let mode = rng.below(10);
        let pick = |rng: &mut Rng| -> String {
            match rng.below(4) {
                0 => rng.pick(&sup).to_string(),
                1 => {
                    let l = *rng.pick(LABEL_SPELLINGS);
                    pad_and_case(rng, l)
                }
                2 => {
                    // any alias of a supported name
                    let n = *rng.pick(&sup);
                    let al = charset_normalizer_rs::consts::IANA_SUPPORTED_ALIASES.get(n).cloned().unwrap_or_default();
                    if al.is_empty() {
                        n.to_string()
                    } else {
                        let a = *rng.pick(&al);
                        pad_and_case(rng, a)
                    }
                }
                _ => {
                    let l = *rng.pick(&sup);
                    pad_and_case(rng, l)
                }
            }
        };
        if mode < 4 || mode == 8 {
            for _ in 0..rng.range(1, 5) {
                let x = pick(rng);
                c.sett.incl.push(x);
            }
        }
        if (4..9).contains(&mode) {
            for _ in 0..rng.range(1, 8) {
                let x = pick(rng);
                c.sett.excl.push(x);
            }
        }
        if mode == 9 {
            // hints excluded
            c.sett.excl = vec!["ascii".into(), "UTF8".into()];
        }
        if _idx % 11 == 6 {
            // a long list: every label and alias (in assorted spellings) of a handful of encodings, sorted or
            // shuffled, with repeats – 40 to 120 entries naming 3 to 8 encodings
            let k = rng.range(3, 9);
            let mut chosen: Vec<&str> = vec![];
            while chosen.len() < k {
                let n = *rng.pick(&sup);
                if !chosen.contains(&n) {
                    chosen.push(n);
                }
            }
            let mut list: Vec<String> = vec![];
            let target = rng.range(40, 121);
            while list.len() < target {
                let n = *rng.pick(&chosen);
                let al = charset_normalizer_rs::consts::IANA_SUPPORTED_ALIASES.get(n).cloned().unwrap_or_default();
                let pool: Vec<&str> = al.iter().copied().filter(|a| iana_name(a) == Some(n)).chain(std::iter::once(n)).collect();
                let l = *rng.pick(&pool);
                list.push(if rng.chance(1, 2) && l != "ascii" && l != "iso-8859-1" && l != "hz" { pad_and_case(rng, l) } else { l.to_string() });
            }
            if rng.chance(1, 2) {
                list.sort();
            }
            c.sett.incl.clear();
            c.sett.excl.clear();
            if rng.chance(2, 3) {
                c.sett.incl = list;
            } else {
                c.sett.excl = list;
            }
            c.tag = format!("long-filter-list:{}", c.tag);
        }
        if rng.chance(1, 25) {
            c.bytes.clear();
        }
        c.tag = format!("filters:{}", c.tag);
        c
    }
    fn directed(&self, _thorough: bool) -> Vec<Case> {
        let mut v = vec![];
        // entries that name no encoding, in awkward shapes, alone and among valid names: an error naming the entry
        for (k, l) in odd_unknown_labels().into_iter().enumerate() {
            let mut s = Sett::default();
            if k % 2 == 0 {
                s.incl = vec!["utf-8".into(), l.clone()];
            } else {
                s.excl = vec![l.clone(), "big5".into()];
            }
            v.push(Case { bytes: "Привет, мир! Это проверка.".as_bytes().to_vec(), sett: s, tag: "directed:odd-unknown-label".into() });
        }
        let mk = |bytes: &[u8], incl: &[&str], excl: &[&str]| {
            let mut s = Sett::default();
            s.incl = incl.iter().map(|x| x.to_string()).collect();
            s.excl = excl.iter().map(|x| x.to_string()).collect();
            Case { bytes: bytes.to_vec(), sett: s, tag: "directed".into() }
        };
        v.push(mk(b"", &[], &["utf-8"]));
        v.push(mk(b"", &["koi8-r"], &[]));
        v.push(mk(b"hello", &[], &["ascii"]));
        v.push(mk(b"hello", &[], &["us-ascii"]));
        v.push(mk(b"hello", &["Latin1"], &[]));
        v.push(mk(b"hello", &["iso-2022-kr"], &[]));
        v.push(mk(b"hello", &["replacement"], &[]));
        v.push(mk(b"hello", &["x-user-defined"], &[]));
        v.push(mk(b"hello", &["hz"], &[]));
        v.push(mk("h\u{e9}llo w\u{f6}rld".as_bytes(), &[], &["utf8", "ASCII"]));
        v.push(mk(b"hello", &["utf-8", "nope"], &["also-nope"]));
        v.push(mk(b"hello", &[], &["also-nope"]));
        v.push(mk(b"hello", &[""], &[]));
        v
    }
    fn oracle(&self, cx: &mut Ctx, case: &Case, raw: &RealRaw) {
        let s = &case.sett;
        cx.rep.oracle_checked += 1;
        let ci = canon_list(&s.incl);
        let ce = canon_list(&s.excl);
        match raw {
            Err(p) => cx.rep.fail("oracle", "C05:panic", p, &case.bytes, Some(s), &case.tag),
            Ok(Err(e)) => {
                // (c) an error must name an entry that is not a known label
                cx.rep.count("oracle:error-path");
                let bad_incl = s.incl.iter().find(|n| iana_name(n).is_none());
                let bad_excl = s.excl.iter().find(|n| iana_name(n).is_none());
                let expected = match (bad_incl, bad_excl) {
                    (Some(n), _) => Some(n),
                    (None, Some(n)) => Some(n),
                    _ => None,
                };
                match expected {
                    None => cx.rep.fail("oracle", "C05:error-without-unknown-label", e, &case.bytes, Some(s), &case.tag),
                    Some(n) => {
                        if !e.contains(n.as_str()) {
                            cx.rep.fail("oracle", "C05:error-does-not-name-entry", e, &case.bytes, Some(s), &case.tag)
                        }
                    }
                }
            }
            Ok(Ok(ms)) => {
                if ci.is_none() || ce.is_none() {
                    cx.rep.fail("oracle", "C05:unknown-label-silently-accepted", "result returned although an entry is not a known label", &case.bytes, Some(s), &case.tag);
                    return;
                }
                let (ci, ce) = (ci.unwrap(), ce.unwrap());
                if !ci.is_empty() {
                    cx.rep.count("oracle:include");
                }
                if !ce.is_empty() {
                    cx.rep.count("oracle:exclude");
                }
                // the same lists read through the codec library's label table (independent of the crate's
                // canonicaliser): an accepted entry that spells a supported encoding filters that encoding
                let sup0 = supported();
                let si: Vec<String> = s.incl.iter().filter_map(|n| spells(n)).collect();
                let se: Vec<String> = s.excl.iter().filter_map(|n| spells(n)).filter(|e| sup0.contains(&e.as_str())).collect();
                for (n, c) in s.incl.iter().chain(s.excl.iter()).zip(ci.iter().chain(ce.iter())) {
                    if let Some(sp) = spells(n) {
                        if &sp != c {
                            cx.rep.fail("oracle", "C05:canonicaliser-does-not-canonicalise", &format!("entry {:?} spells {:?} but is canonicalised to {:?}", n, sp, c), &case.bytes, Some(s), &case.tag);
                        }
                    }
                }
                for m in ms.iter() {
                    for e in m.suitable_encodings() {
                        let bad = (!ci.is_empty() && !ci.contains(&e)) || ce.contains(&e) || (!si.is_empty() && si.len() == s.incl.len() && !si.contains(&e)) || se.contains(&e);
                        if bad {
                            let class = if case.bytes.is_empty() { "C05:empty-input-ignores-filters" } else { "C05:filter-violated" };
                            cx.rep.fail("oracle", class, &format!("candidate {} violates incl={:?} excl={:?}", e, ci, ce), &case.bytes, Some(s), &case.tag);
                        }
                    }
                }
                // (b) canonical spelling gives the same result, for entries naming supported encodings
                let sup = supported();
                if ci.iter().chain(ce.iter()).all(|e| sup.contains(&e.as_str())) && (!ci.is_empty() || !ce.is_empty()) {
                    let mut s2 = s.clone();
                    s2.incl = ci.clone();
                    s2.excl = ce.clone();
                    let r2 = real_detect(&case.bytes, &s2);
                    let r1 = Outcome::Ok(canon_matches(ms));
                    cx.rep.count("oracle:canonical-respelling");
                    if r1 != r2 {
                        cx.rep.fail("oracle", "C05:canonical-spelling-changes-result", &format!("{} vs {}", r1.show(), r2.show()), &case.bytes, Some(s), &case.tag);
                    }
                }
            }
        }
    }
}
