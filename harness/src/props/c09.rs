//! C09 — restricting detection to one encoding does not change that encoding's verdict.
use super::*;
use charset_normalizer_rs::verif_hooks as vh;

pub struct C09;

fn entry_sig(m: &CMatch) -> String {
    format!("{}|{:?}|{}|{:?}", m.chaos, m.coh, m.bom, m.text)
}

impl DetectProp for C09 {
    fn id(&self) -> &'static str {
        "C09"
    }
    fn slice(&self, o: &Outcome) -> String {
        match o {
            Outcome::Ok(v) => format!(
                "ok {}",
                sorted_join(
                    v.iter()
                        .flat_map(|m| {
                            // the main entry with its own verdict, every alternative with the verdict the alternative itself carries
                            std::iter::once(format!("{}:{}", m.enc, entry_sig(m))).chain(m.subs.iter().zip(m.subd.iter()).map(|(e, d)| format!("{}:{}", e, d)))
                        })
                        .collect()
                )
            ),
            other => other.show(),
        }
    }
    fn cases(&self, thorough: bool) -> usize {
        if thorough {
            1500
        } else {
            120
        }
    }
    fn gen(&self, rng: &mut Rng, corpus: &[(String, Vec<u8>)], idx: usize) -> Case {
        let mut c = structured_case(rng, corpus);
        c.sett.incl.clear();
        if rng.chance(3, 4) {
            c.sett.excl.clear();
        }
        if c.bytes.len() > 4000 {
            c.bytes.truncate(4000);
        }
        if idx % 3 == 1 {
            c = multi_candidate_case(rng);
        }
        if idx % 3 == 2 {
            c = similar_rejection_case(rng);
        }
        if idx % 6 == 3 {
            c = shared_high_bytes_case(rng);
        }
        if idx % 12 == 5 {
            c = declared_fallback_case(rng);
        }
        if idx % 12 == 11 {
            c = declared_tied_case(rng);
        }
        if idx % 12 == 7 || idx % 12 == 1 {
            c = misdeclared_legacy_case(rng);
            c.sett.fb = false;
        }
        c
    }
    fn directed(&self, thorough: bool) -> Vec<Case> {
        let mut rng = Rng::new(99);
        let mut v = vec![];
        // > 1 MB: candidates that pass the sampled windows and fail only in the remainder
        let b = large_mixed_case(&mut rng, 5);
        v.push(Case { bytes: b.clone(), sett: Sett::default(), tag: "nomodel:large-mixed".into() });
        let mut s = Sett::default();
        s.incl = vec!["ascii".into(), "utf-8".into()];
        v.push(Case { bytes: b, sett: s, tag: "large-mixed-filtered".into() });
        // > 1 MB of ASCII with a single non-ASCII byte beyond byte 500,000, outside the sampled windows: `ascii`
        // fails at the very end of its probe, the pages that share its decoder must not inherit that verdict
        {
            let mut b: Vec<u8> = std::iter::repeat(*b"The quick brown fox jumps over the lazy dog, over and over again. ").take(1_200_000 / 66 + 1).flatten().collect();
            b.truncate(1_200_000);
            let pos = 700_000 + rng.below(1000);
            b[pos] = 0xe9;
            let mut s = Sett::default();
            s.fb = false;
            v.push(Case { bytes: b.clone(), sett: s, tag: "nomodel:large-ascii-one-high-byte".into() });
            let mut s = Sett::default();
            s.fb = false;
            s.incl = vec!["ascii".into(), "windows-1252".into(), "iso-8859-1".into(), "iso-8859-15".into(), "utf-8".into()];
            v.push(Case { bytes: b, sett: s, tag: "large-ascii-one-high-byte-filtered".into() });
        }
        // > 1 MB with a single byte that one code page has no character for, beyond byte 500,000 and outside the sampled
        // windows: that page finds out at the very end of its probe (it cannot read the input – which is no statement about
        // how the text *looks*), its look-alikes further down the table must still be tried
        for (k, (hole, pages)) in [(0xe3u8, &["iso-8859-3", "windows-1252", "windows-1254", "iso-8859-15", "iso-8859-14", "iso-8859-16"][..]), (0xaeu8, &["iso-8859-7", "windows-1253", "windows-1252"][..])].iter().enumerate() {
            if !thorough && k > 0 {
                break;
            }
            let mut b: Vec<u8> = std::iter::repeat(*b"The quick brown fox jumps over the lazy dog, over and over again. ").take(1_200_000 / 66 + 1).flatten().collect();
            b.truncate(1_200_000);
            b[700_000 + 17 * k] = *hole;
            let mut s = Sett::default();
            s.fb = false;
            v.push(Case { bytes: b.clone(), sett: s, tag: format!("nomodel:large-ascii-one-unassigned-byte:{:02x}", hole) });
            let mut s = Sett::default();
            s.fb = false;
            s.incl = pages.iter().map(|x| x.to_string()).chain(["ascii".to_string(), "utf-8".to_string()]).collect();
            v.push(Case { bytes: b, sett: s, tag: format!("large-ascii-one-unassigned-byte-filtered:{:02x}", hole) });
        }
        if thorough {
            let mut s = Sett::default();
            s.steps = 3;
            v.push(Case { bytes: large_mixed_case(&mut rng, 3), sett: s, tag: "nomodel:large-mixed-3".into() });
        }
        v
    }
    fn oracle(&self, cx: &mut Ctx, case: &Case, raw: &RealRaw) {
        let s = &case.sett;
        let ms = match raw {
            Ok(Ok(ms)) => ms,
            Err(p) => {
                cx.rep.fail("oracle", "C09:panic", p, &case.bytes, Some(s), &case.tag);
                return;
            }
            _ => return,
        };
        if case.bytes.is_empty() {
            return;
        }
        cx.rep.oracle_checked += 1;
        let full = canon_matches(ms);
        // (a) every candidate, restricted to itself, gives the same verdict
        for m in &full {
            for e in m.cands() {
                let mut s1 = s.clone();
                // (on cold caches: what the unrestricted run left behind must not be what makes the two agree)
                charset_normalizer_rs::verif_hooks::flush_caches();
                s1.incl = vec![e.clone()];
                let r = real_detect(&case.bytes, &s1);
                cx.rep.count("oracle:restricted-run");
                match &r {
                    Outcome::Ok(v) if v.len() == 1 && v[0].enc == e && v[0].subs.is_empty() => {
                        // entry of e in the unrestricted result: for a sub-match compare with the sub-match itself
                        let want = if m.enc == e {
                            entry_sig(m)
                        } else {
                            let sub = ms.iter().flat_map(|x| x.submatch().iter()).find(|x| x.encoding() == e).map(canon_match);
                            sub.map(|x| entry_sig(&x)).unwrap_or_default()
                        };
                        if entry_sig(&v[0]) != want {
                            cx.rep.fail("oracle", "C09:restricted-verdict-differs", &format!("{}: unrestricted {} vs restricted {}", e, want, entry_sig(&v[0])), &case.bytes, Some(s), &case.tag);
                        }
                    }
                    other => cx.rep.fail("oracle", "C09:restricted-run-loses-candidate", &format!("{} is a candidate of the unrestricted result but restricted run gives {}", e, other.show()), &case.bytes, Some(s), &case.tag),
                }
            }
        }
        // (b) converse, fallback disabled so that accept/reject is visible
        if !s.fb {
            let all: Vec<String> = full.iter().flat_map(|m| m.cands()).collect();
            let early_exit = full.len() == 1 && {
                let m = &full[0];
                let sig = MARKS.iter().find(|(_, mk)| case.bytes.starts_with(mk)).map(|(e, _)| e.to_string());
                let declared = if s.pre { independent_declared(&case.bytes, 4096) } else { None };
                m.cands().iter().any(|e| {
                    let hint = e == "ascii" || e == "utf-8" || Some(e.clone()) == sig || Some(e.clone()) == declared;
                    hint && (f32::from_bits(m.chaos) < 0.1 || Some(e.clone()) == sig)
                })
            };
            if !early_exit {
                let excl: Vec<String> = s.excl.iter().filter_map(|n| charset_normalizer_rs::utils::iana_name(n).map(|x| x.to_string())).collect();
                let incl: Vec<String> = s.incl.iter().filter_map(|n| charset_normalizer_rs::utils::iana_name(n).map(|x| x.to_string())).collect();
                for e in supported() {
                    if all.iter().any(|x| x == e) || excl.iter().any(|x| x == e) || (!incl.is_empty() && !incl.iter().any(|x| x == e)) {
                        continue;
                    }
                    let mut s1 = s.clone();
                    s1.incl = vec![e.to_string()];
                    if let Outcome::Ok(v) = real_detect(&case.bytes, &s1) {
                        if v.len() == 1 {
                            cx.rep.count("oracle:accepted-alone-but-missing");
                            // must be explained by a rejected similar code page
                            // "had already been rejected": the similar page must come before `e` in the probing order
                            // (self-identified encodings first – declared, marked, ascii, utf-8 – then the table order)
                            let order: Vec<String> = {
                                let sig = MARKS.iter().find(|(_, mk)| case.bytes.starts_with(mk)).map(|(e, _)| e.to_string());
                                let declared = if s.pre { independent_declared(&case.bytes, 4096) } else { None };
                                let mut o: Vec<String> = vec![];
                                for h in declared.into_iter().chain(sig.into_iter()).chain(["ascii".to_string(), "utf-8".to_string()]) {
                                    if supported().contains(&h.as_str()) && !o.contains(&h) {
                                        o.push(h);
                                    }
                                }
                                for n in supported() {
                                    if !o.iter().any(|x| x == n) {
                                        o.push(n.to_string());
                                    }
                                }
                                o
                            };
                            let pos = |n: &str| order.iter().position(|x| x == n).unwrap_or(usize::MAX);
                            let explained = supported().iter().any(|f| {
                                pos(f) < pos(e) && vh::is_cp_similar(e, f) && !all.iter().any(|x| x == f) && (incl.is_empty() || incl.iter().any(|x| x == f)) && {
                                    let mut s2 = s.clone();
                                    s2.incl = vec![f.to_string()];
                                    matches!(real_detect(&case.bytes, &s2), Outcome::Ok(v) if v.is_empty())
                                } && {
                                    // … rejected for what its text looks like, not for being unable to read the bytes: a page that
                                    // cannot decode the input is no witness for its look-alikes – except where the library finds
                                    // that out only while sampling (> 1,000,000 bytes, single-byte page, the first 500,000 bytes
                                    // decodable, an undecodable byte inside a sampled window)
                                    let body = super::c01::strip_own_mark(f, &case.bytes);
                                    super::c01::direct_decode(f, body).is_some() || {
                                        let single = !charset_normalizer_rs::utils::is_multi_byte_encoding(f);
                                        let bad: Vec<usize> = if single && case.bytes.len() > 1_000_000 {
                                            let undef: Vec<bool> = (0..=255u32).map(|b| super::c01::direct_decode(f, &[b as u8]).is_none()).collect();
                                            case.bytes.iter().enumerate().filter(|(_, b)| undef[**b as usize]).map(|(i, _)| i).collect()
                                        } else {
                                            vec![]
                                        };
                                        let windows = super::c01::sampled_windows(case.bytes.len(), s);
                                        !bad.is_empty() && bad[0] >= 500_000 && bad.iter().any(|i| windows.iter().skip(1).any(|(a, b)| a <= i && i < b))
                                    }
                                }
                            });
                            if !explained {
                                cx.rep.fail("oracle", "C09:accepted-alone-but-missing-unexplained", &format!("{} is accepted alone, missing from the unrestricted result, no early exit, no rejected similar code page", e), &case.bytes, Some(s), &case.tag);
                            }
                        }
                    }
                }
            }
        }
    }
}
