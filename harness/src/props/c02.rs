//! C02 — detection and every accessor are total: no panic on any input or settings.
use super::*;
use charset_normalizer_rs::utils::{decode, encode, iana_name};
use encoding::{DecoderTrap, EncoderTrap};
use std::panic::{catch_unwind, AssertUnwindSafe};

pub struct C02;

impl DetectProp for C02 {
    fn id(&self) -> &'static str {
        "C02"
    }
    fn slice(&self, o: &Outcome) -> String {
        match o {
            Outcome::Ok(_) => "ok".into(),
            Outcome::Err(e) => format!("err {}", e),
            Outcome::Panic(p) => format!("panic {}", p),
        }
    }
    fn gen(&self, rng: &mut Rng, corpus: &[(String, Vec<u8>)], idx: usize) -> Case {
        let mut c = structured_case(rng, corpus);
        c.sett.trace = idx % 2 == 0;
        match idx % 9 {
            0 => {
                c.sett.steps = rng.range(1, 5000);
                c.sett.chunk = rng.range(0, 10);
            }
            1 => {
                c.sett.steps = 1;
                c.sett.chunk = 0;
            }
            2 => {
                c.sett.steps = rng.range(1, 4);
                c.sett.chunk = usize::MAX / 8;
            }
            3 => c.bytes = vec![],
            6 => {
                // the largest values the settings' types admit
                c.sett.steps = *rng.pick(&[usize::MAX, usize::MAX / 2, usize::MAX / 8, usize::MAX / 24, 1usize << 40, 1usize << 62]);
                c.sett.chunk = *rng.pick(&[0usize, 0, 1, 2, 3, 512, usize::MAX]);
                if c.bytes.len() > 600 {
                    c.bytes.truncate(600);
                }
                c.tag = format!("extreme-window:{}", c.tag);
            }
            5 => {
                // code points at the edges of the block table / planes, in every encoding that carries them
                let t = unicode_extremes_text(rng);
                let e = *rng.pick(&["utf-8", "utf-8", "gb18030", "utf-16le", "utf-16be"]);
                let mut b = mark_of(e).filter(|_| e.starts_with("utf-16") || rng.chance(1, 3)).map(|m| m.to_vec()).unwrap_or_default();
                b.extend(enc_bytes(&t, e).unwrap_or_else(|| t.as_bytes().to_vec()));
                c.bytes = b;
                c.sett.incl.clear();
                c.sett.excl.clear();
                c.tag = format!("unicode-extremes:{}", e);
            }
            4 => {
                let (_, m) = *rng.pick(MARKS);
                c.bytes = m.to_vec();
            }
            _ => {}
        }
        c
    }
    fn directed(&self, thorough: bool) -> Vec<Case> {
        let mut v = large_unicode_cases(thorough);
        // filter entries that name no encoding, in awkward shapes: the only acceptable outcome is the returned error
        for (k, l) in odd_unknown_labels().into_iter().enumerate() {
            let mut s = Sett::default();
            match k % 3 {
                0 => s.incl = vec![l.clone()],
                1 => s.excl = vec!["utf-8".into(), l.clone()],
                _ => {
                    s.incl = vec!["ascii".into(), l.clone(), "utf-8".into()];
                    s.trace = true;
                }
            }
            v.push(Case { bytes: b"plain text, nothing special".to_vec(), sett: s, tag: "directed:odd-unknown-label".into() });
        }
        // stateful 7-bit encoding cut inside an escape sequence / a two-byte character, probed first
        for (k, b) in truncated_escape_cases().into_iter().enumerate() {
            if !thorough && k % 3 != 1 {
                continue; // quick tier: the "well-formed text + cut escape" variants only
            }
            let mut s = Sett::default();
            if (k / 3) % 2 == 0 {
                s.incl = vec!["iso-2022-jp".into()];
            }
            v.push(Case { bytes: b, sett: s, tag: "directed:truncated-escape".into() });
        }
        // > 1 MB ASCII with a non-ASCII byte in the tail, trace logger on (the repaired unwrap_err site)
        let mut b: Vec<u8> = std::iter::repeat(*b"plain ascii text, nothing to see here. ").take(1_000_100 / 39 + 1).flatten().collect();
        b.truncate(1_000_100);
        b[900_000] = 0xe9;
        let mut s = Sett::default();
        s.trace = true;
        s.incl = vec!["ascii".into(), "utf-8".into(), "windows-1252".into()];
        v.push(Case { bytes: b.clone(), sett: s, tag: "directed:large-ascii-tail-trace".into() });
        if thorough {
            let mut s = Sett::default();
            s.trace = true;
            v.push(Case { bytes: b, sett: s, tag: "nomodel:large-ascii-tail-trace-all".into() });
        }
        v
    }
    fn oracle(&self, cx: &mut Ctx, case: &Case, raw: &RealRaw) {
        let s = &case.sett;
        cx.rep.oracle_checked += 1;
        let ms = match raw {
            Err(p) => {
                cx.rep.fail("oracle", "C02:from-bytes-panicked", p, &case.bytes, Some(s), &case.tag);
                return;
            }
            Ok(Err(e)) => {
                // only failure mode: unknown name in the filter lists
                let unknown = s.incl.iter().chain(s.excl.iter()).any(|n| iana_name(n).is_none());
                if !unknown {
                    cx.rep.fail("oracle", "C02:undocumented-error", e, &case.bytes, Some(s), &case.tag);
                }
                return;
            }
            Ok(Ok(ms)) => ms,
        };
        // every public accessor on the list and on every match
        let bytes = case.bytes.clone();
        let r = catch_unwind(AssertUnwindSafe(|| {
            let mut acc = 0usize;
            acc += ms.len();
            let _ = ms.is_empty();
            let _ = ms.get_best().map(|m| m.encoding().len());
            for i in 0..ms.len() {
                acc += ms[i].encoding().len();
            }
            for m in ms.iter() {
                acc += m.encoding_aliases().len();
                acc += m.languages().len();
                acc += m.unicode_ranges().len();
                let _ = m.chaos_percents() + m.coherence_percents() + m.multi_byte_usage() + m.chaos() + m.coherence();
                let _ = m.most_probably_language();
                let _ = m.bom();
                let _ = m.raw().len();
                let _ = m.decoded_payload().map(|t| t.len());
                let _ = m.has_submatch();
                for sm in m.submatch() {
                    acc += sm.encoding_aliases().len() + sm.languages().len() + sm.unicode_ranges().len();
                    let _ = sm.multi_byte_usage() + sm.chaos_percents();
                    let _ = sm.most_probably_language();
                }
                acc += m.suitable_encodings().len();
                let _ = format!("{} {:?}", m, m);
                for e in m.suitable_encodings() {
                    let _ = ms.get_by_encoding(&e);
                }
                // lookup by alias, in any spelling the canonicaliser takes
                for a in m.encoding_aliases() {
                    let _ = ms.get_by_encoding(a);
                    let _ = ms.get_by_encoding(&format!(" {} ", a.to_uppercase()));
                }
            }
            for l in ["", " ", "\"", "'", "\"\"", "utf-8", "UTF8", "nope", "\u{0}", "latin1", "ascii", "hz", "replacement", "\u{fffd}\u{10ffff}"] {
                let _ = ms.get_by_encoding(l);
            }
            let _ = bytes.len();
            acc
        }));
        if let Err(p) = r {
            cx.rep.fail("oracle", "C02:accessor-panicked", &panic_msg(p), &case.bytes, Some(s), &case.tag);
        }
        cx.rep.count("oracle:accessor-sweep");
        // detection from a file: the same content through from_path (every 4th case; small inputs only), and paths that
        // cannot be read – a missing file, a directory – which must come back as errors, not as panics
        if case.bytes.len() < 300_000 && fp(&case.bytes, "c02-path") % 4 == 0 {
            let dir = std::env::temp_dir().join(format!("verif-c02-{}", std::process::id()));
            let _ = std::fs::create_dir_all(&dir);
            let p = dir.join("input.bin");
            if std::fs::write(&p, &case.bytes).is_ok() {
                let sett = s.clone();
                let r = catch_unwind(AssertUnwindSafe(|| {
                    let a = charset_normalizer_rs::from_path(&p, Some(sett.to_real())).is_ok();
                    let b = charset_normalizer_rs::from_path(&dir.join("no-such-file"), Some(sett.to_real())).is_err();
                    let c = charset_normalizer_rs::from_path(&dir, Some(sett.to_real())).is_err();
                    (a, b, c)
                }));
                cx.rep.count("oracle:from-path");
                match r {
                    Err(p) => cx.rep.fail("oracle", "C02:from-path-panicked", &panic_msg(p), &case.bytes, Some(s), &case.tag),
                    Ok((_, missing_is_err, dir_is_err)) => {
                        if !missing_is_err || !dir_is_err {
                            cx.rep.fail("oracle", "C02:unreadable-path-not-reported-as-error", &format!("missing file -> error: {}, directory -> error: {}", missing_is_err, dir_is_err), &case.bytes, Some(s), &case.tag);
                        }
                    }
                }
                let _ = std::fs::remove_file(&p);
            }
            let _ = std::fs::remove_dir(&dir);
        }
        // public helpers on this input
        let sup = supported();
        let e1 = *cx_rng(case).pick(&sup);
        let helpers = catch_unwind(AssertUnwindSafe(|| {
            for trap in [DecoderTrap::Strict, DecoderTrap::Ignore, DecoderTrap::Replace] {
                for only_test in [false, true] {
                    for chunk in [false, true] {
                        let _ = decode(&case.bytes, e1, trap, only_test, chunk);
                    }
                }
            }
            let _ = decode(&case.bytes, "no-such-encoding", DecoderTrap::Strict, false, false);
            let text = String::from_utf8_lossy(&case.bytes).to_string();
            for trap in [EncoderTrap::Strict, EncoderTrap::Ignore, EncoderTrap::Replace] {
                let _ = encode(&text, e1, trap);
            }
            let _ = encode(&text, "no-such-encoding", EncoderTrap::Strict);
            let _ = iana_name(&text);
            let _ = charset_normalizer_rs::utils::is_multi_byte_encoding(&text);
        }));
        if let Err(p) = helpers {
            cx.rep.fail("oracle", "C02:helper-panicked", &format!("{} with encoding {}", panic_msg(p), e1), &case.bytes, Some(s), &case.tag);
        }
    }
}

fn cx_rng(case: &Case) -> Rng {
    Rng::new(fp(&case.bytes, "helpers"))
}
