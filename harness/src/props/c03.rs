//! C03 — detection is deterministic: same input and settings give the same answer.
use super::*;
use charset_normalizer_rs::verif_hooks as vh;
use std::process::Command;

/// the batch every freshly spawned process recomputes from the seed alone
pub fn batch_cases(seed: u64, n: usize) -> Vec<Case> {
    let mut rng = Rng::new(seed ^ 0xC03);
    let corpus = corpus(40_000);
    let mut v = vec![];
    for i in 0..n {
        let mut r = rng.fork();
        let mut c = structured_case(&mut r, &corpus);
        c.sett.trace = false;
        if i % 2 == 0 {
            // multi-script texts and texts with tied language scores
            let names = ["mixed-latin-cyrillic", "mixed-cjk", "russian", "bulgarian", "ukrainian", "spanish", "french", "german", "chinese", "japanese", "korean"];
            let (na, nb) = (*r.pick(&names), *r.pick(&names));
            let a = TEXTS.iter().find(|(n, _)| *n == na).unwrap().1;
            let b = TEXTS.iter().find(|(n, _)| *n == nb).unwrap().1;
            let k = r.range(100, 1500);
            let text = format!("{} {} {}", stretch(&mut r, a, k / 2), b, stretch(&mut r, b, k / 2));
            let enc = *r.pick(&["utf-8", "utf-8", "utf-16le", "gb18030"]);
            let mut bytes = enc_bytes(&text, enc).unwrap_or_else(|| text.clone().into_bytes());
            if enc == "utf-16le" {
                let mut x = b"\xff\xfe".to_vec();
                x.extend(bytes);
                bytes = x;
            }
            c.bytes = bytes;
            c.sett.incl.clear();
            c.sett.excl.clear();
            c.tag = "multi-script".into();
        }
        if i % 8 == 5 {
            c = conflicting_hints_case(&mut r);
        }
        if i % 8 == 7 || i % 8 == 1 {
            // a legacy text restricted (or with exclusions) to several code pages that read it alike: which one
            // heads the match, which ones become alternatives, which are skipped as similar – all of it depends on
            // the order of probing, which must not depend on anything but the arguments
            let (name, enc, pages): (&str, &str, &[&str]) = *r.pick(&[
                ("french", "windows-1252", &["windows-1252", "iso-8859-15", "iso-8859-1", "windows-1254", "iso-8859-9", "macintosh", "windows-1250"][..]),
                ("russian", "windows-1251", &["windows-1251", "koi8-r", "koi8-u", "iso-8859-5", "ibm866", "x-mac-cyrillic", "windows-1252"][..]),
                ("greek", "iso-8859-7", &["iso-8859-7", "windows-1253", "windows-1252", "iso-8859-1"][..]),
                ("german", "iso-8859-1", &["iso-8859-1", "iso-8859-15", "windows-1252", "iso-8859-2", "windows-1250", "iso-8859-16"][..]),
            ]);
            let base = TEXTS.iter().find(|(n, _)| *n == name).map(|x| x.1).unwrap_or(TEXTS[0].1);
            let k = r.range(120, 900);
            let text = stretch(&mut r, base, k);
            c.bytes = enc_bytes_lossy(&text, enc);
            c.sett = Sett::default();
            let mut list: Vec<String> = vec![];
            for p in pages {
                if r.chance(2, 3) {
                    list.push(p.to_string());
                }
            }
            if list.len() < 2 {
                list = pages.iter().take(3).map(|p| p.to_string()).collect();
            }
            // shuffled, sometimes with repeats
            for a in (1..list.len()).rev() {
                let b = r.below(a + 1);
                list.swap(a, b);
            }
            if r.chance(1, 4) {
                let x = list[0].clone();
                list.push(x);
            }
            if r.chance(3, 4) {
                c.sett.incl = list;
            } else {
                c.sett.excl = list;
            }
            c.tag = "several-similar-pages".into();
        }
        if i % 8 == 2 {
            c.bytes = many_plugins_text(&mut r).into_bytes();
            c.sett = Sett::default();
            c.sett.thr = *r.pick(&[0.2f32, 0.5, 1.0]);
            c.tag = "many-plugins".into();
        }
        if i % 8 == 3 {
            c.bytes = adjacent_blocks_text(&mut r).into_bytes();
            c.sett = Sett::default();
            c.tag = "adjacent-blocks".into();
        }
        if c.bytes.len() > 8000 {
            c.bytes.truncate(8000);
        }
        v.push(c);
        if i % 5 == 4 {
            // the same content under one changed setting: another launch may meet them in another order
            let mut sib = v[v.len() - 1].clone();
            match r.below(3) {
                0 => sib.sett.lthr = *r.pick(&[0.7f32, 0.0, 0.4]),
                1 => sib.sett.thr = *r.pick(&[0.45f32, 0.1, 0.3]),
                _ => sib.sett.fb = !sib.sett.fb,
            }
            sib.tag = format!("sibling-settings:{}", sib.tag);
            v.push(sib);
        }
    }
    // appended (never in place of a generated case, whose neighbours may be its siblings):
    for x in 0..(n / 16 + 2) {
        let i = if x == 0 { 4 } else { 16 * x - 4 };
        let mut c = Case { bytes: vec![], sett: Sett::default(), tag: String::new() };
        {
            // inputs that begin with a Unicode signature of *any* scheme (also those the library has no decoder for) or
            // with one signature followed by bytes that make it the beginning of a longer one: which signature an
            // input "has" must be a function of its bytes
            let sigs: [&[u8]; 12] = [
                b"\xff\xfe\x00\x00", b"\x00\x00\xfe\xff", b"\xff\xfe", b"\xfe\xff", b"\xef\xbb\xbf", b"\x84\x31\x95\x33", b"\x2b\x2f\x76\x38",
                b"\x2b\x2f\x76\x2f", b"\xf7\x64\x4c", b"\x0e\xfe\xff", b"\xfb\xee\x28", b"\xdd\x73\x66\x73",
            ];
            let k = (i / 16 + (seed as usize)) % sigs.len();
            let sig = if i == 4 { sigs[0] } else { sigs[k] };
            let (_, t) = TEXTS[(i / 16) % 6];
            let short: String = t.chars().take(40).collect();
            let mut bytes = sig.to_vec();
            match sig.len() {
                4 if sig[0] == 0xff || sig[0] == 0x00 => {
                    // UTF-32 text behind a UTF-32 signature
                    for ch in short.chars() {
                        let u = ch as u32;
                        bytes.extend(if sig[0] == 0xff { u.to_le_bytes() } else { u.to_be_bytes() });
                    }
                }
                2 => {
                    for u in short.encode_utf16() {
                        bytes.extend(if sig[0] == 0xff { u.to_le_bytes() } else { u.to_be_bytes() });
                    }
                    if (i / 16) % 2 == 1 {
                        // the text itself starts with U+0000
                        bytes.splice(2..2, [0u8, 0u8]);
                    }
                }
                _ => bytes.extend_from_slice(short.as_bytes()),
            }
            c.bytes = bytes;
            c.sett = Sett::default();
            c.sett.fb = (i / 16) % 3 != 1;
            c.tag = "foreign-signature".into();
        }
        v.push(c);
    }
    // a text and its "plane siblings" (the characters whose code points have the same low 16 bits in plane 2): launches
    // meet them in different orders, and what a process remembers per character must not be shared between them
    {
        let p: String = "\u{1b}[1;32mok\u{1b}[0m build 42: all 17 targets done; \u{1b}[31mwarn\u{1b}[0m (3) <see log> #A1 {x=y} ".repeat(4);
        let q: String = p.chars().map(|c| char::from_u32(0x20000 + c as u32).unwrap_or(c)).collect();
        v.push(Case { bytes: p.clone().into_bytes(), sett: Sett::default(), tag: "plane-sibling:basic".into() });
        v.push(Case { bytes: q.into_bytes(), sett: Sett::default(), tag: "plane-sibling:plane2".into() });
        let mut s = Sett::default();
        s.thr = 0.5;
        v.push(Case { bytes: p.into_bytes(), sett: s, tag: "plane-sibling:basic-again".into() });
    }
    // two inputs above the 1,000,000-byte limit that agree in length, in their first and in their last kilobytes and differ
    // only in the middle (and a third that differs in length by one): whatever a detection keeps about a large payload must
    // not answer for another one – launches meet them in different orders
    {
        let head: Vec<u8> = b"Section 1. General provisions of the agreement between the parties. ".iter().cycle().take(8192).cloned().collect();
        let tail: Vec<u8> = b"End of document. Signed and sealed on the date written above. ".iter().cycle().take(8192).cloned().collect();
        for (k, filler) in [&b"alpha beta gamma delta "[..], &b"one two three four five "[..], &b"alpha beta gamma delta "[..]].iter().enumerate() {
            let total = if k == 2 { 1_000_101 } else { 1_000_100 };
            let mut b = head.clone();
            b.extend(filler.iter().cycle().take(total - head.len() - tail.len()));
            b.extend_from_slice(&tail);
            v.push(Case { bytes: b, sett: Sett::default(), tag: format!("nomodel:large-same-head-and-tail:{}", k) });
        }
    }
    // a stateful decoder between calls: well-formed ISO-2022-JP, a text broken inside a shifted run, the
    // well-formed one again – the same bytes and settings must give the same answer both times
    {
        let jp = "\u{3053}\u{3093}\u{306b}\u{3061}\u{306f}\u{4e16}\u{754c}\u{3001}\u{3053}\u{308c}\u{306f}\u{30c6}\u{30b9}\u{30c8}\u{3067}\u{3059}\u{3002}";
        let good = enc_bytes_lossy(&format!("Subject: test mail\nFrom: someone\n\n{} {} {}\n", jp, jp, jp), "iso-2022-jp");
        let mut broken = b"Header: x\n\x1b$B$3$l$O".to_vec();
        broken.extend_from_slice(b"\xe9 rest of the line\n");
        if !good.is_empty() {
            for sett in [Sett::default(), { let mut s = Sett::default(); s.incl = vec!["iso-2022-jp".into()]; s }] {
                v.push(Case { bytes: good.clone(), sett: sett.clone(), tag: "stateful:good".into() });
                v.push(Case { bytes: broken.clone(), sett: sett.clone(), tag: "stateful:broken".into() });
                v.push(Case { bytes: good.clone(), sett: sett.clone(), tag: "stateful:good-again".into() });
            }
        }
    }
    v
}

pub fn print_batch(seed: u64, n: usize, reverse: bool) {
    let cases = batch_cases(seed, n);
    // a launch may evaluate the batch back to front (another history), the report is in batch order
    let order: Vec<usize> = if reverse { (0..cases.len()).rev().collect() } else { (0..cases.len()).collect() };
    let mut lines: Vec<String> = vec![String::new(); cases.len()];
    for i in order {
        let c = &cases[i];
        let o = real_detect(&c.bytes, &c.sett);
        // unicode ranges are part of the observable result too
        let ranges = match real_detect_raw(&c.bytes, &c.sett) {
            Ok(Ok(ms)) => ms.iter().map(|m| m.unicode_ranges().join("+")).collect::<Vec<_>>().join("/"),
            _ => String::new(),
        };
        lines[i] = format!("{} ## {}", o.show(), ranges);
    }
    for l in lines {
        println!("{}", l);
    }
}

pub fn run(thorough: bool, seed: u64, _replay: Option<String>) -> Report {
    let mut rep = Report::new("C03", seed);
    let mut drv = Driver::spawn();
    let n = if thorough { 400 } else { 60 };
    let k_proc = if thorough { 24 } else { 6 };
    let cases = batch_cases(seed, n);
    // in-process reference and repetition (warm, then after flush)
    let first: Vec<String> = cases.iter().map(|c| real_detect(&c.bytes, &c.sett).show()).collect();
    for (i, c) in cases.iter().enumerate() {
        rep.evaluations += 1;
        rep.oracle_checked += 1;
        rep.nontrivial(fp(&c.bytes, &c.sett.show()));
        rep.count(&format!("gen:{}", c.tag.split(':').next().unwrap_or("")));
        let again = real_detect(&c.bytes, &c.sett).show();
        vh::flush_caches();
        let cold = real_detect(&c.bytes, &c.sett).show();
        if again != first[i] || cold != first[i] {
            rep.fail("oracle", "C03:repetition-differs-in-process", &format!("first {} || again {} || after flush {}", first[i], again, cold), &c.bytes, Some(&c.sett), &c.tag);
        }
        // the model is a function: it must equal the implementation bit for bit
        if (i % 2 == 0 || thorough) && !c.tag.starts_with("nomodel:") {
            let model = model_detect(&mut drv, &c.bytes, &c.sett);
            rep.t3_compared += 1;
            if model.outcome.show() != first[i] {
                rep.fail("t3", "C03:model-disagrees", &format!("impl: {} || model: {}", first[i], model.outcome.show()), &c.bytes, Some(&c.sett), &c.tag);
            }
        }
    }
    // K freshly spawned processes (fresh hash seeds each) recompute the same batch
    let exe = std::env::current_exe().expect("current exe");
    let mut outputs: Vec<String> = vec![];
    let children: Vec<_> = (0..k_proc)
        .map(|k| Command::new(&exe).args(["batch", &seed.to_string(), &n.to_string(), if k % 2 == 1 { "reverse" } else { "forward" }]).output())
        .collect();
    for ch in children {
        match ch {
            Ok(o) if o.status.success() => outputs.push(String::from_utf8_lossy(&o.stdout).to_string()),
            Ok(o) => rep.fail("oracle", "C03:child-process-failed", &String::from_utf8_lossy(&o.stderr).chars().take(300).collect::<String>(), &[], None, "launch"),
            Err(e) => rep.fail("oracle", "C03:child-process-failed", &e.to_string(), &[], None, "launch"),
        }
    }
    rep.count_n("launches", outputs.len() as u64);
    if let Some(base) = outputs.first() {
        let base_lines: Vec<&str> = base.lines().collect();
        for (p, out) in outputs.iter().enumerate().skip(1) {
            for (i, (a, b)) in base_lines.iter().zip(out.lines()).enumerate() {
                rep.oracle_checked += 1;
                if a != &b {
                    let c = &cases[i.min(cases.len() - 1)];
                    rep.fail("oracle", "C03:launches-disagree", &format!("case {} launch 0: {} || launch {}: {}", i, a, p, b), &c.bytes, Some(&c.sett), &c.tag);
                }
            }
            if base_lines.len() != out.lines().count() {
                rep.fail("oracle", "C03:launches-disagree", "different number of results", &[], None, "launch");
            }
        }
        // and the launches agree with this process
        for (i, a) in base_lines.iter().enumerate() {
            if let Some(f) = first.get(i) {
                if !a.starts_with(f.as_str()) {
                    let c = &cases[i];
                    rep.fail("oracle", "C03:launch-differs-from-parent", &format!("child: {} || parent: {}", a, f), &c.bytes, Some(&c.sett), &c.tag);
                }
            }
        }
    }
    rep.sample(format!("{} cases x {} fresh processes; e.g. {}", n, k_proc, first.first().cloned().unwrap_or_default().chars().take(120).collect::<String>()));
    rep.model_rounds = drv.requests;
    rep
}
