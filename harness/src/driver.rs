//! The Lean model driver as a child process (line protocol, see DESIGN Appendix B).
use std::io::{BufRead, BufReader, Write};
use std::process::{Child, ChildStdin, ChildStdout, Command, Stdio};

pub struct Driver {
    child: Child,
    stdin: ChildStdin,
    stdout: BufReader<ChildStdout>,
    pub requests: u64,
}

impl Driver {
    pub fn spawn() -> Driver {
        let path = std::env::var("VERIF_DRIVER").unwrap_or_else(|_| "/verif/lean/.lake/build/bin/driver".to_string());
        let mut child = Command::new(&path)
            .stdin(Stdio::piped())
            .stdout(Stdio::piped())
            .spawn()
            .unwrap_or_else(|e| panic!("cannot start model driver {}: {}", path, e));
        let stdin = child.stdin.take().unwrap();
        let stdout = BufReader::with_capacity(1 << 20, child.stdout.take().unwrap());
        Driver { child, stdin, stdout, requests: 0 }
    }
    pub fn ask(&mut self, line: &str) -> String {
        self.requests += 1;
        self.stdin.write_all(line.as_bytes()).unwrap();
        self.stdin.write_all(b"\n").unwrap();
        self.stdin.flush().unwrap();
        let mut out = String::new();
        self.stdout.read_line(&mut out).expect("driver died");
        if out.is_empty() {
            panic!("model driver closed its output on request: {}", &line[..line.len().min(200)]);
        }
        out.trim_end().to_string()
    }
}

impl Drop for Driver {
    fn drop(&mut self) {
        let _ = self.child.kill();
        let _ = self.child.wait();
    }
}
