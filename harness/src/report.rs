//! Bookkeeping shared by all property runners: counts, distribution, failures, replay files.
use crate::detect::Sett;
use crate::util::hex;
use std::collections::{BTreeMap, BTreeSet};

pub struct Fail {
    pub kind: &'static str, // "oracle" (implementation violates the property) | "t3" (model ≠ implementation)
    pub class: String,      // stable id of *what* fails, used to match known findings
    pub detail: String,
    pub replay: String, // path
}

pub struct Report {
    pub prop: String,
    pub seed: u64,
    pub evaluations: u64,
    pub distinct: BTreeSet<u64>,
    pub t3_compared: u64,
    pub t3_disagree: u64,
    pub oracle_checked: u64,
    pub oracle_failed: u64,
    pub dist: BTreeMap<String, u64>,
    pub samples: Vec<String>,
    pub fails: Vec<Fail>,
    pub replay_dir: String,
    pub model_rounds: u64,
    pub notes: Vec<String>,
}

pub fn jstr(s: &str) -> String {
    let mut o = String::from("\"");
    for c in s.chars() {
        match c {
            '"' => o.push_str("\\\""),
            '\\' => o.push_str("\\\\"),
            '\n' => o.push_str("\\n"),
            '\r' => o.push_str("\\r"),
            '\t' => o.push_str("\\t"),
            c if (c as u32) < 0x20 => o.push_str(&format!("\\u{:04x}", c as u32)),
            c => o.push(c),
        }
    }
    o.push('"');
    o
}

impl Report {
    pub fn new(prop: &str, seed: u64) -> Report {
        let root = std::env::var("VERIF_ROOT").unwrap_or_else(|_| "/verif".to_string());
        let replay_dir = format!("{}/replays/{}", root, prop);
        let _ = std::fs::create_dir_all(&replay_dir);
        Report {
            prop: prop.to_string(),
            seed,
            evaluations: 0,
            distinct: BTreeSet::new(),
            t3_compared: 0,
            t3_disagree: 0,
            oracle_checked: 0,
            oracle_failed: 0,
            dist: BTreeMap::new(),
            samples: vec![],
            fails: vec![],
            replay_dir,
            model_rounds: 0,
            notes: vec![],
        }
    }
    pub fn count(&mut self, key: &str) {
        *self.dist.entry(key.to_string()).or_insert(0) += 1;
    }
    pub fn count_n(&mut self, key: &str, n: u64) {
        *self.dist.entry(key.to_string()).or_insert(0) += n;
    }
    pub fn sample(&mut self, s: String) {
        if self.samples.len() < 6 {
            self.samples.push(s);
        }
    }
    /// a case counts as distinct+non-trivial through its fingerprint
    pub fn nontrivial(&mut self, fingerprint: u64) {
        self.distinct.insert(fingerprint);
    }
    #[allow(clippy::too_many_arguments)]
    pub fn fail(&mut self, kind: &'static str, class: &str, detail: &str, bytes: &[u8], sett: Option<&Sett>, extra: &str) {
        if kind == "t3" {
            self.t3_disagree += 1;
        } else {
            self.oracle_failed += 1;
        }
        // keep at most 5 replay files per class
        let same = self.fails.iter().filter(|f| f.class == class && f.kind == kind).count();
        if same >= 5 {
            return;
        }
        let n = self.fails.len();
        let path = format!("{}/{}-{}-{}.json", self.replay_dir, kind, self.seed, n);
        let body = format!(
            "{{\"property\":{},\"kind\":{},\"class\":{},\"seed\":{},\"bytes_hex\":{},\"bytes_len\":{},\"settings\":{},\"detail\":{},\"extra\":{}}}\n",
            jstr(&self.prop),
            jstr(kind),
            jstr(class),
            self.seed,
            jstr(&if bytes.len() <= 200_000 { hex(bytes) } else { format!("sha-omitted-len-{}", bytes.len()) }),
            bytes.len(),
            sett.map(|s| s.json()).unwrap_or_else(|| "null".into()),
            jstr(detail),
            jstr(extra)
        );
        let _ = std::fs::write(&path, body);
        self.fails.push(Fail { kind, class: class.to_string(), detail: detail.to_string(), replay: path });
    }
    pub fn finish(&self) {
        for f in &self.fails {
            println!(
                "FAIL {{\"kind\":{},\"class\":{},\"detail\":{},\"replay\":{}}}",
                jstr(f.kind),
                jstr(&f.class),
                jstr(&f.detail.chars().take(600).collect::<String>()),
                jstr(&f.replay)
            );
        }
        let dist: Vec<String> = self.dist.iter().map(|(k, v)| format!("{}:{}", jstr(k), v)).collect();
        let samples: Vec<String> = self.samples.iter().map(|s| jstr(&s.chars().take(400).collect::<String>())).collect();
        let notes: Vec<String> = self.notes.iter().map(|s| jstr(s)).collect();
        println!(
            "SUMMARY {{\"property\":{},\"seed\":{},\"evaluations\":{},\"distinct_nontrivial\":{},\"t3_compared\":{},\"t3_disagree\":{},\"oracle_checked\":{},\"oracle_failed\":{},\"model_rounds\":{},\"distribution\":{{{}}},\"samples\":[{}],\"notes\":[{}]}}",
            jstr(&self.prop),
            self.seed,
            self.evaluations,
            self.distinct.len(),
            self.t3_compared,
            self.t3_disagree,
            self.oracle_checked,
            self.oracle_failed,
            self.model_rounds,
            dist.join(","),
            samples.join(","),
            notes.join(",")
        );
    }
}

pub fn fp(bytes: &[u8], extra: &str) -> u64 {
    let mut h: u64 = 0xcbf29ce484222325;
    for b in bytes.iter().chain(extra.as_bytes()) {
        h ^= *b as u64;
        h = h.wrapping_mul(0x100000001b3);
    }
    h
}
