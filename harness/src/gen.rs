//! Input generators. Every random choice derives from one `Rng`, so a case replays from seed+index.
use crate::detect::Sett;
use crate::util::Rng;
use charset_normalizer_rs::consts::IANA_SUPPORTED;
use charset_normalizer_rs::utils::encode;
use encoding::EncoderTrap;

pub const TEXTS: &[(&str, &str)] = &[
    ("english", "The quick brown fox jumps over the lazy dog. It was a bright cold day in April, and the clocks were striking thirteen. Nothing was your own except the few cubic centimetres inside your skull."),
    ("french", "Bonjour, ça va très bien. Les élèves étudient à l'école française près de la forêt; où est passé le garçon qui aimait tant les gâteaux à la crème brûlée et le thé à la bergamote ?"),
    ("german", "Falsches Üben von Xylophonmusik quält jeden größeren Zwerg. Die Straße führt über die Brücke zum Schloß, wo früher Könige wohnten und heute Besucher durch die Säle gehen."),
    ("spanish", "El pingüino Wenceslao hizo kilómetros bajo exhaustiva lluvia y frío; añoraba a su querido cachorro. ¿Dónde está la biblioteca? Mañana será otro día, señor."),
    ("polish", "Pchnąć w tę łódź jeża lub ośm skrzyń fig. Zażółć gęślą jaźń. W Szczebrzeszynie chrząszcz brzmi w trzcinie i Szczebrzeszyn z tego słynie."),
    ("czech", "Příliš žluťoučký kůň úpěl ďábelské ódy. Nechť již hříšné saxofony ďáblů rozezvučí síň úděsnými tóny waltzu, tanga a quickstepu."),
    ("turkish", "Pijamalı hasta yağız şoföre çabucak güvendi. Öküz ajan hapse düştü yavrum, ocağı felç gibi. Türkçe karakterler: ğ, ü, ş, ı, ö, ç."),
    ("russian", "Съешь же ещё этих мягких французских булок да выпей чаю. В чащах юга жил бы цитрус? Да, но фальшивый экземпляр! Широкая электрификация южных губерний даст мощный толчок подъёму сельского хозяйства."),
    ("ukrainian", "Чуєш їх, доцю, га? Кумедна ж ти, прощайся без ґольфів! Жебракують філософи при ґанку церкви в Гадячі, ще й шатро їхнє п'яне знаємо."),
    ("bulgarian", "Ах, чудна българска земьо, полюшвай цъфтящи жита. Жълтата дюля беше щастлива, че пухът, който цъфна, замръзна като гьон."),
    ("greek", "Ξεσκεπάζω την ψυχοφθόρα βδελυγμία. Γαζέες καὶ μυρτιὲς δὲν θὰ βρῶ πιὰ στὸ χρυσαφὶ ξέφωτο. Ταχίστη αλώπηξ βαφής ψημένη γη, δρασκελίζει υπέρ νωθρού κυνός."),
    ("hebrew", "דג סקרן שט בים מאוכזב ולפתע מצא לו חברה איך הקליטה. עטלף אבק נס דרך מזגן שהתפוצץ כי חם. שפן אכל קצת גזר בטעם חסה, ודי."),
    ("arabic", "صِف خَلقَ خَودِ كَمِثلِ الشَمسِ إِذ بَزَغَت يَحظى الضَجيعُ بِها نَجلاءَ مِعطارِ. نص حكيم له سر قاطع وذو شأن عظيم مكتوب على ثوب أخضر ومغلف بجلد أزرق."),
    ("thai", "เป็นมนุษย์สุดประเสริฐเลิศคุณค่า กว่าบรรดาฝูงสัตว์เดรัจฉาน จงฝ่าฟันพัฒนาวิชาการ อย่าล้างผลาญฤๅเข่นฆ่าบีฑาใคร ไม่ถือโทษโกรธแช่งซัดฮึดฮัดด่า"),
    ("chinese", "我能吞下玻璃而不伤身体。视野无限广，窗外有蓝天。微风迎客，软语伴茶。中华人民共和国是工人阶级领导的、以工农联盟为基础的人民民主专政的社会主义国家。"),
    ("tradchinese", "我能吞下玻璃而不傷身體。視野無限廣，窗外有藍天。微風迎客，軟語伴茶。臺灣是一個位於東亞的島嶼，擁有豐富的自然景觀與人文風情。"),
    ("japanese", "いろはにほへと ちりぬるを わかよたれそ つねならむ。私はガラスを食べられます。それは私を傷つけません。東京は日本の首都であり、世界最大級の都市圏を形成している。"),
    ("korean", "키스의 고유조건은 입술끼리 만나야 하고 특별한 기술은 필요치 않다. 나는 유리를 먹을 수 있어요. 그래도 아프지 않아요. 대한민국의 수도는 서울특별시이다."),
    ("vietnamese", "Tôi có thể ăn thủy tinh mà không hại gì. Do bạch kim rất quý nên sẽ dùng để lắp vô xương. Việt Nam là một quốc gia nằm ở phía đông bán đảo Đông Dương."),
    ("mixed-latin-cyrillic", "Release notes: версия 2.0 вышла сегодня. The new интерфейс is faster, а документация доступна online. Спасибо всем contributors за помощь!"),
    ("mixed-cjk", "日本語と한국어と中文が混ざった文章です。カタカナとひらがな、그리고 한글, 以及汉字。これはテストです。이것은 테스트입니다。这是一个测试。"),
    ("symbols", "<<<>>> === ||| ~~~ --- ___ ;;; ::: {}{}{} [][][] \"\"\" &&& /// ,,, 1234567890 +-*/ %%% $$$ ### @@@ !!! ???"),
    ("html", "<html><head><meta charset=\"utf-8\"><title>Test</title></head><body><p>Hello &amp; welcome to the page.</p></body></html>"),
    ("xml", "<?xml version=\"1.0\" encoding=\"windows-1252\"?><root><item id=\"1\">value</item></root>"),
    ("python", "# -*- coding: latin-1 -*-\nimport os\nprint('hello world')\n"),
];

pub fn supported() -> Vec<&'static str> {
    IANA_SUPPORTED.iter().copied().collect()
}

pub fn enc_bytes(text: &str, enc: &str) -> Option<Vec<u8>> {
    encode(text, enc, EncoderTrap::Strict).ok()
}

/// the text in `enc`, characters the code page lacks left out
pub fn enc_bytes_lossy(text: &str, enc: &str) -> Vec<u8> {
    encode(text, enc, EncoderTrap::Ignore).unwrap_or_default()
}

pub const MARKS: &[(&str, &[u8])] = &[
    ("utf-8", b"\xef\xbb\xbf"),
    ("gb18030", b"\x84\x31\x95\x33"),
    ("utf-16le", b"\xff\xfe"),
    ("utf-16be", b"\xfe\xff"),
];

pub fn mark_of(enc: &str) -> Option<&'static [u8]> {
    MARKS.iter().find(|(e, _)| *e == enc).map(|(_, m)| *m)
}

/// files of the repository's own sample corpus (path, bytes); empty if the directory is missing
pub fn corpus(max_bytes: usize) -> Vec<(String, Vec<u8>)> {
    let mut out = vec![];
    let root = std::path::Path::new("/repo/src/tests/data");
    fn walk(p: &std::path::Path, out: &mut Vec<(String, Vec<u8>)>, max_bytes: usize) {
        if let Ok(rd) = std::fs::read_dir(p) {
            let mut ents: Vec<_> = rd.flatten().map(|e| e.path()).collect();
            ents.sort();
            for e in ents {
                if e.is_dir() {
                    walk(&e, out, max_bytes);
                } else if let Ok(b) = std::fs::read(&e) {
                    if b.len() <= max_bytes {
                        out.push((e.to_string_lossy().to_string(), b));
                    }
                }
            }
        }
    }
    walk(root, &mut out, max_bytes);
    out
}

/// a longer text built by repeating/shuffling sentences of a built-in text
pub fn stretch(rng: &mut Rng, base: &str, target_chars: usize) -> String {
    let parts: Vec<&str> = base.split_inclusive(|c| c == '.' || c == '。' || c == '?' || c == '!').collect();
    let mut s = String::new();
    while s.chars().count() < target_chars {
        s.push_str(*rng.pick(&parts[..]));
        if rng.chance(1, 3) {
            s.push(' ');
        }
        if rng.chance(1, 12) {
            s.push('\n');
        }
    }
    s
}

pub fn random_bytes(rng: &mut Rng, n: usize) -> Vec<u8> {
    (0..n).map(|_| rng.below(256) as u8).collect()
}

pub const LABEL_SPELLINGS: &[&str] = &[
    "UTF-8", "utf8", " utf-8 ", "Latin1", "LATIN1", "l1", "us-ascii", "ASCII", "cp1252", "Windows-1252",
    "koi8_r", "KOI8-R", "cp866", "IBM866", "shift-jis", "sjis", "ms_kanji", "EUC-JP", "x-euc-jp", "gb2312",
    "GBK", "chinese", "big5-hkscs", "cn-big5", "ks_c_5601-1987", "korean", "utf-16", "UTF-16LE", "utf-16be",
    "iso-8859-2", "latin2", "ISO_8859-5", "cyrillic", "greek", "hebrew", "arabic", "windows-874", "tis-620",
    "x-mac-cyrillic", "macintosh", "mac", "iso-2022-jp", "csiso2022jp", "iso-8859-8-i", "logical", "visual",
    "x-user-defined", "iso-2022-kr", "hz-gb-2312", "replacement", "\tutf-8\n", "\u{c}gbk\u{c}", "UTF-8\u{a0}",
    "", " ", "utf-9", "latin-1", "nonsense", "ascii ", "iso-8859-1", "hz", "ISO-8859-1", "Ascii", "ＵＴＦ－８",
    "utf\u{2d}8", "ıso-8859-1", "İSO-8859-1", "\u{212a}oi8-r",
];

pub fn pad_and_case(rng: &mut Rng, label: &str) -> String {
    let mut s = String::new();
    let ws = [' ', '\t', '\n', '\r', '\u{c}'];
    for _ in 0..rng.below(3) {
        s.push(*rng.pick(&ws));
    }
    for c in label.chars() {
        if rng.chance(1, 3) {
            s.extend(c.to_uppercase());
        } else {
            s.push(c);
        }
    }
    for _ in 0..rng.below(3) {
        s.push(*rng.pick(&ws));
    }
    s
}

#[derive(Clone)]
pub struct Case {
    pub bytes: Vec<u8>,
    pub sett: Sett,
    pub tag: String,
}

fn random_settings(rng: &mut Rng, len: usize) -> Sett {
    let mut s = Sett::default();
    match rng.below(10) {
        0 => {
            s.steps = rng.range(1, 12);
            s.chunk = rng.range(0, 64);
        }
        1 => {
            // around the fit boundary
            s.steps = rng.range(1, 8);
            let c = len / s.steps.max(1);
            s.chunk = (c + rng.below(3)).saturating_sub(1);
        }
        2 => {
            s.steps = rng.range(1, 2000);
            s.chunk = rng.range(1, 4096);
        }
        3 => {
            s.steps = 1;
            s.chunk = len + rng.below(2);
        }
        _ => {}
    }
    match rng.below(12) {
        0 => s.thr = 0.0,
        1 => s.thr = 1.0,
        2 => s.thr = f32::from_bits(1),
        3 => s.thr = rng.below(1000) as f32 / 1000.0,
        4 => s.thr = 0.1,
        5 => s.thr = 0.5,
        _ => {}
    }
    match rng.below(10) {
        0 => s.lthr = 0.0,
        1 => s.lthr = 0.8,
        2 => s.lthr = rng.below(800) as f32 / 1000.0,
        _ => {}
    }
    if rng.chance(1, 5) {
        s.pre = false;
    }
    if rng.chance(1, 4) {
        s.fb = false;
    }
    if rng.chance(1, 6) {
        s.trace = true;
    }
    s
}

fn random_filters(rng: &mut Rng, s: &mut Sett) {
    let sup = supported();
    match rng.below(8) {
        0 => {
            for _ in 0..rng.range(1, 4) {
                s.incl.push(rng.pick(&sup).to_string());
            }
        }
        1 => {
            for _ in 0..rng.range(1, 6) {
                s.excl.push(rng.pick(&sup).to_string());
            }
        }
        2 => {
            for _ in 0..rng.range(1, 3) {
                let l = *rng.pick(LABEL_SPELLINGS);
                s.incl.push(pad_and_case(rng, l));
            }
        }
        3 => {
            for _ in 0..rng.range(1, 3) {
                let l = *rng.pick(LABEL_SPELLINGS);
                s.excl.push(pad_and_case(rng, l));
            }
        }
        4 => {
            s.excl.push("ascii".into());
            s.excl.push("utf-8".into());
        }
        _ => {}
    }
}

/// one structured, mostly-valid detection case
pub fn structured_case(rng: &mut Rng, corpus: &[(String, Vec<u8>)]) -> Case {
    let sup = supported();
    let kind = rng.below(100);
    let (mut bytes, mut tag): (Vec<u8>, String) = if kind < 45 {
        // built-in text rendered in an encoding that can represent it
        let (name, text) = *rng.pick(TEXTS);
        let text = if rng.chance(1, 3) { let n = rng.range(50, 3000); stretch(rng, text, n) } else { text.to_string() };
        let mut tries = 0;
        loop {
            let enc = *rng.pick(&sup);
            tries += 1;
            if let Some(b) = enc_bytes(&text, enc) {
                break (b, format!("text:{}:{}", name, enc));
            }
            if tries > 60 {
                break (text.as_bytes().to_vec(), format!("text:{}:utf-8", name));
            }
        }
    } else if kind < 65 && !corpus.is_empty() {
        let (p, b) = rng.pick(corpus);
        let mut b = b.clone();
        if b.len() > 6000 && rng.chance(4, 5) {
            let start = rng.below(b.len() - 3000);
            let l = rng.range(200, 3000);
            b = b[start..start + l].to_vec();
        }
        (b, format!("corpus:{}", p.rsplit('/').next().unwrap_or("")))
    } else if kind < 75 {
        let n = match rng.below(4) {
            0 => rng.range(1, 8),
            1 => rng.range(8, 64),
            _ => rng.range(64, 1500),
        };
        (random_bytes(rng, n), "random".to_string())
    } else if kind < 85 {
        // truncated / corrupted multi-byte
        let (name, text) = *rng.pick(TEXTS);
        let enc = *rng.pick(&["utf-8", "utf-16le", "utf-16be", "gb18030", "shift_jis", "euc-kr", "big5", "euc-jp", "gbk"]);
        let mut b = enc_bytes(text, enc).unwrap_or_else(|| text.as_bytes().to_vec());
        let cut = rng.range(1, b.len());
        b.truncate(cut);
        if rng.chance(1, 2) && !b.is_empty() {
            let i = rng.below(b.len());
            b[i] = rng.below(256) as u8;
        }
        (b, format!("truncated:{}:{}", name, enc))
    } else if kind < 92 {
        // pure ASCII with one anomaly somewhere
        let n = rng.range(100, 12000);
        let text = stretch(rng, TEXTS[0].1, n);
        let mut b = text.into_bytes();
        let anomaly: &[u8] = *rng.pick(&[&b"\xc3\xa9"[..], &b"\xe9"[..], &b"\x00"[..], &b"\x1b"[..], &b"\xff"[..], &b"\xe2\x82\xac"[..]]);
        let pos = rng.below(b.len());
        for (k, x) in anomaly.iter().enumerate() {
            b.insert(pos + k, *x);
        }
        (b, "ascii+anomaly".to_string())
    } else {
        // tiny inputs
        let opts: &[&[u8]] = &[b"a", b"\xe9", b"\xef\xbb\xbf", b"\xff\xfe", b"\xfe\xff", b"\x84\x31\x95\x33", b"\xff\xfea\x00", b"\xef\xbb\xbfh", b"\x00", b"ab", b"\xc3", b"\xc3\xa9", b"\xff\xfe\x00\xd8", b"\xfe\xff\xd8\x00\xdc\x00"];
        (rng.pick(opts).to_vec(), "tiny".to_string())
    };
    // optional BOM
    if rng.chance(1, 6) {
        let (e, m) = *rng.pick(MARKS);
        let mut nb = m.to_vec();
        if rng.chance(1, 5) {
            nb.extend_from_slice(m);
        }
        nb.extend_from_slice(&bytes);
        bytes = nb;
        tag.push_str(&format!("+bom:{}", e));
    }
    // optional declaration
    if rng.chance(1, 6) {
        let kw = *rng.pick(&["charset", "encoding", "coding"]);
        let sep = *rng.pick(&["=", ":", ": ", " = ", "=\"", "='", "            ", ":::==="]);
        let label = *rng.pick(LABEL_SPELLINGS);
        let decl = format!("<meta {}{}{}\"> ", kw, sep, label.trim());
        let mut nb: Vec<u8> = vec![];
        if rng.chance(1, 5) {
            // beyond the 4096 byte zone
            nb.extend(std::iter::repeat(b' ').take(4090 + rng.below(12)));
        }
        // keep a BOM in front
        let bomlen = MARKS.iter().find(|(_, m)| bytes.starts_with(m)).map(|(_, m)| m.len()).unwrap_or(0);
        let mut out = bytes[..bomlen].to_vec();
        out.extend(nb);
        // declaration in the input's own byte width for UTF-16
        if bytes.starts_with(b"\xff\xfe") {
            for c in decl.bytes() {
                out.push(c);
                out.push(0);
            }
        } else if bytes.starts_with(b"\xfe\xff") {
            for c in decl.bytes() {
                out.push(0);
                out.push(c);
            }
        } else {
            out.extend(decl.bytes());
        }
        out.extend_from_slice(&bytes[bomlen..]);
        bytes = out;
        tag.push_str(&format!("+decl:{}", label.trim()));
    }
    let mut sett = random_settings(rng, bytes.len());
    random_filters(rng, &mut sett);
    Case { bytes, sett, tag }
}

/// ASCII-only content carrying a declaration of a single-byte code page, with a few control bytes so
/// that chaos lands between 0.1 and the default threshold: the declared encoding is accepted without
/// early exit and `ascii` joins it as an alternative (little text, so no language is detected).
pub fn declared_ascii_case(rng: &mut Rng) -> Case {
    let enc = *rng.pick(&["windows-1252", "iso-8859-1", "iso-8859-2", "koi8-r", "windows-1251", "iso-8859-15", "macintosh", "ibm866", "latin1", "cp1252"]);
    let kw = *rng.pick(&["charset", "encoding", "coding"]);
    let mut s = format!("<meta {}={}> ", kw, enc);
    let digits = rng.range(60, 140);
    for i in 0..digits {
        s.push(if i % 7 == 6 { ' ' } else { (b'0' + rng.below(10) as u8) as char });
    }
    if rng.chance(1, 2) {
        s.push_str(" ok go");
    }
    let mut b = s.into_bytes();
    let n_ctrl = rng.range(1, 4);
    for _ in 0..n_ctrl {
        let pos = rng.range(30, b.len());
        b.insert(pos, *rng.pick(&[1u8, 2, 7, 0x1b, 0x10]));
    }
    Case { bytes: b, sett: Sett::default(), tag: format!("declared-ascii:{}", enc) }
}

/// > 1 MB of UTF-8 text that is mostly non-ASCII, with pure-ASCII passages exactly where the lazy
/// byte windows of a single-byte probe fall: single-byte candidates pass their sampled windows and
/// are only rejected by the final look at the remainder.
pub fn large_mixed_case(rng: &mut Rng, steps: usize) -> Vec<u8> {
    let len_target = 1_200_000 + rng.below(1000);
    let russian = TEXTS.iter().find(|(n, _)| *n == "russian").unwrap().1;
    let mut b: Vec<u8> = Vec::with_capacity(len_target + 1024);
    // non-uniform density (first 40 %: Cyrillic letters only, 2 bytes per character) so that the
    // character windows of a multi-byte probe do NOT coincide with the byte windows of a lazy one
    let letters: String = russian.chars().filter(|c| *c as u32 >= 0x400).collect();
    while b.len() < len_target * 2 / 5 {
        b.extend_from_slice(letters.as_bytes());
    }
    while b.len() < len_target {
        b.extend_from_slice(russian.as_bytes());
        b.push(b' ');
    }
    b.truncate(len_target);
    // make it valid UTF-8 again at the cut
    while std::str::from_utf8(&b).is_err() {
        b.pop();
    }
    let len = b.len();
    let ascii = b"The quick brown fox jumps over the lazy dog and keeps running through the quiet forest until the evening comes. ";
    let step = (len / steps).max(1);
    let mut off = 0;
    while off < len {
        // overwrite [off-8, off+520) with ASCII, keeping UTF-8 validity by widening to char boundaries
        let mut a = off.saturating_sub(8);
        let mut z = (off + 520).min(len);
        while a > 0 && (b[a] & 0xC0) == 0x80 {
            a -= 1;
        }
        while z < len && (b[z] & 0xC0) == 0x80 {
            z += 1;
        }
        for (k, i) in (a..z).enumerate() {
            b[i] = ascii[k % ascii.len()];
        }
        off += step;
    }
    debug_assert!(std::str::from_utf8(&b).is_ok());
    b
}

/// Mostly-ASCII text longer than the default window, carrying short passages that are valid in several
/// multi-byte encodings (ISO-2022-JP escapes, HZ `~{ ~}` runs, EUC-range byte pairs) and a sprinkle of
/// control characters so that the `ascii`/`utf-8` hints do not end the run early: many candidates of
/// *different decoded lengths* get accepted one after the other, which is what makes a dependence of one
/// candidate's verdict on an earlier candidate visible.
/// A Latin-script text whose few bytes >= 0x80 mean the same character in many code pages (no-break space,
/// section / copyright / degree signs, guillemets, a handful of accented letters): pages of quite different
/// scripts then decode it to the *same* text and end up as alternatives of one match, each with the
/// languages its own page targets.
pub fn shared_high_bytes_case(rng: &mut Rng) -> Case {
    let name = *rng.pick(&["english", "french", "german", "spanish", "italian", "dutch"]);
    let base = TEXTS.iter().find(|(n, _)| *n == name).map(|x| x.1).unwrap_or(TEXTS[0].1);
    let k = rng.range(150, 1400);
    let text = stretch(rng, base, k);
    let shared: &[u8] = match rng.below(3) {
        0 => &[0xA0, 0xA7, 0xA9],
        1 => &[0xA0, 0xA7, 0xA9, 0xAB, 0xBB, 0xB0, 0xB1, 0xB5, 0xB6, 0xB7],
        _ => &[0xA0, 0xE9, 0xE8, 0xE0, 0xE7, 0xEA],
    };
    let mut b: Vec<u8> = vec![];
    let every = rng.range(12, 90);
    for (i, c) in text.chars().enumerate() {
        if c.is_ascii() {
            b.push(c as u8);
        } else if rng.chance(1, 2) {
            b.push(*rng.pick(shared));
        }
        if i % every == every - 1 {
            b.push(*rng.pick(shared));
        }
    }
    let mut sett = Sett::default();
    if rng.chance(1, 3) {
        sett.lthr = *rng.pick(&[0.0f32, 0.3, 0.6]);
    }
    Case { bytes: b, sett, tag: format!("shared-high-bytes:{}", name) }
}

/// Two self-identifications that disagree: the input starts with the mark of one encoding and declares another
/// one (both supported, both able to read the body), so the order in which the hints are tried decides.
pub fn conflicting_hints_case(rng: &mut Rng) -> Case {
    let (mk_enc, mk) = *rng.pick(MARKS);
    let declared = loop {
        let d = *rng.pick(&["iso-8859-1", "windows-1252", "windows-1251", "koi8-r", "utf-8", "ascii", "iso-8859-15", "ibm866", "gb18030", "shift_jis", "big5", "macintosh", "iso-8859-7"]);
        if d != mk_enc {
            break d;
        }
    };
    let kw = *rng.pick(&["charset=", "encoding=\"", "coding: "]);
    let mut b = mk.to_vec();
    let head = format!("<?xml version=\"1.0\" {}{}\"?>\n", kw, declared);
    if mk_enc.starts_with("utf-16") {
        for u in head.encode_utf16() {
            b.extend_from_slice(&if mk_enc == "utf-16le" { u.to_le_bytes() } else { u.to_be_bytes() });
        }
    } else {
        b.extend_from_slice(head.as_bytes());
    }
    let body_len = 80 + rng.below(600);
    let body = stretch(rng, TEXTS[0].1, body_len);
    if mk_enc.starts_with("utf-16") && rng.chance(1, 2) {
        for u in body.encode_utf16() {
            b.extend_from_slice(&if mk_enc == "utf-16le" { u.to_le_bytes() } else { u.to_be_bytes() });
        }
    } else {
        b.extend_from_slice(body.as_bytes());
    }
    Case { bytes: b, sett: Sett::default(), tag: format!("conflicting-hints:{}+{}", mk_enc, declared) }
}

pub fn multi_candidate_case(rng: &mut Rng) -> Case {
    let base = TEXTS[0].1;
    let mut sett = Sett::default();
    if rng.chance(1, 4) {
        sett.steps = rng.range(2, 9);
        sett.chunk = rng.range(200, 700);
    }
    // a little more than the window in *bytes*, so that a candidate which needs several bytes per
    // character decodes to less than the window in *characters*
    let window = sett.steps * sett.chunk;
    let target = if rng.chance(2, 3) { window + rng.range(20, window / 8) } else { rng.range(2600, 6000) };
    let mut b: Vec<u8> = Vec::with_capacity(target + 64);
    let flavour = rng.below(4); // 0: iso-2022-jp, 1: hz, 2: euc pairs, 3: all mixed
    let words: Vec<&str> = base.split(' ').collect();
    let ctrl_every = rng.range(55, 75);
    let mut since_ctrl = 0usize;
    while b.len() < target {
        let w = *rng.pick(&words[..]);
        b.extend_from_slice(w.as_bytes());
        b.push(b' ');
        since_ctrl += w.len() + 1;
        if since_ctrl >= ctrl_every {
            since_ctrl = 0;
            // (no ESC / tilde here: they would end the ISO-2022-JP / HZ reading of the text)
            b.push(*rng.pick(&[1u8, 2, 7, 0x10]));
        }
        if rng.chance(1, 14) {
            let f = if flavour == 3 { rng.below(3) } else { flavour };
            match f {
                0 => {
                    // JIS X 0208 two-byte characters between ESC $ B and ESC ( B
                    b.extend_from_slice(b"\x1b$B");
                    for _ in 0..rng.range(2, 9) {
                        b.push(0x30 + rng.below(0x1f) as u8);
                        b.push(0x21 + rng.below(0x5d) as u8);
                    }
                    b.extend_from_slice(b"\x1b(B ");
                }
                1 => {
                    b.extend_from_slice(b"~{");
                    for _ in 0..rng.range(2, 9) {
                        b.push(0x30 + rng.below(0x40) as u8);
                        b.push(0x21 + rng.below(0x5d) as u8);
                    }
                    b.extend_from_slice(b"~} ");
                }
                _ => {
                    for _ in 0..rng.range(2, 9) {
                        b.push(0xb0 + rng.below(0x18) as u8);
                        b.push(0xa1 + rng.below(0x5d) as u8);
                    }
                    b.push(b' ');
                }
            }
        }
    }
    match rng.below(4) {
        0 => sett.thr = 0.6,
        1 => sett.thr = 0.35,
        _ => {}
    }
    if rng.chance(1, 2) {
        sett.fb = false;
    }
    Case { bytes: b, sett, tag: format!("multi-candidate:{}", flavour) }
}

/// Content that *declares* `utf-8` or `ascii` (any spelling) – encodings that are hints anyway – and is
/// messy enough (control characters) for the declared encoding to be accepted with chaos between 10 %
/// and the threshold: no early exit, so the rest of the probing order still runs.
/// An ASCII English text declaring an encoding that is tied to one language (EUC-KR, Big5, GBK, ...), with
/// chaos between 10 % and the threshold: the declared encoding is probed first, accepted without an early
/// exit, and every ASCII-compatible encoding probed later decodes to the same text.
pub fn declared_tied_case(rng: &mut Rng) -> Case {
    let label = *rng.pick(&["euc-kr", "big5", "gbk", "gb18030", "euc-jp", "shift_jis", "iso-2022-jp", "korean", "x-sjis", "chinese"]);
    let decl = match rng.below(3) {
        0 => format!("# -*- coding: {} -*-\n", label),
        1 => format!("<meta charset=\"{}\">\n", label),
        _ => format!("Content-Type: text/plain; charset={}\n\n", label),
    };
    let chars: Vec<char> = TEXTS[0].1.chars().collect();
    let every = rng.range(58, 74);
    let target = rng.range(600, 1600);
    let mut s = decl;
    for n in 0..target {
        s.push(chars[n % chars.len()]);
        if n % every == every - 1 {
            s.push(*rng.pick(&['\u{1}', '\u{2}', '\u{7}', '\u{10}']));
        }
    }
    Case { bytes: s.into_bytes(), sett: Sett::default(), tag: format!("declared-tied:{}", label) }
}

/// Content that declares a legacy code page and is so messy that no code page passes: the only possible
/// answer is the fallback on the declared encoding (or on utf-8 / ascii when the declaration names nothing usable).
pub fn declared_fallback_case(rng: &mut Rng) -> Case {
    let label = *rng.pick(&["windows-1251", "koi8-r", "iso-8859-2", "windows-1252", "ibm866", "iso-8859-7", "windows-1256", "macintosh", "latin1", "cp1250", "big5", "euc-kr", "no-such-charset"]);
    let decl = match rng.below(3) {
        0 => format!("<meta charset=\"{}\">", label),
        1 => format!("# coding: {}\n", label),
        _ => format!("<?xml version=\"1.0\" encoding=\"{}\"?>", label),
    };
    let mut b = decl.into_bytes();
    let n = rng.range(120, 700);
    for i in 0..n {
        b.push(match rng.below(6) {
            0 => b' ',
            1 => b'#' + (i % 3) as u8,
            _ => 1 + rng.below(8) as u8,
        });
    }
    let mut sett = Sett::default();
    if rng.chance(1, 4) {
        sett.thr = *rng.pick(&[0.1f32, 0.3, 0.05]);
    }
    Case { bytes: b, sett, tag: format!("declared-fallback:{}", label) }
}

/// Inputs above 1,000,000 bytes in the Unicode encodings: multi-byte characters placed so that byte 500,000 /
/// 1,000,000 of the input (and of the decoded text) falls on a character start, inside a character, or just
/// after one; with and without the encoding's own mark. Valid throughout – every one of them has a correct answer.
pub fn large_unicode_cases(thorough: bool) -> Vec<Case> {
    let mut v = vec![];
    let cjk = "我没有埋怨，磋砣的只是一些时间。";
    let mk = |bytes: Vec<u8>, tag: String| Case { bytes, sett: Sett::default(), tag: format!("nomodel:large-unicode:{}", tag) };
    // 3-byte characters, shifted by 0/1/2 ASCII bytes: byte 500,000 is a lead byte or one of the two trail bytes
    for shift in 0..3usize {
        if !thorough && shift == 0 {
            continue;
        }
        let mut b: Vec<u8> = vec![b'a'; shift];
        while b.len() < 1_000_020 {
            b.extend_from_slice(cjk.as_bytes());
        }
        v.push(mk(b.clone(), format!("cjk-utf8-shift{}", shift)));
        if shift == 2 || thorough {
            let mut m = b"\xef\xbb\xbf".to_vec();
            m.extend_from_slice(&b);
            v.push(mk(m, format!("cjk-utf8-shift{}-marked", shift)));
        }
    }
    // ASCII with one two-byte character straddling byte 500,000 (and 1,000,000) of text and input alike
    for pos in [499_999usize, 999_999] {
        if !thorough && pos != 499_999 {
            continue;
        }
        let mut b: Vec<u8> = std::iter::repeat(*b"plain words and nothing else, line after line. ").take(1_000_200 / 47 + 1).flatten().collect();
        b.truncate(1_000_200);
        b[pos] = 0xc3;
        b[pos + 1] = 0xa9;
        v.push(mk(b, format!("ascii-with-e-acute-at-{}", pos)));
    }
    // UTF-16 and GB18030 with their marks
    let units: Vec<u16> = "The quick brown fox jumps over the lazy dog, again and again. ".encode_utf16().collect();
    for le in [true, false] {
        if !thorough && !le {
            continue;
        }
        let mut b: Vec<u8> = if le { b"\xff\xfe".to_vec() } else { b"\xfe\xff".to_vec() };
        while b.len() < 1_000_100 {
            for u in &units {
                b.extend_from_slice(&if le { u.to_le_bytes() } else { u.to_be_bytes() });
            }
        }
        v.push(mk(b, format!("utf16{}-marked", if le { "le" } else { "be" })));
    }
    if thorough {
        let mut b = b"\x84\x31\x95\x33".to_vec();
        let unit = enc_bytes_lossy("这是一个用来测试编码检测的中文句子，内容并不重要。", "gb18030");
        while b.len() < 1_000_100 {
            b.extend_from_slice(&unit);
        }
        v.push(mk(b, "gb18030-marked".into()));
    }
    v
}

/// `declared_fallback_case` behind the mark of another encoding: the only possible answer is the fallback on the
/// declared page, which has nothing to do with the mark the payload starts with
pub fn marked_declared_fallback_case(rng: &mut Rng) -> Case {
    let mut c = declared_fallback_case(rng);
    let (mk_enc, mk) = *rng.pick(&[MARKS[0], MARKS[0], MARKS[1]]);
    let mut b = mk.to_vec();
    b.extend_from_slice(&c.bytes);
    c.bytes = b;
    c.tag = format!("marked-{}-{}", mk_enc, c.tag);
    c
}

/// A text that makes several mess-detector plugins answer with a non-zero ratio at once (control characters,
/// doubled accents, symbols inside words, alternating case, punctuation runs): its chaos is a sum of several
/// floats, sensitive to the order of summation
pub fn many_plugins_text(rng: &mut Rng) -> String {
    let blen = 300 + rng.below(500);
    let base = stretch(rng, TEXTS[1].1, blen);
    let spice = ["\u{1}", "éè", "àâ", "no©te", "éBcDeF", "aBcDeFgH", "!!??;;", "§§", "ÉÈ", "x\u{7}y", "wørd§wørd", "ÀÂÄ"];
    let mut out = String::new();
    for (i, w) in base.split(' ').enumerate() {
        out.push_str(w);
        out.push(' ');
        if i % rng.range(3, 9) == 0 {
            out.push_str(*rng.pick(&spice));
            out.push(' ');
        }
    }
    out
}

/// > 1 MB of 7-bit text in a stateful encoding (ISO-2022-JP) that switches to two-byte mode right before byte
/// 500,000 and never switches back: every *part* looks fine to a decoder started in ASCII mode, the whole does not
pub fn large_stateful_split_case(rng: &mut Rng) -> Case {
    let len = 1_000_100 + rng.below(100_000);
    let mut b: Vec<u8> = b"<meta charset=\"iso-2022-jp\">\n".to_vec();
    let line = b"plain seven bit text, line after line, nothing else to see here at all.\n";
    while b.len() < len {
        b.extend_from_slice(line);
    }
    b.truncate(len);
    let pairs = 2 + rng.below(6);
    let start = 500_000 - 3 - 2 * pairs;
    b[start] = 0x1b;
    b[start + 1] = b'$';
    b[start + 2] = b'B';
    for k in 0..pairs {
        b[start + 3 + 2 * k] = 0x30 + rng.below(0x1f) as u8;
        b[start + 4 + 2 * k] = 0x21 + rng.below(0x5d) as u8;
    }
    // the text after byte 500,000 stays ASCII (no ESC ( B): in two-byte mode it is garbage, an odd byte at the end
    Case { bytes: b, sett: Sett::default(), tag: "nomodel:large-stateful-split:iso-2022-jp".into() }
}

/// A legacy single-byte text that (wrongly) declares utf-8 / ascii, or repeats the encoding of a mark it starts
/// with, or names a label that canonicalises to something the detector does not support: the declaration does not
/// check out, detection must go on through the code pages as if it were not there
pub fn misdeclared_legacy_case(rng: &mut Rng) -> Case {
    let (name, enc) = *rng.pick(&[("french", "iso-8859-1"), ("german", "windows-1252"), ("russian", "windows-1251"), ("greek", "iso-8859-7"), ("polish", "iso-8859-2"), ("turkish", "windows-1254")]);
    let base = TEXTS.iter().find(|(n, _)| *n == name).map(|x| x.1).unwrap_or(TEXTS[0].1);
    let k = rng.range(150, 900);
    let body = enc_bytes_lossy(&stretch(rng, base, k), enc);
    let (with_mark, label) = *rng.pick(&[(false, "utf-8"), (false, "ascii"), (true, "utf-8"), (true, "UTF8"), (false, "iso-2022-kr"), (true, "hz-gb-2312"), (false, "us-ascii"), (true, "unicode-1-1-utf-8"), (true, "replacement"), (true, "ascii")]);
    let mut b: Vec<u8> = if with_mark { MARKS[0].1.to_vec() } else { vec![] };
    b.extend_from_slice(match rng.below(3) {
        0 => format!("<?xml version=\"1.0\" encoding=\"{}\"?>\n", label),
        1 => format!("<meta charset={}>\n", label),
        _ => format!("# -*- coding: {} -*-\n", label),
    }.as_bytes());
    b.extend_from_slice(&body);
    Case { bytes: b, sett: Sett::default(), tag: format!("misdeclared-legacy:{}:{}{}", enc, label, if with_mark { "+mark" } else { "" }) }
}

/// ISO-2022-JP byte strings that end inside an escape sequence or inside a two-byte character
pub fn truncated_escape_cases() -> Vec<Vec<u8>> {
    let jp = "\u{3053}\u{3093}\u{306b}\u{3061}\u{306f}\u{4e16}\u{754c}";
    let good = enc_bytes_lossy(&format!("Subject: test\n\n{} words {}\n", jp, jp), "iso-2022-jp");
    let tails: &[&[u8]] = &[b"\x1b", b"\x1b$", b"\x1b$(", b"\x1b(", b"\x1b$B", b"\x1b$B$", b"\x1b$(D", b"\x1b$(D\x22", b"\x1b(I", b"\x1b(I\x21", b"\x1b$A", b"\x1b.", b"\x1bN", b"\x0e", b"\x1b$)C"];
    let mut v = vec![];
    for t in tails {
        v.push(t.to_vec());
        let mut b = good.clone();
        b.extend_from_slice(t);
        v.push(b);
        let mut b = b"plain ascii first ".to_vec();
        b.extend_from_slice(t);
        v.push(b);
    }
    v
}

pub fn declared_self_case(rng: &mut Rng) -> Case {
    let label = *rng.pick(&["utf-8", "utf8", "UTF-8", "ascii", "us-ascii", "unicode-1-1-utf-8", "ANSI_X3.4-1968", "utf-8"]);
    let is_utf8 = label.to_ascii_lowercase().contains("utf");
    let decl = match rng.below(3) {
        0 => format!("# -*- coding: {} -*-\n", label),
        1 => format!("<meta charset=\"{}\">\n", label),
        _ => format!("<?xml version=\"1.0\" encoding=\"{}\"?>\n", label),
    };
    let base = if is_utf8 { *rng.pick(&[TEXTS[1].1, TEXTS[2].1, TEXTS[3].1, TEXTS[0].1]) } else { TEXTS[0].1 };
    let every = rng.range(45, 75);
    let target = rng.range(300, 1800);
    let mut s = decl;
    let mut n = 0usize;
    let chars: Vec<char> = base.chars().collect();
    let mut k = 0usize;
    while n < target {
        s.push(chars[k % chars.len()]);
        k += 1;
        n += 1;
        if n % every == 0 {
            s.push(*rng.pick(&['\u{1b}', '\u{1}', '\u{7}', '\u{2}']));
        }
    }
    let mut sett = Sett::default();
    if rng.chance(1, 3) {
        sett.thr = 0.3;
    }
    Case { bytes: s.into_bytes(), sett, tag: format!("declared-self:{}", label) }
}

/// UTF-8 text over code points at the edges of the Unicode block table and of the planes
pub fn unicode_extremes_text(rng: &mut Rng) -> String {
    const POOL: &[u32] = &[
        0x7f, 0x80, 0x7ff, 0x800, 0xd7ff, 0xe000, 0xfdd0, 0xfffd, 0xfffe, 0xffff, 0x10000, 0x1fa73, 0x1fbff, 0x2fa1f, 0x30000,
        0x3134f, 0xe0001, 0xe007f, 0xe0100, 0xe01ef, 0xe01f0, 0xeffff, 0xf0000, 0xffffd, 0x100000, 0x10fffd, 0x10ffff,
    ];
    let n = rng.range(1, 40);
    let mut s = String::new();
    for _ in 0..n {
        if rng.chance(1, 2) {
            s.push_str(*rng.pick(&["word ", "text ", "a", " ", "été "]));
        } else if let Some(c) = char::from_u32(*rng.pick(POOL)) {
            s.push(c);
        }
    }
    s
}

/// > 1 MB of ASCII text whose tail (beyond byte 500 000) carries control characters; with a window that
/// covers the input every character has to be analysed, whichever codec reads the bytes.
pub fn large_fit_ascii(rng: &mut Rng, heavy: bool) -> Vec<u8> {
    let len = 1_050_000 + rng.below(100_000);
    let line = b"The quick brown fox jumps over the lazy dog and keeps running through the quiet forest.\n";
    let mut b: Vec<u8> = Vec::with_capacity(len);
    while b.len() < len {
        b.extend_from_slice(line);
    }
    b.truncate(len);
    let start = 520_000 + rng.below(100_000);
    let every = if heavy { 20 } else { 75 };
    let mut i = start;
    while i < len {
        b[i] = *rng.pick(&[1u8, 2, 7, 0x1b]);
        i += every;
    }
    b
}

/// > 1 MB that declares a single-byte code page with unassigned bytes, is ASCII otherwise, and carries
/// one byte that code page cannot decode beyond offset 500 000, away from every probed window.
pub fn large_declared_bad_tail(rng: &mut Rng) -> (Vec<u8>, &'static str) {
    let m = rng.below(4);
    large_declared_bad_byte(rng, m)
}

/// `place`: 0 = right behind the 500,000-byte prefix (before the last 500,000 bytes), 1 = anywhere beyond the prefix,
/// 2 = around byte 900,000, 3 = in the last 400,000 bytes
pub fn large_declared_bad_byte(rng: &mut Rng, place: usize) -> (Vec<u8>, &'static str) {
    let (enc, bad): (&'static str, u8) = *rng.pick(&[("windows-1253", 0xaa), ("windows-1255", 0xd9), ("iso-8859-7", 0xae), ("windows-1257", 0xa1), ("iso-8859-3", 0xa5), ("windows-1253", 0xd2)]);
    let len = 1_000_100 + rng.below(200_000);
    let mut b: Vec<u8> = format!("<?xml version=\"1.0\" encoding=\"{}\"?>\n", enc).into_bytes();
    let line = b"plain text line without anything special in it, repeated many times over.\n";
    while b.len() < len {
        b.extend_from_slice(line);
    }
    b.truncate(len);
    // default windows start at multiples of len/5 (512 bytes each); stay clear of them. The byte may sit right
    // behind the 500,000-byte prefix, in the middle, or in the last 500,000 bytes – all of it must be looked at
    let pos = loop {
        let p = match place {
            0 => 500_000 + rng.below(len - 1_000_000 + 1).min(len - 500_001),
            1 => 500_000 + rng.below(len - 500_000),
            2 => 900_001 + rng.below(50_000),
            _ => len - 1 - rng.below(400_000),
        };
        if p >= 500_000 && p < len && (p % (len / 5)) > 600 {
            break p;
        }
    };
    b[pos] = bad;
    (b, enc)
}


/// text made of symbol/pictograph characters of *neighbouring blocks whose names share several words*
/// ("Miscellaneous Symbols and Pictographs" / "Supplemental Symbols and Pictographs", the Mathematical
/// Operators blocks, the Combining Diacritical Marks blocks), adjacent without separators
pub fn adjacent_blocks_text(rng: &mut Rng) -> String {
    const GROUPS: &[&[u32]] = &[
        &[0x1F525, 0x1F914, 0x1F680, 0x1F31F, 0x2B50, 0x1F600, 0x1F923, 0x1F9E0, 0x1FA90],
        &[0x2200, 0x2211, 0x2A00, 0x2A2F, 0x27C0, 0x2980, 0x22C5, 0x2AFF],
        &[0x0301, 0x0323, 0x1DC0, 0x1DFF, 0x20D0, 0x0300],
        &[0x2600, 0x26A1, 0x1F300, 0x1F5FF, 0x2700, 0x27BF],
    ];
    let g = *rng.pick(GROUPS);
    let n = rng.range(8, 120);
    let mut s = String::new();
    let words = ["status", "ok", "launch", "note", "x", "sum"];
    for i in 0..n {
        if let Some(c) = char::from_u32(*rng.pick(g)) {
            s.push(c);
        }
        if rng.chance(1, 5) {
            s.push(' ');
            s.push_str(*rng.pick(&words));
            s.push(' ');
        }
        if i % 40 == 39 {
            s.push('\n');
        }
    }
    s
}

/// lines of very long ASCII-letter runs (sequence dumps, base64-like), optionally with a few short words
pub fn long_runs_text(rng: &mut Rng) -> String {
    let lines = rng.range(3, 30);
    let width = *rng.pick(&[60usize, 64, 65, 66, 70, 80, 120]);
    let alphabet: Vec<char> = match rng.below(3) {
        0 => "ACGT".chars().collect(),
        1 => "ACDEFGHIKLMNPQRSTVWY".chars().collect(),
        _ => "abcdefghijklmnopqrstuvwxyzABCDEFGHIJKLMNOPQRSTUVWXYZ".chars().collect(),
    };
    let mut s = String::new();
    if rng.chance(1, 3) {
        s.push_str("seq one\n");
    }
    for _ in 0..lines {
        for _ in 0..width {
            s.push(*rng.pick(&alphabet));
        }
        s.push(*rng.pick(&['\n', '\n', ' ', ',']));
    }
    s
}

/// a declaration whose label ends within a few bytes of the 4096-byte search zone, optionally behind a mark
pub fn declaration_at_zone_edge(rng: &mut Rng) -> Case {
    let mark: &[u8] = *rng.pick(&[&b""[..], &b"\xef\xbb\xbf"[..], &b"\xef\xbb\xbf"[..], &b"\x84\x31\x95\x33"[..]]);
    let label = *rng.pick(&["windows-1252", "iso-8859-1", "koi8-r", "windows-1251", "latin1", "iso-8859-15", "utf-8"]);
    let decl = format!("<meta charset={}>", label);
    // byte offset (in the whole input) one past the last byte of the label
    let label_end = 4096 - 3 + rng.below(10);
    let decl_start = label_end + 1 - decl.len(); // '>' follows the label
    let mut b: Vec<u8> = mark.to_vec();
    let filler = b"Plain words of padding text, nothing else to see here. ";
    while b.len() < decl_start {
        b.push(filler[b.len() % filler.len()]);
    }
    b.truncate(decl_start.max(mark.len()));
    b.extend_from_slice(decl.as_bytes());
    b.extend_from_slice(b" and the rest of the page follows here with a few more ordinary words.");
    Case { bytes: b, sett: Sett::default(), tag: format!("decl-at-zone-edge:{}:mark{}:end{}", label, mark.len(), label_end) }
}

/// ~1.0 MB of EUC-KR / Shift_JIS / Big5 / GBK text with a character boundary at byte 500 000
pub fn large_multibyte_file(rng: &mut Rng) -> (Vec<u8>, &'static str) {
    let (enc, name): (&'static str, &str) = *rng.pick(&[("euc-kr", "korean"), ("shift_jis", "japanese"), ("big5", "tradchinese"), ("gbk", "chinese")]);
    let text = TEXTS.iter().find(|(n, _)| *n == name).unwrap().1;
    let unit = enc_bytes(text, enc).unwrap_or_default();
    let mut b: Vec<u8> = Vec::with_capacity(1_100_000);
    let target = 1_000_100 + rng.below(50_000);
    while b.len() < target {
        // keep byte 500 000 on a character boundary: pad with ASCII just before it
        if b.len() < 500_000 && b.len() + unit.len() + 1 > 500_000 {
            while b.len() < 500_000 {
                b.push(b' ');
            }
            continue;
        }
        b.extend_from_slice(&unit);
        b.push(b'\n');
    }
    (b, enc)
}

/// Input aimed at the similar-code-page rejection: ASCII words with bytes that are letters in code page
/// `b` but symbols / unmapped in a code page `a` that lists `b` as similar (pairs where the relation is
/// one-sided are preferred), so that one of the two soft-fails while the other passes.
pub fn similar_rejection_case(rng: &mut Rng) -> Case {
    use charset_normalizer_rs::verif_hooks as vh;
    let table = vh::similar_table();
    let lists = |n: &str| -> Vec<&'static str> { table.iter().find(|(k, _)| *k == n).map(|(_, v)| v.clone()).unwrap_or_default() };
    let mut pairs: Vec<(&'static str, &'static str)> = vec![];
    let mut one_sided: Vec<(&'static str, &'static str)> = vec![];
    for (a, sims) in &table {
        for b in sims {
            pairs.push((*a, *b));
            if !lists(b).contains(a) {
                one_sided.push((*a, *b));
            }
        }
    }
    let (a, b) = if !one_sided.is_empty() && rng.chance(1, 2) { *rng.pick(&one_sided) } else { *rng.pick(&pairs) };
    let dec = |enc: &str, byte: u8| -> Option<char> {
        charset_normalizer_rs::utils::decode(&[byte], enc, encoding::DecoderTrap::Strict, false, false).ok().and_then(|s| s.chars().next())
    };
    // bytes the two pages read differently (letters vs symbols, letters vs combining marks, ...)
    let mut differing: Vec<u8> = vec![];
    let mut letters_both: Vec<u8> = vec![];
    for byte in 0x80u8..=0xff {
        let (ca, cb) = (dec(a, byte), dec(b, byte));
        if ca != cb && cb.is_some() {
            differing.push(byte);
        }
        if ca.map_or(false, |c| c.is_alphabetic()) && cb.map_or(false, |c| c.is_alphabetic() || unic_mark(c)) {
            letters_both.push(byte);
        }
    }
    let words: Vec<&str> = TEXTS[0].1.split(' ').collect();
    let verdict = |bytes: &[u8], enc: &str, thr: f32| -> bool {
        let mut s = Sett::default();
        s.incl = vec![enc.to_string()];
        s.fb = false;
        s.pre = false;
        s.thr = thr;
        matches!(crate::detect::real_detect(bytes, &s), crate::detect::Outcome::Ok(v) if !v.is_empty())
    };
    let mut sett = Sett::default();
    if rng.chance(1, 2) {
        sett.fb = false;
    }
    if rng.chance(1, 4) {
        sett.thr = *rng.pick(&[0.1f32, 0.3, 0.15]);
    }
    // search (with the implementation's own standalone verdicts) for content that `a` rejects and `b` accepts
    let mut out: Vec<u8> = vec![];
    let mut found = false;
    for _try in 0..200 {
        let target = rng.range(100, 500);
        let rate = *rng.pick(&[3usize, 4, 6, 10, 16]);
        out.clear();
        while out.len() < target {
            let w = rng.pick(&words).as_bytes();
            for (i, ch) in w.iter().enumerate() {
                out.push(*ch);
                if i + 1 < w.len() && rng.chance(1, rate) {
                    if !differing.is_empty() && rng.chance(3, 4) {
                        out.push(*rng.pick(&differing));
                    } else if !letters_both.is_empty() {
                        out.push(*rng.pick(&letters_both));
                    }
                }
            }
            out.push(b' ');
        }
        if !verdict(&out, a, sett.thr) && verdict(&out, b, sett.thr) {
            // for a one-sided pair: probe just the two (and utf-8), so that `a` is certainly probed itself
            // rather than skipped because of a third page
            if one_sided.contains(&(a, b)) {
                sett.incl = vec![a.to_string(), b.to_string(), "utf-8".to_string()];
                sett.fb = false; // the converse direction is only observable with the fallback off
            }
            found = true;
            break;
        }
    }
    Case { bytes: out, sett, tag: format!("similar-rejection:{}>{}:{}", a, b, if found { "a-rejects-b-accepts" } else { "unsearched" }) }
}

/// combining marks count as "letter-like" for the purpose above
fn unic_mark(c: char) -> bool {
    matches!(c as u32, 0x0300..=0x036f)
}

/// Byte sequences of the multi-byte codecs that decode to *more than one* character (Big5: 0x8862, 0x8864, 0x88A3,
/// 0x88A5 – a letter plus a combining mark), embedded in ordinary Traditional Chinese text in the middle and at both ends:
/// decoders hand such output to their writer as a string, not character by character
pub fn big5_two_codepoint_text(rng: &mut Rng) -> Vec<u8> {
    let base = TEXTS.iter().find(|(n, _)| *n == "tradchinese").map(|x| x.1).unwrap_or("");
    let chars: Vec<char> = base.chars().collect();
    let pairs: [[u8; 2]; 4] = [[0x88, 0x62], [0x88, 0x64], [0x88, 0xa3], [0x88, 0xa5]];
    let mut out = vec![];
    let n_seg = rng.range(2, 5);
    if rng.chance(1, 5) {
        out.extend_from_slice(&pairs[rng.below(4)]);
    }
    for k in 0..n_seg {
        let a = rng.below(chars.len().saturating_sub(25).max(1));
        let len = rng.range(12, 60).min(chars.len() - a);
        let seg: String = chars[a..a + len].iter().collect();
        out.extend(enc_bytes_lossy(&seg, "big5"));
        if k + 1 < n_seg || rng.chance(1, 4) {
            out.extend_from_slice(&pairs[rng.below(4)]);
        }
    }
    out
}

/// Mostly-ASCII prose longer than the analysis window, with a few two-byte sequences – valid in every East Asian
/// double-byte encoding and in the single-byte pages alike – placed behind the first sampled chunk: the first chunk reads
/// the same (pure ASCII) under every candidate, the whole text under none of them
pub fn ascii_with_double_byte_pairs(rng: &mut Rng) -> Vec<u8> {
    let base = "The quick brown fox jumps over the lazy dog while the committee considers the annual report of the northern district. ";
    let len = rng.range(2800, 9000);
    let mut b: Vec<u8> = base.bytes().cycle().take(len).collect();
    let pairs: [[u8; 2]; 4] = [[0xb0, 0xa1], [0xc4, 0xe3], [0xb1, 0xb8], [0xa4, 0xa2]];
    let n = rng.range(1, 5);
    for _ in 0..n {
        let pos = rng.range(600, len - 2);
        let p = pairs[rng.below(4)];
        b[pos] = p[0];
        b[pos + 1] = p[1];
    }
    b
}

/// Entries of a filter list that name no encoding, in every shape a reader of the message might mishandle: empty, blank,
/// very long, with multi-byte characters straddling every small byte offset (27..=41 bytes of ASCII before a run of
/// 2-, 3- and 4-byte characters), with NUL, quotes, braces and format-string leftovers
pub fn odd_unknown_labels() -> Vec<String> {
    let mut v: Vec<String> = vec!["".into(), " ".into(), "\"".into(), "'".into(), "\"\"".into(), "'utf-8".into(), "\u{0}".into(), "{}".into(), "{0:?}%s%n".into(), "\"quoted\"".into(), "x".repeat(300), "é".repeat(200)];
    for pre in 27..=41usize {
        v.push(format!("{}{}", "x".repeat(pre), "é".repeat(12)));
        if pre % 3 == 0 {
            v.push(format!("{}{}", "y".repeat(pre), "€".repeat(8)));
            v.push(format!("{}{}", "z".repeat(pre), "😀".repeat(6)));
        }
    }
    for pre in [62usize, 63, 64, 65, 126, 127, 128, 129, 254, 255, 256, 257] {
        v.push(format!("{}{}", "w".repeat(pre), "ü€😀".repeat(3)));
    }
    v
}
