//! Small shared helpers: hex, PRNG, Lean literal printing.
use std::fmt::Write;

pub fn hex(b: &[u8]) -> String {
    let mut s = String::with_capacity(b.len() * 2);
    for x in b {
        write!(s, "{:02x}", x).unwrap();
    }
    if s.is_empty() {
        s.push('-');
    }
    s
}
pub fn unhex(s: &str) -> Vec<u8> {
    if s == "-" {
        return vec![];
    }
    (0..s.len() / 2)
        .map(|i| u8::from_str_radix(&s[2 * i..2 * i + 2], 16).unwrap())
        .collect()
}
/// text as dot-separated hex code points ("-" when empty)
pub fn cps(s: &str) -> String {
    if s.is_empty() {
        return "-".into();
    }
    s.chars()
        .map(|c| format!("{:x}", c as u32))
        .collect::<Vec<_>>()
        .join(".")
}
pub fn uncps(s: &str) -> String {
    if s == "-" {
        return String::new();
    }
    s.split('.')
        .map(|x| char::from_u32(u32::from_str_radix(x, 16).unwrap()).unwrap())
        .collect()
}
/// FNV-1a 64 over code points (same function in the Lean driver)
pub fn text_hash(s: &str) -> u64 {
    let mut h: u64 = 0xcbf29ce484222325;
    for c in s.chars() {
        h ^= c as u64;
        h = h.wrapping_mul(0x100000001b3);
    }
    h
}

/// splitmix64: every random choice of the harness derives from one state
#[derive(Clone)]
pub struct Rng(pub u64);
impl Rng {
    pub fn new(seed: u64) -> Self {
        Rng(seed ^ 0x9e3779b97f4a7c15)
    }
    pub fn next(&mut self) -> u64 {
        self.0 = self.0.wrapping_add(0x9e3779b97f4a7c15);
        let mut z = self.0;
        z = (z ^ (z >> 30)).wrapping_mul(0xbf58476d1ce4e5b9);
        z = (z ^ (z >> 27)).wrapping_mul(0x94d049bb133111eb);
        z ^ (z >> 31)
    }
    pub fn below(&mut self, n: usize) -> usize {
        if n == 0 {
            0
        } else {
            (self.next() % n as u64) as usize
        }
    }
    pub fn range(&mut self, lo: usize, hi: usize) -> usize {
        lo + self.below(hi - lo + 1)
    }
    pub fn chance(&mut self, num: usize, den: usize) -> bool {
        self.below(den) < num
    }
    pub fn pick<'a, T>(&mut self, v: &'a [T]) -> &'a T {
        &v[self.below(v.len())]
    }
    pub fn fork(&mut self) -> Rng {
        Rng(self.next())
    }
}

pub fn lean_name(s: &str) -> String {
    let v: Vec<String> = s.chars().map(|c| (c as u32).to_string()).collect();
    format!("[{}]", v.join(","))
}
pub fn lean_bytes(b: &[u8]) -> String {
    let v: Vec<String> = b.iter().map(|c| c.to_string()).collect();
    format!("[{}]", v.join(","))
}
pub fn lean_list(items: &[String]) -> String {
    format!("[{}]", items.join(", "))
}
pub fn lean_list_nl(items: &[String]) -> String {
    if items.is_empty() {
        return "[]".into();
    }
    format!("[\n  {}]", items.join(",\n  "))
}
