//! Tie T2: source inventories re-extracted from /repo's source text on every run.
//! A tolerant scanner (comments and string literals blanked; not a parser). Sites are keyed by
//! (file, enclosing fn, normalised text), never by line number.
use crate::util::lean_name;
use std::collections::BTreeMap;

const LIB_FILES: &[&str] = &[
    "src/lib.rs",
    "src/entity.rs",
    "src/utils.rs",
    "src/cd.rs",
    "src/md.rs",
    "src/md/plugins.rs",
    "src/md/structs.rs",
    "src/consts.rs",
    "src/assets.rs",
];

/// blank out comments, string and char literals (keeping length/newlines)
fn blank(src: &str) -> String {
    let b: Vec<char> = src.chars().collect();
    let mut o = String::with_capacity(src.len());
    let mut i = 0;
    while i < b.len() {
        let c = b[i];
        if c == '/' && i + 1 < b.len() && b[i + 1] == '/' {
            while i < b.len() && b[i] != '\n' {
                o.push(' ');
                i += 1;
            }
        } else if c == '/' && i + 1 < b.len() && b[i + 1] == '*' {
            let mut depth = 0;
            while i < b.len() {
                if b[i] == '/' && i + 1 < b.len() && b[i + 1] == '*' {
                    depth += 1;
                    o.push_str("  ");
                    i += 2;
                } else if b[i] == '*' && i + 1 < b.len() && b[i + 1] == '/' {
                    depth -= 1;
                    o.push_str("  ");
                    i += 2;
                    if depth == 0 {
                        break;
                    }
                } else {
                    o.push(if b[i] == '\n' { '\n' } else { ' ' });
                    i += 1;
                }
            }
        } else if c == 'r' && i + 1 < b.len() && (b[i + 1] == '"' || b[i + 1] == '#') && (i == 0 || !(b[i - 1].is_alphanumeric() || b[i - 1] == '_')) {
            // raw string r#"..."#
            let mut j = i + 1;
            let mut hashes = 0;
            while j < b.len() && b[j] == '#' {
                hashes += 1;
                j += 1;
            }
            if j < b.len() && b[j] == '"' {
                j += 1;
                loop {
                    if j >= b.len() {
                        break;
                    }
                    if b[j] == '"' {
                        let mut k = 0;
                        while k < hashes && j + 1 + k < b.len() && b[j + 1 + k] == '#' {
                            k += 1;
                        }
                        if k == hashes {
                            j += 1 + hashes;
                            break;
                        }
                    }
                    j += 1;
                }
                o.push_str("\"\"");
                for k in i + 2..j {
                    o.push(if b[k] == '\n' { '\n' } else { ' ' });
                }
                i = j;
            } else {
                o.push(c);
                i += 1;
            }
        } else if c == '"' {
            o.push('"');
            i += 1;
            while i < b.len() && b[i] != '"' {
                if b[i] == '\\' {
                    o.push(' ');
                    i += 1;
                }
                if i < b.len() {
                    o.push(if b[i] == '\n' { '\n' } else { ' ' });
                    i += 1;
                }
            }
            o.push('"');
            i += 1;
        } else if c == '\'' {
            // char literal vs lifetime
            if i + 2 < b.len() && b[i + 1] == '\\' {
                let mut j = i + 2;
                while j < b.len() && b[j] != '\'' {
                    j += 1;
                }
                o.push_str("' '");
                for _ in i + 3..=j {
                    o.push(' ');
                }
                i = j + 1;
            } else if i + 2 < b.len() && b[i + 2] == '\'' {
                o.push_str("' '");
                i += 3;
            } else {
                o.push(c);
                i += 1;
            }
        } else {
            o.push(c);
            i += 1;
        }
    }
    o
}

fn norm(s: &str) -> String {
    s.split_whitespace().collect::<Vec<_>>().join(" ")
}

/// (fn name, start line idx, end line idx) by brace matching from each `fn name`
fn functions(blanked: &str) -> Vec<(String, usize, usize)> {
    let lines: Vec<&str> = blanked.lines().collect();
    let mut out = vec![];
    let mut i = 0;
    while i < lines.len() {
        let l = lines[i];
        if let Some(pos) = l.find("fn ") {
            let before_ok = pos == 0 || !l[..pos].chars().last().map(|c| c.is_alphanumeric() || c == '_').unwrap_or(false);
            let name: String = l[pos + 3..].chars().take_while(|c| c.is_alphanumeric() || *c == '_').collect();
            if before_ok && !name.is_empty() {
                // find body braces
                let mut depth = 0i32;
                let mut started = false;
                let mut j = i;
                let mut end = i;
                'outer: while j < lines.len() {
                    for ch in lines[j].chars() {
                        if ch == '{' {
                            depth += 1;
                            started = true;
                        } else if ch == '}' {
                            depth -= 1;
                        } else if ch == ';' && !started {
                            end = j;
                            break 'outer;
                        }
                        if started && depth == 0 {
                            end = j;
                            break 'outer;
                        }
                    }
                    j += 1;
                    end = j.min(lines.len() - 1);
                }
                out.push((name, i, end));
            }
        }
        i += 1;
    }
    out
}

fn enclosing<'a>(fns: &'a [(String, usize, usize)], line: usize) -> &'a str {
    let mut best: Option<&(String, usize, usize)> = None;
    for f in fns {
        if f.1 <= line && line <= f.2 {
            if best.map(|b| f.1 >= b.1).unwrap_or(true) {
                best = Some(f);
            }
        }
    }
    best.map(|b| b.0.as_str()).unwrap_or("<top>")
}

pub struct Inventory {
    pub cached: Vec<(String, String, String, String)>, // file, fn, attr, params
    pub hash_sites: Vec<(String, String, String)>,     // file, fn, text
    pub panic_sites: Vec<(String, String, String, usize)>, // file, fn, token, count
    pub globals: Vec<(String, String)>,                // file, text
    /// for every `#[cached]` function: the `#[cached]` functions its body can reach through plain
    /// (non-memoised) functions, by name (over-approximation: same-named functions are merged)
    pub cached_calls: Vec<(String, Vec<String>)>,
}

/// identifiers that are followed by `(` (calls, incl. method calls and paths: the last path segment) in blanked text
fn callees(text: &str) -> std::collections::BTreeSet<String> {
    let mut out = std::collections::BTreeSet::new();
    let cs: Vec<char> = text.chars().collect();
    let mut i = 0;
    while i < cs.len() {
        if cs[i].is_alphabetic() || cs[i] == '_' {
            let st = i;
            while i < cs.len() && (cs[i].is_alphanumeric() || cs[i] == '_') {
                i += 1;
            }
            let id: String = cs[st..i].iter().collect();
            let mut j = i;
            while j < cs.len() && cs[j] == ' ' {
                j += 1;
            }
            // turbofish `name::<T>(`
            if j + 2 < cs.len() && cs[j] == ':' && cs[j + 1] == ':' && cs[j + 2] == '<' {
                let mut depth = 0i32;
                let mut k = j + 2;
                while k < cs.len() {
                    if cs[k] == '<' {
                        depth += 1;
                    } else if cs[k] == '>' {
                        depth -= 1;
                        if depth == 0 {
                            k += 1;
                            break;
                        }
                    }
                    k += 1;
                }
                j = k;
            }
            if j < cs.len() && cs[j] == '(' && !["if", "while", "match", "for", "fn", "return", "Some", "Ok", "Err", "None"].contains(&id.as_str()) {
                out.insert(id);
            }
        } else {
            i += 1;
        }
    }
    out
}

const PANIC_TOKENS: &[&str] = &[
    ".unwrap()", ".expect(", ".unwrap_err()", "panic!", "unreachable!", "assert!", "assert_eq!", "todo!", "unimplemented!",
    "step_by", ".sort_unstable", " / ", " % ", " - ", "-= ", "[",
];

pub fn scan(repo: &str) -> Inventory {
    let mut inv = Inventory { cached: vec![], hash_sites: vec![], panic_sites: vec![], globals: vec![], cached_calls: vec![] };
    let mut call_graph: BTreeMap<String, std::collections::BTreeSet<String>> = BTreeMap::new();
    for f in LIB_FILES {
        let path = format!("{}/{}", repo, f);
        let src = match std::fs::read_to_string(&path) {
            Ok(s) => s,
            Err(_) => {
                inv.globals.push((f.to_string(), "<file missing>".into()));
                continue;
            }
        };
        let bl = blank(&src);
        let fns = functions(&bl);
        let lines: Vec<&str> = bl.lines().collect();
        let orig: Vec<&str> = src.lines().collect();
        for (name, st, en) in &fns {
            // body text: from the line of `fn name` (signature included; the name itself is skipped below)
            let body: String = lines[*st..=(*en).min(lines.len().saturating_sub(1))].join(" ");
            let mut cs = callees(&body);
            cs.remove(name);
            call_graph.entry(name.clone()).or_default().extend(cs);
        }
        // cached attributes (attribute text taken from the original source: keys live in string literals)
        let mut i = 0;
        while i < lines.len() {
            if lines[i].trim_start().starts_with("#[cached") {
                let mut attr = String::new();
                let mut j = i;
                loop {
                    attr.push_str(orig.get(j).copied().unwrap_or(""));
                    attr.push(' ');
                    if lines[j].contains(")]") || lines[j].trim_end().ends_with("]") {
                        break;
                    }
                    j += 1;
                    if j >= lines.len() {
                        break;
                    }
                }
                // following fn signature up to '{'
                let mut sig = String::new();
                let mut k = j + 1;
                while k < lines.len() {
                    sig.push_str(lines[k]);
                    sig.push(' ');
                    if lines[k].contains('{') {
                        break;
                    }
                    k += 1;
                }
                let name: String = sig.split("fn ").nth(1).unwrap_or("").chars().take_while(|c| c.is_alphanumeric() || *c == '_').collect();
                let params = sig.split_once('(').map(|x| x.1).unwrap_or("");
                let params = params.rsplit_once(')').map(|x| x.0).unwrap_or(params);
                // for multi-paren signatures keep everything up to "->" or "{"
                let params = sig.split_once('(').map(|x| x.1).unwrap_or("").split("->").next().unwrap_or(params).split('{').next().unwrap_or("");
                inv.cached.push((f.to_string(), name, norm(&attr), norm(params)));
                i = k;
            }
            i += 1;
        }
        // skip test modules
        let is_test_line = |_l: usize| false;
        let mut panic_counts: BTreeMap<(String, String), usize> = BTreeMap::new();
        for (ln, l) in lines.iter().enumerate() {
            if is_test_line(ln) {
                continue;
            }
            let t = l.trim();
            if t.is_empty() || t.starts_with("use ") || t.starts_with("#[") || t.starts_with("#![") {
                if t.starts_with("use ") && (t.contains("HashMap") || t.contains("HashSet")) {
                    inv.hash_sites.push((f.to_string(), "<use>".into(), norm(t)));
                }
                continue;
            }
            let func = enclosing(&fns, ln).to_string();
            if t.contains("HashMap") || t.contains("HashSet") || t.contains(".intersection(") || t.contains(".into_values()") || t.contains(".keys()") || t.contains(".values()") {
                inv.hash_sites.push((f.to_string(), func.clone(), norm(t)));
            }
            let is_global = (t.contains("static ") && !t.contains("'static ") ) || t.contains("static mut") || t.contains("Lazy<") || t.contains("Mutex")
                || t.contains("thread_local!") || t.contains("unsafe") || t.contains("RefCell") || t.contains("Cell<") || t.contains("Atomic") || t.contains("OnceCell") || t.contains("OnceLock");
            if is_global {
                // keep only the declaration head (tables are dumped by T1)
                let head: String = norm(t).chars().take(110).collect();
                inv.globals.push((f.to_string(), head));
            }
            for tok in PANIC_TOKENS {
                let mut c = l.matches(tok).count();
                if *tok == "[" {
                    // index/slice expressions: '[' directly after an identifier char, ')' or ']'
                    c = 0;
                    let ch: Vec<char> = l.chars().collect();
                    for k in 1..ch.len() {
                        if ch[k] == '[' && (ch[k - 1].is_alphanumeric() || ch[k - 1] == '_' || ch[k - 1] == ')' || ch[k - 1] == ']') {
                            // exclude attribute / type positions like `&[u8]`, `vec![`
                            if ch[k - 1] != '!' {
                                c += 1;
                            }
                        }
                    }
                }
                if c > 0 {
                    *panic_counts.entry((func.clone(), tok.trim().to_string())).or_insert(0) += c;
                }
            }
        }
        for ((func, tok), c) in panic_counts {
            inv.panic_sites.push((f.to_string(), func, tok, c));
        }
    }
    // cached functions reachable from each cached function through non-memoised ones
    let cached_names: Vec<String> = inv.cached.iter().map(|c| c.1.clone()).collect();
    for c in &cached_names {
        let mut seen: std::collections::BTreeSet<String> = Default::default();
        let mut found: std::collections::BTreeSet<String> = Default::default();
        let mut stack: Vec<String> = call_graph.get(c).map(|s| s.iter().cloned().collect()).unwrap_or_default();
        // a function calling itself directly was removed above; recursion through others is still found
        while let Some(n) = stack.pop() {
            if !seen.insert(n.clone()) {
                continue;
            }
            if cached_names.contains(&n) {
                found.insert(n);
                continue;
            }
            if let Some(next) = call_graph.get(&n) {
                stack.extend(next.iter().cloned());
            }
        }
        inv.cached_calls.push((c.clone(), found.into_iter().collect()));
    }
    inv.cached_calls.sort();
    inv.cached.sort();
    inv.hash_sites.sort();
    inv.panic_sites.sort();
    inv.globals.sort();
    inv
}

pub fn inventory_lean(repo: &str) -> String {
    let inv = scan(repo);
    let mut o = String::new();
    o.push_str("/- GENERATED by verif-harness dump-inventory from /repo's source text (tie T2). Do not edit. -/\n");
    o.push_str("import CharsetProof.Model.Prim\nset_option maxRecDepth 1000000\nnamespace Charset.Inv\n\n");
    o.push_str("def cached : List (Name × Name × Name × Name) := [\n");
    o.push_str(
        &inv.cached
            .iter()
            .map(|(f, n, a, p)| format!("  ({}, {}, {}, {}) /- {} {} {} ({}) -/", lean_name(f), lean_name(n), lean_name(a), lean_name(p), f, n, a, p))
            .collect::<Vec<_>>()
            .join(",\n"),
    );
    o.push_str("]\n\n/-- memoised functions reachable from the body of each memoised function (through plain functions) -/\ndef cachedCalls : List (Name × List Name) := [\n");
    o.push_str(
        &inv.cached_calls
            .iter()
            .map(|(n, cs)| format!("  ({}, [{}]) /- {} -> {:?} -/", lean_name(n), cs.iter().map(|c| lean_name(c)).collect::<Vec<_>>().join(", "), n, cs))
            .collect::<Vec<_>>()
            .join(",\n"),
    );
    o.push_str("]\n\ndef hashSites : List (Name × Name × Name) := [\n");
    o.push_str(
        &inv.hash_sites
            .iter()
            .map(|(f, n, t)| format!("  ({}, {}, {}) /- {} {}: {} -/", lean_name(f), lean_name(n), lean_name(t), f, n, t.replace("-/", "- /").replace("/-", "/ -")))
            .collect::<Vec<_>>()
            .join(",\n"),
    );
    o.push_str("]\n\ndef panicSites : List (Name × Name × Name × Nat) := [\n");
    o.push_str(
        &inv.panic_sites
            .iter()
            .map(|(f, n, t, c)| format!("  ({}, {}, {}, {}) /- {} {} `{}` x{} -/", lean_name(f), lean_name(n), lean_name(t), c, f, n, t.replace("-/", "- /").replace("/-", "/ -"), c))
            .collect::<Vec<_>>()
            .join(",\n"),
    );
    o.push_str("]\n\ndef globals : List (Name × Name) := [\n");
    o.push_str(
        &inv.globals
            .iter()
            .map(|(f, t)| format!("  ({}, {}) /- {}: {} -/", lean_name(f), lean_name(t), f, t.replace("-/", "- /").replace("/-", "/ -")))
            .collect::<Vec<_>>()
            .join(",\n"),
    );
    o.push_str("]\n\n");
    // the flag bits of `MessDetectorCharFlags` and the order of the detector vector (model: Md.lean)
    let structs = std::fs::read_to_string(format!("{}/src/md/structs.rs", repo)).unwrap_or_default();
    let mut flags: Vec<(String, u32)> = vec![];
    for l in blank(&structs).lines() {
        let t = l.trim();
        if let Some(rest) = t.strip_prefix("const ") {
            if let Some((name, val)) = rest.split_once('=') {
                let v: String = val.trim().trim_end_matches(';').replace('_', "");
                if let Some(bin) = v.strip_prefix("0b") {
                    if let Ok(x) = u32::from_str_radix(bin, 2) {
                        if x.count_ones() == 1 {
                            flags.push((name.trim().to_string(), x.trailing_zeros()));
                        } else {
                            flags.push((name.trim().to_string(), 9999));
                        }
                    }
                }
            }
        }
    }
    o.push_str("def mdFlags : List (Name × Nat) := [\n");
    o.push_str(&flags.iter().map(|(n, b)| format!("  ({}, {}) /- {} -/", lean_name(n), b, n)).collect::<Vec<_>>().join(",\n"));
    o.push_str("]\n\n");
    let md = std::fs::read_to_string(format!("{}/src/md.rs", repo)).unwrap_or_default();
    let mut dets: Vec<String> = vec![];
    for l in blank(&md).lines() {
        let t = l.trim();
        if let Some(rest) = t.strip_prefix("Box::<") {
            if let Some((name, tail)) = rest.split_once('>') {
                if tail.starts_with("::default()") {
                    dets.push(name.to_string());
                }
            }
        }
    }
    o.push_str("def mdDetectors : List Name := [\n");
    o.push_str(&dets.iter().map(|n| format!("  {} /- {} -/", lean_name(n), n)).collect::<Vec<_>>().join(",\n"));
    o.push_str("]\n\nend Charset.Inv\n");
    o
}
