//! Running a detection on the implementation and on the model, in canonical form.
use crate::driver::Driver;
use crate::util::*;
use charset_normalizer_rs::entity::{CharsetMatch, CharsetMatches, Language, NormalizerSettings};
use charset_normalizer_rs::utils::decode;
use charset_normalizer_rs::verif_hooks as vh;
use encoding::DecoderTrap;
use ordered_float::OrderedFloat;
use std::collections::BTreeMap;
use std::panic::{catch_unwind, AssertUnwindSafe};

#[derive(Clone, Debug)]
pub struct Sett {
    pub steps: usize,
    pub chunk: usize,
    pub thr: f32,
    pub lthr: f32,
    pub incl: Vec<String>,
    pub excl: Vec<String>,
    pub pre: bool,
    pub fb: bool,
    pub trace: bool,
}
impl Default for Sett {
    fn default() -> Self {
        let d = NormalizerSettings::default();
        Sett {
            steps: d.steps,
            chunk: d.chunk_size,
            thr: d.threshold.0,
            lthr: d.language_threshold.0,
            incl: vec![],
            excl: vec![],
            pre: d.preemptive_behaviour,
            fb: d.enable_fallback,
            trace: false,
        }
    }
}
impl Sett {
    pub fn to_real(&self) -> NormalizerSettings {
        NormalizerSettings {
            steps: self.steps,
            chunk_size: self.chunk,
            threshold: OrderedFloat(self.thr),
            include_encodings: self.incl.clone(),
            exclude_encodings: self.excl.clone(),
            preemptive_behaviour: self.pre,
            language_threshold: OrderedFloat(self.lthr),
            enable_fallback: self.fb,
        }
    }
    pub fn show(&self) -> String {
        format!(
            "steps={} chunk={} thr={} lthr={} incl={:?} excl={:?} pre={} fb={} trace={}",
            self.steps, self.chunk, self.thr, self.lthr, self.incl, self.excl, self.pre, self.fb, self.trace
        )
    }
    pub fn json(&self) -> String {
        format!(
            "{{\"steps\":{},\"chunk\":{},\"thr_bits\":{},\"lthr_bits\":{},\"incl\":[{}],\"excl\":[{}],\"pre\":{},\"fb\":{},\"trace\":{}}}",
            self.steps,
            self.chunk,
            self.thr.to_bits(),
            self.lthr.to_bits(),
            self.incl.iter().map(|s| format!("\"{}\"", hex(s.as_bytes()))).collect::<Vec<_>>().join(","),
            self.excl.iter().map(|s| format!("\"{}\"", hex(s.as_bytes()))).collect::<Vec<_>>().join(","),
            self.pre,
            self.fb,
            self.trace
        )
    }
}

pub fn fbits(x: f32) -> u32 {
    if x.is_nan() {
        0x7f800001
    } else if x == 0.0 {
        0
    } else {
        x.to_bits()
    }
}

/// canonical form of one match – field by field what the driver prints
#[derive(Clone, Debug, PartialEq, Eq)]
pub struct CMatch {
    pub enc: String,
    pub subs: Vec<String>,
    pub chaos: u32,
    pub coh: Vec<(String, u32)>,
    pub bom: bool,
    pub text: Option<(u64, usize)>,
    pub mbu: u32,
    pub chaos_pct: u32,
    pub coh_pct: u32,
    pub lang: String,
    /// per alternative (sub-match), in order: `chaos~bom~text~coherences` as the alternative itself reports them
    pub subd: Vec<String>,
}
impl CMatch {
    pub fn show(&self) -> String {
        format!(
            "{}|{}|{}|{}|{}|{}|{}|{}|{}|{}|{}",
            self.enc,
            if self.subs.is_empty() { "-".to_string() } else { self.subs.join(",") },
            self.chaos,
            if self.coh.is_empty() {
                "-".to_string()
            } else {
                self.coh.iter().map(|(l, s)| format!("{}={}", l, s)).collect::<Vec<_>>().join(",")
            },
            if self.bom { 1 } else { 0 },
            match self.text {
                None => "none".to_string(),
                Some((h, l)) => format!("{}:{}", h, l),
            },
            self.mbu,
            self.chaos_pct,
            self.coh_pct,
            self.lang,
            if self.subd.is_empty() { "-".to_string() } else { self.subd.join(",") }
        )
    }
    pub fn parse(s: &str) -> Option<CMatch> {
        let p: Vec<&str> = s.split('|').collect();
        if p.len() != 11 {
            return None;
        }
        Some(CMatch {
            enc: p[0].to_string(),
            subs: if p[1] == "-" { vec![] } else { p[1].split(',').map(|x| x.to_string()).collect() },
            chaos: p[2].parse().ok()?,
            coh: if p[3] == "-" {
                vec![]
            } else {
                p[3].split(',')
                    .map(|x| {
                        let mut it = x.split('=');
                        (it.next().unwrap().to_string(), it.next().unwrap().parse().unwrap())
                    })
                    .collect()
            },
            bom: p[4] == "1",
            text: if p[5] == "none" {
                None
            } else {
                let mut it = p[5].split(':');
                Some((it.next()?.parse().ok()?, it.next()?.parse().ok()?))
            },
            mbu: p[6].parse().ok()?,
            chaos_pct: p[7].parse().ok()?,
            coh_pct: p[8].parse().ok()?,
            lang: p[9].to_string(),
            subd: if p[10] == "-" { vec![] } else { p[10].split(',').map(|x| x.to_string()).collect() },
        })
    }
    pub fn cands(&self) -> Vec<String> {
        let mut v = vec![self.enc.clone()];
        v.extend(self.subs.iter().cloned());
        v
    }
}

pub fn canon_match(m: &CharsetMatch) -> CMatch {
    CMatch {
        enc: m.encoding().to_string(),
        subs: m.submatch().iter().map(|s| s.encoding().to_string()).collect(),
        chaos: fbits(m.chaos()),
        coh: vh::match_coherences(m).iter().map(|(l, s)| (format!("{}", l), fbits(*s))).collect(),
        bom: m.bom(),
        text: m.decoded_payload().map(|t| (text_hash(t), t.chars().count())),
        mbu: fbits(m.multi_byte_usage()),
        chaos_pct: fbits(m.chaos_percents()),
        coh_pct: fbits(m.coherence_percents()),
        lang: format!("{}", m.most_probably_language()),
        subd: m
            .submatch()
            .iter()
            .map(|x| {
                let coh = vh::match_coherences(x);
                format!(
                    "{}~{}~{}~{}",
                    fbits(x.chaos()),
                    if x.bom() { 1 } else { 0 },
                    match x.decoded_payload() {
                        None => "none".to_string(),
                        Some(t) => format!("{}:{}", text_hash(t), t.chars().count()),
                    },
                    if coh.is_empty() { "-".to_string() } else { coh.iter().map(|(l, s)| format!("{}={}", l, fbits(*s))).collect::<Vec<_>>().join(";") }
                )
            })
            .collect(),
    }
}

#[derive(Clone, Debug, PartialEq, Eq)]
pub enum Outcome {
    Ok(Vec<CMatch>),
    Err(String),   // "include x<hex>" / "exclude x<hex>" / other text
    Panic(String), // implementation panicked / model fault
}
impl Outcome {
    pub fn show(&self) -> String {
        match self {
            Outcome::Ok(v) => format!("ok {} {}", v.len(), v.iter().map(|m| m.show()).collect::<Vec<_>>().join(" ")),
            Outcome::Err(e) => format!("err {}", e),
            Outcome::Panic(e) => format!("panic {}", e),
        }
    }
}

pub fn canon_matches(ms: &CharsetMatches) -> Vec<CMatch> {
    ms.iter().map(canon_match).collect()
}

pub fn panic_msg(e: Box<dyn std::any::Any + Send>) -> String {
    if let Some(s) = e.downcast_ref::<&str>() {
        s.to_string()
    } else if let Some(s) = e.downcast_ref::<String>() {
        s.clone()
    } else {
        "?".to_string()
    }
}

/// run the real `from_bytes`, keeping the matches for further accessor checks
pub fn real_detect_raw(bytes: &[u8], s: &Sett) -> Result<Result<CharsetMatches, String>, String> {
    set_trace(s.trace);
    let r = catch_unwind(AssertUnwindSafe(|| charset_normalizer_rs::from_bytes(bytes, Some(s.to_real()))));
    set_trace(false);
    r.map_err(panic_msg)
}

pub fn canon_err(e: &str, s: &Sett) -> String {
    // map the error text back to which entry it names
    for n in &s.incl {
        if e == format!("included {} is not a valid encoding name", n) {
            return format!("include x{}", hexn(n));
        }
    }
    for n in &s.excl {
        if e == format!("excluded encoding {} is not a valid encoding name", n) {
            return format!("exclude x{}", hexn(n));
        }
    }
    format!("other {}", e.replace(' ', "_"))
}

pub fn hexn(n: &str) -> String {
    // names travel as hex of their code points' UTF-8? No: the model works on code points; the
    // driver's `x` names are hex of *bytes* only for ASCII names. Non-ASCII names are encoded as
    // UTF-8 bytes here and decoded to code points by the harness side before sending (see xname).
    let h = hex(n.as_bytes());
    if h == "-" {
        String::new()
    } else {
        h
    }
}

pub fn real_detect(bytes: &[u8], s: &Sett) -> Outcome {
    match real_detect_raw(bytes, s) {
        Err(p) => Outcome::Panic(p),
        Ok(Err(e)) => Outcome::Err(canon_err(&e, s)),
        Ok(Ok(ms)) => Outcome::Ok(canon_matches(&ms)),
    }
}

// ---- trace-level logger that formats (and so evaluates) every argument but prints nothing
struct NullLogger;
static TRACE_ON: std::sync::atomic::AtomicBool = std::sync::atomic::AtomicBool::new(false);
impl log::Log for NullLogger {
    fn enabled(&self, _: &log::Metadata) -> bool {
        TRACE_ON.load(std::sync::atomic::Ordering::Relaxed)
    }
    fn log(&self, record: &log::Record) {
        if self.enabled(record.metadata()) {
            let _ = format!("{}", record.args());
        }
    }
    fn flush(&self) {}
}
static LOGGER: NullLogger = NullLogger;
pub fn init_logger() {
    let _ = log::set_logger(&LOGGER);
    log::set_max_level(log::LevelFilter::Off);
}
pub fn set_trace(on: bool) {
    TRACE_ON.store(on, std::sync::atomic::Ordering::Relaxed);
    log::set_max_level(if on { log::LevelFilter::Trace } else { log::LevelFilter::Off });
}

// ---- languages
pub fn lang_by_name(n: &str) -> Option<&'static Language> {
    if n == "Unknown" {
        return Some(&Language::Unknown);
    }
    vh::languages_table().iter().map(|x| x.0).find(|l| format!("{}", l) == n)
}

fn show_coh(c: &[(&'static Language, f32)]) -> String {
    if c.is_empty() {
        "-".into()
    } else {
        c.iter().map(|(l, s)| format!("{}={}", l, fbits(*s))).collect::<Vec<_>>().join(",")
    }
}
fn parse_coh(s: &str) -> Vec<(&'static Language, f32)> {
    if s == "-" {
        return vec![];
    }
    s.split(',')
        .map(|p| {
            let mut it = p.split('=');
            let l = lang_by_name(it.next().unwrap()).expect("language");
            let b: u32 = it.next().unwrap().parse().unwrap();
            (l, f32::from_bits(b))
        })
        .collect()
}

pub fn text_hex(s: &str) -> String {
    hex(s.as_bytes())
}
pub fn text_unhex(s: &str) -> String {
    String::from_utf8(unhex(s)).expect("utf8 text from driver")
}

/// panics of the library while it answered a query of the model (drained by the property runners: a panic of a
/// public helper is a finding in its own right, and must not take the harness down with it)
pub static ANSWER_PANICS: std::sync::Mutex<Vec<(String, Vec<u8>)>> = std::sync::Mutex::new(Vec::new());

/// answer one oracle query of the driver by calling the real function
pub fn answer(bytes: &[u8], q: &str) -> Option<String> {
    let r = catch_unwind(AssertUnwindSafe(|| answer_unguarded(bytes, q)));
    match r {
        Ok(x) => x,
        Err(e) => {
            let msg = panic_msg(e);
            let p: Vec<&str> = q.split('|').collect();
            let input: Vec<u8> = match p.first().copied() {
                Some("D") => {
                    if let Some(r) = p.get(2).and_then(|x| x.strip_prefix('@')) {
                        let mut it = r.split(':');
                        let a: usize = it.next().and_then(|x| x.parse().ok()).unwrap_or(0);
                        let b: usize = it.next().and_then(|x| x.parse().ok()).unwrap_or(0);
                        bytes.get(a..b).map(|x| x.to_vec()).unwrap_or_default()
                    } else {
                        p.get(2).map(|x| unhex(x)).unwrap_or_default()
                    }
                }
                _ => p.get(1).map(|x| unhex(x)).unwrap_or_default(),
            };
            if let Ok(mut g) = ANSWER_PANICS.lock() {
                g.push((format!("query {} ({}): {}", p.first().copied().unwrap_or("?"), p.get(1).copied().unwrap_or("").chars().take(40).collect::<String>(), msg), input));
            }
            // a decode that panics has no text: the model goes on as for an undecodable slice
            match p.first().copied() {
                Some("D") => Some(format!("{}|E", q)),
                _ => None,
            }
        }
    }
}

fn answer_unguarded(bytes: &[u8], q: &str) -> Option<String> {
    let p: Vec<&str> = q.split('|').collect();
    match p[0] {
        "D" => {
            let sl: Vec<u8> = if let Some(r) = p[2].strip_prefix('@') {
                let mut it = r.split(':');
                let a: usize = it.next()?.parse().ok()?;
                let b: usize = it.next()?.parse().ok()?;
                bytes[a..b].to_vec()
            } else {
                unhex(p[2])
            };
            let r = decode(&sl, p[1], DecoderTrap::Strict, false, p[3] == "1");
            Some(format!(
                "{}|{}",
                q,
                match r {
                    Ok(t) => format!("T{}", text_hex(&t)),
                    Err(_) => "E".to_string(),
                }
            ))
        }
        "M" => {
            let t = text_unhex(p[1]);
            let thr = f32::from_bits(p[2].parse().ok()?);
            let v = vh::mess_ratio(t, Some(thr));
            Some(format!("{}|{}", q, fbits(v)))
        }
        "C" => {
            let t = text_unhex(p[1]);
            let thr = f32::from_bits(p[2].parse().ok()?);
            let langs: Vec<&'static Language> =
                if p[3] == "-" { vec![] } else { p[3].split(',').map(|n| lang_by_name(n).expect("lang")).collect() };
            let r = vh::coherence_ratio(t, Some(thr), Some(langs));
            Some(format!(
                "{}|{}",
                q,
                match r {
                    Ok(c) => show_coh(&c),
                    Err(_) => "E".to_string(),
                }
            ))
        }
        "G" => {
            let lists: Vec<Vec<(&'static Language, f32)>> = p[1].split(';').map(parse_coh).collect();
            let r = vh::merge_coherence_ratios(&lists);
            Some(format!("{}|{}", q, show_coh(&r)))
        }
        _ => None,
    }
}

pub fn xnames(v: &[String]) -> String {
    if v.is_empty() {
        "-".into()
    } else {
        v.iter().map(|n| format!("x{}", hexn(n))).collect::<Vec<_>>().join(",")
    }
}

pub struct ModelRun {
    pub outcome: Outcome,
    pub rounds: usize,
    pub oracle: BTreeMap<String, String>,
}

/// per-character Unicode facts for the driver's full mode: `I|cp|flags|base|alpha|accent|lower`
fn char_token(c: char) -> String {
    format!(
        "I|{}|{}|{}|{}|{}|{}",
        c as u32,
        vh::char_info(c).0,
        vh::remove_accent(c) as u32,
        c.is_alphabetic() as u8,
        vh::is_accentuated(c) as u8,
        c.to_lowercase().map(|x| (x as u32).to_string()).collect::<Vec<_>>().join(".")
    )
}

/// run the model on the same request, answering its oracle needs with the real functions
pub fn model_detect(d: &mut Driver, bytes: &[u8], s: &Sett) -> ModelRun {
    model_detect_mode(d, bytes, s, false)
}

/// `full`: the mess and coherence detectors run inside the model (`worldFull`); their needs are answered
/// with facts about the characters of the text, not with the crate's result
pub fn model_detect_mode(d: &mut Driver, bytes: &[u8], s: &Sett, full: bool) -> ModelRun {
    let mut oracle: BTreeMap<String, String> = BTreeMap::new();
    let head = format!(
        "{} {} {} {} {} {} {} {} {} {} {}",
        if full { "detectfull" } else { "detect" },
        hex(bytes),
        s.steps,
        s.chunk,
        s.thr.to_bits(),
        s.lthr.to_bits(),
        xnames(&s.incl),
        xnames(&s.excl),
        s.pre as u8,
        s.fb as u8,
        s.trace as u8
    );
    let mut rounds = 0;
    loop {
        rounds += 1;
        let mut line = head.clone();
        for v in oracle.values() {
            if v.is_empty() {
                continue;
            }
            line.push(' ');
            line.push_str(v);
        }
        let t0 = std::time::Instant::now();
        let resp = d.ask(&line);
        if std::env::var("VERIF_DEBUG").is_ok() {
            eprintln!("round {} took {:?}: {}", rounds, t0.elapsed(), &resp[..resp.len().min(100)]);
        }
        if let Some(rest) = resp.strip_prefix("need ") {
            let mut progressed = false;
            for q in rest.split(' ') {
                if q.is_empty() || oracle.contains_key(q) {
                    continue;
                }
                if full && (q.starts_with("M|") || q.starts_with("C|")) {
                    // describe the characters of the text (and of their lowercase images)
                    let text = text_unhex(q.split('|').nth(1).unwrap_or(""));
                    let mut cs: Vec<char> = text.chars().collect();
                    cs.push('\n');
                    let lowered: Vec<char> = cs.iter().flat_map(|c| c.to_lowercase()).collect();
                    cs.extend(lowered);
                    for c in cs {
                        let key = format!("I|{}", c as u32);
                        if !oracle.contains_key(&key) {
                            oracle.insert(key, char_token(c));
                            progressed = true;
                        }
                    }
                    oracle.insert(q.to_string(), String::new());
                    continue;
                }
                match answer(bytes, q) {
                    Some(a) => {
                        oracle.insert(q.to_string(), a);
                        progressed = true;
                    }
                    None => {
                        return ModelRun { outcome: Outcome::Panic(format!("internal unanswerable {}", q)), rounds, oracle }
                    }
                }
            }
            if !progressed || rounds > 400 {
                return ModelRun { outcome: Outcome::Panic(format!("internal no-progress {}", &rest[..rest.len().min(120)])), rounds, oracle };
            }
            continue;
        }
        let outcome = if let Some(rest) = resp.strip_prefix("ok ") {
            let mut it = rest.split(' ');
            let n: usize = it.next().unwrap().parse().unwrap();
            let ms: Vec<CMatch> = it.filter(|x| !x.is_empty()).map(|x| CMatch::parse(x).expect("cmatch")).collect();
            assert_eq!(n, ms.len());
            Outcome::Ok(ms)
        } else if let Some(rest) = resp.strip_prefix("err ") {
            Outcome::Err(rest.to_string())
        } else if let Some(rest) = resp.strip_prefix("fault ") {
            Outcome::Panic(format!("fault {}", rest))
        } else {
            Outcome::Panic(format!("internal {}", resp))
        };
        return ModelRun { outcome, rounds, oracle };
    }
}

/// The declaration scan of `any_specified_encoding`, written without the crate and without a regex engine
/// (oracle side): ASCII bytes of the first `zone` bytes; leftmost match of
/// `(encoding|charset|coding)[:= ]{1,10}["']?([a-zA-Z0-9\-_]+)["']?`, matches taken left to right without
/// overlap; the first captured label that names a known encoding wins.
pub fn independent_declared(bytes: &[u8], zone: usize) -> Option<String> {
    let text: Vec<u8> = bytes[..zone.min(bytes.len())].iter().copied().filter(|b| *b < 0x80).collect();
    let is_sep = |b: u8| b == b':' || b == b'=' || b == b' ';
    let is_label = |b: u8| b.is_ascii_alphanumeric() || b == b'-' || b == b'_';
    let mut i = 0usize;
    while i < text.len() {
        let mut matched_end: Option<(usize, String)> = None;
        for kw in [&b"encoding"[..], &b"charset"[..], &b"coding"[..]] {
            if text[i..].starts_with(kw) {
                let mut j = i + kw.len();
                let mut k = 0;
                while j + k < text.len() && is_sep(text[j + k]) {
                    k += 1;
                }
                if k == 0 || k > 10 {
                    continue;
                }
                j += k;
                if j < text.len() && (text[j] == b'"' || text[j] == b'\'') {
                    j += 1;
                }
                let l0 = j;
                while j < text.len() && is_label(text[j]) {
                    j += 1;
                }
                if j == l0 {
                    continue;
                }
                let label = String::from_utf8_lossy(&text[l0..j]).to_string();
                if j < text.len() && (text[j] == b'"' || text[j] == b'\'') {
                    j += 1;
                }
                matched_end = Some((j, label));
                break;
            }
        }
        match matched_end {
            Some((end, label)) => {
                if let Some(n) = charset_normalizer_rs::utils::iana_name(&label) {
                    return Some(n.to_string());
                }
                i = end.max(i + 1);
            }
            None => i += 1,
        }
    }
    None
}

/// The answer of a brand-new process to one detection (`verif-harness fresh`): the reference against which answers
/// inside a history are compared when the state a history may leave behind is not reachable through the cache-flush
/// hook (thread-locals, statics outside the memo caches). `None` if the child did not produce an answer.
pub fn fresh_process_detect(bytes: &[u8], sett: &Sett) -> Option<String> {
    use std::sync::atomic::{AtomicUsize, Ordering};
    static N: AtomicUsize = AtomicUsize::new(0);
    let root = std::env::var("VERIF_ROOT").unwrap_or_else(|_| "/verif".into());
    let dir = format!("{}/replays/.fresh", root);
    let _ = std::fs::create_dir_all(&dir);
    let path = format!("{}/case-{}-{}.json", dir, std::process::id(), N.fetch_add(1, Ordering::SeqCst));
    let body = format!("{{\"bytes_hex\":\"{}\",\"settings\":{}}}\n", crate::util::hex(bytes), sett.json());
    std::fs::write(&path, body).ok()?;
    let out = std::process::Command::new(std::env::current_exe().ok()?).arg("fresh").arg(&path).output();
    let _ = std::fs::remove_file(&path);
    let out = out.ok()?;
    let text = String::from_utf8_lossy(&out.stdout).to_string();
    text.lines().find_map(|l| l.strip_prefix("FRESH ").map(|x| x.to_string()))
}
