mod detect;
mod driver;
mod dump;
mod util;

fn main() {
    detect::init_logger();
    let args: Vec<String> = std::env::args().collect();
    match args.get(1).map(|s| s.as_str()) {
        Some("dump-tables") => {
            let out = dump::tables_lean();
            match args.get(2) {
                Some(path) => {
                    let old = std::fs::read_to_string(path).unwrap_or_default();
                    if old != out {
                        std::fs::write(path, out).expect("write tables");
                        println!("tables: rewritten {}", path);
                    } else {
                        println!("tables: unchanged");
                    }
                }
                None => print!("{}", out),
            }
        }
        Some("try") => {
            // try <hexbytes> : run both sides with default settings and print them
            let b = util::unhex(&args[2]);
            let s = detect::Sett::default();
            let mut d = driver::Driver::spawn();
            let real = detect::real_detect(&b, &s);
            let model = detect::model_detect(&mut d, &b, &s);
            println!("real : {}", real.show());
            println!("model: {} (rounds {})", model.outcome.show(), model.rounds);
            println!("{}", if real == model.outcome { "AGREE" } else { "DISAGREE" });
        }
        _ => {
            eprintln!("usage: verif-harness dump-tables [path] | try <hex>");
            std::process::exit(2);
        }
    }
}
