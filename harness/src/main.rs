mod detect;
mod driver;
mod dump;
mod gen;
mod inventory;
mod props;
mod report;
mod util;

fn main() {
    detect::init_logger();
    let args: Vec<String> = std::env::args().collect();
    match args.get(1).map(|s| s.as_str()) {
        Some("dump-tables") => {
            let out = dump::tables_lean();
            match args.get(2) {
                Some(path) => {
                    let old = std::fs::read_to_string(path).unwrap_or_default();
                    if old != out {
                        std::fs::write(path, out).expect("write tables");
                        println!("tables: rewritten {}", path);
                    } else {
                        println!("tables: unchanged");
                    }
                }
                None => print!("{}", out),
            }
        }
        Some("dump-cjk") => {
            let out = dump::cjk_tables_lean();
            match args.get(2) {
                Some(path) => {
                    let old = std::fs::read_to_string(path).unwrap_or_default();
                    if old != out {
                        std::fs::write(path, out).expect("write cjk tables");
                        println!("cjk tables: rewritten {}", path);
                    } else {
                        println!("cjk tables: unchanged");
                    }
                }
                None => print!("{}", out),
            }
        }
        Some("dump-inventory") => {
            let out = inventory::inventory_lean("/repo");
            match args.get(2) {
                Some(path) => {
                    let old = std::fs::read_to_string(path).unwrap_or_default();
                    if old != out {
                        std::fs::write(path, out).expect("write inventory");
                        println!("inventory: rewritten {}", path);
                    } else {
                        println!("inventory: unchanged");
                    }
                }
                None => print!("{}", out),
            }
        }
        Some("try") | Some("tryfile") => {
            // try <hexbytes> | tryfile <path> : run both sides with default settings and print them
            let b = if args[1] == "tryfile" { std::fs::read(&args[2]).expect("file") } else { util::unhex(&args[2]) };
            let s = detect::Sett::default();
            let mut d = driver::Driver::spawn();
            let real = detect::real_detect(&b, &s);
            let model = detect::model_detect(&mut d, &b, &s);
            println!("real : {}", real.show());
            println!("model: {} (rounds {})", model.outcome.show(), model.rounds);
            println!("{}", if real == model.outcome { "AGREE" } else { "DISAGREE" });
            let t0 = std::time::Instant::now();
            let full = detect::model_detect_mode(&mut d, &b, &s, true);
            println!("full : {} (rounds {}, {:?})", full.outcome.show(), full.rounds, t0.elapsed());
            println!("{}", if real == full.outcome { "AGREE-FULL" } else { "DISAGREE-FULL" });
        }
        Some("debug-large") => debug_large(),
        Some("debug-similar") => {
            let mut rng = util::Rng::new(args.get(2).and_then(|x| x.parse().ok()).unwrap_or(1));
            for _ in 0..30 {
                let mut r = rng.fork();
                let c = gen::similar_rejection_case(&mut r);
                let full = detect::real_detect(&c.bytes, &c.sett);
                let n = match &full { detect::Outcome::Ok(v) => v.len(), _ => 0 };
                let has1258 = match &full { detect::Outcome::Ok(v) => v.iter().any(|m| m.cands().iter().any(|e| e == "windows-1258")), _ => false };
                println!("{} len={} fb={} thr={} matches={} lists1258={}", c.tag, c.bytes.len(), c.sett.fb, c.sett.thr, n, has1258);
            }
        }
        Some("batch") => {
            let seed: u64 = args[2].parse().unwrap();
            let n: usize = args[3].parse().unwrap();
            props::c03::print_batch(seed, n, args.get(4).map(|s| s == "reverse").unwrap_or(false));
        }
        Some("fresh") => {
            // fresh <case.json> : one detection as the first (and only) call of a new process – the answer no history can have influenced
            let (b, s) = replay_case(&args[2]);
            println!("FRESH {}", detect::real_detect(&b, &s).show());
        }
        Some("prop") => {
            // prop <id> <quick|thorough> <seed> [replay.json]
            let id = args[2].as_str();
            let thorough = args.get(3).map(|s| s == "thorough").unwrap_or(false);
            let seed: u64 = args.get(4).and_then(|s| s.parse().ok()).unwrap_or(1);
            if let Some(run) = props::custom_by_id(id) {
                let rep = run(thorough, seed, args.get(5).cloned());
                rep.finish();
                return;
            }
            let replay = args.get(5).map(|p| replay_case(p));
            match props::by_id(id) {
                Some(p) => {
                    let rep = props::run_detect_prop(p.as_ref(), thorough, seed, replay);
                    rep.finish();
                }
                None => {
                    eprintln!("unknown property {}", id);
                    std::process::exit(2);
                }
            }
        }
        _ => {
            eprintln!("usage: verif-harness dump-tables [path] | try <hex> | prop <id> <tier> <seed> [replay]");
            std::process::exit(2);
        }
    }
}

/// minimal JSON field extraction for replay files written by `report.rs`
fn jfield<'a>(s: &'a str, key: &str) -> Option<&'a str> {
    let pat = format!("\"{}\":", key);
    let i = s.find(&pat)? + pat.len();
    let rest = &s[i..];
    if let Some(r) = rest.strip_prefix('"') {
        let j = r.find('"')?;
        Some(&r[..j])
    } else {
        let j = rest.find(|c| c == ',' || c == '}').unwrap_or(rest.len());
        Some(&rest[..j])
    }
}
fn jlist(s: &str, key: &str) -> Vec<String> {
    let pat = format!("\"{}\":[", key);
    match s.find(&pat) {
        None => vec![],
        Some(i) => {
            let rest = &s[i + pat.len()..];
            let j = rest.find(']').unwrap_or(0);
            rest[..j]
                .split(',')
                .filter(|x| !x.is_empty())
                .map(|x| String::from_utf8(util::unhex(x.trim_matches('"'))).unwrap_or_default())
                .collect()
        }
    }
}
fn replay_case(path: &str) -> (Vec<u8>, detect::Sett) {
    let s = std::fs::read_to_string(path).expect("replay file");
    let bytes = util::unhex(jfield(&s, "bytes_hex").expect("bytes_hex"));
    let st = &s[s.find("\"settings\":").expect("settings")..];
    let sett = detect::Sett {
        steps: jfield(st, "steps").unwrap().parse().unwrap(),
        chunk: jfield(st, "chunk").unwrap().parse().unwrap(),
        thr: f32::from_bits(jfield(st, "thr_bits").unwrap().parse().unwrap()),
        lthr: f32::from_bits(jfield(st, "lthr_bits").unwrap().parse().unwrap()),
        incl: jlist(st, "incl"),
        excl: jlist(st, "excl"),
        pre: jfield(st, "pre").unwrap() == "true",
        fb: jfield(st, "fb").unwrap() == "true",
        trace: jfield(st, "trace").unwrap() == "true",
    };
    (bytes, sett)
}
#[allow(dead_code)]
pub fn debug_large() {
    let mut rng = util::Rng::new(99);
    let b = gen::large_mixed_case(&mut rng, 5);
    let s = detect::Sett::default();
    let r = detect::real_detect(&b, &s);
    println!("unrestricted: {}", &r.show()[..r.show().len().min(600)]);
    let mut s1 = s.clone();
    s1.incl = vec!["utf-8".into()];
    let r1 = detect::real_detect(&b, &s1);
    println!("restricted: {}", &r1.show()[..r1.show().len().min(600)]);
    let mut s2 = s.clone();
    s2.incl = vec!["ascii".into()];
    s2.fb = false;
    println!("ascii alone: {}", detect::real_detect(&b, &s2).show());
    let text = String::from_utf8(b.clone()).unwrap();
    let nchars = text.chars().count();
    for k in 0..5 {
        let chunk: String = text.chars().skip(k * (nchars / 5)).take(512).collect();
        let coh = charset_normalizer_rs::verif_hooks::coherence_ratio(chunk.clone(), Some(0.1), Some(vec![]));
        println!("chunk {} starts {:?} coh {:?}", k, chunk.chars().take(30).collect::<String>(), coh.map(|v| v.iter().map(|(l, s)| format!("{}={}", l, s)).collect::<Vec<_>>()));
    }
    let step = b.len() / 5;
    for k in 0..6 { let o = k*step; if o < b.len() { println!("window {} ascii={}", o, b[o..(o+512).min(b.len())].is_ascii()); } }
}
