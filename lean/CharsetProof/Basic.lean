def hello := "world"
