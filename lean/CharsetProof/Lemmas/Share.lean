import CharsetProof.Lemmas.F32
import CharsetProof.Lemmas.EntryFacts
import CharsetProof.Lemmas.SortPerm
import CharsetProof.Props.C10
set_option linter.unusedSectionVars false
namespace Charset
variable {E L : Type} [DecidableEq E]

/-- identical text and identical (finite) chaos ⇒ the merge test of `append` fires -/
theorem sameOutput_of_identical (m item : Match E L) (ht : m.text = item.text) (hc : m.chaos = item.chaos)
    (hfin : item.chaos.isFinite = true) : sameOutput m item = true := by
  unfold sameOutput
  have h0 : Fl.lt (Fl.abs (Fl.sub item.chaos item.chaos)) F32.epsilon = true := by
    rw [Fl.sub_self_finite _ hfin]; decide +kernel
  simp [ht, hc, h0]

/-- no two matches carry identical text and identical finite chaos -/
def Distinct (items : List (Match E L)) : Prop :=
  items.Pairwise (fun a b => ¬ (a.text = b.text ∧ a.chaos = b.chaos ∧ a.chaos.isFinite = true))

/-- alternatives share text (exactly) and chaos (within f32::EPSILON) with their match -/
def SubsAgree (m : Match E L) : Prop :=
  ∀ s ∈ m.subs, s.text = m.text ∧ Fl.lt (Fl.abs (Fl.sub m.chaos s.chaos)) F32.epsilon = true

theorem distinct_perm {l l' : List (Match E L)} (hp : l.Perm l') (h : Distinct l) : Distinct l' := by
  unfold Distinct at h ⊢
  refine (hp.pairwise_iff ?_).mp h
  intro a b hab hba
  exact hab ⟨hba.1.symm, hba.2.1.symm, by rw [← hba.2.1]; exact hba.2.2⟩

theorem append_distinct {sort : Sorter E L} (hperm : ∀ l, (sort l).Perm l) {tooBig : Nat}
    (items : List (Match E L)) (item : Match E L) (hsmall : item.raw.length ≤ tooBig) (hsubs : item.subs = [])
    (hd : Distinct items) (hs : ∀ m ∈ items, SubsAgree m) :
    Distinct (append sort tooBig items item) ∧ ∀ m ∈ append sort tooBig items item, SubsAgree m := by
  unfold append
  rw [if_pos hsmall]
  cases hm : mergeInto item items with
  | some items' =>
    simp only
    obtain ⟨pre, m, post, h1, h2, _, h4⟩ := mergeInto_some hm
    subst h1; subst h4
    constructor
    · -- keys (text, chaos) unchanged
      unfold Distinct at hd ⊢
      have := hd
      rw [List.pairwise_append] at this ⊢
      refine ⟨this.1, ?_, ?_⟩
      · rw [List.pairwise_cons] at this ⊢
        exact ⟨fun b hb => this.2.1.1 b hb, this.2.1.2⟩
      · intro a ha b hb
        simp only [List.mem_cons] at hb
        rcases hb with rfl | hb
        · exact this.2.2 a ha m (by simp)
        · exact this.2.2 a ha b (by simp [hb])
    · intro x hx
      simp only [List.mem_append, List.mem_cons] at hx
      rcases hx with hx | rfl | hx
      · exact hs x (by simp [hx])
      · intro s hsub
        simp only [List.mem_append, List.mem_singleton] at hsub
        rcases hsub with hsub | rfl
        · exact hs m (by simp) s hsub
        · unfold sameOutput at h2
          simp only [Bool.and_eq_true, beq_iff_eq] at h2
          exact ⟨h2.1.symm, h2.2⟩
      · exact hs x (by simp [hx])
  | none =>
    simp only
    have hnone : ∀ m ∈ items, sameOutput m item = false := by
      intro m hmem
      clear hd hs
      induction items with
      | nil => simp at hmem
      | cons a as ih =>
        simp only [mergeInto] at hm
        split at hm
        · cases hm
        · rename_i hsa
          simp only [List.mem_cons] at hmem
          rcases hmem with rfl | hmem
          · simpa using hsa
          · cases hma : mergeInto item as with
            | none => exact ih hma hmem
            | some r => simp [hma] at hm
    constructor
    · apply distinct_perm (hperm _).symm
      unfold Distinct at hd ⊢
      rw [List.pairwise_append]
      refine ⟨hd, by simp, ?_⟩
      intro a ha b hb
      simp only [List.mem_singleton] at hb
      subst hb
      intro ⟨ht, hc, hf⟩
      have := sameOutput_of_identical a b ht hc (by rw [← hc]; exact hf)
      rw [hnone a ha] at this; cases this
    · intro x hx
      have := (hperm _).mem_iff.mp hx
      simp only [List.mem_append, List.mem_singleton] at this
      rcases this with h1 | rfl
      · exact hs x h1
      · intro s hsub; rw [hsubs] at hsub; simp at hsub

end Charset
