/-
  coherence_ratio inside the model: every language it reports is a candidate of some layer; with a
  non-empty include list (other than [Unknown]) only listed languages are reported.
-/
import CharsetProof.Model.Coh
import CharsetProof.Lemmas.Merge
import CharsetProof.Props.C19
set_option linter.unusedSectionVars false
namespace Charset
variable {L : Type} [DecidableEq L]

/-- every entry a layer pushes names one of the layer's candidate languages -/
theorem cohLayer_langs (thr : F32) (score : L → F32) :
    ∀ (ls : List L) (suff : Nat), ∀ p ∈ (cohLayer thr score ls suff).1, p.1 ∈ ls := by
  intro ls
  induction ls with
  | nil => intro suff p hp; simp [cohLayer] at hp
  | cons l ls ih =>
    intro suff p hp
    simp only [cohLayer] at hp
    split at hp
    · exact List.mem_cons_of_mem _ (ih _ p hp)
    · have key : ∀ s', p ∈ (if 3 ≤ s' then ([(l, score l)], s')
          else ((l, score l) :: (cohLayer thr score ls s').1, (cohLayer thr score ls s').2)).1 → p.1 ∈ l :: ls := by
        intro s' h
        split at h
        · have := List.mem_singleton.mp h; subst this; exact List.mem_cons_self
        · rcases List.mem_cons.mp h with rfl | h
          · exact List.mem_cons_self
          · exact List.mem_cons_of_mem _ (ih _ p h)
      split at hp <;> exact key _ hp

theorem cohLayers_langs (thr : F32) (score : Nat → L → F32) (cands : Nat → List L) :
    ∀ (layers : List Nat) (suff : Nat), ∀ p ∈ cohLayers thr score cands layers suff, ∃ i ∈ layers, p.1 ∈ cands i := by
  intro layers
  induction layers with
  | nil => intro suff p hp; simp [cohLayers] at hp
  | cons i is ih =>
    intro suff p hp
    simp only [cohLayers, List.mem_append] at hp
    rcases hp with hp | hp
    · exact ⟨i, by simp, cohLayer_langs thr (score i) (cands i) suff p hp⟩
    · obtain ⟨j, hj, h⟩ := ih _ p hp
      exact ⟨j, List.mem_cons_of_mem _ hj, h⟩

/-- **the languages `coherence_ratio` lists are candidates of some layer** -/
theorem coherenceRatioModel_langs (thr : F32) (n : Nat) (score : Nat → L → F32) (cands : Nat → List L) (l : L)
    (h : l ∈ (coherenceRatioModel thr n score cands).map (·.1)) : ∃ i, i < n ∧ l ∈ cands i := by
  unfold coherenceRatioModel at h
  have hperm := (sortDesc_perm (filterAlt (cohLayers thr score cands (List.range n) 0))).map (·.1)
  rw [hperm.mem_iff, filterAlt_langs] at h
  obtain ⟨p, hp, rfl⟩ := List.mem_map.mp h
  obtain ⟨i, hi, hl⟩ := cohLayers_langs thr score cands _ _ p hp
  exact ⟨i, List.mem_range.mp hi, hl⟩

/-- **include-list law of `coherence_ratio`** (cd.rs:221-225): with a non-empty include list other than
    `[Unknown]`, only listed languages are reported – for every text, threshold and Unicode environment -/
theorem Coh.coherenceRatio_respects_include (env : Coh.CohEnv) (ranges : List (Name × Nat × Nat))
    (secondary : List Name) (tbl : Coh.LangTable) (tooSmall : Nat) (t : Text) (thr : F32) (incl : List Name)
    (r : List (Name × F32)) (h : Coh.coherenceRatio env ranges secondary tbl tooSmall t thr incl = some r)
    (hne : incl ≠ []) (hunk : incl ≠ [Coh.nUnknownLang]) : ∀ p ∈ r, p.1 ∈ incl := by
  unfold Coh.coherenceRatio at h
  have h1 : (incl == [Coh.nUnknownLang]) = false := by
    cases hb : incl == [Coh.nUnknownLang] with
    | false => rfl
    | true => exact absurd (eq_of_beq hb) hunk
  simp only [h1, Bool.false_eq_true, ↓reduceIte] at h
  have h2 : incl.isEmpty = false := by
    cases incl with
    | nil => exact absurd rfl hne
    | cons a b => rfl
  simp only [h2, Bool.false_eq_true, ↓reduceIte] at h
  split at h
  · cases h
  · have hr := Option.some.inj h
    intro p hp
    rw [← hr] at hp
    obtain ⟨i, _, hl⟩ := coherenceRatioModel_langs _ _ _ _ p.1 (List.mem_map_of_mem hp)
    exact hl

end Charset
