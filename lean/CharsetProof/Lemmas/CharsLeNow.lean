/-
  For the current tables: every supported encoding's codec is one of the modelled decoders (kernel-checked), hence
  `decode` produces at most one character per byte for every supported encoding – no decoder is opaque.
-/
import CharsetProof.Lemmas.CharsLe
import CharsetProof.Model.Concrete
import CharsetProof.Model.WorldFull
set_option linter.unusedSectionVars false
namespace Charset

/-- T1 obligation: every supported name that resolves to a codec resolves to a modelled one -/
def supportedModelledB : Bool :=
  Gen.supported.all (fun e => match codecNow e with | none => true | some c => c.strict.isSome)

theorem supportedModelled : supportedModelledB = true := by decide +kernel

theorem decodeNow_chars_le (o : Oracle) (chunk : Bool) {e : Name} (he : e ∈ Gen.supported) {x : Bytes} {t : Text}
    (h : decodeNow o chunk e x = .ok (some t)) (hc : chunk = false) : t.length ≤ x.length := by
  subst hc
  have hm := List.all_eq_true.mp supportedModelled e he
  unfold decodeNow at h
  cases hcod : codecNow e with
  | none => rw [hcod] at h; cases h
  | some c =>
    rw [hcod] at h hm
    simp only at h hm
    cases hs : c.strict with
    | none => rw [hs] at hm; cases hm
    | some f =>
      rw [hs] at h
      simp only [decodeStrict, Bool.false_eq_true, false_and, ↓reduceIte] at h
      cases hf : f x with
      | error k => rw [hf] at h; cases h
      | ok t' =>
        rw [hf] at h
        simp only [Except.ok.injEq, Option.some.injEq] at h
        subst h
        exact codec_strict_le hs x t' hf

/-- the character/byte bound for the model instance the driver executes -/
theorem hchars_now (o : Oracle) : ∀ e x t, e ∈ tablesNow.supported →
    (worldNow o).decode e x = .ok (some t) → t.length ≤ x.length :=
  fun _ _ _ he h => decodeNow_chars_le o false he h rfl

theorem hchars_full (menv : Md.MdEnv) (cenv : Coh.CohEnv) (o : Oracle) : ∀ e x t, e ∈ tablesNow.supported →
    (worldFull menv cenv o).decode e x = .ok (some t) → t.length ≤ x.length :=
  fun _ _ _ he h => decodeNow_chars_le o false he h rfl

end Charset
