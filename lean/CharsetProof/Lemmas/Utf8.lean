import CharsetProof.Model.Decode
namespace Charset

/-! ### single steps of the UTF-8 automaton -/

theorem u8Step_ascii {b : Nat} (h : b < 0x80) : u8Step {} b = .emit b := by
  unfold u8Step; simp [h]

theorem u8Step_cont_initial {b : Nat} (h1 : 0x80 ≤ b) (h2 : b ≤ 0xBF) : u8Step {} b = .reject true := by
  unfold u8Step
  have : ¬ b < 0x80 := by omega
  simp only [↓reduceIte, this]
  repeat' split
  all_goals first | rfl | omega

/-- a continuation byte accepted inside a sequence -/
theorem u8Step_more {s : U8State} {b : Nat} (hn : 2 ≤ s.needed) (h1 : s.lower ≤ b) (h2 : b ≤ s.upper) :
    u8Step s b = .more { needed := s.needed - 1, cp := s.cp * 64 + b % 64 } := by
  unfold u8Step
  have h0 : ¬ s.needed = 0 := by omega
  have h3 : ¬ s.needed = 1 := by omega
  simp [h0, h1, h2, h3]

theorem u8Step_last {s : U8State} {b : Nat} (hn : s.needed = 1) (h1 : s.lower ≤ b) (h2 : b ≤ s.upper) :
    u8Step s b = .emit (s.cp * 64 + b % 64) := by
  unfold u8Step
  simp [hn, h1, h2]

/-! ### decoding one encoded scalar value -/

theorem utf8_char_roundtrip (c : Nat) (hc : isScalar c = true) (rest : Bytes) :
    utf8StrictAux {} (utf8EncodeChar c ++ rest) =
      (match utf8StrictAux {} rest with | .ok r => .ok (c :: r) | .error k => .error k) := by
  unfold isScalar at hc
  simp only [Bool.or_eq_true, decide_eq_true_eq, Bool.and_eq_true] at hc
  unfold utf8EncodeChar
  by_cases h1 : c < 0x80
  · simp only [h1, ↓reduceIte, List.cons_append, List.nil_append, utf8StrictAux, u8Step_ascii h1]
    cases utf8StrictAux {} rest <;> rfl
  · simp only [h1, ↓reduceIte]
    by_cases h2 : c < 0x800
    · simp only [h2, ↓reduceIte, List.cons_append, List.nil_append, utf8StrictAux]
      have hl : u8Step {} (0xC0 + c / 64) = .more { needed := 1, cp := (0xC0 + c / 64) % 32 } := by
        unfold u8Step
        have a1 : ¬ (0xC0 + c / 64 < 0x80) := by omega
        have a2 : 0xC2 ≤ 0xC0 + c / 64 ∧ 0xC0 + c / 64 ≤ 0xDF := by omega
        simp [a1, a2]
      rw [hl]
      simp only
      rw [u8Step_last (s := { needed := 1, cp := (0xC0 + c / 64) % 32 }) rfl (by simp <;> omega) (by simp <;> omega)]
      simp only
      have : (192 + c / 64) % 32 * 64 + (128 + c % 64) % 64 = c := by omega
      simp only [this]
      cases utf8StrictAux {} rest <;> rfl
    · simp only [h2, ↓reduceIte]
      by_cases h3 : c < 0x10000
      · simp only [h3, ↓reduceIte, List.cons_append, List.nil_append, utf8StrictAux]
        -- lead byte E0..EF
        have hlead : ∃ lo up, u8Step {} (0xE0 + c / 4096) = .more { needed := 2, cp := (0xE0 + c / 4096) % 16, lower := lo, upper := up }
            ∧ lo ≤ 0x80 + (c / 64) % 64 ∧ 0x80 + (c / 64) % 64 ≤ up := by
          unfold u8Step
          have a1 : ¬ (0xE0 + c / 4096 < 0x80) := by omega
          have a2 : ¬ (0xC2 ≤ 0xE0 + c / 4096 ∧ 0xE0 + c / 4096 ≤ 0xDF) := by omega
          by_cases e0 : c / 4096 = 0
          · refine ⟨0xA0, 0xBF, ?_, by omega, by omega⟩
            simp [e0]
          · by_cases ed : c / 4096 = 13
            · refine ⟨0x80, 0x9F, ?_, by omega, by omega⟩
              simp [ed]
            · refine ⟨0x80, 0xBF, ?_, by omega, by omega⟩
              have b1 : ¬ (0xE0 + c / 4096 = 0xE0) := by omega
              have b2 : ¬ (0xE0 + c / 4096 = 0xED) := by omega
              have b3 : 0xE1 ≤ 0xE0 + c / 4096 ∧ 0xE0 + c / 4096 ≤ 0xEF := by omega
              simp [a1, a2, b2, b3] <;> omega
        obtain ⟨lo, up, hl, hlo, hup⟩ := hlead
        rw [hl]
        simp only
        rw [u8Step_more (by simp) (by simpa using hlo) (by simpa using hup)]
        simp only
        rw [u8Step_last (by simp) (by simp <;> omega) (by simp <;> omega)]
        simp only
        have : ((224 + c / 4096) % 16 * 64 + (128 + c / 64 % 64) % 64) * 64 + (128 + c % 64) % 64 = c := by omega
        simp only [this]
        cases utf8StrictAux {} rest <;> rfl
      · simp only [h3, ↓reduceIte, List.cons_append, List.nil_append, utf8StrictAux]
        have hc4 : c < 0x110000 := by omega
        have hlead : ∃ lo up, u8Step {} (0xF0 + c / 262144) = .more { needed := 3, cp := (0xF0 + c / 262144) % 8, lower := lo, upper := up }
            ∧ lo ≤ 0x80 + (c / 4096) % 64 ∧ 0x80 + (c / 4096) % 64 ≤ up := by
          unfold u8Step
          have a1 : ¬ (0xF0 + c / 262144 < 0x80) := by omega
          have a2 : ¬ (0xC2 ≤ 0xF0 + c / 262144 ∧ 0xF0 + c / 262144 ≤ 0xDF) := by omega
          have a3 : ¬ (0xF0 + c / 262144 = 0xE0) := by omega
          have a4 : ¬ (0xF0 + c / 262144 = 0xED) := by omega
          have a5 : ¬ (0xE1 ≤ 0xF0 + c / 262144 ∧ 0xF0 + c / 262144 ≤ 0xEF) := by omega
          by_cases f0 : c / 262144 = 0
          · refine ⟨0x90, 0xBF, ?_, by omega, by omega⟩
            simp [f0]
          · by_cases f4 : c / 262144 = 4
            · refine ⟨0x80, 0x8F, ?_, by omega, by omega⟩
              simp [f4]
            · refine ⟨0x80, 0xBF, ?_, by omega, by omega⟩
              have b1 : ¬ (0xF0 + c / 262144 = 0xF0) := by omega
              have b2 : ¬ (0xF0 + c / 262144 = 0xF4) := by omega
              have b3 : 0xF1 ≤ 0xF0 + c / 262144 ∧ 0xF0 + c / 262144 ≤ 0xF3 := by omega
              simp [a1, a2, a3, a4, a5, b2, b3] <;> omega
        obtain ⟨lo, up, hl, hlo, hup⟩ := hlead
        rw [hl]
        simp only
        rw [u8Step_more (by simp) (by simpa using hlo) (by simpa using hup)]
        simp only
        rw [u8Step_more (by simp) (by simp <;> omega) (by simp <;> omega)]
        simp only
        rw [u8Step_last (by simp) (by simp <;> omega) (by simp <;> omega)]
        simp only
        have : (((240 + c / 262144) % 8 * 64 + (128 + c / 4096 % 64) % 64) * 64 + (128 + c / 64 % 64) % 64) * 64 +
            (128 + c % 64) % 64 = c := by omega
        simp only [this]
        cases utf8StrictAux {} rest <;> rfl

end Charset

namespace Charset

theorem utf8_roundtrip_append (t : Text) (hs : ∀ c ∈ t, isScalar c = true) (rest : Bytes) :
    utf8StrictAux {} (utf8Encode t ++ rest) =
      (match utf8StrictAux {} rest with | .ok r => .ok (t ++ r) | .error k => .error k) := by
  induction t with
  | nil => simp only [utf8Encode, List.flatMap_nil, List.nil_append]; cases utf8StrictAux {} rest <;> rfl
  | cons c cs ih =>
    have hc := hs c (by simp)
    have hcs : ∀ x ∈ cs, isScalar x = true := fun x hx => hs x (by simp [hx])
    simp only [utf8Encode, List.flatMap_cons, List.append_assoc] at ih ⊢
    rw [utf8_char_roundtrip c hc, ih hcs]
    cases utf8StrictAux {} rest <;> rfl

/-- **round trip**: decoding the UTF-8 encoding of scalar values gives them back -/
theorem utf8_roundtrip (t : Text) (hs : ∀ c ∈ t, isScalar c = true) : utf8Strict (utf8Encode t) = .ok t := by
  have := utf8_roundtrip_append t hs []
  simpa [utf8Strict, utf8StrictAux] using this

/-- a continuation byte cannot start a character: "invalid sequence" -/
theorem utf8_cont_first_invalid {b : Nat} (h1 : 0x80 ≤ b) (h2 : b ≤ 0xBF) (rest : Bytes) :
    utf8StrictAux {} (b :: rest) = .error .invalid := by
  simp only [utf8StrictAux, u8Step_cont_initial h1 h2]

def isCont (b : Nat) : Bool := decide (0x80 ≤ b ∧ b ≤ 0xBF)

/-- all bytes after the first of an encoded character are continuation bytes -/
theorem encodeChar_tail_cont (c : Nat) : ∀ b ∈ (utf8EncodeChar c).drop 1, isCont b = true := by
  unfold utf8EncodeChar isCont
  intro b hb
  split at hb
  · simp at hb
  · split at hb
    · simp only [List.drop_succ_cons, List.drop_zero, List.mem_singleton] at hb; subst hb; simp; omega
    · split at hb
      · simp only [List.drop_succ_cons, List.drop_zero, List.mem_cons, List.not_mem_nil, or_false] at hb
        rcases hb with rfl | rfl <;> simp <;> omega
      · simp only [List.drop_succ_cons, List.drop_zero, List.mem_cons, List.not_mem_nil, or_false] at hb
        rcases hb with rfl | rfl | rfl <;> simp <;> omega

theorem encodeChar_length (c : Nat) : 1 ≤ (utf8EncodeChar c).length ∧ (utf8EncodeChar c).length ≤ 4 := by
  unfold utf8EncodeChar
  split
  · simp
  · split
    · simp
    · split <;> simp

end Charset

namespace Charset

theorem lead2 {c : Nat} (h1 : ¬ c < 0x80) (h2 : c < 0x800) :
    u8Step {} (0xC0 + c / 64) = .more { needed := 1, cp := (0xC0 + c / 64) % 32 } := by
  unfold u8Step
  have a1 : ¬ (0xC0 + c / 64 < 0x80) := by omega
  have a2 : 0xC2 ≤ 0xC0 + c / 64 ∧ 0xC0 + c / 64 ≤ 0xDF := by omega
  simp [a1, a2]

theorem lead3 {c : Nat} (hc : c < 55296 ∨ 57344 ≤ c ∧ c < 1114112) (h2 : ¬ c < 0x800) (h3 : c < 0x10000) :
    ∃ lo up, u8Step {} (0xE0 + c / 4096) = .more { needed := 2, cp := (0xE0 + c / 4096) % 16, lower := lo, upper := up }
      ∧ lo ≤ 0x80 + (c / 64) % 64 ∧ 0x80 + (c / 64) % 64 ≤ up := by
  unfold u8Step
  have a1 : ¬ (0xE0 + c / 4096 < 0x80) := by omega
  have a2 : ¬ (0xC2 ≤ 0xE0 + c / 4096 ∧ 0xE0 + c / 4096 ≤ 0xDF) := by omega
  by_cases e0 : c / 4096 = 0
  · refine ⟨0xA0, 0xBF, ?_, by omega, by omega⟩
    simp [e0]
  · by_cases ed : c / 4096 = 13
    · refine ⟨0x80, 0x9F, ?_, by omega, by omega⟩
      simp [ed]
    · refine ⟨0x80, 0xBF, ?_, by omega, by omega⟩
      have b2 : ¬ (0xE0 + c / 4096 = 0xED) := by omega
      have b3 : 0xE1 ≤ 0xE0 + c / 4096 ∧ 0xE0 + c / 4096 ≤ 0xEF := by omega
      simp [a1, a2, b2, b3] <;> omega

theorem lead4 {c : Nat} (h3 : ¬ c < 0x10000) (hc4 : c < 0x110000) :
    ∃ lo up, u8Step {} (0xF0 + c / 262144) = .more { needed := 3, cp := (0xF0 + c / 262144) % 8, lower := lo, upper := up }
      ∧ lo ≤ 0x80 + (c / 4096) % 64 ∧ 0x80 + (c / 4096) % 64 ≤ up := by
  unfold u8Step
  have a1 : ¬ (0xF0 + c / 262144 < 0x80) := by omega
  have a2 : ¬ (0xC2 ≤ 0xF0 + c / 262144 ∧ 0xF0 + c / 262144 ≤ 0xDF) := by omega
  have a3 : ¬ (0xF0 + c / 262144 = 0xE0) := by omega
  have a4 : ¬ (0xF0 + c / 262144 = 0xED) := by omega
  have a5 : ¬ (0xE1 ≤ 0xF0 + c / 262144 ∧ 0xF0 + c / 262144 ≤ 0xEF) := by omega
  by_cases f0 : c / 262144 = 0
  · refine ⟨0x90, 0xBF, ?_, by omega, by omega⟩
    simp [f0]
  · by_cases f4 : c / 262144 = 4
    · refine ⟨0x80, 0x8F, ?_, by omega, by omega⟩
      simp [f4]
    · refine ⟨0x80, 0xBF, ?_, by omega, by omega⟩
      have b2 : ¬ (0xF0 + c / 262144 = 0xF4) := by omega
      have b3 : 0xF1 ≤ 0xF0 + c / 262144 ∧ 0xF0 + c / 262144 ≤ 0xF3 := by omega
      simp [a1, a2, a3, a4, a5, b2, b3] <;> omega

/-- a non-empty proper prefix of an encoded character is an "incomplete sequence" -/
theorem utf8_proper_prefix_incomplete (d : Nat) (hd : isScalar d = true) (j : Nat) (hj1 : 1 ≤ j)
    (hj2 : j < (utf8EncodeChar d).length) :
    utf8StrictAux {} ((utf8EncodeChar d).take j) = .error .incomplete := by
  unfold isScalar at hd
  simp only [Bool.or_eq_true, decide_eq_true_eq, Bool.and_eq_true] at hd
  unfold utf8EncodeChar at hj2 ⊢
  by_cases h1 : d < 0x80
  · simp only [h1, ↓reduceIte, List.length_singleton] at hj2; omega
  · simp only [h1, ↓reduceIte] at hj2 ⊢
    by_cases h2 : d < 0x800
    · simp only [h2, ↓reduceIte, List.length_cons, List.length_nil] at hj2 ⊢
      have : j = 1 := by omega
      subst this
      simp [utf8StrictAux, lead2 h1 h2]
    · simp only [h2, ↓reduceIte] at hj2 ⊢
      by_cases h3 : d < 0x10000
      · simp only [h3, ↓reduceIte, List.length_cons, List.length_nil] at hj2 ⊢
        obtain ⟨lo, up, hl, hlo, hup⟩ := lead3 hd h2 h3
        have : j = 1 ∨ j = 2 := by omega
        rcases this with rfl | rfl
        · simp [utf8StrictAux, hl]
        · simp only [List.take_succ_cons, List.take_zero, utf8StrictAux, hl]
          rw [u8Step_more (by simp) (by simpa using hlo) (by simpa using hup)]
          simp
      · simp only [h3, ↓reduceIte, List.length_cons, List.length_nil] at hj2 ⊢
        obtain ⟨lo, up, hl, hlo, hup⟩ := lead4 h3 (by omega)
        have : j = 1 ∨ j = 2 ∨ j = 3 := by omega
        rcases this with rfl | rfl | rfl
        · simp [utf8StrictAux, hl]
        · simp only [List.take_succ_cons, List.take_zero, utf8StrictAux, hl]
          rw [u8Step_more (by simp) (by simpa using hlo) (by simpa using hup)]
          simp
        · simp only [List.take_succ_cons, List.take_zero, utf8StrictAux, hl]
          rw [u8Step_more (by simp) (by simpa using hlo) (by simpa using hup)]
          simp only
          rw [u8Step_more (by simp) (by simp <;> omega) (by simp <;> omega)]
          simp

end Charset

namespace Charset

theorem chunkRetry_ok_of_strict {strict : Bytes → Except ErrKind Text} {input : Bytes} {fuel b e : Nat} {t : Text}
    (h : strict ((input.drop b).take (e - b)) = .ok t) : chunkRetry strict input fuel b e = .ok t := by
  cases fuel with
  | zero => simpa [chunkRetry] using h
  | succ f => simp [chunkRetry, h]

/-- peeling continuation bytes off the front, one "invalid sequence" at a time -/
theorem chunkRetry_front (T : Bytes) (hT : ∀ b ∈ T, isCont b = true) :
    ∀ (P R : Bytes) (fuel : Nat), P.length + T.length ≤ 3 → 1 ≤ R.length → T.length ≤ fuel →
      chunkRetry utf8Strict (P ++ T ++ R) fuel P.length (P ++ T ++ R).length =
        chunkRetry utf8Strict (P ++ T ++ R) (fuel - T.length) (P.length + T.length) (P ++ T ++ R).length := by
  induction T with
  | nil => intro P R fuel _ _ _; simp
  | cons t T ih =>
    intro P R fuel hlen hR hfuel
    have ht : 0x80 ≤ t ∧ t ≤ 0xBF := by
      have := hT t (by simp); simpa [isCont] using this
    cases fuel with
    | zero => simp at hfuel
    | succ f =>
      have hinner : ((P ++ t :: T ++ R).drop P.length).take ((P ++ t :: T ++ R).length - P.length) = t :: (T ++ R) := by
        have h1 : (P ++ t :: T ++ R).drop P.length = t :: (T ++ R) := by simp [List.append_assoc]
        rw [h1]
        apply List.take_of_length_le
        simp only [List.length_append, List.length_cons]; omega
      have hstrict : utf8Strict (t :: (T ++ R)) = .error .invalid := utf8_cont_first_invalid ht.1 ht.2 _
      simp only [chunkRetry, hinner, hstrict, ↓reduceIte]
      have hcond : ¬ ((P ++ t :: T ++ R).length - (P.length + 1) < 1 ∨ 3 < P.length + 1 ∨
          3 < (P ++ t :: T ++ R).length - (P ++ t :: T ++ R).length) := by
        simp only [List.length_append, List.length_cons] at hlen ⊢
        omega
      have hne : (ErrKind.invalid = ErrKind.incomplete) = False := by simp
      simp only [hne, ↓reduceIte, hcond]
      have := ih (fun b hb => hT b (by simp [hb])) (P ++ [t]) R f (by simp at hlen ⊢; omega) hR (by simpa using hfuel)
      have hl : P ++ [t] ++ T ++ R = P ++ t :: T ++ R := by simp
      rw [hl] at this
      simp only [List.length_append, List.length_cons, List.length_nil] at this ⊢
      have e1 : f + 1 - (T.length + 1) = f - T.length := by omega
      have e2 : P.length + (T.length + 1) = P.length + 1 + T.length := by omega
      rw [e1, e2]
      have e4 : P.length + (T.length + 1) + R.length = P.length + 1 + T.length + R.length := by omega
      rw [e4] at this
      simpa using this

/-- peeling an incomplete character off the end, one "incomplete sequence" at a time -/
theorem chunkRetry_back (P M H : Bytes) (mid : Text) (hP : P.length ≤ 3) (hH : H.length ≤ 3) (hM : 1 ≤ M.length)
    (hok : utf8Strict M = .ok mid)
    (hinc : ∀ k, 1 ≤ k → k ≤ H.length → utf8Strict (M ++ H.take k) = .error .incomplete) :
    ∀ (k fuel : Nat), k ≤ H.length → k ≤ fuel →
      chunkRetry utf8Strict (P ++ M ++ H) fuel P.length (P.length + M.length + k) = .ok mid := by
  have hinner : ∀ k, k ≤ H.length →
      ((P ++ M ++ H).drop P.length).take (P.length + M.length + k - P.length) = M ++ H.take k := by
    intro k hk
    have h1 : (P ++ M ++ H).drop P.length = M ++ H := by simp [List.append_assoc]
    rw [h1]
    have h2 : P.length + M.length + k - P.length = M.length + k := by omega
    rw [h2, List.take_append]
    have h3 : List.take (M.length + k) M = M := List.take_of_length_le (by omega)
    simp [h3]
  intro k
  induction k with
  | zero =>
    intro fuel _ _
    apply chunkRetry_ok_of_strict
    rw [hinner 0 (by omega)]
    simpa using hok
  | succ k ih =>
    intro fuel hk hfuel
    cases fuel with
    | zero => omega
    | succ f =>
      simp only [chunkRetry, hinner (k + 1) hk, hinc (k + 1) (by omega) hk]
      have hne : (ErrKind.incomplete = ErrKind.invalid) = False := by simp
      simp only [hne, ↓reduceIte]
      have hcond : ¬ (P.length + M.length + (k + 1) - 1 - P.length < 1 ∨ 3 < P.length ∨
          3 < (P ++ M ++ H).length - (P.length + M.length + (k + 1) - 1)) := by
        simp only [List.length_append]
        omega
      simp only [hcond, ↓reduceIte]
      have e1 : P.length + M.length + (k + 1) - 1 = P.length + M.length + k := by omega
      rw [e1]
      exact ih f (by omega) (by omega)

/-- **C17 window theorem** — a window cut at arbitrary byte positions out of valid UTF-8: `tail` bytes of
    a character cut at the front (`k ≥ 1` bytes of it are missing), any number of complete characters
    `mid` (at least one), and a proper prefix of a character cut at the end. Chunk-mode decoding
    returns exactly `mid`: nothing dropped, duplicated or invented. -/
theorem utf8_window (c d : Nat) (mid : Text) (k j : Nat) (hd : isScalar d = true)
    (hmid : ∀ x ∈ mid, isScalar x = true) (hne : mid ≠ []) (hk : 1 ≤ k) (hj : j < (utf8EncodeChar d).length) :
    decodeStrict utf8Strict true true ((utf8EncodeChar c).drop k ++ utf8Encode mid ++ (utf8EncodeChar d).take j) = .ok mid := by
  let T := (utf8EncodeChar c).drop k
  let M := utf8Encode mid
  let H := (utf8EncodeChar d).take j
  have hTcont : ∀ b ∈ T, isCont b = true := by
    intro b hb
    apply encodeChar_tail_cont c b
    have : (utf8EncodeChar c).drop k = ((utf8EncodeChar c).drop 1).drop (k - 1) := by
      rw [List.drop_drop]; congr 1; omega
    simp only [T] at hb; rw [this] at hb
    exact List.mem_of_mem_drop hb
  have hTlen : T.length ≤ 3 := by
    have := (encodeChar_length c).2
    simp only [T, List.length_drop]; omega
  have hHlen : H.length ≤ 3 := by
    have := (encodeChar_length d).2
    simp only [H, List.length_take]; omega
  have hMlen : 1 ≤ M.length := by
    cases mid with
    | nil => exact absurd rfl hne
    | cons x xs =>
      have := (encodeChar_length x).1
      simp only [M, utf8Encode, List.flatMap_cons, List.length_append]; omega
  have hok : utf8Strict M = .ok mid := utf8_roundtrip mid hmid
  have hinc : ∀ i, 1 ≤ i → i ≤ H.length → utf8Strict (M ++ H.take i) = .error .incomplete := by
    intro i hi1 hi2
    have hHi : H.take i = (utf8EncodeChar d).take i := by
      simp only [H, List.take_take]; congr 1
      simp only [H, List.length_take] at hi2; omega
    have hi3 : i < (utf8EncodeChar d).length := by
      simp only [H, List.length_take] at hi2; omega
    rw [hHi]
    have := utf8_roundtrip_append mid hmid ((utf8EncodeChar d).take i)
    unfold utf8Strict
    rw [this, utf8_proper_prefix_incomplete d hd i hi1 hi3]
  show decodeStrict utf8Strict true true (T ++ M ++ H) = .ok mid
  unfold decodeStrict
  simp only [and_self, ↓reduceIte]
  have h1 := chunkRetry_front T hTcont [] (M ++ H) 16 (by simpa using hTlen) (by simp; omega) (by omega)
  simp only [List.nil_append, List.length_nil, Nat.zero_add] at h1
  have hassoc : T ++ (M ++ H) = T ++ M ++ H := by simp
  rw [hassoc] at h1
  rw [h1]
  have h2 := chunkRetry_back T M H mid hTlen hHlen hMlen hok hinc H.length (16 - T.length) (Nat.le_refl _) (by omega)
  have hl : (T ++ M ++ H).length = T.length + M.length + H.length := by simp [List.length_append]; omega
  rw [hl]
  exact h2

end Charset
