/-
  merge_coherence_ratios inside the model: grouping keeps one entry per language (first appearance),
  the result names exactly the languages of the per-chunk lists, and is ordered by non-increasing score.
-/
import CharsetProof.Model.Cd
import CharsetProof.Lemmas.SortSmall
set_option linter.unusedSectionVars false
namespace Charset
variable {L : Type} [DecidableEq L]

theorem pushScore_keys (p : L × F32) (idx : List (L × List F32)) :
    (pushScore p idx).map (·.1) = if p.1 ∈ idx.map (·.1) then idx.map (·.1) else idx.map (·.1) ++ [p.1] := by
  induction idx with
  | nil => simp [pushScore]
  | cons q qs ih =>
    simp only [pushScore]
    by_cases h : q.1 = p.1
    · simp [h]
    · simp only [h, ↓reduceIte, List.map_cons, ih, List.mem_cons]
      have h' : ¬ p.1 = q.1 := fun e => h e.symm
      simp only [h', false_or]
      split <;> simp

theorem pushScore_nodup (p : L × F32) (idx : List (L × List F32)) (h : (idx.map (·.1)).Nodup) :
    ((pushScore p idx).map (·.1)).Nodup := by
  rw [pushScore_keys]
  split
  · exact h
  · rename_i hn
    rw [List.nodup_append]
    refine ⟨h, by simp, ?_⟩
    intro a ha b hb
    simp only [List.mem_singleton] at hb
    subst hb
    intro e; subst e; exact hn ha

theorem pushScore_mem (p : L × F32) (idx : List (L × List F32)) (l : L) :
    l ∈ (pushScore p idx).map (·.1) ↔ l ∈ idx.map (·.1) ∨ l = p.1 := by
  rw [pushScore_keys]
  split
  · rename_i h
    constructor
    · intro hl; exact Or.inl hl
    · rintro (hl | rfl)
      · exact hl
      · exact h
  · simp

theorem foldl_pushScore_nodup (ps : List (L × F32)) (idx : List (L × List F32)) (h : (idx.map (·.1)).Nodup) :
    ((ps.foldl (fun idx p => pushScore p idx) idx).map (·.1)).Nodup := by
  induction ps generalizing idx with
  | nil => exact h
  | cons p ps ih => exact ih _ (pushScore_nodup p idx h)

theorem foldl_pushScore_mem (ps : List (L × F32)) (idx : List (L × List F32)) (l : L) :
    l ∈ (ps.foldl (fun idx p => pushScore p idx) idx).map (·.1) ↔ l ∈ idx.map (·.1) ∨ l ∈ ps.map (·.1) := by
  induction ps generalizing idx with
  | nil => simp
  | cons p ps ih =>
    simp only [List.foldl, ih, pushScore_mem, List.map_cons, List.mem_cons]
    constructor
    · rintro ((h | h) | h)
      · exact Or.inl h
      · exact Or.inr (Or.inl h)
      · exact Or.inr (Or.inr h)
    · rintro (h | h | h)
      · exact Or.inl (Or.inl h)
      · exact Or.inl (Or.inr h)
      · exact Or.inr h

theorem mergeGroups_nodup (results : List (List (L × F32))) : ((mergeGroups results).map (·.1)).Nodup := by
  unfold mergeGroups
  exact foldl_pushScore_nodup _ [] (by simp)

theorem mergeGroups_mem (results : List (List (L × F32))) (l : L) :
    l ∈ (mergeGroups results).map (·.1) ↔ ∃ r ∈ results, l ∈ r.map (·.1) := by
  unfold mergeGroups
  rw [foldl_pushScore_mem]
  simp only [List.map_nil, List.not_mem_nil, false_or, List.mem_map, List.mem_flatten]
  constructor
  · rintro ⟨p, ⟨r, hr, hp⟩, rfl⟩
    exact ⟨r, hr, p, hp, rfl⟩
  · rintro ⟨r, hr, p, hp, rfl⟩
    exact ⟨p, ⟨r, hr, hp⟩, rfl⟩

theorem sortDesc_perm (l : List (L × F32)) : (sortDesc l).Perm l := sortUnstableSmall_perm _ l

/-- **merged languages: no repeats** -/
theorem mergeModel_nodup (results : List (List (L × F32))) : ((mergeModel results).map (·.1)).Nodup := by
  unfold mergeModel
  have hp := (sortDesc_perm ((mergeGroups results).map (fun g => (g.1, meanScore g.2)))).map (·.1)
  rw [hp.nodup_iff]
  have : ((mergeGroups results).map (fun g => (g.1, meanScore g.2))).map (·.1) = (mergeGroups results).map (·.1) := by
    simp [List.map_map, Function.comp_def]
  rw [this]
  exact mergeGroups_nodup results

/-- **merged languages: exactly the languages of the per-chunk lists** -/
theorem mergeModel_mem (results : List (List (L × F32))) (l : L) :
    l ∈ (mergeModel results).map (·.1) ↔ ∃ r ∈ results, l ∈ r.map (·.1) := by
  unfold mergeModel
  have hp := (sortDesc_perm ((mergeGroups results).map (fun g => (g.1, meanScore g.2)))).map (·.1)
  rw [hp.mem_iff]
  have : ((mergeGroups results).map (fun g => (g.1, meanScore g.2))).map (·.1) = (mergeGroups results).map (·.1) := by
    simp [List.map_map, Function.comp_def]
  rw [this]
  exact mergeGroups_mem results l

theorem sortDesc_lt_eq' (a b : L × F32) :
    (Fl.ocmp b.2 a.2 == Ordering.lt) = decide ((-a.2.key) < (-b.2.key)) := by
  unfold Fl.ocmp
  by_cases h : b.2.key < a.2.key
  · have : compare b.2.key a.2.key = .lt := Int.compare_eq_lt.mpr h
    simp [this]; omega
  · have : compare b.2.key a.2.key ≠ .lt := fun hc => h (Int.compare_eq_lt.mp hc)
    have hd : decide (-a.2.key < -b.2.key) = false := by simp; omega
    rw [hd]
    cases hc : compare b.2.key a.2.key <;> simp_all

theorem sortDesc_sorted (l : List (L × F32)) : (sortDesc l).Pairwise (fun a b => b.2.key ≤ a.2.key) := by
  unfold sortDesc
  have hfun : (fun (a b : L × F32) => Fl.ocmp b.2 a.2 == Ordering.lt) =
      (fun a b => decide ((fun p : L × F32 => -p.2.key) a < (fun p : L × F32 => -p.2.key) b)) := by
    funext a b; exact sortDesc_lt_eq' a b
  rw [hfun]
  have := sortUnstableSmall_pairwise (fun p : L × F32 => -p.2.key) l
  exact this.imp (fun h => by omega)

/-- **merged languages: ordered by non-increasing score** (every list length) -/
theorem mergeModel_sorted (results : List (List (L × F32))) :
    (mergeModel results).Pairwise (fun a b => b.2.key ≤ a.2.key) := sortDesc_sorted _

end Charset
