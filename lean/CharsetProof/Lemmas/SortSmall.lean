import CharsetProof.Model.SortSmall
import CharsetProof.Lemmas.SortPerm
import CharsetProof.Lemmas.SortSorted
namespace Charset
variable {α : Type}

theorem ipnsortSmallRaw_perm (lt : α → α → Bool) (l : List α) : (ipnsortSmallRaw lt l).Perm l := by
  unfold ipnsortSmallRaw
  simp only
  split
  · exact List.Perm.refl _
  · split
    · rename_i h
      have hp := List.isPerm_iff.mp h
      have := List.Perm.filterMap (fun i => l[i]?) hp
      rwa [filterMap_range_get] at this
    · exact List.Perm.refl _

theorem ipnsortSmall_perm (lt : α → α → Bool) (l : List α) : (ipnsortSmall lt l).Perm l := by
  unfold ipnsortSmall
  split
  · exact ipnsortSmallRaw_perm lt l
  · exact insertionSort_perm lt l

theorem sortUnstableSmall_perm (lt : α → α → Bool) (l : List α) : (sortUnstableSmall lt l).Perm l := by
  unfold sortUnstableSmall sortUnstableWith
  split
  · exact insertionSort_perm lt l
  · exact ipnsortSmall_perm lt l

/-- for a comparison given by an integer key, "adjacent in order" is "pairwise in order" -/
theorem sortedAdj_pairwise (f : α → Int) (l : List α)
    (h : sortedAdj (fun a b => decide (f a < f b)) l = true) : l.Pairwise (fun a b => f a ≤ f b) := by
  induction l with
  | nil => exact List.Pairwise.nil
  | cons x r ih =>
    cases r with
    | nil => exact List.pairwise_singleton _ _
    | cons y r' =>
      simp only [sortedAdj, Bool.and_eq_true, Bool.not_eq_true', decide_eq_false_iff_not, Int.not_lt] at h
      have ihr := ih h.2
      refine List.Pairwise.cons ?_ ihr
      intro z hz
      rcases List.mem_cons.mp hz with rfl | hz'
      · exact h.1
      · have := (List.pairwise_cons.mp ihr).1 z hz'
        omega

theorem ipnsortSmall_pairwise (f : α → Int) (l : List α) :
    (ipnsortSmall (fun a b => decide (f a < f b)) l).Pairwise (fun a b => f a ≤ f b) := by
  unfold ipnsortSmall
  split
  · rename_i h
    exact sortedAdj_pairwise f _ h
  · exact insertionSort_pairwise f l

/-- **`sort_unstable_by` on a small element type returns a sorted permutation** (key comparisons) -/
theorem sortUnstableSmall_pairwise (f : α → Int) (l : List α) :
    (sortUnstableSmall (fun a b => decide (f a < f b)) l).Pairwise (fun a b => f a ≤ f b) := by
  unfold sortUnstableSmall sortUnstableWith
  split
  · exact insertionSort_pairwise f l
  · exact ipnsortSmall_pairwise f l

end Charset
