import CharsetProof.Lemmas.Loop
import CharsetProof.Lemmas.Container
set_option linter.unusedSectionVars false
namespace Charset
variable {E L : Type} [DecidableEq E]

/-- the three fallback slots satisfy `P` -/
def LoopState.SlotsAll (P : Match E L → Prop) (st : LoopState E L) : Prop :=
  (∀ m, st.fbAscii = some m → P m) ∧ (∀ m, st.fbU8 = some m → P m) ∧ (∀ m, st.fbSpec = some m → P m)

theorem pickFallback_mem {st : LoopState E L} {fb : Match E L} (h : pickFallback st = some fb) :
    st.fbSpec = some fb ∨ st.fbU8 = some fb ∨ st.fbAscii = some fb := by
  unfold pickFallback at h
  split at h
  · simp_all
  · simp_all
  · split at h <;> simp_all
  · simp_all
  · simp_all

theorem softUpdate_slots {T : Tables E} {c : Ctx E} {st : LoopState E L} {e : E} {fb : Option (Match E L)}
    (P : Match E L → Prop) (hst : st.SlotsAll P) (hfb : ∀ m, fb = some m → P m) :
    (softUpdate T c st e fb).SlotsAll P := by
  unfold softUpdate
  split
  · exact hst
  · rename_i entry
    have hP := hfb entry rfl
    split
    · refine ⟨hst.1, hst.2.1, ?_⟩
      intro m hm; simp only [Option.some.injEq] at hm; subst hm; exact hP
    · split
      · refine ⟨?_, hst.2.1, hst.2.2⟩
        intro m hm; simp only [Option.some.injEq] at hm; subst hm; exact hP
      · refine ⟨hst.1, ?_, hst.2.2⟩
        intro m hm; simp only [Option.some.injEq] at hm; subst hm; exact hP

theorem softUpdate_results {T : Tables E} {c : Ctx E} {st : LoopState E L} {e : E} {fb : Option (Match E L)} :
    (softUpdate T c st e fb).results = st.results := by
  unfold softUpdate
  split
  · rfl
  · split
    · rfl
    · split <;> rfl

theorem findByCand_mem {items : List (Match E L)} {e : E} {x : Match E L}
    (h : findByCand items e = some x) : x ∈ items ∧ x.cands.contains e = true := by
  unfold findByCand at h
  exact ⟨List.mem_of_find?_eq_some h, by simpa using List.find?_some h⟩

theorem mem_rotateFront {pe x : E} {l : List E} (h : x ∈ rotateFront pe l) : x ∈ l := by
  unfold rotateFront at h
  split at h
  · rename_i hc
    simp only [List.mem_cons] at h
    rcases h with rfl | h
    · simpa using hc
    · exact List.mem_of_mem_erase h
  · exact h

theorem mem_probeOrder {supported prio : List E} {x : E} (h : x ∈ probeOrder supported prio) :
    x ∈ supported := by
  unfold probeOrder at h
  induction prio with
  | nil => simpa using h
  | cons p ps ih =>
    simp only [List.foldr_cons] at h
    exact ih (mem_rotateFront h)

theorem append_nil {sort : Sorter E L} (hperm : ∀ l, (sort l).Perm l) {tooBig : Nat} (fb : Match E L) :
    append sort tooBig [] fb = [fb] := by
  unfold append
  have : (if fb.raw.length ≤ tooBig then mergeInto fb ([] : List (Match E L)) else none) = none := by
    split <;> simp [mergeInto]
  rw [this]
  have := hperm ([] ++ [fb])
  simpa using this

/-- **Master theorem (entries).**  `Racc` holds for every accepted probe result, `Rfb` for every
    prepared fallback entry.  Then on non-empty input either every candidate of every returned match
    satisfies `Racc`, or the result is a single fallback match (nothing was accepted) satisfying `Rfb`. -/
theorem fromBytes_entries2 {W : World E L} {T : Tables E} {sort : Sorter E L}
    (hperm : ∀ l, (sort l).Perm l) (Racc Rfb : Sub E L → Prop) {b : Bytes} {s : Settings}
    {incl excl : List E}
    (hincl : canonList T.ianaName s.incl = .ok incl) (hexcl : canonList T.ianaName s.excl = .ok excl)
    (hacc : ∀ soft e m, e ∈ T.supported → allowed incl excl e = true →
      ProbeShape W T (ctxOf T b s) soft e (.accepted m) → Racc m.toSub)
    (hfb : ∀ soft e fb, e ∈ T.supported → allowed incl excl e = true →
      ProbeShape W T (ctxOf T b s) soft e (.softFail (some fb)) → Rfb fb.toSub)
    {ms : List (Match E L)} (hb : b ≠ [])
    (h : fromBytes W T sort b s = .ok (.ok ms)) :
    (∀ m ∈ ms, m.AllEntries Racc) ∨ (∃ fb, ms = [fb] ∧ fb.AllEntries Rfb ∧ fb.subs = []) := by
  have hsubs_acc : ∀ soft e m, ProbeShape W T (ctxOf T b s) soft e (.accepted m) → m.subs = [] := by
    intro soft e m hp
    cases hp with
    | accepted p acc m' _ _ _ _ ha =>
      obtain ⟨m', _, _, hv, _, _, hm⟩ := probeAccept_spec ha
      cases hv
      exact (mkMatch_spec hm).2.2.2.2.2.1
  have hsubs_fb : ∀ soft e fb, ProbeShape W T (ctxOf T b s) soft e (.softFail (some fb)) → fb.subs = [] := by
    intro soft e fb hp
    cases hp with
    | soft p acc fb' _ _ _ _ hs =>
      rcases probeSoft_spec hs with hv | ⟨fb', hv, _, hm⟩
      · cases hv
      · cases hv
        exact (mkMatch_spec hm).2.2.2.2.2.1
  unfold fromBytes at h
  simp only [hincl, hexcl] at h
  split at h
  · rename_i he
    exact absurd (by simpa using he) hb
  · -- the loop
    let Inv : List E → LoopState E L → Prop := fun _ st =>
      (∀ m ∈ st.results, m.AllEntries Racc) ∧
        st.SlotsAll (fun m => m.AllEntries Rfb ∧ m.subs = [])
    let Q : Outcome E L → Prop := fun o =>
      match o with
      | .exit x => x.AllEntries Racc
      | .done st => (∀ m ∈ st.results, m.AllEntries Racc) ∧
          st.SlotsAll (fun m => m.AllEntries Rfb ∧ m.subs = [])
    have key : ∀ out, detectLoop W T sort (ctxOf T b s) incl excl
        (probeOrder T.supported (prioritized T b s.preemptive)) {} = .ok out → Q out := by
      intro out hout
      refine detectLoop_rule (W := W) (T := T) (sort := sort) (c := ctxOf T b s) (incl := incl) (excl := excl)
        Inv Q (fun e => e ∈ T.supported) ?_ ?_ ?_ ?_ _ [] {} out ?_ ?_ hout
      · intro done st e _ hinv _; exact hinv
      · intro done st e fb hS hinv hal hp
        refine ⟨by rw [softUpdate_results]; exact hinv.1, softUpdate_slots _ hinv.2 ?_⟩
        intro m hm; subst hm
        refine ⟨⟨hfb _ e m hS hal hp, ?_⟩, hsubs_fb _ e m hp⟩
        rw [hsubs_fb _ e m hp]; simp
      · intro done st e m hS hinv hal hp
        have hitem : m.AllEntries Racc := ⟨hacc _ e m hS hal hp, by rw [hsubs_acc _ e m hp]; simp⟩
        have hall := append_allEntries hperm (tooBig := T.tooBig) Racc hinv.1 hitem
        refine ⟨fun _ => ⟨hall, hinv.2⟩, ?_⟩
        intro _ x hx
        exact hall x (findByCand_mem hx).1
      · intro done st hinv; exact hinv
      · intro e he; exact (mem_probeOrder he)
      · exact ⟨by simp, by simp [LoopState.SlotsAll]⟩
    split at h
    · cases h
    · rename_i x hx
      cases h
      have := key _ hx
      left
      intro m hm
      simp only [List.mem_singleton] at hm
      subst hm; exact this
    · rename_i st hst
      cases h
      have hq := key _ hst
      unfold finish
      split
      · rename_i hemp
        split
        · rename_i fb hfbp
          have hfbAll : fb.AllEntries Rfb ∧ fb.subs = [] := by
            rcases pickFallback_mem hfbp with h1 | h1 | h1
            · exact hq.2.2.2 fb h1
            · exact hq.2.2.1 fb h1
            · exact hq.2.1 fb h1
          right
          have he : st.results = [] := by simpa using hemp
          rw [he, append_nil hperm]
          exact ⟨fb, rfl, hfbAll.1, hfbAll.2⟩
        · left; simp
      · left; exact hq.1

/-- single-predicate corollary -/
theorem fromBytes_entries {W : World E L} {T : Tables E} {sort : Sorter E L}
    (hperm : ∀ l, (sort l).Perm l) (R : Sub E L → Prop) {b : Bytes} {s : Settings}
    {incl excl : List E}
    (hincl : canonList T.ianaName s.incl = .ok incl) (hexcl : canonList T.ianaName s.excl = .ok excl)
    (hacc : ∀ soft e m, e ∈ T.supported → allowed incl excl e = true →
      ProbeShape W T (ctxOf T b s) soft e (.accepted m) → R m.toSub)
    (hfb : ∀ soft e fb, e ∈ T.supported → allowed incl excl e = true →
      ProbeShape W T (ctxOf T b s) soft e (.softFail (some fb)) → R fb.toSub)
    {ms : List (Match E L)} (hb : b ≠ [])
    (h : fromBytes W T sort b s = .ok (.ok ms)) : ∀ m ∈ ms, m.AllEntries R := by
  rcases fromBytes_entries2 hperm R R hincl hexcl hacc hfb hb h with h1 | ⟨fb, rfl, h2, _⟩
  · exact h1
  · intro m hm
    simp only [List.mem_singleton] at hm
    subst hm; exact h2

end Charset
