import CharsetProof.Lemmas.Loop
import CharsetProof.Lemmas.Container
set_option linter.unusedSectionVars false
namespace Charset
variable {E L : Type} [DecidableEq E]

/-- the three fallback slots satisfy `P` -/
def LoopState.SlotsAll (P : Match E L → Prop) (st : LoopState E L) : Prop :=
  (∀ m, st.fbAscii = some m → P m) ∧ (∀ m, st.fbU8 = some m → P m) ∧ (∀ m, st.fbSpec = some m → P m)

theorem pickFallback_mem {st : LoopState E L} {fb : Match E L} (h : pickFallback st = some fb) :
    st.fbSpec = some fb ∨ st.fbU8 = some fb ∨ st.fbAscii = some fb := by
  unfold pickFallback at h
  split at h
  · simp_all
  · simp_all
  · split at h <;> simp_all
  · simp_all
  · simp_all

theorem softUpdate_slots {T : Tables E} {c : Ctx E} {st : LoopState E L} {e : E} {fb : Option (Match E L)}
    (P : Match E L → Prop) (hst : st.SlotsAll P) (hfb : ∀ m, fb = some m → P m) :
    (softUpdate T c st e fb).SlotsAll P := by
  unfold softUpdate
  split
  · exact hst
  · rename_i entry
    have hP := hfb entry rfl
    split
    · refine ⟨hst.1, hst.2.1, ?_⟩
      intro m hm; simp only [Option.some.injEq] at hm; subst hm; exact hP
    · split
      · refine ⟨?_, hst.2.1, hst.2.2⟩
        intro m hm; simp only [Option.some.injEq] at hm; subst hm; exact hP
      · refine ⟨hst.1, ?_, hst.2.2⟩
        intro m hm; simp only [Option.some.injEq] at hm; subst hm; exact hP

theorem softUpdate_results {T : Tables E} {c : Ctx E} {st : LoopState E L} {e : E} {fb : Option (Match E L)} :
    (softUpdate T c st e fb).results = st.results := by
  unfold softUpdate
  split
  · rfl
  · split
    · rfl
    · split <;> rfl

theorem findByCand_mem {items : List (Match E L)} {e : E} {x : Match E L}
    (h : findByCand items e = some x) : x ∈ items ∧ x.cands.contains e = true := by
  unfold findByCand at h
  exact ⟨List.mem_of_find?_eq_some h, by simpa using List.find?_some h⟩

/-- **Master theorem (entries).**  A predicate `R` on candidate entries that holds for every
    accepted probe result and every prepared fallback entry holds for every candidate of every match
    `from_bytes` returns on non-empty input. -/
theorem fromBytes_entries {W : World E L} {T : Tables E} {sort : Sorter E L}
    (hperm : ∀ l, (sort l).Perm l) (R : Sub E L → Prop) {b : Bytes} {s : Settings}
    {incl excl : List E}
    (hincl : canonList T.ianaName s.incl = .ok incl) (hexcl : canonList T.ianaName s.excl = .ok excl)
    (hacc : ∀ soft e m, allowed incl excl e = true →
      ProbeShape W T (ctxOf T b s) soft e (.accepted m) → R m.toSub)
    (hfb : ∀ soft e fb, allowed incl excl e = true →
      ProbeShape W T (ctxOf T b s) soft e (.softFail (some fb)) → R fb.toSub)
    {ms : List (Match E L)} (hb : b ≠ [])
    (h : fromBytes W T sort b s = .ok (.ok ms)) : ∀ m ∈ ms, m.AllEntries R := by
  have hsubs_acc : ∀ soft e m, ProbeShape W T (ctxOf T b s) soft e (.accepted m) → m.subs = [] := by
    intro soft e m hp
    cases hp with
    | accepted p acc m' _ _ _ _ ha =>
      obtain ⟨m', _, _, hv, _, _, hm⟩ := probeAccept_spec ha
      cases hv
      exact (mkMatch_spec hm).2.2.2.2.2.1
  have hsubs_fb : ∀ soft e fb, ProbeShape W T (ctxOf T b s) soft e (.softFail (some fb)) → fb.subs = [] := by
    intro soft e fb hp
    cases hp with
    | soft p acc fb' _ _ _ _ hs =>
      rcases probeSoft_spec hs with hv | ⟨fb', hv, _, hm⟩
      · cases hv
      · cases hv
        exact (mkMatch_spec hm).2.2.2.2.2.1
  unfold fromBytes at h
  simp only [hincl, hexcl] at h
  split at h
  · rename_i he
    exact absurd (by simpa using he) hb
  · -- the loop
    let Inv : List E → LoopState E L → Prop := fun _ st =>
      (∀ m ∈ st.results, m.AllEntries R) ∧ st.SlotsAll (fun m => m.AllEntries R)
    let Q : Outcome E L → Prop := fun o =>
      match o with
      | .exit x => x.AllEntries R
      | .done st => (∀ m ∈ st.results, m.AllEntries R) ∧ st.SlotsAll (fun m => m.AllEntries R)
    have key : ∀ out, detectLoop W T sort (ctxOf T b s) incl excl
        (probeOrder T.supported (prioritized T b s.preemptive)) {} = .ok out → Q out := by
      intro out hout
      refine detectLoop_rule (W := W) (T := T) (sort := sort) (c := ctxOf T b s) (incl := incl) (excl := excl)
        Inv Q ?_ ?_ ?_ ?_ _ [] {} out ?_ hout
      · intro done st e hinv _; exact hinv
      · intro done st e fb hinv hal hp
        refine ⟨by rw [softUpdate_results]; exact hinv.1, softUpdate_slots _ hinv.2 ?_⟩
        intro m hm; subst hm
        refine ⟨hfb _ e m hal hp, ?_⟩
        rw [hsubs_fb _ e m hp]; simp
      · intro done st e m hinv hal hp
        have hitem : m.AllEntries R := ⟨hacc _ e m hal hp, by rw [hsubs_acc _ e m hp]; simp⟩
        have hall := append_allEntries hperm (tooBig := T.tooBig) R hinv.1 hitem
        refine ⟨fun _ => ⟨hall, hinv.2⟩, ?_⟩
        intro _ x hx
        exact hall x (findByCand_mem hx).1
      · intro done st hinv; exact hinv
      · exact ⟨by simp, by simp [LoopState.SlotsAll]⟩
    split at h
    · cases h
    · rename_i x hx
      cases h
      have := key _ hx
      intro m hm
      simp only [List.mem_singleton] at hm
      subst hm; exact this
    · rename_i st hst
      cases h
      have hq := key _ hst
      intro m hm
      unfold finish at hm
      split at hm
      · split at hm
        · rename_i fb hfbp
          have hfbAll : fb.AllEntries R := by
            rcases pickFallback_mem hfbp with h1 | h1 | h1
            · exact hq.2.2.2 fb h1
            · exact hq.2.2.1 fb h1
            · exact hq.2.1 fb h1
          exact append_allEntries hperm R hq.1 hfbAll m hm
        · simp at hm
      · exact hq.1 m hm

end Charset
