/-
  From "every mess ratio is non-negative and not NaN" to "every reported chaos is": the mean over
  the analysed chunks (at most 2·steps of them) keeps the property.
-/
import CharsetProof.Lemmas.EntryFacts
import CharsetProof.Lemmas.F32
set_option linter.unusedSectionVars false
namespace Charset
variable {E L : Type} [DecidableEq E]
open Fl

theorem foldl_add_ok (rs : List F32) (a : F32) (ha : Ok a) (h : ∀ r ∈ rs, Ok r) : Ok (rs.foldl Fl.add a) := by
  induction rs generalizing a with
  | nil => exact ha
  | cons r rs ih =>
    simp only [List.foldl]
    exact ih _ (ok_add ha (h r (by simp))) (fun x hx => h x (by simp [hx]))

/-- the mean of non-negative non-NaN ratios is non-negative and not NaN -/
theorem meanRatio_ok (rs : List F32) (h : ∀ r ∈ rs, Ok r) (hlen : rs.length < 2 ^ 64) : Ok (meanRatio rs) := by
  unfold meanRatio
  split
  · exact ok_zero
  · rename_i hne
    have : 1 ≤ rs.length := by
      cases rs with
      | nil => simp at hne
      | cons a l => simp
    exact ok_div (foldl_add_ok rs _ ok_zero h) (ofNat32_pos _ this hlen) (ofNat32_lt_inf _ hlen)

/-- the chunk loop collects at most one ratio per offset -/
theorem chunkLoop_ratios_len {W : World E L} {T : Tables E} {c : Ctx E} {e : E} {payload : Option Text}
    {seqLen maxGaveUp : Nat} (offs : List Nat) (acc acc' : ChunkAcc)
    (h : chunkLoop W T c e payload seqLen maxGaveUp offs acc = .ok acc') :
    acc'.ratios.length ≤ acc.ratios.length + offs.length := by
  induction offs generalizing acc with
  | nil => simp only [chunkLoop] at h; cases h; simp
  | cons off offs ih =>
    simp only [chunkLoop] at h
    split at h
    · cases h
    · cases h; simp
    · split at h
      · cases h
      · split at h
        · cases h; simp
        · have := ih _ h
          simp only [List.length_append, List.length_cons, List.length_nil] at this ⊢
          omega

theorem offsets_length (start stop step : Nat) :
    (offsets start stop step).length = (stop - start + step - 1) / step := by
  simp [offsets]

/-- `(start..stop).step_by(max (stop / steps) 1)` yields at most `2 * steps` offsets -/
theorem offsets_le (start stop steps : Nat) (hs : 1 ≤ steps) :
    (offsets start stop (max (stop / steps) 1)).length ≤ 2 * steps := by
  rw [offsets_length]
  have hstep : 1 ≤ max (stop / steps) 1 := by omega
  generalize hq : stop / steps = q
  have hdm := Nat.div_add_mod stop steps
  have hmod := Nat.mod_lt stop (show 0 < steps by omega)
  rw [hq] at hdm
  apply Nat.le_of_lt_succ
  apply (Nat.div_lt_iff_lt_mul (by omega)).2
  -- stop - start + step - 1 < (2*steps + 1) * step
  by_cases hq0 : q = 0
  · subst hq0
    have : max 0 1 = 1 := by decide
    rw [this]
    omega
  · have hm : max q 1 = q := by omega
    rw [hm]
    have h1 : steps * q + stop % steps = stop := hdm
    have h2 : steps ≤ steps * q := Nat.le_mul_of_pos_right _ (by omega)
    have h3 : (2 * steps + 1) * q = 2 * (steps * q) + q := by
      rw [Nat.add_mul, Nat.one_mul, Nat.mul_assoc]
    show stop - start + q - 1 < (2 * steps + 1) * q
    rw [h3]
    omega

theorem probeChunks_len {W : World E L} {T : Tables E} {c : Ctx E} {e : E} {p : Prepared} {acc : ChunkAcc}
    (h : probeChunks W T c e p = .ok acc) : acc.ratios.length ≤ 2 * c.steps := by
  unfold probeChunks at h
  split at h
  · cases h
  · rename_i q hq
    have hsteps : 1 ≤ c.steps := by
      unfold divF at hq
      split at hq
      · cases hq
      · omega
    have hq' : q = seqLenOf c p / c.steps := by
      unfold divF at hq
      split at hq
      · cases hq
      · cases hq; rfl
    have := chunkLoop_ratios_len _ _ _ h
    subst hq'
    have := offsets_le (startOffOf p) (seqLenOf c p) c.steps hsteps
    simp only [List.length_nil] at *
    omega

theorem normWindow_steps_le (len steps chunk : Nat) : (normWindow len steps chunk).1 ≤ max steps 1 := by
  unfold normWindow
  simp only []
  split <;> split <;> simp <;> omega

end Charset
