import CharsetProof.Model.SortLarge
import CharsetProof.Model.Concrete
namespace Charset
variable {α : Type}

theorem insertTailRev_perm (lt : α → α → Bool) (x : α) (l : List α) :
    (insertTailRev lt x l).Perm (x :: l) := by
  induction l with
  | nil => simp [insertTailRev]
  | cons p ps ih =>
    simp only [insertTailRev]
    split
    · exact (List.Perm.cons p ih).trans (List.Perm.swap x p ps)
    · exact List.Perm.refl _

theorem insertionSortAux_perm (lt : α → α → Bool) (acc l : List α) :
    (insertionSortAux lt acc l).Perm (acc ++ l) := by
  induction l generalizing acc with
  | nil => simp [insertionSortAux]
  | cons x xs ih =>
    simp only [insertionSortAux]
    refine (ih _).trans ?_
    have h1 := insertTailRev_perm lt x acc
    have : (insertTailRev lt x acc ++ xs).Perm ((x :: acc) ++ xs) := List.Perm.append_right xs h1
    refine this.trans ?_
    simpa using (List.perm_middle (a := x) (l₁ := acc) (l₂ := xs)).symm

theorem insertionSort_perm (lt : α → α → Bool) (l : List α) : (insertionSort lt l).Perm l := by
  simpa [insertionSort] using insertionSortAux_perm lt [] l

theorem filterMap_range_get_aux (l : List α) : ∀ (pre : List α),
    ((List.range' pre.length l.length).filterMap (fun i => (pre ++ l)[i]?)) = l := by
  induction l with
  | nil => intro pre; simp
  | cons a l ih =>
    intro pre
    simp only [List.length_cons, List.range'_succ, List.filterMap_cons]
    have h1 : (pre ++ a :: l)[pre.length]? = some a := by simp
    rw [h1]
    congr 1
    have := ih (pre ++ [a])
    simpa using this

theorem filterMap_range_get (l : List α) : (List.range l.length).filterMap (fun i => l[i]?) = l := by
  have := filterMap_range_get_aux l []
  simpa [List.range_eq_range'] using this

theorem ipnsort_perm (lt : α → α → Bool) (l : List α) : (ipnsort lt l).Perm l := by
  unfold ipnsort
  simp only
  split
  · rename_i h
    have hp := List.isPerm_iff.mp h
    have := List.Perm.filterMap (fun i => l[i]?) hp
    rwa [filterMap_range_get] at this
  · exact List.Perm.refl _

theorem sortUnstable_perm (lt : α → α → Bool) (l : List α) : (sortUnstable lt l).Perm l := by
  unfold sortUnstable sortUnstableWith
  split
  · exact insertionSort_perm lt l
  · exact ipnsort_perm lt l

theorem sortMatches_perm {E L : Type} (l : List (Match E L)) : (sortMatches l).Perm l := by
  unfold sortMatches
  simp only []
  have hid : (l.map (fun m => (m.key, m))).map (·.2) = l := by simp [List.map_map, Function.comp_def]
  split
  · have h := (sortUnstable_perm (ltPair (E := E) (L := L)) (l.map (fun m => (m.key, m)))).map (·.2)
    rwa [hid] at h
  · have h := (insertionSort_perm (ltPair (E := E) (L := L)) (l.map (fun m => (m.key, m)))).map (·.2)
    rwa [hid] at h

end Charset
