/-
  Upper bound 1 for everything the coherence detector reports: jaro (f64), its narrowing to f32, the
  scores of coherence_ratio, the means of merge_coherence_ratios.  Built on Lemmas/FloatMono.lean.
-/
import CharsetProof.Lemmas.FloatMono
import CharsetProof.Lemmas.CohOk
set_option linter.unusedSectionVars false
namespace Charset
open Fl

theorem good32 : Good fmt32 where
  qmin_le := by decide
  nat_finite := by
    intro j hj
    have h64 : j < 2 ^ 64 := Nat.lt_of_lt_of_le hj (by decide)
    have := ofNat32_lt_inf j h64
    simp only [ofNat] at this
    omega

theorem good64 : Good fmt64 where
  qmin_le := by decide
  nat_finite := by
    intro j hj
    have h64 : j < 2 ^ 64 := Nat.lt_of_lt_of_le hj (by decide)
    have := ofNat64_lt_inf j h64
    simp only [ofNat] at this
    omega

/-! ### the number of matches `jaro` counts is at most the length of the second sequence -/

def falses (l : List Bool) : Nat := (l.filter (fun b => !b)).length

theorem falses_set (l : List Bool) (j : Nat) (h : l[j]? = some false) :
    falses (l.set j true) + 1 = falses l := by
  induction l generalizing j with
  | nil => simp at h
  | cons x xs ih =>
    cases j with
    | zero =>
      simp only [List.getElem?_cons_zero, Option.some.injEq] at h
      subst h
      simp [falses, List.set]
    | succ j =>
      simp only [List.getElem?_cons_succ] at h
      have := ih j h
      simp only [List.set, falses, List.filter_cons] at this ⊢
      cases x <;> simp <;> omega

theorem falses_le (l : List Bool) : falses l ≤ l.length := List.length_filter_le _ _

theorem jaroStep_inv (b : Array Nat) (sr : Nat) (st : List Bool × Array Bool × Nat) (ix : Nat × Nat)
    (h : st.2.2 + falses st.2.1.toList = st.2.1.size) :
    (Coh.jaroStep b sr st ix).2.2 + falses (Coh.jaroStep b sr st ix).2.1.toList = (Coh.jaroStep b sr st ix).2.1.size := by
  unfold Coh.jaroStep
  simp only []
  split
  · rename_i j hj
    -- the position found holds `false`
    have hfl : st.2.1[j]? = some false := by
      unfold Coh.findMatch at hj
      have := List.find?_some hj
      simp only [Bool.and_eq_true, beq_iff_eq] at this
      exact this.2
    simp only [Array.toList_setIfInBounds, Array.size_setIfInBounds]
    have hl : st.2.1.toList[j]? = some false := by rw [Array.getElem?_toList]; exact hfl
    have := falses_set st.2.1.toList j hl
    omega
  · exact h

theorem jaroMatch_le_b (a : List Nat) (b : Array Nat) : (Coh.jaroMatch a b).2.2 ≤ b.size := by
  unfold Coh.jaroMatch
  simp only []
  have key : ∀ (xs : List (Nat × Nat)) (st : List Bool × Array Bool × Nat),
      st.2.2 + falses st.2.1.toList = st.2.1.size →
      (xs.foldl (Coh.jaroStep b (max a.length b.size / 2 - 1)) st).2.2 +
        falses (xs.foldl (Coh.jaroStep b (max a.length b.size / 2 - 1)) st).2.1.toList =
        (xs.foldl (Coh.jaroStep b (max a.length b.size / 2 - 1)) st).2.1.size ∧
      (xs.foldl (Coh.jaroStep b (max a.length b.size / 2 - 1)) st).2.1.size = st.2.1.size := by
    intro xs
    induction xs with
    | nil => intro st h; exact ⟨h, rfl⟩
    | cons x xs ih =>
      intro st h
      simp only [List.foldl]
      have h1 := jaroStep_inv b (max a.length b.size / 2 - 1) st x h
      have hs : (Coh.jaroStep b (max a.length b.size / 2 - 1) st x).2.1.size = st.2.1.size := by
        unfold Coh.jaroStep; simp only []; split <;> simp
      have := ih _ h1
      exact ⟨this.1, by rw [this.2, hs]⟩
  have := key (a.zipIdx.map (fun p => (p.2, p.1))) ([], Array.replicate b.size false, 0)
    (by simp [falses])
  simp only [Array.size_replicate] at this
  omega

/-- `m as f64 / n as f64 ≤ 1` for `m ≤ n` (both below 2^53) -/
theorem ratio64_le_one (m n : Nat) (hmn : m ≤ n) (h1 : 1 ≤ n) (hn : n < 2 ^ 53) :
    Le (Fl.div (Fl.ofNat fmt64 m) (Fl.ofNat fmt64 n)) 1 :=
  div_le_one good64 (ofNat_le m n hmn) h1 hn

theorem le_zero (f : Fmt) (j : Nat) : Le (Fl.zero : Fl f) j :=
  ⟨by simp [Fl.zero], by simp only [Fl.zero]; exact Int.natCast_nonneg _⟩

/-- **`strsim::jaro ≤ 1`** (sequences shorter than 2^53) -/
theorem jaro_le_one (a b : List Nat) (ha : a.length < 2 ^ 53) (hb : b.length < 2 ^ 53) : Le (Coh.jaro a b) 1 := by
  unfold Coh.jaro
  split
  · exact ofNat_le 1 1 (Nat.le_refl _)
  · split
    · exact le_zero fmt64 1
    · rename_i h2
      have hane : 1 ≤ a.length := by
        cases a with
        | nil => simp at h2
        | cons x xs => simp
      have hbne : 1 ≤ b.length := by
        cases b with
        | nil => simp at h2
        | cons x xs => simp
      have hm := jaroMatch_le a b.toArray
      have hm' := jaroMatch_le_b a b.toArray
      simp only [List.size_toArray] at hm'
      generalize Coh.jaroMatch a b.toArray = r at hm hm' ⊢
      obtain ⟨aFlags, bFlags, m⟩ := r
      simp only at hm hm' ⊢
      split
      · exact le_zero fmt64 1
      · rename_i hm0
        have hm1 : 1 ≤ m := by omega
        have x1 := ratio64_le_one m a.length hm hane ha
        have x2 := ratio64_le_one m b.length hm' hbne hb
        have x3 := ratio64_le_one (m - ((((a.zip aFlags).filterMap (fun p => if p.2 then some p.1 else none)).zip
          ((b.zip bFlags.toList).filterMap (fun p => if p.2 then some p.1 else none))).filter (fun p => p.1 != p.2)).length / 2)
          m (Nat.sub_le _ _) hm1 (by omega)
        have s2 := add_le good64 x1 x2 (by decide)
        have s3 := add_le good64 s2 x3 (by decide)
        exact div_le_one good64 s3 (by decide) (by decide)

/-- rounding, in any target format, an exact dyadic `m·2^e ≤ 1` (given at the scale of a source format
    `g`) yields at most the target's `1.0` -/
theorem roundDy_le_one (g f : Fmt) (hq0 : g.qmin ≤ 0) (m : Nat) (e : Int) (he : g.qmin ≤ e)
    (hiv : m * 2 ^ (e - g.qmin).toNat ≤ scale g) : roundDy f m e ≤ roundPos f 1 1 := by
  unfold roundDy
  unfold scale at hiv
  by_cases h0 : 0 ≤ e
  · simp only [h0, ↓reduceIte]
    apply roundPos_mono f _ 1 1 1 (by decide) (by decide)
    have hsplit : (e - g.qmin).toNat = e.toNat + (-g.qmin).toNat := by omega
    rw [hsplit, Nat.pow_add, ← Nat.mul_assoc] at hiv
    have hp : 0 < 2 ^ (-g.qmin).toNat := Nat.two_pow_pos _
    generalize 2 ^ (-g.qmin).toNat = S at hiv hp
    generalize m * 2 ^ e.toNat = v at hiv ⊢
    have h1 : v * S ≤ 1 * S := by omega
    have := Nat.le_of_mul_le_mul_right h1 hp
    omega
  · simp only [h0, ↓reduceIte]
    apply roundPos_mono f _ _ 1 1 (Nat.two_pow_pos _) (by decide)
    have hsplit : (-g.qmin).toNat = (e - g.qmin).toNat + (-e).toNat := by omega
    rw [hsplit, Nat.pow_add] at hiv
    have hp : 0 < 2 ^ (e - g.qmin).toNat := Nat.two_pow_pos _
    generalize 2 ^ (e - g.qmin).toNat = A at hiv hp
    generalize 2 ^ (-e).toNat = B at hiv ⊢
    have h1 : A * m ≤ A * B := by rw [Nat.mul_comm A m]; exact hiv
    have := Nat.le_of_mul_le_mul_left h1 hp
    omega

/-- narrowing a value `≤ 1` to f32 keeps it `≤ 1` -/
theorem toF32_le_one (x : F64) (hx : Le x 1) : Le (F64.toF32 x) 1 := by
  have hnn := le_nn good64 hx (by decide)
  obtain ⟨hn, hi⟩ := nn_flags hnn
  have hiv := le_ival good64 hx (by decide)
  unfold F64.toF32
  simp only [hn, hi, Bool.false_eq_true, ↓reduceIte]
  rw [toDy_nn hnn]
  obtain ⟨e1, e2⟩ := decodeKey_ival fmt64 x.key.toNat
  generalize decodeKey fmt64 x.key.toNat = dk at *
  obtain ⟨m, e⟩ := dk
  simp only at e1 e2 ⊢
  unfold ofSigned
  have hnneg : ¬ ((m : Int) < 0) := by omega
  simp only [hnneg, ↓reduceIte, Int.natAbs_natCast]
  refine ⟨Int.natCast_nonneg _, Int.ofNat_le.mpr ?_⟩
  rw [← e1, Nat.one_mul] at hiv
  exact roundDy_le_one fmt64 fmt32 (by decide) m e e2 hiv

theorem popularityCompare_le_one (tbl : Coh.LangTable) (htbl : ∀ row ∈ tbl, row.2.1.length < 2 ^ 53)
    (lang : Name) (ordered : List Nat) (ho : ordered.length < 2 ^ 53) (r : F32)
    (h : Coh.popularityCompare tbl lang ordered = some r) : Le r 1 := by
  unfold Coh.popularityCompare at h
  split at h
  · cases h
  · rename_i row hrow
    cases h
    exact toF32_le_one _ (jaro_le_one _ _ ho (htbl row (List.mem_of_find?_eq_some hrow)))

/-- **every score `coherence_ratio` reports is at most 1** -/
theorem Coh.coherenceRatio_scores_le_one (env : Coh.CohEnv) (ranges : List (Name × Nat × Nat))
    (secondary : List Name) (tbl : Coh.LangTable) (tooSmall : Nat) (t : Text) (thr : F32) (incl : List Name)
    (henv : ∀ c x, x ∈ env.lower c → x < 0x110000) (htbl : ∀ row ∈ tbl, row.2.1.length < 2 ^ 53)
    (r : List (Name × F32)) (h : Coh.coherenceRatio env ranges secondary tbl tooSmall t thr incl = some r) :
    ∀ q ∈ r, Le q.2 1 := by
  have key : ∀ (n : Nat) (cands : Nat → List Name),
      ∀ q ∈ coherenceRatioModel thr n (fun i l => (Coh.popularityCompare tbl l
        ((((Coh.alphaSplit env ranges secondary t).filter (fun l => decide (tooSmall < l.length))).toArray.map
          Coh.popular)[i]?.getD [])).getD Fl.zero) cands, Le q.2 1 := by
    intro n cands
    apply coherenceRatioModel_scores (P := fun s => Le s 1)
    intro i l _
    have hpop : ((((Coh.alphaSplit env ranges secondary t).filter (fun l => decide (tooSmall < l.length))).toArray.map
        Coh.popular)[i]?.getD []).length < 2 ^ 53 := by
      cases hi : (((Coh.alphaSplit env ranges secondary t).filter (fun l => decide (tooSmall < l.length))).toArray.map
        Coh.popular)[i]? with
      | none => simp
      | some p =>
        simp only [Option.getD_some]
        have hmem : p ∈ (((Coh.alphaSplit env ranges secondary t).filter
            (fun l => decide (tooSmall < l.length))).toArray.map Coh.popular) := Array.mem_of_getElem? hi
        simp only [Array.mem_map, List.mem_toArray, List.mem_filter] at hmem
        obtain ⟨layer, ⟨hlayer, _⟩, rfl⟩ := hmem
        have hsp := popular_spec layer
        have hb : ∀ x ∈ Coh.popular layer, x < 0x110000 := fun x hx =>
          alphaSplit_mem env ranges secondary t (fun x => x < 0x110000) (fun c _ x hx => henv c x hx)
            layer hlayer x (hsp.2 x hx)
        have := nodup_bounded_length _ _ hsp.1 hb
        omega
    cases hpc : Coh.popularityCompare tbl l ((((Coh.alphaSplit env ranges secondary t).filter
        (fun l => decide (tooSmall < l.length))).toArray.map Coh.popular)[i]?.getD []) with
    | none => simp only [Option.getD_none]; exact le_zero fmt32 1
    | some x => simp only [Option.getD_some]; exact popularityCompare_le_one tbl htbl l _ hpop x hpc
  unfold Coh.coherenceRatio at h
  simp only [] at h
  repeat' split at h
  all_goals first
    | (have hr := Option.some.inj h; rw [← hr]; exact key _ _)
    | cases h

/-- the mean of `k` scores `≤ 1` is `≤ 1` (fewer than 2^24 of them) -/
theorem meanScore_le_one (scores : List F32) (h : ∀ s ∈ scores, Le s 1) (h1 : 1 ≤ scores.length)
    (h2 : scores.length < 2 ^ 24) : Le (meanScore scores) 1 := by
  unfold meanScore
  have hsum : ∀ (l : List F32) (a : F32) (k : Nat), Le a k → (∀ s ∈ l, Le s 1) → k + l.length < 2 ^ 24 →
      Le (l.foldl Fl.add a) (k + l.length) := by
    intro l
    induction l with
    | nil => intro a k ha _ _; simpa using ha
    | cons x xs ih =>
      intro a k ha hx hk
      simp only [List.foldl, List.length_cons] at hk ⊢
      have := ih (Fl.add a x) (k + 1) (add_le good32 ha (hx x List.mem_cons_self) (by
        show k + 1 < 2 ^ (23 + 1); omega)) (fun s hs => hx s (List.mem_cons_of_mem _ hs)) (by omega)
      have e : k + 1 + xs.length = k + (xs.length + 1) := by omega
      rw [e] at this
      exact this
  have hs := hsum scores Fl.zero 0 (le_zero fmt32 0) h (by omega)
  rw [Nat.zero_add] at hs
  exact div_le_one good32 hs h1 (by show scores.length < 2 ^ (23 + 1); omega)

/-- **merged scores are at most 1** when the per-chunk scores are (fewer than 2^24 chunk lists) -/
theorem mergeModel_scores_le_one (rs : List (List (Name × F32)))
    (hnd : ∀ r ∈ rs, (r.map (·.1)).Nodup) (hok : ∀ r ∈ rs, ∀ p ∈ r, Le p.2 1) (hlen : rs.length < 2 ^ 24) :
    ∀ q ∈ mergeModel rs, Le q.2 1 := by
  unfold mergeModel
  intro q hq
  rw [(sortDesc_perm _).mem_iff] at hq
  obtain ⟨g, hg, rfl⟩ := List.mem_map.mp hq
  have := mergeGroups_spec rs (fun s => Le s 1) hnd hok g hg
  exact meanScore_le_one g.2 this.2 this.1.1 (by omega)

end Charset
