import CharsetProof.Model.Sort
namespace Charset
variable {α : Type}

/-- `w` is preferred to every other element of `l` -/
def Winner (lt : α → α → Bool) (w : α) (l : List α) : Prop :=
  ∀ y ∈ l, y ≠ w → lt w y = true ∧ lt y w = false

/-- every other element of `l` is preferred to `z` -/
def Loser (lt : α → α → Bool) (z : α) (l : List α) : Prop :=
  ∀ y ∈ l, y ≠ z → lt y z = true ∧ lt z y = false

theorem insertTailRev_ne_nil (lt : α → α → Bool) (x : α) (l : List α) : insertTailRev lt x l ≠ [] := by
  cases l with
  | nil => simp [insertTailRev]
  | cons p ps => simp only [insertTailRev]; split <;> simp

/-- inserting anything keeps a winner at the far end (= head of the sorted prefix) -/
theorem insertTailRev_keeps_last (lt : α → α → Bool) (w x : α) (acc : List α)
    (hirr : lt w w = false) (hx : x ≠ w → lt x w = false)
    (h : acc.getLast? = some w) : (insertTailRev lt x acc).getLast? = some w := by
  induction acc with
  | nil => simp at h
  | cons p ps ih =>
    simp only [insertTailRev]
    split
    · rename_i hlt
      cases ps with
      | nil =>
        simp only [List.getLast?_singleton, Option.some.injEq] at h
        subst h
        by_cases hxw : x = p
        · subst hxw; rw [hirr] at hlt; cases hlt
        · rw [hx hxw] at hlt; cases hlt
      | cons q qs =>
        have h' : (q :: qs).getLast? = some w := by simpa [List.getLast?_cons_cons] using h
        have := ih h'
        have hne := insertTailRev_ne_nil lt x (q :: qs)
        cases hr : insertTailRev lt x (q :: qs) with
        | nil => exact absurd hr hne
        | cons r rs => rw [hr] at this; simpa [List.getLast?_cons_cons] using this
    · simpa [List.getLast?_cons_cons] using h

/-- a winner inserted into a prefix of non-copies travels to the far end -/
theorem insertTailRev_winner_last (lt : α → α → Bool) (w : α) (acc : List α)
    (hbeats : ∀ p ∈ acc, lt w p = true) : (insertTailRev lt w acc).getLast? = some w := by
  induction acc with
  | nil => simp [insertTailRev]
  | cons p ps ih =>
    simp only [insertTailRev]
    rw [if_pos (hbeats p (by simp))]
    have := ih (fun q hq => hbeats q (by simp [hq]))
    have hne := insertTailRev_ne_nil lt w ps
    cases hr : insertTailRev lt w ps with
    | nil => exact absurd hr hne
    | cons r rs => rw [hr] at this; simpa [List.getLast?_cons_cons] using this

theorem mem_insertTailRev (lt : α → α → Bool) (x y : α) (l : List α) :
    y ∈ insertTailRev lt x l ↔ y = x ∨ y ∈ l := by
  induction l with
  | nil => simp [insertTailRev]
  | cons p ps ih =>
    simp only [insertTailRev]
    split
    · simp only [List.mem_cons, ih]; constructor
      · rintro (h | h | h) <;> simp [h]
      · rintro (h | h | h) <;> simp [h]
    · simp [List.mem_cons]

/-- **winner first (insertion sort)**: processing `l` after the sorted prefix `acc.reverse` -/
theorem insertionSortAux_winner (lt : α → α → Bool) (w : α) (hirr : lt w w = false) :
    ∀ (l acc : List α), Winner lt w (acc ++ l) →
      ((w ∈ acc → acc.getLast? = some w) → (w ∈ acc ∨ w ∈ l) →
        (insertionSortAux lt acc l).head? = some w) := by
  intro l
  induction l with
  | nil =>
    intro acc _ hacc hmem
    simp only [insertionSortAux]
    have hw : w ∈ acc := by simpa using hmem
    have := hacc hw
    rw [List.head?_reverse]; exact this
  | cons x xs ih =>
    intro acc hwin hacc hmem
    simp only [insertionSortAux]
    apply ih
    · -- winner of the same multiset
      intro y hy hyw
      apply hwin y _ hyw
      simp only [List.mem_append, mem_insertTailRev] at hy
      simp only [List.mem_append, List.mem_cons]
      rcases hy with (rfl | hy) | hy
      · right; left; rfl
      · left; exact hy
      · right; right; exact hy
    · intro hw
      by_cases hwa : w ∈ acc
      · apply insertTailRev_keeps_last lt w x acc hirr _ (hacc hwa)
        intro hxw
        exact (hwin x (by simp) hxw).2
      · -- then the inserted element is w itself
        have hxw : x = w := by
          rcases (mem_insertTailRev lt x w acc).mp hw with h | h
          · exact h.symm
          · exact absurd h hwa
        subst hxw
        apply insertTailRev_winner_last
        intro p hp
        have hpw : p ≠ x := fun h => hwa (h ▸ hp)
        exact (hwin p (by simp [hp]) hpw).1
    · rcases hmem with h | h
      · left; exact (mem_insertTailRev lt x w acc).mpr (Or.inr h)
      · simp only [List.mem_cons] at h
        rcases h with h | h
        · left; exact (mem_insertTailRev lt x w acc).mpr (Or.inl h)
        · right; exact h

theorem insertionSort_winner_first (lt : α → α → Bool) (w : α) (l : List α)
    (hirr : lt w w = false) (hw : w ∈ l) (hwin : Winner lt w l) :
    (insertionSort lt l).head? = some w := by
  unfold insertionSort
  exact insertionSortAux_winner lt w hirr l [] (by simpa using hwin) (by simp) (Or.inr hw)

/-! ### loser last -/

theorem insertTailRev_head_of_not_lt (lt : α → α → Bool) (z : α) (acc : List α)
    (h : ∀ p ∈ acc, lt z p = false) : (insertTailRev lt z acc).head? = some z := by
  cases acc with
  | nil => simp [insertTailRev]
  | cons p ps =>
    simp only [insertTailRev]
    rw [if_neg (by simp [h p (by simp)])]
    rfl

theorem insertTailRev_keeps_head (lt : α → α → Bool) (z x : α) (acc : List α)
    (hx : x ≠ z → lt x z = true) (h : acc.head? = some z) :
    (insertTailRev lt x acc).head? = some z ∨ (x = z ∧ (insertTailRev lt x acc).head? = some z) := by
  cases acc with
  | nil => simp at h
  | cons p ps =>
    simp only [List.head?_cons, Option.some.injEq] at h
    subst h
    simp only [insertTailRev]
    by_cases hxz : x = p
    · subst hxz
      split <;> simp
    · rw [if_pos (hx hxz)]; simp

theorem insertionSortAux_loser (lt : α → α → Bool) (z : α) :
    ∀ (l acc : List α), Loser lt z (acc ++ l) →
      ((z ∈ acc → acc.head? = some z) → (z ∈ acc ∨ z ∈ l) →
        (insertionSortAux lt acc l).getLast? = some z) := by
  intro l
  induction l with
  | nil =>
    intro acc _ hacc hmem
    simp only [insertionSortAux]
    have hz : z ∈ acc := by simpa using hmem
    rw [List.getLast?_reverse]; exact hacc hz
  | cons x xs ih =>
    intro acc hlos hacc hmem
    simp only [insertionSortAux]
    apply ih
    · intro y hy hyz
      apply hlos y _ hyz
      simp only [List.mem_append, mem_insertTailRev] at hy
      simp only [List.mem_append, List.mem_cons]
      rcases hy with (rfl | hy) | hy
      · right; left; rfl
      · left; exact hy
      · right; right; exact hy
    · intro hz
      by_cases hza : z ∈ acc
      · have := insertTailRev_keeps_head lt z x acc (fun hxz => (hlos x (by simp) hxz).1) (hacc hza)
        rcases this with h | ⟨_, h⟩ <;> exact h
      · have hxz : x = z := by
          rcases (mem_insertTailRev lt x z acc).mp hz with h | h
          · exact h.symm
          · exact absurd h hza
        subst hxz
        apply insertTailRev_head_of_not_lt
        intro p hp
        have hpx : p ≠ x := fun h => hza (h ▸ hp)
        exact (hlos p (by simp [hp]) hpx).2
    · rcases hmem with h | h
      · left; exact (mem_insertTailRev lt x z acc).mpr (Or.inr h)
      · simp only [List.mem_cons] at h
        rcases h with h | h
        · left; exact (mem_insertTailRev lt x z acc).mpr (Or.inl h)
        · right; exact h

theorem insertionSort_loser_last (lt : α → α → Bool) (z : α) (l : List α)
    (hz : z ∈ l) (hlos : Loser lt z l) : (insertionSort lt l).getLast? = some z := by
  unfold insertionSort
  exact insertionSortAux_loser lt z l [] (by simpa using hlos) (by simp) (Or.inr hz)

end Charset
