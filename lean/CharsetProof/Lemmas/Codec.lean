import CharsetProof.Model.Concrete
namespace Charset

/-- a table codec decodes a concatenation piecewise -/
theorem tableStrict_append (tbl : List Nat) (x y : Bytes) (tx ty : Text)
    (hx : tableStrict tbl x = .ok tx) (hy : tableStrict tbl y = .ok ty) :
    tableStrict tbl (x ++ y) = .ok (tx ++ ty) := by
  induction x generalizing tx with
  | nil => simp only [tableStrict] at hx; cases hx; simpa using hy
  | cons b bs ih =>
    simp only [tableStrict, List.cons_append] at hx ⊢
    split at hx
    · cases hx
    · rename_i cp hcp
      split at hx
      · cases hx
      · rename_i hne
        simp only [hne, ↓reduceIte]
        split at hx
        · cases hx
        · rename_i t ht
          cases hx
          rw [ih t ht]
          rfl

/-- the text a table codec produces consists of table entries -/
theorem tableStrict_mem (tbl : List Nat) (x : Bytes) (t : Text) (h : tableStrict tbl x = .ok t) :
    ∀ c ∈ t, c ∈ tbl := by
  induction x generalizing t with
  | nil => simp only [tableStrict] at h; cases h; simp
  | cons b bs ih =>
    simp only [tableStrict] at h
    split at h
    · cases h
    · rename_i cp hcp
      split at h
      · cases h
      · split at h
        · cases h
        · rename_i t' ht'
          cases h
          intro c hc
          simp only [List.mem_cons] at hc
          rcases hc with rfl | hc
          · exact List.mem_of_getElem? hcp
          · exact ih t' ht' c hc

/-- the characters a table codec produces come one per byte -/
theorem tableStrict_length (tbl : List Nat) (x : Bytes) (t : Text) (h : tableStrict tbl x = .ok t) :
    t.length = x.length := by
  induction x generalizing t with
  | nil => simp only [tableStrict] at h; cases h; rfl
  | cons b bs ih =>
    simp only [tableStrict] at h
    split at h
    · cases h
    · split at h
      · cases h
      · split at h
        · cases h
        · rename_i t' ht'
          cases h
          simp [ih t' ht']

/-- T1 obligation: every supported single-byte name resolves to a table codec, and no such table
    maps a byte to U+FEFF -/
def singleByteAreTablesB : Bool :=
  Gen.supported.all (fun e => Gen.multiByte.contains e ||
    (match codecNow e with | some (.table tbl) => !tbl.contains 0xFEFF | _ => false))

theorem singleByteAreTables : singleByteAreTablesB = true := by decide +kernel

theorem codecNow_table {e : Name} (hs : e ∈ Gen.supported) (hmb : Gen.multiByte.contains e = false) :
    ∃ tbl, codecNow e = some (.table tbl) ∧ tbl.contains 0xFEFF = false := by
  have h := singleByteAreTables
  unfold singleByteAreTablesB at h
  have := List.all_eq_true.mp h e hs
  rw [hmb] at this
  simp only [Bool.false_or] at this
  cases hc : codecNow e with
  | none => simp [hc] at this
  | some c =>
    cases c with
    | table tbl => exact ⟨tbl, rfl, by simpa [hc] using this⟩
    | utf8 => simp [hc] at this
    | utf16 le => simp [hc] at this
    | external id => simp [hc] at this

end Charset
