import CharsetProof.Lemmas.SortWinner
namespace Charset
variable {α : Type}

/-- insertion into the reversed accumulator keeps it sorted, for a comparison induced by an integer key -/
theorem insertTailRev_pairwise (f : α → Int) (x : α) (acc : List α)
    (h : acc.Pairwise (fun a b => f b ≤ f a)) :
    (insertTailRev (fun a b => decide (f a < f b)) x acc).Pairwise (fun a b => f b ≤ f a) := by
  induction acc with
  | nil => simp [insertTailRev]
  | cons p ps ih =>
    simp only [insertTailRev]
    have hp := List.pairwise_cons.mp h
    split
    · rename_i hlt
      have hxp : f x < f p := by simpa using hlt
      refine List.pairwise_cons.mpr ⟨?_, ih hp.2⟩
      intro z hz
      rcases (mem_insertTailRev _ x z ps).mp hz with rfl | hz'
      · omega
      · exact hp.1 z hz'
    · rename_i hlt
      have hxp : ¬ f x < f p := by simpa using hlt
      refine List.pairwise_cons.mpr ⟨?_, h⟩
      intro z hz
      simp only [List.mem_cons] at hz
      rcases hz with rfl | hz
      · omega
      · have := hp.1 z hz; omega

theorem insertionSortAux_pairwise (f : α → Int) (l acc : List α)
    (h : acc.Pairwise (fun a b => f b ≤ f a)) :
    (insertionSortAux (fun a b => decide (f a < f b)) acc l).Pairwise (fun a b => f a ≤ f b) := by
  induction l generalizing acc with
  | nil => simp only [insertionSortAux]; exact List.pairwise_reverse.mpr h
  | cons x xs ih => simp only [insertionSortAux]; exact ih _ (insertTailRev_pairwise f x acc h)

/-- std's insertion sort sorts when `is_less` is induced by a key -/
theorem insertionSort_pairwise (f : α → Int) (l : List α) :
    (insertionSort (fun a b => decide (f a < f b)) l).Pairwise (fun a b => f a ≤ f b) :=
  insertionSortAux_pairwise f l [] List.Pairwise.nil

end Charset
