import CharsetProof.Lemmas.F32
namespace Charset
namespace Fl

theorem roundPos64_nat (n : Nat) (h1 : 1 ≤ n) (h2 : n < 2 ^ 64) :
    0 < roundPos fmt64 n 1 ∧ roundPos fmt64 n 1 < fmt64.infKey := by
  have hlo : 2 ^ Nat.log2 n ≤ n := Nat.log2_self_le (by omega)
  have hhi : n < 2 ^ (Nat.log2 n + 1) := Nat.lt_log2_self
  have hL : Nat.log2 n < 64 := (Nat.log2_lt (by omega)).2 h2
  unfold roundPos
  have hn : ¬ (n = 0 ∨ 1 = 0) := by omega
  simp -zeta only [hn, ↓reduceIte, floorLog2_one n h1]
  extract_lets E q n' d' m r m' key
  have hq : q = (n.log2 : Int) - 52 := by
    show max ((n.log2 : Int) - ((52 : Nat) : Int)) (-1074) = _
    omega
  have hA : (q - fmt64.qmin).toNat = n.log2 + 1022 := by
    show (q - (-1074)).toNat = _
    omega
  have hm : m < 2 ^ 53 := by
    show n' / d' < 2 ^ 53
    by_cases h52 : 52 ≤ n.log2
    · have hq0 : 0 ≤ q := by omega
      have hn' : n' = n := by show (if 0 ≤ q then n else _) = n; simp [hq0]
      have hd' : d' = 2 ^ (n.log2 - 52) := by
        show (if 0 ≤ q then 1 * 2 ^ q.toNat else 1) = _
        have : q.toNat = n.log2 - 52 := by omega
        simp [hq0, this]
      rw [hn', hd']
      apply (Nat.div_lt_iff_lt_mul (Nat.two_pow_pos _)).2
      have : 2 ^ 53 * 2 ^ (n.log2 - 52) = 2 ^ (n.log2 + 1) := by
        rw [← Nat.pow_add]; congr 1; omega
      omega
    · have hq0 : ¬ 0 ≤ q := by omega
      have hn' : n' = n * 2 ^ (52 - n.log2) := by
        show (if 0 ≤ q then n else n * 2 ^ (-q).toNat) = _
        have : (-q).toNat = 52 - n.log2 := by omega
        simp [hq0, this]
      have hd' : d' = 1 := by show (if 0 ≤ q then _ else 1) = 1; simp [hq0]
      rw [hn', hd', Nat.div_one]
      have : 2 ^ (n.log2 + 1) * 2 ^ (52 - n.log2) = 2 ^ 53 := by
        rw [← Nat.pow_add]; congr 1; omega
      have := Nat.mul_lt_mul_of_lt_of_le hhi (Nat.le_refl (2 ^ (52 - n.log2))) (Nat.two_pow_pos _)
      omega
  have hm' : m' ≤ m + 1 := by
    show (if _ then m + 1 else m) ≤ m + 1
    split
    · exact Nat.le_refl _
    · exact Nat.le_succ _
  have hkey : key = (n.log2 + 1022) * 2 ^ 52 + m' := by
    show (q - fmt64.qmin).toNat * 2 ^ 52 + m' = _
    rw [hA]
  show (0 < if 9218868437227405312 ≤ key then 9218868437227405312 else key) ∧
    (if 9218868437227405312 ≤ key then 9218868437227405312 else key) < 9218868437227405312
  have : (2:Nat) ^ 23 = 8388608 := by decide
  have : (2:Nat) ^ 24 = 16777216 := by decide
  split <;> omega

theorem ofNat64_pos (n : Nat) (h : 1 ≤ n) (h2 : n < 2 ^ 64) : 0 < (ofNat fmt64 n).key := by
  have := (roundPos64_nat n h h2).1
  simp only [ofNat]; omega

theorem ofNat64_lt_inf (n : Nat) (h2 : n < 2 ^ 64) : (ofNat fmt64 n).key < fmt64.infKey := by
  by_cases h : 1 ≤ n
  · have := (roundPos64_nat n h h2).2
    simp only [ofNat]; omega
  · have : n = 0 := by omega
    subst this
    simp [ofNat, roundPos, fmt64]

end Fl
end Charset
