/-
  Non-negativity of everything the coherence detector reports: `strsim::jaro` (f64), its narrowing
  to f32, the scores of `coherence_ratio`, the means of `merge_coherence_ratios` – never negative,
  never NaN, for every Unicode environment.  (The upper bound 1 needs a monotone-rounding theory and
  is not proved.)
-/
import CharsetProof.Lemmas.Coh
import CharsetProof.Lemmas.F64Nat
set_option linter.unusedSectionVars false
namespace Charset
open Fl

/-! ### jaro is never negative or NaN -/

theorem foldl_jaro_inv {β : Type} (step : List Bool × Array Bool × Nat → β → List Bool × Array Bool × Nat)
    (hstep : ∀ st x, (step st x).1.length = st.1.length + 1 ∧ (step st x).2.2 ≤ st.2.2 + 1)
    (xs : List β) (st : List Bool × Array Bool × Nat) (h : st.2.2 ≤ st.1.length) :
    (xs.foldl step st).2.2 ≤ (xs.foldl step st).1.length ∧ (xs.foldl step st).1.length = st.1.length + xs.length := by
  induction xs generalizing st with
  | nil => exact ⟨h, by simp⟩
  | cons x xs ih =>
    simp only [List.foldl]
    have hs := hstep st x
    have := ih (step st x) (by omega)
    refine ⟨this.1, ?_⟩
    rw [this.2, hs.1]; simp; omega

theorem jaroMatch_le (a : List Nat) (b : Array Nat) : (Coh.jaroMatch a b).2.2 ≤ a.length := by
  unfold Coh.jaroMatch
  simp only []
  have := foldl_jaro_inv (Coh.jaroStep b ((max a.length b.size) / 2 - 1))
    (by intro st x; unfold Coh.jaroStep; simp only []; split <;> simp)
    (a.zipIdx.map (fun p => (p.2, p.1))) ([], Array.replicate b.size false, 0) (by simp)
  simp only [List.length_nil, List.length_map, List.length_zipIdx, Nat.zero_add] at this
  omega

abbrev f64 (n : Nat) : F64 := Fl.ofNat fmt64 n

theorem ok_ratio64 (x : F64) (hx : Ok x) (c : Nat) (h1 : 1 ≤ c) (h2 : c < 2 ^ 64) : Ok (Fl.div x (f64 c)) :=
  ok_div hx (ofNat64_pos c h1 h2) (ofNat64_lt_inf c h2)

/-- `strsim::jaro` never returns a negative number or NaN -/
theorem jaro_ok (a b : List Nat) (ha : a.length < 2 ^ 64) (hb : b.length < 2 ^ 64) : Ok (Coh.jaro a b) := by
  unfold Coh.jaro
  split
  · exact ok_ofNat 1
  · rename_i h1
    split
    · exact ok_zero
    · rename_i h2
      have hane : 1 ≤ a.length := by
        cases a with
        | nil => simp at h2
        | cons x xs => simp
      have hbne : 1 ≤ b.length := by
        cases b with
        | nil => simp at h2
        | cons x xs => simp
      have hm := jaroMatch_le a b.toArray
      generalize Coh.jaroMatch a b.toArray = r at hm ⊢
      obtain ⟨aFlags, bFlags, m⟩ := r
      simp only at hm ⊢
      split
      · exact ok_zero
      · rename_i hm0
        have hm1 : 1 ≤ m := by omega
        have hm2 : m < 2 ^ 64 := by omega
        refine ok_ratio64 _ (ok_add (ok_add (ok_ratio64 _ (ok_ofNat m) _ hane ha)
          (ok_ratio64 _ (ok_ofNat m) _ hbne hb)) (ok_ratio64 _ (ok_ofNat _) _ hm1 hm2)) 3 (by decide) (by decide)

/-- narrowing a non-negative, non-NaN f64 gives a non-negative, non-NaN f32 -/
theorem toF32_ok (x : F64) (hx : Ok x) : Ok (F64.toF32 x) := by
  have hn := ok_not_nan hx
  unfold F64.toF32
  simp only [hn, Bool.false_eq_true, ↓reduceIte]
  split
  · have : ¬ x.key < 0 := by have := hx.1; omega
    simp only [this, ↓reduceIte, Ok]
    constructor <;> decide
  · have h1 := toDy_nonneg hx.1
    generalize x.toDy = y at h1 ⊢
    obtain ⟨m, e⟩ := y
    exact ok_ofSigned_nonneg _ _ h1

theorem popularityCompare_ok (tbl : Coh.LangTable) (htbl : ∀ row ∈ tbl, row.2.1.length < 2 ^ 64)
    (lang : Name) (ordered : List Nat) (ho : ordered.length < 2 ^ 64) (r : F32)
    (h : Coh.popularityCompare tbl lang ordered = some r) : Ok r := by
  unfold Coh.popularityCompare at h
  split at h
  · cases h
  · rename_i row hrow
    cases h
    exact toF32_ok _ (jaro_ok _ _ ho (htbl row (List.mem_of_find?_eq_some hrow)))

end Charset

namespace Charset
open Fl
variable {L : Type} [DecidableEq L]

/-! ### every score `coherence_ratio` reports is a score of some layer/language -/

theorem cohLayer_scores (thr : F32) (score : L → F32) :
    ∀ (ls : List L) (suff : Nat), ∀ p ∈ (cohLayer thr score ls suff).1, p.2 = score p.1 := by
  intro ls
  induction ls with
  | nil => intro suff p hp; simp [cohLayer] at hp
  | cons l ls ih =>
    intro suff p hp
    simp only [cohLayer] at hp
    split at hp
    · exact ih _ p hp
    · have key : ∀ s', p ∈ (if 3 ≤ s' then ([(l, score l)], s')
          else ((l, score l) :: (cohLayer thr score ls s').1, (cohLayer thr score ls s').2)).1 → p.2 = score p.1 := by
        intro s' h
        split at h
        · have := List.mem_singleton.mp h; subst this; rfl
        · rcases List.mem_cons.mp h with rfl | h
          · rfl
          · exact ih _ p h
      split at hp <;> exact key _ hp

theorem cohLayers_scores (thr : F32) (score : Nat → L → F32) (cands : Nat → List L) :
    ∀ (layers : List Nat) (suff : Nat), ∀ p ∈ cohLayers thr score cands layers suff, ∃ i ∈ layers, p.2 = score i p.1 := by
  intro layers
  induction layers with
  | nil => intro suff p hp; simp [cohLayers] at hp
  | cons i is ih =>
    intro suff p hp
    simp only [cohLayers, List.mem_append] at hp
    rcases hp with hp | hp
    · exact ⟨i, List.mem_cons_self, cohLayer_scores thr (score i) (cands i) suff p hp⟩
    · obtain ⟨j, hj, h⟩ := ih _ p hp
      exact ⟨j, List.mem_cons_of_mem _ hj, h⟩

/-- `filter_alt_coherence_matches` only keeps scores that were in its input -/
theorem filterAltStep_scores (index : List (L × F32)) (p : L × F32) (P : F32 → Prop)
    (hidx : ∀ q ∈ index, P q.2) (hp : P p.2) : ∀ q ∈ filterAltStep index p, P q.2 := by
  unfold filterAltStep
  split
  · intro q hq
    obtain ⟨q0, hq0, rfl⟩ := List.mem_map.mp hq
    split
    · simp only []
      split
      · exact hp
      · exact hidx q0 hq0
    · exact hidx q0 hq0
  · intro q hq
    rcases List.mem_append.mp hq with h | h
    · exact hidx q h
    · have := List.mem_singleton.mp h; subst this; exact hp

theorem filterAlt_scores (xs : List (L × F32)) (P : F32 → Prop) (h : ∀ p ∈ xs, P p.2) :
    ∀ q ∈ filterAlt xs, P q.2 := by
  unfold filterAlt
  have : ∀ (xs index : List (L × F32)), (∀ p ∈ xs, P p.2) → (∀ q ∈ index, P q.2) →
      ∀ q ∈ xs.foldl filterAltStep index, P q.2 := by
    intro xs
    induction xs with
    | nil => intro index _ hi; exact hi
    | cons x xs ih =>
      intro index hx hi
      simp only [List.foldl]
      exact ih _ (fun p hp => hx p (List.mem_cons_of_mem _ hp))
        (filterAltStep_scores index x P hi (hx x List.mem_cons_self))
  exact this xs [] h (by simp)

theorem coherenceRatioModel_scores (thr : F32) (n : Nat) (score : Nat → L → F32) (cands : Nat → List L)
    (P : F32 → Prop) (h : ∀ i l, i < n → P (score i l)) : ∀ q ∈ coherenceRatioModel thr n score cands, P q.2 := by
  unfold coherenceRatioModel
  intro q hq
  have hperm := sortDesc_perm (filterAlt (cohLayers thr score cands (List.range n) 0))
  rw [hperm.mem_iff] at hq
  refine filterAlt_scores _ P ?_ q hq
  intro p hp
  obtain ⟨i, hi, hs⟩ := cohLayers_scores thr score cands _ _ p hp
  rw [hs]
  exact h i p.1 (List.mem_range.mp hi)

end Charset

namespace Charset
open Fl

theorem mem_dedupNat (l : List Nat) (a : Nat) : a ∈ Coh.dedupNat l ↔ a ∈ l := by
  induction l with
  | nil => simp [Coh.dedupNat]
  | cons x xs ih =>
    simp only [Coh.dedupNat, List.mem_cons, List.mem_filter, ih, bne_iff_ne, ne_eq]
    constructor
    · rintro (h | ⟨h, _⟩)
      · exact Or.inl h
      · exact Or.inr h
    · rintro (h | h)
      · exact Or.inl h
      · by_cases e : a = x
        · exact Or.inl e
        · exact Or.inr ⟨h, e⟩

theorem nodup_dedupNat (l : List Nat) : (Coh.dedupNat l).Nodup := by
  induction l with
  | nil => simp [Coh.dedupNat]
  | cons x xs ih =>
    simp only [Coh.dedupNat]
    refine List.nodup_cons.mpr ⟨?_, ih.sublist (List.filter_sublist)⟩
    simp [List.mem_filter]

/-- the most-common-characters list has no repeats and only characters of the layer -/
theorem popular_spec (layer : Text) : (Coh.popular layer).Nodup ∧ ∀ c ∈ Coh.popular layer, c ∈ layer := by
  unfold Coh.popular
  simp only []
  have hperm := insertionSort_perm
    (fun (a b : Nat × Nat) => decide (b.2 < a.2) || (a.2 == b.2 && decide (a.1 < b.1)))
    ((Coh.dedupNat layer).map (fun c => (c, Coh.countOf c layer)))
  have hmap := hperm.map (·.1)
  have hid : ((Coh.dedupNat layer).map (fun c => (c, Coh.countOf c layer))).map (·.1) = Coh.dedupNat layer := by
    simp [List.map_map, Function.comp_def]
  rw [hid] at hmap
  exact ⟨hmap.nodup_iff.mpr (nodup_dedupNat layer), fun c hc => (mem_dedupNat layer c).mp (hmap.mem_iff.mp hc)⟩

/-- a duplicate-free list of numbers below `n` has at most `n` elements -/
theorem nodup_bounded_length (l : List Nat) (n : Nat) (hnd : l.Nodup) (hb : ∀ x ∈ l, x < n) : l.length ≤ n := by
  have := List.Nodup.length_le_of_subset hnd (l₂ := List.range n) (fun x hx => List.mem_range.mpr (hb x hx))
  simpa using this

/-! ### provenance of the layers: every character of a layer is a lowercase image of a character of the text -/

theorem appendLayer_mem (key : Name) (cs : List Nat) (layers : List (Name × Text)) (P : Nat → Prop)
    (hl : ∀ kt ∈ layers, ∀ x ∈ kt.2, P x) (hcs : ∀ x ∈ cs, P x) :
    ∀ kt ∈ Coh.appendLayer key cs layers, ∀ x ∈ kt.2, P x := by
  induction layers with
  | nil => intro kt h; simp [Coh.appendLayer] at h
  | cons a rest ih =>
    obtain ⟨k, t⟩ := a
    simp only [Coh.appendLayer]
    split
    · intro kt h x hx
      rcases List.mem_cons.mp h with rfl | h
      · rcases List.mem_append.mp hx with hx | hx
        · exact hl (k, t) List.mem_cons_self x hx
        · exact hcs x hx
      · exact hl kt (List.mem_cons_of_mem _ h) x hx
    · intro kt h x hx
      rcases List.mem_cons.mp h with rfl | h
      · exact hl (k, t) List.mem_cons_self x hx
      · exact ih (fun kt h => hl kt (List.mem_cons_of_mem _ h)) kt h x hx

theorem splitStep_mem (env : Coh.CohEnv) (ranges : List (Name × Nat × Nat)) (secondary : List Name)
    (layers : List (Name × Text)) (ch : Nat) (P : Nat → Prop)
    (hl : ∀ kt ∈ layers, ∀ x ∈ kt.2, P x) (hcs : ∀ x ∈ env.lower ch, P x) :
    ∀ kt ∈ Coh.splitStep env ranges secondary layers ch, ∀ x ∈ kt.2, P x := by
  unfold Coh.splitStep
  split
  · exact hl
  · split
    · exact hl
    · simp only []
      apply appendLayer_mem _ _ _ P _ hcs
      split
      · exact hl
      · intro kt h x hx
        rcases List.mem_append.mp h with h | h
        · exact hl kt h x hx
        · have := List.mem_singleton.mp h; subst this; simp at hx

theorem alphaSplit_mem (env : Coh.CohEnv) (ranges : List (Name × Nat × Nat)) (secondary : List Name) (t : Text)
    (P : Nat → Prop) (hP : ∀ c ∈ t, ∀ x ∈ env.lower c, P x) :
    ∀ layer ∈ Coh.alphaSplit env ranges secondary t, ∀ x ∈ layer, P x := by
  unfold Coh.alphaSplit
  have : ∀ (t : Text) (layers : List (Name × Text)), (∀ c ∈ t, ∀ x ∈ env.lower c, P x) →
      (∀ kt ∈ layers, ∀ x ∈ kt.2, P x) →
      ∀ kt ∈ t.foldl (Coh.splitStep env ranges secondary) layers, ∀ x ∈ kt.2, P x := by
    intro t
    induction t with
    | nil => intro layers _ h; exact h
    | cons c cs ih =>
      intro layers hc hl
      simp only [List.foldl]
      exact ih _ (fun c' h => hc c' (List.mem_cons_of_mem _ h))
        (splitStep_mem env ranges secondary layers c P hl (hc c List.mem_cons_self))
  intro layer hlayer x hx
  obtain ⟨kt, hkt, rfl⟩ := List.mem_map.mp hlayer
  exact this t [] hP (by simp) kt hkt x hx

/-- **every score `coherence_ratio` reports is non-negative and not NaN** – for every Unicode
    environment whose `to_lowercase` yields scalar values, every text, threshold and include list -/
theorem Coh.coherenceRatio_scores_ok (env : Coh.CohEnv) (ranges : List (Name × Nat × Nat))
    (secondary : List Name) (tbl : Coh.LangTable) (tooSmall : Nat) (t : Text) (thr : F32) (incl : List Name)
    (henv : ∀ c x, x ∈ env.lower c → x < 0x110000) (htbl : ∀ row ∈ tbl, row.2.1.length < 2 ^ 64)
    (r : List (Name × F32)) (h : Coh.coherenceRatio env ranges secondary tbl tooSmall t thr incl = some r) :
    ∀ q ∈ r, Ok q.2 := by
  have key : ∀ (n : Nat) (cands : Nat → List Name),
      ∀ q ∈ coherenceRatioModel thr n (fun i l => (Coh.popularityCompare tbl l
        ((((Coh.alphaSplit env ranges secondary t).filter (fun l => decide (tooSmall < l.length))).toArray.map
          Coh.popular)[i]?.getD [])).getD Fl.zero) cands, Ok q.2 := by
    intro n cands
    apply coherenceRatioModel_scores
    intro i l _
    -- the i-th list of popular characters is short
    have hpop : ((((Coh.alphaSplit env ranges secondary t).filter (fun l => decide (tooSmall < l.length))).toArray.map
        Coh.popular)[i]?.getD []).length < 2 ^ 64 := by
      cases hi : (((Coh.alphaSplit env ranges secondary t).filter (fun l => decide (tooSmall < l.length))).toArray.map
        Coh.popular)[i]? with
      | none => simp
      | some p =>
        simp only [Option.getD_some]
        have hmem : p ∈ (((Coh.alphaSplit env ranges secondary t).filter
            (fun l => decide (tooSmall < l.length))).toArray.map Coh.popular) := Array.mem_of_getElem? hi
        simp only [Array.mem_map, List.mem_toArray, List.mem_filter] at hmem
        obtain ⟨layer, ⟨hlayer, _⟩, rfl⟩ := hmem
        have hsp := popular_spec layer
        have hb : ∀ x ∈ Coh.popular layer, x < 0x110000 := fun x hx =>
          alphaSplit_mem env ranges secondary t (fun x => x < 0x110000) (fun c _ x hx => henv c x hx)
            layer hlayer x (hsp.2 x hx)
        have := nodup_bounded_length _ _ hsp.1 hb
        omega
    cases hpc : Coh.popularityCompare tbl l ((((Coh.alphaSplit env ranges secondary t).filter
        (fun l => decide (tooSmall < l.length))).toArray.map Coh.popular)[i]?.getD []) with
    | none => simp only [Option.getD_none]; exact ok_zero
    | some x => simp only [Option.getD_some]; exact popularityCompare_ok tbl htbl l _ hpop x hpc
  unfold Coh.coherenceRatio at h
  simp only [] at h
  repeat' split at h
  all_goals first
    | (have hr := Option.some.inj h; rw [← hr]; exact key _ _)
    | cases h

end Charset

namespace Charset
open Fl
variable {L : Type} [DecidableEq L]

/-! ### one entry per language after `filter_alt_coherence_matches` -/

theorem filterAltStep_keys (index : List (L × F32)) (p : L × F32) :
    (filterAltStep index p).map (·.1) =
      if index.any (fun q => q.1 = p.1) then index.map (·.1) else index.map (·.1) ++ [p.1] := by
  unfold filterAltStep
  split
  · simp only [List.map_map]
    apply List.map_congr_left
    intro q _
    simp only [Function.comp]
    split <;> rfl
  · simp

theorem filterAlt_nodup (xs : List (L × F32)) : ((filterAlt xs).map (·.1)).Nodup := by
  unfold filterAlt
  have : ∀ (xs index : List (L × F32)), (index.map (·.1)).Nodup → ((xs.foldl filterAltStep index).map (·.1)).Nodup := by
    intro xs
    induction xs with
    | nil => intro index h; exact h
    | cons x xs ih =>
      intro index h
      simp only [List.foldl]
      apply ih
      rw [filterAltStep_keys]
      split
      · exact h
      · rename_i hany
        rw [List.nodup_append]
        refine ⟨h, by simp, ?_⟩
        intro a ha b hb
        simp only [List.mem_singleton] at hb
        subst hb
        intro e
        subst e
        apply hany
        obtain ⟨q, hq, hq1⟩ := List.mem_map.mp ha
        simp only [List.any_eq_true, decide_eq_true_eq]
        exact ⟨q, hq, hq1⟩
  exact this xs [] (by simp)

theorem coherenceRatioModel_nodup (thr : F32) (n : Nat) (score : Nat → L → F32) (cands : Nat → List L) :
    ((coherenceRatioModel thr n score cands).map (·.1)).Nodup := by
  unfold coherenceRatioModel
  have hp := (sortDesc_perm (filterAlt (cohLayers thr score cands (List.range n) 0))).map (·.1)
  rw [hp.nodup_iff]
  exact filterAlt_nodup _

/-! ### group sizes in `merge_coherence_ratios`: at most one score per language and per-chunk list -/

theorem pushScore_sizes (p : L × F32) (idx : List (L × List F32)) (K : Nat) (seen : List L)
    (hp : p.1 ∉ seen)
    (h : ∀ g ∈ idx, g.2.length ≤ K + (if g.1 ∈ seen then 1 else 0) ∧ 1 ≤ g.2.length) :
    ∀ g ∈ pushScore p idx, g.2.length ≤ K + (if g.1 ∈ p.1 :: seen then 1 else 0) ∧ 1 ≤ g.2.length := by
  induction idx with
  | nil =>
    intro g hg
    simp only [pushScore, List.mem_singleton] at hg
    subst hg
    simp
  | cons q qs ih =>
    intro g hg
    simp only [pushScore] at hg
    split at hg
    · rename_i hq
      rcases List.mem_cons.mp hg with rfl | hg
      · have := h q List.mem_cons_self
        have hns : q.1 ∉ seen := by rw [hq]; exact hp
        simp only [hns, ↓reduceIte, Nat.add_zero] at this
        simp only [List.length_append, List.length_singleton, hq, List.mem_cons, true_or, ↓reduceIte]
        omega
      · have hgq := h g (List.mem_cons_of_mem _ hg)
        refine ⟨?_, hgq.2⟩
        by_cases hgs : g.1 ∈ seen
        · have hm : g.1 ∈ p.1 :: seen := List.mem_cons_of_mem _ hgs
          simp only [hm, ↓reduceIte]
          have h0 := hgq.1
          simp only [hgs, ↓reduceIte] at h0
          omega
        · have h0 := hgq.1
          simp only [hgs, ↓reduceIte] at h0
          split <;> omega
    · rcases List.mem_cons.mp hg with rfl | hg
      · have := h g List.mem_cons_self
        refine ⟨?_, this.2⟩
        by_cases hgs : g.1 ∈ seen
        · have hm : g.1 ∈ p.1 :: seen := List.mem_cons_of_mem _ hgs
          simp only [hm, ↓reduceIte]
          have h0 := this.1
          simp only [hgs, ↓reduceIte] at h0
          omega
        · have h0 := this.1
          simp only [hgs, ↓reduceIte] at h0
          split <;> omega
      · exact ih (fun g hg => h g (List.mem_cons_of_mem _ hg)) g hg

end Charset

namespace Charset
open Fl
variable {L : Type} [DecidableEq L]

theorem foldl_push_sizes (K : Nat) :
    ∀ (ps : List (L × F32)) (seen : List L) (idx : List (L × List F32)),
      (ps.map (·.1)).Nodup → (∀ p ∈ ps, p.1 ∉ seen) →
      (∀ g ∈ idx, g.2.length ≤ K + (if g.1 ∈ seen then 1 else 0) ∧ 1 ≤ g.2.length) →
      ∀ g ∈ ps.foldl (fun idx p => pushScore p idx) idx, g.2.length ≤ K + 1 ∧ 1 ≤ g.2.length := by
  intro ps
  induction ps with
  | nil =>
    intro seen idx _ _ h g hg
    have := h g hg
    refine ⟨?_, this.2⟩
    have h1 := this.1
    split at h1 <;> omega
  | cons p ps ih =>
    intro seen idx hnd hns h
    simp only [List.foldl]
    simp only [List.map_cons, List.nodup_cons] at hnd
    apply ih (p.1 :: seen) _ hnd.2
    · intro q hq hmem
      rcases List.mem_cons.mp hmem with e | hmem
      · exact hnd.1 (e ▸ List.mem_map_of_mem hq)
      · exact hns q (List.mem_cons_of_mem _ hq) hmem
    · exact pushScore_sizes p idx K seen (hns p List.mem_cons_self) h

theorem foldl_push_scores (P : F32 → Prop) :
    ∀ (ps : List (L × F32)) (idx : List (L × List F32)), (∀ p ∈ ps, P p.2) → (∀ g ∈ idx, ∀ s ∈ g.2, P s) →
      ∀ g ∈ ps.foldl (fun idx p => pushScore p idx) idx, ∀ s ∈ g.2, P s := by
  intro ps
  induction ps with
  | nil => intro idx _ h; exact h
  | cons p ps ih =>
    intro idx hp h
    simp only [List.foldl]
    apply ih _ (fun q hq => hp q (List.mem_cons_of_mem _ hq))
    -- one push
    have hpp := hp p List.mem_cons_self
    clear ih hp
    induction idx with
    | nil =>
      intro g hg s hs
      simp only [pushScore, List.mem_singleton] at hg
      subst hg
      simp only [List.mem_singleton] at hs
      subst hs; exact hpp
    | cons q qs ihq =>
      intro g hg s hs
      simp only [pushScore] at hg
      split at hg
      · rcases List.mem_cons.mp hg with rfl | hg
        · rcases List.mem_append.mp hs with hs | hs
          · exact h q List.mem_cons_self s hs
          · simp only [List.mem_singleton] at hs; subst hs; exact hpp
        · exact h g (List.mem_cons_of_mem _ hg) s hs
      · rcases List.mem_cons.mp hg with rfl | hg
        · exact h g List.mem_cons_self s hs
        · exact ihq (fun g hg => h g (List.mem_cons_of_mem _ hg)) g hg s hs

/-- every group of `merge_coherence_ratios` holds between one score and one score per input list, and
    only scores of the input lists -/
theorem mergeGroups_spec (rs : List (List (L × F32))) (P : F32 → Prop)
    (hnd : ∀ r ∈ rs, (r.map (·.1)).Nodup) (hP : ∀ r ∈ rs, ∀ p ∈ r, P p.2) :
    ∀ g ∈ mergeGroups rs, (1 ≤ g.2.length ∧ g.2.length ≤ rs.length) ∧ ∀ s ∈ g.2, P s := by
  unfold mergeGroups
  rw [List.foldl_flatten]
  have : ∀ (rs : List (List (L × F32))) (idx : List (L × List F32)) (K : Nat),
      (∀ r ∈ rs, (r.map (·.1)).Nodup) → (∀ r ∈ rs, ∀ p ∈ r, P p.2) →
      (∀ g ∈ idx, (1 ≤ g.2.length ∧ g.2.length ≤ K) ∧ ∀ s ∈ g.2, P s) →
      ∀ g ∈ rs.foldl (fun b l => l.foldl (fun idx p => pushScore p idx) b) idx,
        (1 ≤ g.2.length ∧ g.2.length ≤ K + rs.length) ∧ ∀ s ∈ g.2, P s := by
    intro rs
    induction rs with
    | nil => intro idx K _ _ h g hg; simpa using h g hg
    | cons r rs ih =>
      intro idx K hnd hP h
      simp only [List.foldl, List.length_cons]
      have step : ∀ g ∈ r.foldl (fun idx p => pushScore p idx) idx,
          (1 ≤ g.2.length ∧ g.2.length ≤ K + 1) ∧ ∀ s ∈ g.2, P s := by
        intro g hg
        have h1 := foldl_push_sizes K r [] idx (hnd r List.mem_cons_self) (by simp)
          (fun g hg => by have := (h g hg).1; simp; omega) g hg
        have h2 := foldl_push_scores P r idx (hP r List.mem_cons_self) (fun g hg => (h g hg).2) g hg
        exact ⟨⟨h1.2, h1.1⟩, h2⟩
      have := ih _ (K + 1) (fun r hr => hnd r (List.mem_cons_of_mem _ hr))
        (fun r hr => hP r (List.mem_cons_of_mem _ hr)) step
      intro g hg
      have := this g hg
      refine ⟨⟨this.1.1, by omega⟩, this.2⟩
  intro g hg
  have := this rs [] 0 hnd hP (by simp) g hg
  simpa using this

theorem meanScore_ok (scores : List F32) (h : ∀ s ∈ scores, Ok s) (h1 : 1 ≤ scores.length)
    (h2 : scores.length < 2 ^ 64) : Ok (meanScore scores) := by
  unfold meanScore
  have hsum : ∀ (l : List F32) (a : F32), Ok a → (∀ s ∈ l, Ok s) → Ok (l.foldl Fl.add a) := by
    intro l
    induction l with
    | nil => intro a ha _; exact ha
    | cons x xs ih => intro a ha hx; exact ih _ (ok_add ha (hx x List.mem_cons_self)) (fun s hs => hx s (List.mem_cons_of_mem _ hs))
  exact ok_div (hsum scores _ ok_zero h) (ofNat32_pos _ h1 h2) (ofNat32_lt_inf _ h2)

/-- **merged scores are non-negative and not NaN** when the per-chunk scores are -/
theorem mergeModel_scores_ok (rs : List (List (L × F32)))
    (hnd : ∀ r ∈ rs, (r.map (·.1)).Nodup) (hok : ∀ r ∈ rs, ∀ p ∈ r, Ok p.2) (hlen : rs.length < 2 ^ 64) :
    ∀ q ∈ mergeModel rs, Ok q.2 := by
  unfold mergeModel
  intro q hq
  rw [(sortDesc_perm _).mem_iff] at hq
  obtain ⟨g, hg, rfl⟩ := List.mem_map.mp hq
  have := mergeGroups_spec rs Ok hnd hok g hg
  exact meanScore_ok g.2 this.2 this.1.1 (by omega)

end Charset
