import CharsetProof.Lemmas.Master
import CharsetProof.Lemmas.Facts
set_option linter.unusedSectionVars false
namespace Charset
variable {E L : Type} [DecidableEq E]

/-- the similarity list matters only through the skip test -/
theorem probePrepare_soft_nil {W : World E L} {T : Tables E} {c : Ctx E} {soft : List E} {e : E} {p : Prepared}
    (h : probePrepare W T c soft e = .ok (.go p)) : probePrepare W T c [] e = .ok (.go p) := by
  unfold probePrepare at h ⊢
  split at h
  · cases h
  · rename_i hb
    rw [if_neg hb]
    cases hsl : sliceF 341 c.b (startIdxOf c e) (endIdxOf T c e) with
    | error s => simp [hsl] at h
    | ok sl =>
      simp only [hsl] at h ⊢
      cases hd : W.decode e sl with
      | error s => simp [hd] at h
      | ok r =>
        cases r with
        | none => simp [hd] at h
        | some t0 =>
          simp only [hd] at h ⊢
          simp only [List.find?_nil]
          split at h
          · cases h
          · exact h

/-- a verdict reached with some soft-failure list (which did not trigger the similarity skip) is the
    verdict of the probe run alone -/
theorem probe_alone_of_shape {W : World E L} {T : Tables E} {c : Ctx E} {soft : List E} {e : E} {v : Verdict E L}
    (h : ProbeShape W T c soft e v) (hv : (∃ m, v = .accepted m) ∨ (∃ fb, v = .softFail fb)) :
    probe W T c [] e = .ok v := by
  cases h with
  | needsBom => rcases hv with ⟨_, h⟩ | ⟨_, h⟩ <;> cases h
  | hardFail => rcases hv with ⟨_, h⟩ | ⟨_, h⟩ <;> cases h
  | similarSkip f => rcases hv with ⟨_, h⟩ | ⟨_, h⟩ <;> cases h
  | soft p acc fb hp hc hr hs hsoft =>
    unfold probe
    rw [probePrepare_soft_nil hp]
    simp only [hc, hr, hs, ↓reduceIte]
    exact hsoft
  | accepted p acc m hp hc hr hs ha =>
    unfold probe
    rw [probePrepare_soft_nil hp]
    simp only [hc, hr, hs, Bool.false_eq_true, ↓reduceIte]
    exact ha

theorem nodup_rotateFront {pe : E} {l : List E} (h : l.Nodup) : (rotateFront pe l).Nodup := by
  unfold rotateFront
  split
  · rename_i hc
    have hmem : pe ∈ l := by simpa using hc
    refine List.nodup_cons.mpr ⟨?_, h.erase pe⟩
    intro hm
    exact (List.Nodup.mem_erase_iff h).mp hm |>.1 rfl
  · exact h

theorem nodup_probeOrder {supported prio : List E} (h : supported.Nodup) : (probeOrder supported prio).Nodup := by
  unfold probeOrder
  induction prio with
  | nil => simpa using h
  | cons p ps ih => simp only [List.foldr_cons]; exact nodup_rotateFront ih

/-- the loop when exactly one encoding `e` passes the filters: everything else is skipped -/
theorem detectLoop_only {W : World E L} {T : Tables E} {sort : Sorter E L} {c : Ctx E} {incl excl : List E}
    (e : E) (honly : ∀ x, x ≠ e → allowed incl excl x = false) :
    ∀ (es : List E) (st : LoopState E L), e ∉ es → detectLoop W T sort c incl excl es st = .ok (.done st) := by
  intro es
  induction es with
  | nil => intro st _; simp [detectLoop]
  | cons x xs ih =>
    intro st hne
    have hx : x ≠ e := fun h => hne (by simp [h])
    rw [detectLoop]
    simp only [honly x hx, Bool.not_false, ↓reduceIte]
    exact ih st (fun h => hne (by simp [h]))

/-- outcome of the loop restricted to `e`, started from the empty state -/
theorem detectLoop_restricted {W : World E L} {T : Tables E} {sort : Sorter E L}
    (hperm : ∀ l, (sort l).Perm l) {c : Ctx E} {incl excl : List E}
    (e : E) (hal : allowed incl excl e = true) (honly : ∀ x, x ≠ e → allowed incl excl x = false)
    {v : Verdict E L} (hprobe : probe W T c [] e = .ok v) :
    ∀ (es : List E) (st : LoopState E L), es.Nodup → e ∈ es → st.soft = [] → st.results = [] →
      (∀ m, v = .accepted m → m.enc = e →
        detectLoop W T sort c incl excl es st =
          .ok (if exitCond c e m.chaos then .exit m else .done { st with results := [m] })) ∧
      (∀ fb, v = .softFail fb →
        detectLoop W T sort c incl excl es st = .ok (.done (softUpdate T c st e fb))) := by
  intro es
  induction es with
  | nil => intro st _ hmem; simp at hmem
  | cons x xs ih =>
    intro st hnd hmem hsoft hres
    have hnd' := (List.nodup_cons.mp hnd)
    by_cases hx : x = e
    · subst hx
      constructor
      · intro m hv hme
        rw [detectLoop]
        simp only [hal, Bool.not_true, Bool.false_eq_true, ↓reduceIte, hsoft, hprobe, hv]
        rw [hres, append_nil hperm]
        split
        · have : findByCand [m] x = some m := by
            simp [findByCand, Match.cands, hme]
          simp [this]
        · exact detectLoop_only x honly xs _ hnd'.1
      · intro fb hv
        rw [detectLoop]
        simp only [hal, Bool.not_true, Bool.false_eq_true, ↓reduceIte, hsoft, hprobe, hv]
        exact detectLoop_only x honly xs _ hnd'.1
    · have hmem' : e ∈ xs := by
        simp only [List.mem_cons] at hmem
        rcases hmem with h | h
        · exact absurd h.symm hx
        · exact h
      have := ih st hnd'.2 hmem' hsoft hres
      constructor
      · intro m hv hme
        rw [detectLoop]
        simp only [honly x hx, Bool.not_false, ↓reduceIte]
        exact this.1 m hv hme
      · intro fb hv
        rw [detectLoop]
        simp only [honly x hx, Bool.not_false, ↓reduceIte]
        exact this.2 fb hv

end Charset
