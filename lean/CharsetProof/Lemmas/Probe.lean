import CharsetProof.Model.Detect
set_option linter.unusedSectionVars false
namespace Charset
variable {E L : Type} [DecidableEq E]

theorem mkMatch_spec {W : World E L} {b : Bytes} {e : E} {chaos : F32} {bom : Bool}
    {cohs : List (L × F32)} {payload : Option Text} {m : Match E L}
    (h : mkMatch W b e chaos bom cohs payload = .ok m) :
    m.raw = b ∧ m.enc = e ∧ m.chaos = chaos ∧ m.bom = bom ∧ m.cohs = cohs ∧ m.subs = [] ∧
    (∀ t, payload = some t → m.text = some t) ∧
    (payload = none → ∃ r, W.decodeChunk e b = .ok r ∧ m.text = r.map stripFeff) := by
  unfold mkMatch at h
  split at h
  · cases h; simp
  · split at h
    · cases h
    · cases h; simp_all

/-- stage 1 facts -/
theorem probePrepare_go {W : World E L} {T : Tables E} {c : Ctx E} {soft : List E} {e : E} {p : Prepared}
    (h : probePrepare W T c soft e = .ok (.go p)) :
    p.bomHere = bomHereOf c e ∧ p.startIdx = startIdxOf c e ∧ p.lazy = lazyOf T c e ∧
    needsBomCond T c e = false ∧
    soft.find? (fun f => T.similar e f) = none ∧
    ∃ sl t0, sliceF 341 c.b (startIdxOf c e) (endIdxOf T c e) = .ok sl ∧
      W.decode e sl = .ok (some t0) ∧ p.payload = payloadOf T c e t0 := by
  unfold probePrepare at h
  split at h
  · cases h
  · rename_i hb
    split at h
    · cases h
    · rename_i sl hsl
      split at h
      · cases h
      · cases h
      · rename_i t0 ht0
        split at h
        · cases h
        · rename_i hfind
          cases h
          exact ⟨rfl, rfl, rfl, by simpa using hb, hfind, sl, t0, hsl, ht0, rfl⟩

theorem probeSoft_spec {W : World E L} {c : Ctx E} {e : E} {p : Prepared} {acc : ChunkAcc} {v : Verdict E L}
    (h : probeSoft W c e p acc = .ok v) :
    (v = .softFail none) ∨
    (∃ fb, v = .softFail (some fb) ∧ fallbackCond c e acc = true ∧
      mkMatch W c.b e c.thr false [] p.payload = .ok fb) := by
  unfold probeSoft at h
  split at h
  · rename_i hc
    split at h
    · cases h
    · rename_i fb hfb
      cases h
      exact Or.inr ⟨fb, rfl, hc, hfb⟩
  · cases h; left; rfl

theorem probeAccept_spec {W : World E L} {T : Tables E} {c : Ctx E} {e : E} {p : Prepared} {acc : ChunkAcc}
    {v : Verdict E L} (h : probeAccept W T c e p acc = .ok v) :
    ∃ m cdl merged, v = .accepted m ∧ cdsOf W T c e acc = .ok cdl ∧ W.merge cdl = .ok merged ∧
      mkMatch W c.b e (meanRatio acc.ratios) p.bomHere merged p.payload = .ok m := by
  unfold probeAccept at h
  split at h
  · cases h
  · rename_i cdl hcdl
    split at h
    · cases h
    · rename_i merged hmerged
      split at h
      · cases h
      · rename_i m hm
        cases h
        exact ⟨m, cdl, merged, rfl, hcdl, hmerged, hm⟩

/-- the shape of every successful probe -/
inductive ProbeShape (W : World E L) (T : Tables E) (c : Ctx E) (soft : List E) (e : E) : Verdict E L → Prop
  | needsBom : ProbeShape W T c soft e .needsBom
  | hardFail : ProbeShape W T c soft e .hardFail
  | similarSkip (f) : ProbeShape W T c soft e (.similarSkip f)
  | soft (p acc fb) :
      probePrepare W T c soft e = .ok (.go p) → probeChunks W T c e p = .ok acc →
      probeRemainder W T c e p acc = .ok false → softFailCond c acc = true →
      probeSoft W c e p acc = .ok (.softFail fb) → ProbeShape W T c soft e (.softFail fb)
  | accepted (p acc m) :
      probePrepare W T c soft e = .ok (.go p) → probeChunks W T c e p = .ok acc →
      probeRemainder W T c e p acc = .ok false → softFailCond c acc = false →
      probeAccept W T c e p acc = .ok (.accepted m) → ProbeShape W T c soft e (.accepted m)

theorem probe_shape {W : World E L} {T : Tables E} {c : Ctx E} {soft : List E} {e : E} {v : Verdict E L}
    (h : probe W T c soft e = .ok v) : ProbeShape W T c soft e v := by
  unfold probe at h
  split at h
  · cases h
  · cases h; exact .needsBom
  · cases h; exact .hardFail
  · cases h; exact .similarSkip _
  · rename_i p hp
    split at h
    · cases h
    · rename_i acc hacc
      split at h
      · cases h
      · cases h; exact .hardFail
      · rename_i hrem
        split at h
        · rename_i hsf
          have := probeSoft_spec h
          rcases this with hv | ⟨fb, hv, _⟩
          · subst hv; exact .soft p acc none hp hacc hrem hsf h
          · subst hv; exact .soft p acc (some fb) hp hacc hrem hsf h
        · rename_i hsf
          obtain ⟨m, _, _, hv, _⟩ := probeAccept_spec h
          subst hv
          exact .accepted p acc m hp hacc hrem (by simpa using hsf) h

end Charset
