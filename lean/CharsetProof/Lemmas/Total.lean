import CharsetProof.Lemmas.Facts
import CharsetProof.Lemmas.Container
import CharsetProof.Lemmas.Master
set_option linter.unusedSectionVars false
namespace Charset
variable {E L : Type} [DecidableEq E]

/-- a world whose functions always answer (no missing oracle entry, no fault of their own) -/
structure World.Total (W : World E L) : Prop where
  decode : ∀ e x, ∃ r, W.decode e x = .ok r
  decodeChunk : ∀ e x, ∃ r, W.decodeChunk e x = .ok r
  mess : ∀ t thr, ∃ r, W.mess t thr = .ok r
  coh : ∀ t thr ls, ∃ r, W.coh t thr ls = .ok r
  merge : ∀ xs, ∃ r, W.merge xs = .ok r
  target : ∀ e, ∃ r, W.target e = .ok r

/-- sanity of the constants the slicing arithmetic relies on -/
structure Tables.Sane (T : Tables E) : Prop where
  maxLeBig : T.maxProcessed ≤ T.tooBig
  marksMb : ∀ em ∈ T.marks, T.isMultiByte em.1 = true

theorem isPrefixOf_length_le {a b : List Nat} (h : a.isPrefixOf b = true) : a.length ≤ b.length := by
  induction a generalizing b with
  | nil => simp
  | cons x xs ih =>
    cases b with
    | nil => simp at h
    | cons y ys =>
      simp only [List.isPrefixOf_cons₂, Bool.and_eq_true] at h
      have := ih h.2
      simp; omega

theorem sigOf_prefix {marks : List (E × Bytes)} {b : Bytes} {e : E} {mk : Bytes}
    (h : sigOf marks b = some (e, mk)) : (e, mk) ∈ marks ∧ mk.length ≤ b.length := by
  unfold sigOf at h
  have h1 := List.mem_of_find?_eq_some h
  have h2 := List.find?_some h
  exact ⟨h1, isPrefixOf_length_le (by simpa [startsWith] using h2)⟩

/-- the loop context built by `from_bytes` -/
structure CtxOk (T : Tables E) (c : Ctx E) : Prop where
  steps : 1 ≤ c.steps
  sig : ∀ e mk, c.sig = some (e, mk) → T.isMultiByte e = true ∧ mk.length ≤ c.b.length
  large : c.tooLarge = true → T.maxProcessed ≤ c.b.length

theorem normWindow_steps_pos {len steps chunk : Nat} (h : 1 ≤ steps) : 1 ≤ (normWindow len steps chunk).1 := by
  unfold normWindow
  by_cases h1 : len ≤ chunk * steps
  · simp [h1]
  · simp only [h1, ↓reduceIte]
    split <;> simp <;> omega

theorem ctxOf_ok {T : Tables E} (hT : T.Sane) (b : Bytes) (s : Settings) (hs : 1 ≤ s.steps) : CtxOk T (ctxOf T b s) := by
  refine ⟨normWindow_steps_pos hs, ?_, ?_⟩
  · intro e mk h
    have := sigOf_prefix (show sigOf T.marks b = some (e, mk) from h)
    exact ⟨hT.marksMb _ this.1, this.2⟩
  · intro h
    simp only [ctxOf, decide_eq_true_eq] at h
    have := hT.maxLeBig
    show T.maxProcessed ≤ b.length
    omega

theorem sliceF_total {site : Nat} {b : List Nat} {i j : Nat} (h1 : i ≤ j) (h2 : j ≤ b.length) :
    ∃ sl, sliceF site b i j = .ok sl := by
  unfold sliceF; rw [if_pos ⟨h1, h2⟩]; exact ⟨_, rfl⟩

theorem lazy_facts {T : Tables E} {c : Ctx E} (hc : CtxOk T c) {e : E} (hl : lazyOf T c e = true) :
    startIdxOf c e = 0 ∧ T.maxProcessed ≤ c.b.length := by
  unfold lazyOf at hl
  simp only [Bool.and_eq_true, Bool.not_eq_eq_eq_not, Bool.not_true] at hl
  refine ⟨?_, hc.large hl.1⟩
  unfold startIdxOf
  cases hb : bomHereOf c e with
  | false => simp
  | true =>
    exfalso
    unfold bomHereOf at hb
    cases hs : c.sig with
    | none => simp [hs] at hb
    | some p =>
      obtain ⟨e', mk⟩ := p
      simp only [hs, Option.map_some, beq_iff_eq, Option.some.injEq] at hb
      subst hb
      have := (hc.sig e' mk hs).1
      rw [hl.2] at this; cases this

theorem startIdx_le {T : Tables E} {c : Ctx E} (hc : CtxOk T c) (e : E) : startIdxOf c e ≤ c.b.length := by
  unfold startIdxOf
  split
  · cases hs : c.sig with
    | none => simp
    | some p => obtain ⟨e', mk⟩ := p; exact (hc.sig e' mk hs).2
  · simp

theorem probePrepare_total {W : World E L} {T : Tables E} {c : Ctx E} (hW : W.Total) (hc : CtxOk T c)
    (soft : List E) (e : E) : ∃ r, probePrepare W T c soft e = .ok r := by
  unfold probePrepare
  split
  · exact ⟨_, rfl⟩
  · have hsl : ∃ sl, sliceF 341 c.b (startIdxOf c e) (endIdxOf T c e) = .ok sl := by
      unfold endIdxOf
      cases hl : lazyOf T c e with
      | true =>
        obtain ⟨h0, hm⟩ := lazy_facts hc hl
        simp only [↓reduceIte]
        exact sliceF_total (by omega) hm
      | false =>
        simp only [Bool.false_eq_true, ↓reduceIte]
        exact sliceF_total (startIdx_le hc e) (Nat.le_refl _)
    obtain ⟨sl, hsl⟩ := hsl
    simp only [hsl]
    obtain ⟨r, hr⟩ := hW.decode e sl
    simp only [hr]
    cases r with
    | none => exact ⟨_, rfl⟩
    | some t0 =>
      simp only
      split <;> exact ⟨_, rfl⟩

theorem offsets_lt {start stop step : Nat} (hstep : 1 ≤ step) : ∀ o ∈ offsets start stop step, o < stop := by
  intro o ho
  unfold offsets at ho
  simp only [List.mem_map, List.mem_range] at ho
  obtain ⟨i, hi, rfl⟩ := ho
  -- i < ceil((stop-start)/step)  ⇒  start + i*step < stop
  have h1 : i * step < stop - start + step - 1 + 1 - step + 0 ∨ True := Or.inr trivial
  have hdiv : i * step ≤ stop - start + step - 1 - step + 0 ∨ stop - start = 0 ∨ True := Or.inr (Or.inr trivial)
  by_cases hss : stop ≤ start
  · have : (stop - start + step - 1) / step = 0 := by
      have : stop - start + step - 1 < step := by omega
      exact Nat.div_eq_of_lt this
    rw [this] at hi; omega
  · have hlt : i * step < stop - start := by
      have h2 : i + 1 ≤ (stop - start + step - 1) / step := hi
      have h3 : (i + 1) * step ≤ stop - start + step - 1 := by
        have := Nat.mul_le_mul_right step h2
        exact Nat.le_trans this (Nat.div_mul_le_self _ _)
      have h4 : (i + 1) * step = i * step + step := by rw [Nat.add_mul]; simp
      omega
    omega

theorem chunkLoop_total {W : World E L} {T : Tables E} {c : Ctx E} (hW : W.Total) {e : E}
    {payload : Option Text} {seqLen maxGaveUp : Nat}
    (hlazy : payload = none → seqLen = c.b.length) :
    ∀ (offs : List Nat) (acc : ChunkAcc), (∀ o ∈ offs, o < seqLen) →
      ∃ r, chunkLoop W T c e payload seqLen maxGaveUp offs acc = .ok r := by
  intro offs
  induction offs with
  | nil => intro acc _; exact ⟨_, rfl⟩
  | cons off offs ih =>
    intro acc hoffs
    simp only [chunkLoop]
    have hchunk : ∃ r, chunkAt W T c e payload seqLen off = .ok r := by
      unfold chunkAt
      cases payload with
      | some t => exact ⟨_, rfl⟩
      | none =>
        simp only
        have hlt := hoffs off (by simp)
        have hseq := hlazy rfl
        obtain ⟨sl, hsl⟩ := sliceF_total (site := 412) (b := c.b) (i := off) (j := min (off + c.chunk) seqLen)
          (by omega) (by omega)
        simp only [hsl]
        obtain ⟨r, hr⟩ := hW.decode e sl
        simp only [hr]
        cases r <;> exact ⟨_, rfl⟩
    obtain ⟨r, hr⟩ := hchunk
    rw [hr]
    cases r with
    | none => exact ⟨_, rfl⟩
    | some t =>
      simp only
      obtain ⟨m, hm⟩ := hW.mess t c.thr
      rw [hm]
      simp only
      split
      · exact ⟨_, rfl⟩
      · exact ih _ (fun o ho => hoffs o (by simp [ho]))

theorem probeChunks_total {W : World E L} {T : Tables E} {c : Ctx E} (hW : W.Total) (hc : CtxOk T c) (e : E)
    (p : Prepared) : ∃ r, probeChunks W T c e p = .ok r := by
  unfold probeChunks divF
  have hne : c.steps ≠ 0 := by have := hc.steps; omega
  simp only [hne, ↓reduceIte]
  apply chunkLoop_total hW
  · intro hp; simp [seqLenOf, hp]
  · exact offsets_lt (by omega)

theorem probeRemainder_total {W : World E L} {T : Tables E} {c : Ctx E} (hW : W.Total) (hc : CtxOk T c) (e : E)
    (p : Prepared) (hp : p.lazy = lazyOf T c e) (acc : ChunkAcc) : ∃ r, probeRemainder W T c e p acc = .ok r := by
  unfold probeRemainder
  split
  · rename_i hcond
    have hl : lazyOf T c e = true := by
      simp only [Bool.and_eq_true] at hcond; rw [← hp]; exact hcond.2
    obtain ⟨sl, hsl⟩ := sliceF_total (site := 451) (b := c.b) (i := T.maxProcessed) (j := c.b.length)
      (lazy_facts hc hl).2 (Nat.le_refl _)
    simp only [hsl]
    obtain ⟨r, hr⟩ := hW.decode e sl
    simp only [hr]
    cases r <;> exact ⟨_, rfl⟩
  · exact ⟨_, rfl⟩

theorem mkMatch_total {W : World E L} (hW : W.Total) (b : Bytes) (e : E) (chaos : F32) (bom : Bool)
    (cohs : List (L × F32)) (payload : Option Text) : ∃ m, mkMatch W b e chaos bom cohs payload = .ok m := by
  unfold mkMatch
  cases payload with
  | some t => exact ⟨_, rfl⟩
  | none =>
    simp only
    obtain ⟨r, hr⟩ := hW.decodeChunk e b
    rw [hr]; exact ⟨_, rfl⟩

theorem cohAll_total {W : World E L} (hW : W.Total) (thr : F32) (langs : List L) (ts : List Text) :
    ∃ r, cohAll W thr langs ts = .ok r := by
  induction ts with
  | nil => exact ⟨_, rfl⟩
  | cons t ts ih =>
    simp only [cohAll]
    obtain ⟨r, hr⟩ := hW.coh t thr langs
    rw [hr]
    obtain ⟨rs, hrs⟩ := ih
    rw [hrs]
    exact ⟨_, rfl⟩

theorem probe_total {W : World E L} {T : Tables E} {c : Ctx E} (hW : W.Total) (hc : CtxOk T c)
    (soft : List E) (e : E) : ∃ v, probe W T c soft e = .ok v := by
  unfold probe
  obtain ⟨st1, h1⟩ := probePrepare_total hW hc soft e
  simp only [h1]
  cases st1 with
  | needsBom => exact ⟨_, rfl⟩
  | hardFail => exact ⟨_, rfl⟩
  | similarSkip f => exact ⟨_, rfl⟩
  | go p =>
    simp only
    obtain ⟨acc, h2⟩ := probeChunks_total hW hc e p
    simp only [h2]
    obtain ⟨_, _, hpl, _⟩ := probePrepare_go h1
    obtain ⟨rem, h3⟩ := probeRemainder_total hW hc e p hpl acc
    simp only [h3]
    cases rem with
    | true => exact ⟨_, rfl⟩
    | false =>
      simp only
      split
      · unfold probeSoft
        split
        · obtain ⟨m, hm⟩ := mkMatch_total hW c.b e c.thr false [] p.payload
          simp only [hm]; exact ⟨_, rfl⟩
        · exact ⟨_, rfl⟩
      · unfold probeAccept
        have hcds : ∃ r, cdsOf W T c e acc = .ok r := by
          unfold cdsOf
          split
          · exact ⟨_, rfl⟩
          · obtain ⟨ls, hls⟩ := hW.target e
            simp only [hls]
            exact cohAll_total hW _ _ _
        obtain ⟨cdl, hcdl⟩ := hcds
        simp only [hcdl]
        obtain ⟨mg, hmg⟩ := hW.merge cdl
        simp only [hmg]
        obtain ⟨m, hm⟩ := mkMatch_total hW c.b e (meanRatio acc.ratios) p.bomHere mg p.payload
        simp only [hm]; exact ⟨_, rfl⟩

/-- after `append`, the appended encoding can be looked up (lib.rs:554-559 never takes its error path) -/
theorem findByCand_append {sort : Sorter E L} (hperm : ∀ l, (sort l).Perm l) (tooBig : Nat)
    (items : List (Match E L)) (m : Match E L) :
    ∃ x, findByCand (append sort tooBig items m) m.enc = some x := by
  have hex : ∃ x ∈ append sort tooBig items m, x.cands.contains m.enc = true := by
    unfold append
    split
    · rename_i items' hm
      split at hm
      · obtain ⟨pre, m0, post, _, _, _, h4⟩ := mergeInto_some hm
        subst h4
        refine ⟨{ m0 with subs := m0.subs ++ [m.toSub] }, by simp, ?_⟩
        simp [Match.cands, Match.toSub]
      · cases hm
    · refine ⟨m, (hperm _).mem_iff.mpr (by simp), ?_⟩
      simp [Match.cands]
  obtain ⟨x, hx, hc⟩ := hex
  unfold findByCand
  cases hf : List.find? (fun x => x.cands.contains m.enc) (append sort tooBig items m) with
  | some y => exact ⟨y, rfl⟩
  | none =>
    have := List.find?_eq_none.mp hf x hx
    rw [hc] at this; exact absurd rfl this

theorem detectLoop_total {W : World E L} {T : Tables E} {sort : Sorter E L} (hperm : ∀ l, (sort l).Perm l)
    {c : Ctx E} (hW : W.Total) (hc : CtxOk T c) (incl excl : List E) :
    ∀ (es : List E) (st : LoopState E L), ∃ out, detectLoop W T sort c incl excl es st = .ok out := by
  intro es
  induction es with
  | nil => intro st; exact ⟨_, rfl⟩
  | cons e es ih =>
    intro st
    rw [detectLoop]
    split
    · exact ih st
    · obtain ⟨v, hv⟩ := probe_total hW hc st.soft e
      simp only [hv]
      cases v with
      | needsBom => exact ih st
      | hardFail => exact ih st
      | similarSkip f => exact ih st
      | softFail fb => exact ih _
      | accepted m =>
        simp only
        split
        · have hme : m.enc = e := (accepted_facts (probe_shape hv)).enc
          obtain ⟨x, hx⟩ := findByCand_append hperm T.tooBig st.results m
          rw [hme] at hx
          simp only [hx]; exact ⟨_, rfl⟩
        · exact ih _

/-- **Totality of the model of `from_bytes`**: for every total world, sane constants, permutation
    sort, every input and every settings with `steps ≥ 1`, the model terminates (all its loops are
    structural) with a value – the documented error or a list of matches – never a fault. -/
theorem fromBytes_total {W : World E L} {T : Tables E} {sort : Sorter E L} (hperm : ∀ l, (sort l).Perm l)
    (hW : W.Total) (hT : T.Sane) (b : Bytes) (s : Settings) (hs : 1 ≤ s.steps) :
    ∃ r, fromBytes W T sort b s = .ok r := by
  unfold fromBytes
  cases hi : canonList T.ianaName s.incl with
  | error n => exact ⟨_, rfl⟩
  | ok incl =>
    cases he : canonList T.ianaName s.excl with
    | error n => exact ⟨_, rfl⟩
    | ok excl =>
      simp only
      split
      · exact ⟨_, rfl⟩
      · obtain ⟨out, hout⟩ := detectLoop_total hperm hW (ctxOf_ok hT b s hs) incl excl
          (probeOrder T.supported (prioritized T b s.preemptive)) {}
        simp only [hout]
        cases out <;> exact ⟨_, rfl⟩

end Charset
