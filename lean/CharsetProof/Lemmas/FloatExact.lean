/-
  Exactness: every finite non-negative float is the rounding of its own value; hence `x + 0 = x` and
  `x / 1 = x` in the soft-float model.
-/
import CharsetProof.Lemmas.FloatMono
namespace Charset
namespace Fl

/-- the binary exponent is determined by its specification -/
theorem floorLog2_unique (n d : Nat) (hn : 0 < n) (hd : 0 < d) (E0 : Int)
    (h1 : ge2pow n d E0 = true) (h2 : ge2pow n d (E0 + 1) = false) : floorLog2 n d = E0 := by
  have s := floorLog2_spec n d hn hd
  rcases Int.lt_trichotomy (floorLog2 n d) E0 with hlt | heq | hgt
  · exfalso
    have := ge2pow_anti_E n d E0 (floorLog2 n d + 1) (by omega) h1
    rw [s.2] at this; cases this
  · exact heq
  · exfalso
    have := ge2pow_anti_E n d (floorLog2 n d) (E0 + 1) (by omega) s.1
    rw [h2] at this; cases this

theorem rnd_exact (M d : Nat) (hd : 0 < d) : rnd (M * d) d = M := by
  unfold rnd
  have h1 : M * d % d = 0 := Nat.mul_mod_left _ _
  have h2 : M * d / d = M := Nat.mul_div_cancel _ hd
  rw [h1, h2]
  have : ¬ (d < 2 * 0 ∨ 2 * 0 = d ∧ M % 2 = 1) := by omega
  simp only [this, ↓reduceIte]

/-- **every finite non-negative float is the rounding of its own value** (formats with `qmin ≤ 0`) -/
theorem roundPos_ival (f : Fmt) (hq0 : f.qmin ≤ 0) (k : Nat) (hk : k < f.infKey) :
    roundPos f (ival f k) (scale f) = k := by
  have hP : 0 < 2 ^ f.mbits := Nat.two_pow_pos _
  have hS := scale_pos f
  rcases Nat.eq_zero_or_pos k with h0 | hpos
  · subst h0; rw [ival_zero]; unfold roundPos; simp
  have hiv := ival_pos f k hpos
  rw [roundPos_eq f _ _ hiv hS]
  have hdm := Nat.div_add_mod k (2 ^ f.mbits)
  have hfr : k % 2 ^ f.mbits < 2 ^ f.mbits := Nat.mod_lt _ hP
  suffices hmain : ∃ A M, (qOf f (ival f k) (scale f) - f.qmin).toNat = A ∧
      sn (ival f k) (qOf f (ival f k) (scale f)) = M * sd (scale f) (qOf f (ival f k) (scale f)) ∧
      A * 2 ^ f.mbits + M = k by
    obtain ⟨A, M, hA, hM, hk'⟩ := hmain
    rw [hA, hM, rnd_exact _ _ (sd_pos _ _ hS), hk']
    unfold cap
    have : ¬ f.infKey ≤ k := by omega
    simp only [this, ↓reduceIte]
  -- the scale at which all comparisons below are made
  let K : Nat := (-f.qmin).toNat
  have hKq : ((K : Int) + f.qmin).toNat = 0 := by omega
  have hscaleK : scale f = 2 ^ K := rfl
  unfold ival at hiv ⊢
  simp only [] at hiv ⊢
  generalize he : k / 2 ^ f.mbits = e at *
  generalize hr : k % 2 ^ f.mbits = fr at *
  by_cases hz : e = 0
  · -- subnormal: the exponent is clamped to qmin
    subst hz
    simp only [↓reduceIte] at hiv ⊢
    have hq : qOf f fr (scale f) = f.qmin := by
      unfold qOf
      have hE : floorLog2 fr (scale f) < f.qmin + f.mbits := by
        rcases Int.lt_or_le (floorLog2 fr (scale f)) (f.qmin + f.mbits) with h | h
        · exact h
        · exfalso
          have s := floorLog2_spec fr (scale f) hiv hS
          have h1 := ge2pow_anti_E fr (scale f) _ (f.qmin + f.mbits) h s.1
          have hK : 0 ≤ (K : Int) + (f.qmin + f.mbits) := by omega
          have := (ge2pow_iff fr (scale f) (f.qmin + f.mbits) K hK).mp h1
          have e1 : ((K : Int) + (f.qmin + f.mbits)).toNat = f.mbits := by omega
          rw [e1, hscaleK] at this
          have e4 : fr * 2 ^ K < 2 ^ f.mbits * 2 ^ K := Nat.mul_lt_mul_of_pos_right hfr (Nat.two_pow_pos _)
          have e5 : 2 ^ K * 2 ^ f.mbits = 2 ^ f.mbits * 2 ^ K := Nat.mul_comm _ _
          omega
      omega
    rw [hq]
    refine ⟨0, fr, by omega, ?_, by omega⟩
    unfold sn sd
    by_cases h0 : 0 ≤ f.qmin
    · have hq00 : f.qmin = 0 := by omega
      simp only [h0, ↓reduceIte]
      have hs1 : scale f = 1 := by unfold scale; rw [hq00]; rfl
      rw [hq00, hs1]; simp
    · simp only [h0, ↓reduceIte]
      rfl
  · -- normal: M = 2^mbits + fr, exponent e - 1 + qmin
    have he1 : 1 ≤ e := by omega
    simp only [hz, ↓reduceIte] at hiv ⊢
    generalize hM : 2 ^ f.mbits + fr = M at *
    have hMlo : 2 ^ f.mbits ≤ M := by omega
    have hMhi : M < 2 ^ f.mbits * 2 := by omega
    have hE : floorLog2 (M * 2 ^ (e - 1)) (scale f) = (f.mbits : Int) + ((e - 1 : Nat) : Int) + f.qmin := by
      apply floorLog2_unique _ _ hiv hS
      · -- scale * 2^(K + mb + e-1 + qmin) ≤ M*2^(e-1) * 2^K
        apply (ge2pow_iff _ _ _ K (by omega)).mpr
        have e1 : ((K : Int) + ((f.mbits : Int) + ((e - 1 : Nat) : Int) + f.qmin)).toNat = f.mbits + (e - 1) := by omega
        rw [e1, hscaleK, Nat.pow_add]
        have : 2 ^ K * (2 ^ f.mbits * 2 ^ (e - 1)) = 2 ^ f.mbits * 2 ^ (e - 1) * 2 ^ K := by ac_rfl
        rw [this]
        exact Nat.mul_le_mul_right _ (Nat.mul_le_mul_right _ hMlo)
      · cases hg : ge2pow (M * 2 ^ (e - 1)) (scale f) ((f.mbits : Int) + ((e - 1 : Nat) : Int) + f.qmin + 1) with
        | false => rfl
        | true =>
          exfalso
          have := (ge2pow_iff _ _ _ K (by omega)).mp hg
          have e1 : ((K : Int) + ((f.mbits : Int) + ((e - 1 : Nat) : Int) + f.qmin + 1)).toNat = f.mbits + (e - 1) + 1 := by omega
          rw [e1, hscaleK, Nat.pow_succ, Nat.pow_add] at this
          have e2 : 2 ^ K * (2 ^ f.mbits * 2 ^ (e - 1) * 2) = 2 ^ f.mbits * 2 * 2 ^ (e - 1) * 2 ^ K := by ac_rfl
          rw [e2] at this
          have e3 : M * 2 ^ (e - 1) * 2 ^ K < 2 ^ f.mbits * 2 * 2 ^ (e - 1) * 2 ^ K :=
            Nat.mul_lt_mul_of_pos_right (Nat.mul_lt_mul_of_pos_right hMhi (Nat.two_pow_pos _)) (Nat.two_pow_pos _)
          omega
    have hq : qOf f (M * 2 ^ (e - 1)) (scale f) = ((e - 1 : Nat) : Int) + f.qmin := by
      unfold qOf; rw [hE]; omega
    rw [hq]
    refine ⟨e - 1, M, by omega, ?_, ?_⟩
    · unfold sn sd
      by_cases h0 : (0 : Int) ≤ ((e - 1 : Nat) : Int) + f.qmin
      · simp only [h0, ↓reduceIte]
        -- M * 2^(e-1) = M * (2^K * 2^(e-1+qmin))
        have : e - 1 = K + (((e - 1 : Nat) : Int) + f.qmin).toNat := by omega
        rw [hscaleK]
        conv => lhs; rw [this, Nat.pow_add]
      · simp only [h0, ↓reduceIte]
        have : K = (e - 1) + (-(((e - 1 : Nat) : Int) + f.qmin)).toNat := by omega
        rw [hscaleK]
        conv => rhs; rw [this, Nat.pow_add]
        ac_rfl
    · -- (e-1) * P + M = e*P + fr
      have : (e - 1) * 2 ^ f.mbits + 2 ^ f.mbits = e * 2 ^ f.mbits := by
        have : e = (e - 1) + 1 := by omega
        conv => rhs; rw [this, Nat.add_mul, Nat.one_mul]
      have hdm' : 2 ^ f.mbits * e + fr = k := hdm
      rw [Nat.mul_comm] at hdm'
      omega

end Fl
end Charset

namespace Charset
namespace Fl
variable {f : Fmt}

theorem ext_key {x y : Fl f} (h : x.key = y.key) : x = y := by
  cases x; cases y; simp only at h; subst h; rfl

/-- `0 + x = x` for finite non-negative `x` -/
theorem zero_add_nn (hq0 : f.qmin ≤ 0) {x : Fl f} (hx : NN x) : add (zero : Fl f) x = x := by
  have hz : NN (zero : Fl f) := ⟨by simp [zero], by
    have := hx.1; have := hx.2; simp only [zero]; omega⟩
  apply ext_key
  rw [add_key hq0 hz hx]
  have : (zero : Fl f).key.toNat = 0 := by simp [zero]
  rw [this, ival_zero, Nat.zero_add, roundPos_ival f hq0 _ (by have := hx.1; have := hx.2; omega)]
  have := hx.1
  omega

/-- `x / 1 = x` for finite non-negative `x` -/
theorem div_one_nn (g : Good f) {x : Fl f} (hx : NN x) : div x (ofNat f 1) = x := by
  have hq0 : f.qmin ≤ 0 := by have := g.qmin_le; omega
  have h1 : (1 : Nat) < 2 ^ (f.mbits + 1) := Nat.one_lt_two_pow (by omega)
  have hbk : (ofNat f 1).key = (roundPos f 1 1 : Int) := rfl
  have hpos := roundPos_nat_pos g 1 (Nat.le_refl _) h1
  have hbnn : NN (ofNat f 1) :=
    ⟨by rw [hbk]; exact Int.natCast_nonneg _, by rw [hbk]; exact Int.ofNat_lt.mpr (g.nat_finite 1 h1)⟩
  apply ext_key
  rw [div_key hx hbnn (by rw [hbk]; exact Int.ofNat_lt.mpr hpos)]
  have hiv : ival f (ofNat f 1).key.toNat = scale f := by
    rw [hbk, Int.toNat_natCast, ival_roundPos_nat f g.qmin_le 1 (Nat.le_refl _) h1 (g.nat_finite 1 h1), Nat.one_mul]
  rw [hiv, roundPos_ival f hq0 _ (by have := hx.1; have := hx.2; omega)]
  have := hx.1
  omega

end Fl
end Charset
