/-
  Totality of the model of `from_bytes` relative to what a concrete world can promise: its decoders and
  language table answer for the *supported* encodings (the only ones the probing loop ever asks about),
  and its mess detector answers for texts up to a length bound – which every text the loop analyses meets,
  because decoders yield at most one character per byte (`chars`).  `World.Total` (Total.lean) is the
  special case "answers for everything".
-/
import CharsetProof.Lemmas.Total
set_option linter.unusedSectionVars false
namespace Charset
variable {E L : Type} [DecidableEq E]

structure World.TotalOn (W : World E L) (T : Tables E) (n : Nat) : Prop where
  decode : ∀ e ∈ T.supported, ∀ x, ∃ r, W.decode e x = .ok r
  decodeChunk : ∀ e ∈ T.supported, ∀ x, ∃ r, W.decodeChunk e x = .ok r
  chars : ∀ e ∈ T.supported, ∀ x t, W.decode e x = .ok (some t) → t.length ≤ x.length
  mess : ∀ t thr, t.length ≤ n → ∃ r, W.mess t thr = .ok r
  coh : ∀ t thr ls, ∃ r, W.coh t thr ls = .ok r
  merge : ∀ xs, ∃ r, W.merge xs = .ok r
  target : ∀ e ∈ T.supported, ∃ r, W.target e = .ok r

theorem sliceF_length {site : Nat} {b sl : List Nat} {i j : Nat} (h : sliceF site b i j = .ok sl) :
    sl.length ≤ b.length := by
  unfold sliceF at h
  split at h
  · cases h
    simp only [List.length_take, List.length_drop]
    omega
  · cases h

theorem validChunk_length {T : Tables E} {e : E} {ch t : Text} (h : validChunk T e ch = some t) : t = ch := by
  unfold validChunk at h
  split at h
  · cases h
  · cases h; rfl

theorem probePrepareOn_total {W : World E L} {T : Tables E} {c : Ctx E} {n : Nat} (hW : W.TotalOn T n)
    (hc : CtxOk T c) (soft : List E) {e : E} (he : e ∈ T.supported) : ∃ r, probePrepare W T c soft e = .ok r := by
  unfold probePrepare
  split
  · exact ⟨_, rfl⟩
  · have hsl : ∃ sl, sliceF 341 c.b (startIdxOf c e) (endIdxOf T c e) = .ok sl := by
      unfold endIdxOf
      cases hl : lazyOf T c e with
      | true =>
        obtain ⟨h0, hm⟩ := lazy_facts hc hl
        simp only [↓reduceIte]
        exact sliceF_total (by omega) hm
      | false =>
        simp only [Bool.false_eq_true, ↓reduceIte]
        exact sliceF_total (startIdx_le hc e) (Nat.le_refl _)
    obtain ⟨sl, hsl⟩ := hsl
    simp only [hsl]
    obtain ⟨r, hr⟩ := hW.decode e he sl
    simp only [hr]
    cases r with
    | none => exact ⟨_, rfl⟩
    | some t0 =>
      simp only
      split <;> exact ⟨_, rfl⟩

/-- the payload a successful preparation hands on is no longer than the input -/
theorem probePrepare_payload_le {W : World E L} {T : Tables E} {c : Ctx E} {n : Nat} (hW : W.TotalOn T n)
    {soft : List E} {e : E} (he : e ∈ T.supported) {p : Prepared} (h : probePrepare W T c soft e = .ok (.go p)) :
    ∀ t, p.payload = some t → t.length ≤ c.b.length := by
  unfold probePrepare at h
  split at h
  · cases h
  · split at h
    · cases h
    · rename_i sl hsl
      split at h
      · cases h
      · cases h
      · rename_i t0 hdec
        split at h
        · cases h
        · cases h
          intro t ht
          simp only [payloadOf] at ht
          split at ht
          · cases ht
          · cases ht
            have h1 := hW.chars e he sl _ hdec
            have h2 := sliceF_length hsl
            omega

theorem chunkLoopOn_total {W : World E L} {T : Tables E} {c : Ctx E} {n : Nat} (hW : W.TotalOn T n) {e : E}
    (he : e ∈ T.supported) (hn : c.b.length ≤ n)
    {payload : Option Text} {seqLen maxGaveUp : Nat}
    (hlazy : payload = none → seqLen = c.b.length) (hpay : ∀ t, payload = some t → t.length ≤ n) :
    ∀ (offs : List Nat) (acc : ChunkAcc), (∀ o ∈ offs, o < seqLen) →
      ∃ r, chunkLoop W T c e payload seqLen maxGaveUp offs acc = .ok r := by
  intro offs
  induction offs with
  | nil => intro acc _; exact ⟨_, rfl⟩
  | cons off offs ih =>
    intro acc hoffs
    simp only [chunkLoop]
    have hchunk : ∃ r, chunkAt W T c e payload seqLen off = .ok r ∧ ∀ t, r = some t → t.length ≤ n := by
      unfold chunkAt
      cases payload with
      | some t =>
        refine ⟨_, rfl, ?_⟩
        intro t' ht'
        have := validChunk_length ht'
        subst this
        have := hpay t rfl
        simp only [List.length_take, List.length_drop]
        omega
      | none =>
        simp only
        have hlt := hoffs off (by simp)
        have hseq := hlazy rfl
        obtain ⟨sl, hsl⟩ := sliceF_total (site := 412) (b := c.b) (i := off) (j := min (off + c.chunk) seqLen)
          (by omega) (by omega)
        simp only [hsl]
        obtain ⟨r, hr⟩ := hW.decode e he sl
        simp only [hr]
        cases r with
        | none => exact ⟨_, rfl, by intro t ht; cases ht⟩
        | some ch =>
          refine ⟨_, rfl, ?_⟩
          intro t' ht'
          have := validChunk_length ht'
          subst this
          have h1 := hW.chars e he sl _ hr
          have h2 := sliceF_length hsl
          omega
    obtain ⟨r, hr, hlen⟩ := hchunk
    rw [hr]
    cases r with
    | none => exact ⟨_, rfl⟩
    | some t =>
      simp only
      obtain ⟨m, hm⟩ := hW.mess t c.thr (hlen t rfl)
      rw [hm]
      simp only
      split
      · exact ⟨_, rfl⟩
      · exact ih _ (fun o ho => hoffs o (by simp [ho]))

theorem probeChunksOn_total {W : World E L} {T : Tables E} {c : Ctx E} {n : Nat} (hW : W.TotalOn T n)
    (hc : CtxOk T c) {e : E} (he : e ∈ T.supported) (hn : c.b.length ≤ n)
    (p : Prepared) (hp : ∀ t, p.payload = some t → t.length ≤ n) : ∃ r, probeChunks W T c e p = .ok r := by
  unfold probeChunks divF
  have hne : c.steps ≠ 0 := by have := hc.steps; omega
  simp only [hne, ↓reduceIte]
  apply chunkLoopOn_total hW he hn
  · intro hp'; simp [seqLenOf, hp']
  · exact hp
  · exact offsets_lt (by omega)

theorem probeRemainderOn_total {W : World E L} {T : Tables E} {c : Ctx E} {n : Nat} (hW : W.TotalOn T n)
    (hc : CtxOk T c) {e : E} (he : e ∈ T.supported)
    (p : Prepared) (hp : p.lazy = lazyOf T c e) (acc : ChunkAcc) : ∃ r, probeRemainder W T c e p acc = .ok r := by
  unfold probeRemainder
  split
  · rename_i hcond
    have hl : lazyOf T c e = true := by
      simp only [Bool.and_eq_true] at hcond; rw [← hp]; exact hcond.2
    obtain ⟨sl, hsl⟩ := sliceF_total (site := 451) (b := c.b) (i := T.maxProcessed) (j := c.b.length)
      (lazy_facts hc hl).2 (Nat.le_refl _)
    simp only [hsl]
    obtain ⟨r, hr⟩ := hW.decode e he sl
    simp only [hr]
    cases r <;> exact ⟨_, rfl⟩
  · exact ⟨_, rfl⟩

theorem mkMatchOn_total {W : World E L} {T : Tables E} {n : Nat} (hW : W.TotalOn T n) (b : Bytes) {e : E}
    (he : e ∈ T.supported) (chaos : F32) (bom : Bool)
    (cohs : List (L × F32)) (payload : Option Text) : ∃ m, mkMatch W b e chaos bom cohs payload = .ok m := by
  unfold mkMatch
  cases payload with
  | some t => exact ⟨_, rfl⟩
  | none =>
    simp only
    obtain ⟨r, hr⟩ := hW.decodeChunk e he b
    rw [hr]; exact ⟨_, rfl⟩

theorem cohAllOn_total {W : World E L} {T : Tables E} {n : Nat} (hW : W.TotalOn T n) (thr : F32) (langs : List L)
    (ts : List Text) : ∃ r, cohAll W thr langs ts = .ok r := by
  induction ts with
  | nil => exact ⟨_, rfl⟩
  | cons t ts ih =>
    simp only [cohAll]
    obtain ⟨r, hr⟩ := hW.coh t thr langs
    rw [hr]
    obtain ⟨rs, hrs⟩ := ih
    rw [hrs]
    exact ⟨_, rfl⟩

theorem probeOn_total {W : World E L} {T : Tables E} {c : Ctx E} {n : Nat} (hW : W.TotalOn T n) (hc : CtxOk T c)
    (hn : c.b.length ≤ n) (soft : List E) {e : E} (he : e ∈ T.supported) : ∃ v, probe W T c soft e = .ok v := by
  unfold probe
  obtain ⟨st1, h1⟩ := probePrepareOn_total hW hc soft he
  simp only [h1]
  cases st1 with
  | needsBom => exact ⟨_, rfl⟩
  | hardFail => exact ⟨_, rfl⟩
  | similarSkip f => exact ⟨_, rfl⟩
  | go p =>
    simp only
    have hpl' : ∀ t, p.payload = some t → t.length ≤ n := by
      intro t ht
      have := probePrepare_payload_le hW he h1 t ht
      omega
    obtain ⟨acc, h2⟩ := probeChunksOn_total hW hc he hn p hpl'
    simp only [h2]
    obtain ⟨_, _, hpl, _⟩ := probePrepare_go h1
    obtain ⟨rem, h3⟩ := probeRemainderOn_total hW hc he p hpl acc
    simp only [h3]
    cases rem with
    | true => exact ⟨_, rfl⟩
    | false =>
      simp only
      split
      · unfold probeSoft
        split
        · obtain ⟨m, hm⟩ := mkMatchOn_total hW c.b he c.thr false [] p.payload
          simp only [hm]; exact ⟨_, rfl⟩
        · exact ⟨_, rfl⟩
      · unfold probeAccept
        have hcds : ∃ r, cdsOf W T c e acc = .ok r := by
          unfold cdsOf
          split
          · exact ⟨_, rfl⟩
          · obtain ⟨ls, hls⟩ := hW.target e he
            simp only [hls]
            exact cohAllOn_total hW _ _ _
        obtain ⟨cdl, hcdl⟩ := hcds
        simp only [hcdl]
        obtain ⟨mg, hmg⟩ := hW.merge cdl
        simp only [hmg]
        obtain ⟨m, hm⟩ := mkMatchOn_total hW c.b he (meanRatio acc.ratios) p.bomHere mg p.payload
        simp only [hm]; exact ⟨_, rfl⟩

theorem detectLoopOn_total {W : World E L} {T : Tables E} {sort : Sorter E L} (hperm : ∀ l, (sort l).Perm l)
    {c : Ctx E} {n : Nat} (hW : W.TotalOn T n) (hc : CtxOk T c) (hn : c.b.length ≤ n) (incl excl : List E) :
    ∀ (es : List E) (st : LoopState E L), (∀ e ∈ es, e ∈ T.supported) →
      ∃ out, detectLoop W T sort c incl excl es st = .ok out := by
  intro es
  induction es with
  | nil => intro st _; exact ⟨_, rfl⟩
  | cons e es ih =>
    intro st hes
    have he : e ∈ T.supported := hes e (by simp)
    have hes' : ∀ e ∈ es, e ∈ T.supported := fun x hx => hes x (by simp [hx])
    rw [detectLoop]
    split
    · exact ih st hes'
    · obtain ⟨v, hv⟩ := probeOn_total hW hc hn st.soft he
      simp only [hv]
      cases v with
      | needsBom => exact ih st hes'
      | hardFail => exact ih st hes'
      | similarSkip f => exact ih st hes'
      | softFail fb => exact ih _ hes'
      | accepted m =>
        simp only
        split
        · have hme : m.enc = e := (accepted_facts (probe_shape hv)).enc
          obtain ⟨x, hx⟩ := findByCand_append hperm T.tooBig st.results m
          rw [hme] at hx
          simp only [hx]; exact ⟨_, rfl⟩
        · exact ih _ hes'

/-- **Totality of the model of `from_bytes`, relative form**: a world that answers for the supported
    encodings and for texts no longer than the input never lets the detection fault or ask -/
theorem fromBytesOn_total {W : World E L} {T : Tables E} {sort : Sorter E L} (hperm : ∀ l, (sort l).Perm l)
    (hT : T.Sane) (b : Bytes) (hW : W.TotalOn T b.length) (s : Settings) (hs : 1 ≤ s.steps) :
    ∃ r, fromBytes W T sort b s = .ok r := by
  unfold fromBytes
  cases hi : canonList T.ianaName s.incl with
  | error n => exact ⟨_, rfl⟩
  | ok incl =>
    cases he : canonList T.ianaName s.excl with
    | error n => exact ⟨_, rfl⟩
    | ok excl =>
      simp only
      split
      · exact ⟨_, rfl⟩
      · obtain ⟨out, hout⟩ := detectLoopOn_total hperm hW (ctxOf_ok hT b s hs) (Nat.le_refl _) incl excl
          (probeOrder T.supported (prioritized T b s.preemptive)) {} (fun e he => mem_probeOrder he)
        simp only [hout]
        cases out <;> exact ⟨_, rfl⟩

end Charset
