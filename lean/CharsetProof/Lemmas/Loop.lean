import CharsetProof.Lemmas.Probe
set_option linter.unusedSectionVars false
namespace Charset
variable {E L : Type} [DecidableEq E]

/-- Hoare-style rule for the probing loop.  `Inv done st`: invariant after the encodings `done`
    (in probe order) have been processed.  `Q`: what is to be shown about the outcome. -/
theorem detectLoop_rule {W : World E L} {T : Tables E} {sort : Sorter E L} {c : Ctx E} {incl excl : List E}
    (Inv : List E → LoopState E L → Prop) (Q : Outcome E L → Prop) (S : E → Prop)
    (hskip : ∀ done st e, S e → Inv done st →
      (allowed incl excl e = false ∨ ProbeShape W T c st.soft e .needsBom ∨
        ProbeShape W T c st.soft e .hardFail ∨ ∃ f, ProbeShape W T c st.soft e (.similarSkip f) ∧
          probe W T c st.soft e = .ok (.similarSkip f)) → Inv (done ++ [e]) st)
    (hsoft : ∀ done st e fb, S e → Inv done st → allowed incl excl e = true →
      ProbeShape W T c st.soft e (.softFail fb) → Inv (done ++ [e]) (softUpdate T c st e fb))
    (hacc : ∀ done st e m, S e → Inv done st → allowed incl excl e = true →
      ProbeShape W T c st.soft e (.accepted m) →
      (exitCond c e m.chaos = false →
        Inv (done ++ [e]) { st with results := append sort T.tooBig st.results m }) ∧
      (exitCond c e m.chaos = true → ∀ x, findByCand (append sort T.tooBig st.results m) e = some x →
        Q (.exit x)))
    (hdone : ∀ done st, Inv done st → Q (.done st)) :
    ∀ (es : List E) (done : List E) (st : LoopState E L) (out : Outcome E L),
      (∀ e ∈ es, S e) → Inv done st → detectLoop W T sort c incl excl es st = .ok out → Q out := by
  intro es
  induction es with
  | nil =>
    intro done st out _ hinv h
    simp only [detectLoop] at h
    cases h
    exact hdone done st hinv
  | cons e es ih =>
    intro done st out hS hinv h
    have hSe : S e := hS e (by simp)
    have hS' : ∀ x ∈ es, S x := fun x hx => hS x (by simp [hx])
    rw [detectLoop] at h
    split at h
    · rename_i hal
      exact ih (done ++ [e]) st out hS' (hskip done st e hSe hinv (Or.inl (by simpa using hal))) h
    · rename_i hal
      have hal' : allowed incl excl e = true := by simpa using hal
      split at h
      · cases h
      · rename_i hp
        exact ih _ st out hS' (hskip done st e hSe hinv (Or.inr (Or.inl (probe_shape hp)))) h
      · rename_i hp
        exact ih _ st out hS' (hskip done st e hSe hinv (Or.inr (Or.inr (Or.inl (probe_shape hp))))) h
      · rename_i f hp
        exact ih _ st out hS' (hskip done st e hSe hinv (Or.inr (Or.inr (Or.inr ⟨f, probe_shape hp, hp⟩)))) h
      · rename_i fb hp
        exact ih _ _ out hS' (hsoft done st e fb hSe hinv hal' (probe_shape hp)) h
      · rename_i m hp
        have hA := hacc done st e m hSe hinv hal' (probe_shape hp)
        split at h
        · rename_i hex
          split at h
          · cases h
          · rename_i x hx
            cases h
            exact hA.2 hex x hx
        · rename_i hex
          exact ih _ _ out hS' (hA.1 (by simpa using hex)) h

/-- positional variant: callbacks additionally learn where in the probe order `all` they are -/
theorem detectLoop_rule_pos {W : World E L} {T : Tables E} {sort : Sorter E L} {c : Ctx E} {incl excl : List E}
    (all : List E)
    (Inv : List E → LoopState E L → Prop) (Q : Outcome E L → Prop)
    (hskip : ∀ done st e rest, done ++ e :: rest = all → Inv done st → Inv (done ++ [e]) st)
    (hsoft : ∀ done st e rest fb, done ++ e :: rest = all → Inv done st → allowed incl excl e = true →
      ProbeShape W T c st.soft e (.softFail fb) → Inv (done ++ [e]) (softUpdate T c st e fb))
    (hacc : ∀ done st e rest m, done ++ e :: rest = all → Inv done st → allowed incl excl e = true →
      ProbeShape W T c st.soft e (.accepted m) →
      (exitCond c e m.chaos = false →
        Inv (done ++ [e]) { st with results := append sort T.tooBig st.results m }) ∧
      (exitCond c e m.chaos = true → ∀ x, findByCand (append sort T.tooBig st.results m) e = some x →
        Q (.exit x)))
    (hdone : ∀ st, Inv all st → Q (.done st)) :
    ∀ (es : List E) (done : List E) (st : LoopState E L) (out : Outcome E L),
      done ++ es = all → Inv done st → detectLoop W T sort c incl excl es st = .ok out → Q out := by
  intro es
  induction es with
  | nil =>
    intro done st out hall hinv h
    simp only [detectLoop] at h
    cases h
    have : done = all := by simpa using hall
    subst this
    exact hdone st hinv
  | cons e es ih =>
    intro done st out hall hinv h
    have hall' : (done ++ [e]) ++ es = all := by simpa using hall
    rw [detectLoop] at h
    split at h
    · exact ih (done ++ [e]) st out hall' (hskip done st e es hall hinv) h
    · rename_i hal
      have hal' : allowed incl excl e = true := by simpa using hal
      split at h
      · cases h
      · exact ih _ st out hall' (hskip done st e es hall hinv) h
      · exact ih _ st out hall' (hskip done st e es hall hinv) h
      · exact ih _ st out hall' (hskip done st e es hall hinv) h
      · rename_i fb hp
        exact ih _ _ out hall' (hsoft done st e es fb hall hinv hal' (probe_shape hp)) h
      · rename_i m hp
        have hA := hacc done st e es m hall hinv hal' (probe_shape hp)
        split at h
        · rename_i hex
          split at h
          · cases h
          · rename_i x hx
            cases h
            exact hA.2 hex x hx
        · rename_i hex
          exact ih _ _ out hall' (hA.1 (by simpa using hex)) h

/-- the most informative variant: position in the probe order *and* the probe equations -/
theorem detectLoop_rule_full {W : World E L} {T : Tables E} {sort : Sorter E L} {c : Ctx E} {incl excl : List E}
    (all : List E)
    (Inv : List E → LoopState E L → Prop) (Q : Outcome E L → Prop)
    (hskip : ∀ done st e rest, done ++ e :: rest = all → Inv done st →
      (allowed incl excl e = false ∨ probe W T c st.soft e = .ok .needsBom ∨
        probe W T c st.soft e = .ok .hardFail ∨ ∃ f, probe W T c st.soft e = .ok (.similarSkip f)) →
      Inv (done ++ [e]) st)
    (hsoft : ∀ done st e rest fb, done ++ e :: rest = all → Inv done st → allowed incl excl e = true →
      probe W T c st.soft e = .ok (.softFail fb) → Inv (done ++ [e]) (softUpdate T c st e fb))
    (hacc : ∀ done st e rest m, done ++ e :: rest = all → Inv done st → allowed incl excl e = true →
      probe W T c st.soft e = .ok (.accepted m) →
      (exitCond c e m.chaos = false →
        Inv (done ++ [e]) { st with results := append sort T.tooBig st.results m }) ∧
      (exitCond c e m.chaos = true → ∀ x, findByCand (append sort T.tooBig st.results m) e = some x →
        Q (.exit x)))
    (hdone : ∀ st, Inv all st → Q (.done st)) :
    ∀ (es : List E) (done : List E) (st : LoopState E L) (out : Outcome E L),
      done ++ es = all → Inv done st → detectLoop W T sort c incl excl es st = .ok out → Q out := by
  intro es
  induction es with
  | nil =>
    intro done st out hall hinv h
    simp only [detectLoop] at h
    cases h
    have : done = all := by simpa using hall
    subst this
    exact hdone st hinv
  | cons e es ih =>
    intro done st out hall hinv h
    have hall' : (done ++ [e]) ++ es = all := by simpa using hall
    rw [detectLoop] at h
    split at h
    · rename_i hal
      exact ih (done ++ [e]) st out hall' (hskip done st e es hall hinv (Or.inl (by simpa using hal))) h
    · rename_i hal
      have hal' : allowed incl excl e = true := by simpa using hal
      split at h
      · cases h
      · rename_i hp
        exact ih _ st out hall' (hskip done st e es hall hinv (Or.inr (Or.inl hp))) h
      · rename_i hp
        exact ih _ st out hall' (hskip done st e es hall hinv (Or.inr (Or.inr (Or.inl hp)))) h
      · rename_i f hp
        exact ih _ st out hall' (hskip done st e es hall hinv (Or.inr (Or.inr (Or.inr ⟨f, hp⟩)))) h
      · rename_i fb hp
        exact ih _ _ out hall' (hsoft done st e es fb hall hinv hal' hp) h
      · rename_i m hp
        have hA := hacc done st e es m hall hinv hal' hp
        split at h
        · rename_i hex
          split at h
          · cases h
          · rename_i x hx
            cases h
            exact hA.2 hex x hx
        · rename_i hex
          exact ih _ _ out hall' (hA.1 (by simpa using hex)) h

end Charset
