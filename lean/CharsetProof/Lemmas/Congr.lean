/-
  The model of `from_bytes` sees its world only through the answers for supported encodings: two worlds that agree
  there (and on mess / coherence / merge) give the same detection.  Used to show that the fully modelled world does
  not depend on the oracle it is handed (Props/C11c.lean).
-/
import CharsetProof.Lemmas.Master
set_option linter.unusedSectionVars false
namespace Charset
variable {E L : Type} [DecidableEq E]

/-- agreement of two worlds on everything the detection can ask about the encodings in `S` -/
structure World.AgreeOn (W W' : World E L) (S : List E) : Prop where
  decode : ∀ e ∈ S, ∀ x, W.decode e x = W'.decode e x
  decodeChunk : ∀ e ∈ S, ∀ x, W.decodeChunk e x = W'.decodeChunk e x
  target : ∀ e ∈ S, W.target e = W'.target e
  mess : W.mess = W'.mess
  coh : W.coh = W'.coh
  merge : W.merge = W'.merge

theorem chunkAt_congr {W W' : World E L} {S : List E} (h : W.AgreeOn W' S) (T : Tables E) (c : Ctx E) {e : E}
    (he : e ∈ S) (payload : Option Text) (seqLen off : Nat) :
    chunkAt W T c e payload seqLen off = chunkAt W' T c e payload seqLen off := by
  unfold chunkAt
  cases payload with
  | some t => rfl
  | none =>
    simp only
    cases sliceF 412 c.b off (min (off + c.chunk) seqLen) with
    | error s => rfl
    | ok sl => simp only [h.decode e he sl]

theorem chunkLoop_congr {W W' : World E L} {S : List E} (h : W.AgreeOn W' S) (T : Tables E) (c : Ctx E) {e : E}
    (he : e ∈ S) (payload : Option Text) (seqLen maxGaveUp : Nat) :
    ∀ (offs : List Nat) (acc : ChunkAcc),
      chunkLoop W T c e payload seqLen maxGaveUp offs acc = chunkLoop W' T c e payload seqLen maxGaveUp offs acc := by
  intro offs
  induction offs with
  | nil => intro acc; rfl
  | cons off offs ih =>
    intro acc
    simp only [chunkLoop, chunkAt_congr h T c he, h.mess]
    cases chunkAt W' T c e payload seqLen off with
    | error s => rfl
    | ok r =>
      cases r with
      | none => rfl
      | some t =>
        simp only
        cases W'.mess t c.thr with
        | error s => rfl
        | ok r =>
          simp only
          split
          · rfl
          · exact ih _

theorem cohAll_congr {W W' : World E L} {S : List E} (h : W.AgreeOn W' S) (thr : F32) (langs : List L) :
    ∀ ts : List Text, cohAll W thr langs ts = cohAll W' thr langs ts := by
  intro ts
  induction ts with
  | nil => rfl
  | cons t ts ih => simp only [cohAll, h.coh, ih]

theorem mkMatch_congr {W W' : World E L} {S : List E} (h : W.AgreeOn W' S) (b : Bytes) {e : E} (he : e ∈ S)
    (chaos : F32) (bom : Bool) (cohs : List (L × F32)) (payload : Option Text) :
    mkMatch W b e chaos bom cohs payload = mkMatch W' b e chaos bom cohs payload := by
  unfold mkMatch
  cases payload with
  | some t => rfl
  | none => simp only [h.decodeChunk e he b]

theorem probe_congr {W W' : World E L} {S : List E} (h : W.AgreeOn W' S) (T : Tables E) (c : Ctx E)
    (soft : List E) {e : E} (he : e ∈ S) : probe W T c soft e = probe W' T c soft e := by
  have hprep : probePrepare W T c soft e = probePrepare W' T c soft e := by
    unfold probePrepare
    split
    · rfl
    · cases sliceF 341 c.b (startIdxOf c e) (endIdxOf T c e) with
      | error s => rfl
      | ok sl => simp only [h.decode e he sl]
  have hchunks : ∀ p, probeChunks W T c e p = probeChunks W' T c e p := by
    intro p
    unfold probeChunks
    cases divF 397 (seqLenOf c p) c.steps with
    | error s => rfl
    | ok q => exact chunkLoop_congr h T c he _ _ _ _ _
  have hrem : ∀ p acc, probeRemainder W T c e p acc = probeRemainder W' T c e p acc := by
    intro p acc
    unfold probeRemainder
    split
    · cases sliceF 451 c.b T.maxProcessed c.b.length with
      | error s => rfl
      | ok sl => simp only [h.decode e he sl]
    · rfl
  have hsoft : ∀ p acc, probeSoft W c e p acc = probeSoft W' c e p acc := by
    intro p acc
    unfold probeSoft
    simp only [mkMatch_congr h c.b he]
  have hacc : ∀ p acc, probeAccept W T c e p acc = probeAccept W' T c e p acc := by
    intro p acc
    have hcds : cdsOf W T c e acc = cdsOf W' T c e acc := by
      unfold cdsOf
      split
      · rfl
      · rw [h.target e he]
        cases W'.target e with
        | error s => rfl
        | ok langs => exact cohAll_congr h _ _ _
    unfold probeAccept
    simp only [hcds, h.merge, mkMatch_congr h c.b he]
  unfold probe
  simp only [hprep, hchunks, hrem, hsoft, hacc]

theorem detectLoop_congr {W W' : World E L} {S : List E} (h : W.AgreeOn W' S) (T : Tables E) (sort : Sorter E L)
    (c : Ctx E) (incl excl : List E) :
    ∀ (es : List E) (st : LoopState E L), (∀ e ∈ es, e ∈ S) →
      detectLoop W T sort c incl excl es st = detectLoop W' T sort c incl excl es st := by
  intro es
  induction es with
  | nil => intro st _; rfl
  | cons e es ih =>
    intro st hes
    have he : e ∈ S := hes e (by simp)
    have hes' : ∀ e ∈ es, e ∈ S := fun x hx => hes x (by simp [hx])
    rw [detectLoop, detectLoop, probe_congr h T c st.soft he]
    split
    · exact ih st hes'
    · cases probe W' T c st.soft e with
      | error s => rfl
      | ok v =>
        cases v with
        | needsBom => exact ih st hes'
        | hardFail => exact ih st hes'
        | similarSkip f => exact ih st hes'
        | softFail fb => exact ih _ hes'
        | accepted m =>
          simp only
          split
          · rfl
          · exact ih _ hes'

/-- **the detection depends on its world only through the answers for supported encodings** -/
theorem fromBytes_congr {W W' : World E L} {T : Tables E} (h : W.AgreeOn W' T.supported) (sort : Sorter E L)
    (b : Bytes) (s : Settings) : fromBytes W T sort b s = fromBytes W' T sort b s := by
  unfold fromBytes
  cases canonList T.ianaName s.incl with
  | error n => rfl
  | ok incl =>
    cases canonList T.ianaName s.excl with
    | error n => rfl
    | ok excl =>
      simp only
      split
      · rfl
      · rw [detectLoop_congr h T sort (ctxOf T b s) incl excl _ _ (fun e he => mem_probeOrder he)]

end Charset
