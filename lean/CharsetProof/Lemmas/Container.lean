import CharsetProof.Model.Entity
set_option linter.unusedSectionVars false
namespace Charset
variable {E L : Type}

/-- a predicate on candidate entries holds for the main entry and every sub-match -/
def Match.AllEntries (R : Sub E L → Prop) (m : Match E L) : Prop :=
  R m.toSub ∧ ∀ s ∈ m.subs, R s

theorem mergeInto_some {item : Match E L} {items items' : List (Match E L)}
    (h : mergeInto item items = some items') :
    ∃ pre m post, items = pre ++ m :: post ∧ sameOutput m item = true ∧
      (∀ x ∈ pre, sameOutput x item = false) ∧
      items' = pre ++ { m with subs := m.subs ++ [item.toSub] } :: post := by
  induction items generalizing items' with
  | nil => simp [mergeInto] at h
  | cons a as ih =>
    simp only [mergeInto] at h
    split at h
    · rename_i hs
      cases h
      exact ⟨[], a, as, rfl, hs, by simp, rfl⟩
    · rename_i hs
      cases hm : mergeInto item as with
      | none => simp [hm] at h
      | some r =>
        simp only [hm, Option.map_some, Option.some.injEq] at h
        obtain ⟨pre, m, post, h1, h2, h3, h4⟩ := ih hm
        refine ⟨a :: pre, m, post, by simp [h1], h2, ?_, by simp [← h, h4]⟩
        intro x hx
        simp only [List.mem_cons] at hx
        rcases hx with rfl | hx
        · simpa using hs
        · exact h3 x hx

/-- what `append` can contain -/
theorem mem_append {sort : Sorter E L} (hperm : ∀ l, (sort l).Perm l) {tooBig : Nat}
    {items : List (Match E L)} {item x : Match E L} (hx : x ∈ append sort tooBig items item) :
    x ∈ items ∨ x = item ∨
      ∃ m ∈ items, sameOutput m item = true ∧ x = { m with subs := m.subs ++ [item.toSub] } := by
  unfold append at hx
  split at hx
  · rename_i items' hm
    split at hm
    · obtain ⟨pre, m, post, h1, h2, _, h4⟩ := mergeInto_some hm
      subst h4
      simp only [List.mem_append, List.mem_cons] at hx
      rcases hx with hx | rfl | hx
      · left; simp [h1, hx]
      · right; right; exact ⟨m, by simp [h1], h2, rfl⟩
      · left; simp [h1, hx]
    · cases hm
  · have := (hperm (items ++ [item])).mem_iff.mp hx
    simp only [List.mem_append, List.mem_singleton] at this
    rcases this with h | h
    · exact Or.inl h
    · exact Or.inr (Or.inl h)

theorem append_allEntries {sort : Sorter E L} (hperm : ∀ l, (sort l).Perm l) {tooBig : Nat}
    (R : Sub E L → Prop) {items : List (Match E L)} {item : Match E L}
    (hitems : ∀ m ∈ items, m.AllEntries R) (hitem : item.AllEntries R) :
    ∀ m ∈ append sort tooBig items item, m.AllEntries R := by
  intro x hx
  rcases mem_append hperm hx with h | rfl | ⟨m, hm, _, rfl⟩
  · exact hitems x h
  · exact hitem
  · have := hitems m hm
    refine ⟨this.1, ?_⟩
    intro s hs
    simp only [List.mem_append, List.mem_singleton] at hs
    rcases hs with hs | rfl
    · exact this.2 s hs
    · exact hitem.1

end Charset
