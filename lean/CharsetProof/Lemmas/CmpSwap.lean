/-
  The match ordering is antisymmetric: `cmp b a` is `cmp a b` reversed, for all keys (also infinite / NaN).
  Core fact: `|a - b| = |b - a|` in the float model (rounding is symmetric under negation).
-/
import CharsetProof.Model.Entity
import CharsetProof.Lemmas.F32
set_option linter.unusedSectionVars false
namespace Charset
namespace Fl
variable {f : Fmt}

theorem isNaN_neg (a : Fl f) : (neg a).isNaN = a.isNaN := by
  unfold neg
  by_cases h : a.isNaN = true
  · simp [h]
  · simp only [h, Bool.false_eq_true, ↓reduceIte]
    have h' : a.isNaN = false := by simpa using h
    unfold isNaN at h' ⊢
    simp only [Int.natAbs_neg]
    exact h'.trans (by rfl)

theorem isInf_neg (a : Fl f) (h : a.isNaN = false) : (neg a).isInf = a.isInf := by
  unfold neg
  simp only [h, Bool.false_eq_true, ↓reduceIte]
  unfold isInf; rw [Int.natAbs_neg]

theorem neg_key (a : Fl f) (h : a.isNaN = false) : (neg a).key = -a.key := by
  unfold neg; simp [h]

theorem decodeKey_zero (f : Fmt) : (decodeKey f 0).1 = 0 := by
  unfold decodeKey; simp

theorem toDy_neg (a : Fl f) (h : a.isNaN = false) : (neg a).toDy = (-(a.toDy).1, (a.toDy).2) := by
  unfold toDy
  rw [neg_key a h, Int.natAbs_neg]
  by_cases h0 : a.key = 0
  · have hk : a.key.natAbs = 0 := by simp [h0]
    have hm := decodeKey_zero f
    rw [hk]
    cases hd : decodeKey f 0 with
    | mk m e =>
      rw [hd] at hm
      simp only at hm
      subst hm
      simp [h0]
  · cases hd : decodeKey f a.key.natAbs with
    | mk m e =>
      simp only
      by_cases hneg : a.key < 0
      · have h2 : ¬ (-a.key < 0) := by omega
        rw [if_pos hneg, if_neg h2]; simp
      · have h2 : -a.key < 0 := by omega
        rw [if_neg hneg, if_pos h2]

/-- `ofSigned` of the negated integer is the negated float -/
theorem ofSigned_neg (m e : Int) : (ofSigned f (-m) e).key = -(ofSigned f m e).key := by
  unfold ofSigned
  rw [Int.natAbs_neg]
  by_cases h0 : m = 0
  · subst h0; simp [roundDy_zero]
  · by_cases hneg : m < 0
    · have h2 : ¬ (-m < 0) := by omega
      simp only [hneg, h2, ↓reduceIte]; omega
    · have h2 : -m < 0 := by omega
      simp only [hneg, h2, ↓reduceIte]

theorem ofSigned_not_nan (m e : Int) : (ofSigned f m e).isNaN = false := by
  unfold ofSigned isNaN
  have := roundDy_le_inf f m.natAbs e
  simp only [gt_iff_lt, decide_eq_false_iff_not, Nat.not_lt]
  split <;> simp <;> omega

theorem abs_of_neg_key {x y : Fl f} (hk : x.key = -y.key) (hy : y.isNaN = false) : abs x = abs y := by
  have hx : x.isNaN = false := by
    unfold isNaN at hy ⊢; rw [hk, Int.natAbs_neg]; exact hy
  unfold abs
  simp only [hx, hy, Bool.false_eq_true, ↓reduceIte]
  rw [hk, Int.natAbs_neg]

/-- the magnitude of a difference does not depend on the order of the operands -/
theorem abs_sub_comm (a b : Fl f) : abs (sub a b) = abs (sub b a) := by
  by_cases ha : a.isNaN = true
  · have h1 : sub a b = nan f := by unfold sub add; simp [ha]
    have h2 : sub b a = nan f := by unfold sub add; simp [isNaN_neg, ha]
    rw [h1, h2]
  by_cases hb : b.isNaN = true
  · have h1 : sub a b = nan f := by unfold sub add; simp [isNaN_neg, hb]
    have h2 : sub b a = nan f := by unfold sub add; simp [hb]
    rw [h1, h2]
  have ha' : a.isNaN = false := by simpa using ha
  have hb' : b.isNaN = false := by simpa using hb
  unfold sub add
  simp only [ha', hb', isNaN_neg, Bool.false_eq_true, or_self, ↓reduceIte, isInf_neg _ ha', isInf_neg _ hb',
    neg_key _ ha', neg_key _ hb']
  by_cases hia : a.isInf = true
  · have hka : a.key.natAbs = f.infKey := by simpa [isInf] using hia
    by_cases hib : b.isInf = true
    · have hkb : b.key.natAbs = f.infKey := by simpa [isInf] using hib
      simp only [hia, hib, and_self, ↓reduceIte]
      by_cases hsame : a.key = b.key
      · -- inf - inf: NaN both ways
        have hpos : 0 < f.infKey ∨ f.infKey = 0 := by omega
        by_cases hz : a.key = 0
        · -- degenerate format (infKey = 0): both differences are the same value
          have hbz : b.key = 0 := by omega
          have hab : a = b := by cases a; cases b; simp_all
          subst hab
          split <;> rfl
        · have h1 : ¬ (a.key = -b.key) := by omega
          have h2 : ¬ (b.key = -a.key) := by omega
          simp [h1, h2]
      · have h1 : a.key = -b.key := by omega
        have h2 : b.key = -a.key := by omega
        rw [if_pos h1, if_pos h2]
        apply abs_of_neg_key _ hb'
        exact h1
    · have hib' : b.isInf = false := by simpa using hib
      simp only [hia, hib', Bool.false_eq_true, and_false, ↓reduceIte, and_true]
      apply abs_of_neg_key _ (by rw [isNaN_neg]; exact ha')
      rw [neg_key _ ha']; omega
  · have hia' : a.isInf = false := by simpa using hia
    by_cases hib : b.isInf = true
    · simp only [hia', hib, Bool.false_eq_true, false_and, ↓reduceIte, and_false]
      apply (abs_of_neg_key _ hb').symm.trans rfl |>.symm
      exact neg_key _ hb'
    · have hib' : b.isInf = false := by simpa using hib
      simp only [hia', hib', Bool.false_eq_true, and_self, ↓reduceIte]
      apply abs_of_neg_key _ (ofSigned_not_nan _ _)
      rw [toDy_neg _ ha', toDy_neg _ hb']
      simp only
      rw [← ofSigned_neg, Int.min_comm b.toDy.2 a.toDy.2]
      congr 2
      rw [Int.neg_mul, Int.neg_mul]
      omega

end Fl
end Charset
