/-
  The lossy event streams of the multi-byte decoders (Model/Cjk.lean) agree with their strict decoders: no problem
  trapped ⇔ the strict decode succeeds, and then the characters are the same.
-/
import CharsetProof.Lemmas.CharsLe
import CharsetProof.Model.DecodeHelper
set_option linter.unusedSectionVars false
namespace Charset
namespace Cjk

/-- every step consumes the byte it is given (and possibly more) -/
def StepCons {σ : Type} (step : Step σ) : Prop :=
  ∀ s b rest cs s' rest', step s b rest = .ok (cs, s', rest') → rest'.length ≤ rest.length

theorem eucKrStep_cons (tb : Array Nat) : StepCons (eucKrStep tb) := by
  intro s b rest cs s' rest' h
  unfold eucKrStep at h
  repeat' split at h
  all_goals (first | cases h | skip)
  all_goals (simp at * <;> omega)

theorem big5Step_cons (tb : Array Nat) : StepCons (big5Step tb) := by
  intro s b rest cs s' rest' h
  unfold big5Step at h
  repeat' (first | split at h | (dsimp only at h; split at h))
  all_goals (first | cases h | skip)
  all_goals (simp at * <;> omega)

theorem gbStep_cons (tb : Array Nat) (rg : List (Nat × Nat)) : StepCons (gbStep tb rg) := by
  intro s b rest cs s' rest' h
  unfold gbStep gbFour at h
  repeat' (first | split at h | (dsimp only at h; split at h))
  all_goals (first | cases h | skip)
  all_goals (simp at * <;> omega)

theorem eucJpStep_cons (a c : Array Nat) : StepCons (eucJpStep a c) := by
  intro s b rest cs s' rest' h
  unfold eucJpStep eucJpPair at h
  repeat' split at h
  all_goals (first | cases h | skip)
  all_goals (simp at * <;> omega)

theorem sjisStep_cons (a : Array Nat) : StepCons (sjisStep a) := by
  intro s b rest cs s' rest' h
  unfold sjisStep at h
  repeat' split at h
  all_goals (first | cases h | skip)
  all_goals (simp at * <;> omega)

theorem jpStep_cons (a c : Array Nat) : StepCons (jpStep a c) := by
  intro s b rest cs s' rest' h
  unfold jpStep jpEscape jpEscape24 jpEscape28 jpTwo at h
  repeat' split at h
  all_goals (first | cases h | skip)
  all_goals (simp at * <;> omega)

/-- what the helper makes of an event stream under `DecoderTrap::Strict` -/
theorem applyTrap_strict_append_somes (cs : List Nat) (evs : List (Option Nat)) :
    applyTrap .strict (cs.map some ++ evs) = (applyTrap .strict evs).map (cs ++ ·) := by
  induction cs with
  | nil =>
    simp only [List.map_nil, List.nil_append]
    cases applyTrap .strict evs <;> rfl
  | cons c cs ih =>
    simp only [List.map_cons, List.cons_append]
    have : ∀ (l : List (Option Nat)), applyTrap .strict (some c :: l) = (applyTrap .strict l).map (c :: ·) := by
      intro l
      simp only [applyTrap, List.all_cons, Option.isSome_some, Bool.true_and, List.filterMap_cons_some, id]
      split <;> simp
    rw [this, ih]
    cases applyTrap .strict evs <;> simp

theorem applyTrap_strict_none_cons (evs : List (Option Nat)) : applyTrap .strict (none :: evs) = none := by
  simp [applyTrap]

/-- **events vs strict decoder**, for any step function that consumes what it is given: with enough fuel on both sides,
    reading the event stream strictly is running the strict decoder -/
theorem events_strict {σ : Type} (step : Step σ) (einfo : ErrInfo σ) (fin : σ → Nat → Bytes → Nat) (s0 : σ)
    (hc : StepCons step) :
    ∀ (f1 f2 : Nat) (s : σ) (x : Bytes), x.length < f1 → x.length < f2 →
      applyTrap .strict (events step einfo fin s0 f2 s x) =
        (match run step f1 s x with | .ok t => some t | .error _ => none) := by
  intro f1
  induction f1 with
  | zero => intro f2 s x h1; omega
  | succ f1 ih =>
    intro f2 s x h1 h2
    cases f2 with
    | zero => omega
    | succ f2 =>
      cases x with
      | nil => simp [events, run, applyTrap]
      | cons b rest =>
        simp only [events, run]
        cases hst : step s b rest with
        | error k =>
          cases k <;> simp only [applyTrap_strict_none_cons]
        | ok r =>
          obtain ⟨cs, s', rest'⟩ := r
          simp only
          have hlen := hc s b rest cs s' rest' hst
          simp only [List.length_cons] at h1 h2
          rw [applyTrap_strict_append_somes, ih f2 s' rest' (by omega) (by omega)]
          cases run step f1 s' rest' <;> simp

theorem eventsWith_strict {σ : Type} (step : Step σ) (einfo : ErrInfo σ) (fin : σ → Nat → Bytes → Nat) (s0 : σ)
    (hc : StepCons step) (x : Bytes) :
    applyTrap .strict (eventsWith step einfo fin s0 x) =
      (match decodeWith step s0 x with | .ok t => some t | .error _ => none) := by
  unfold eventsWith decodeWith
  exact events_strict step einfo fin s0 hc _ _ s0 x (by omega) (by omega)

/-- every multi-byte legacy codec: its event stream read strictly is its strict decoder -/
theorem eventsOf_strict {id : Name} {ev : Bytes → List (Option Nat)} {st : Bytes → Except ErrKind Text}
    (he : eventsOf id = some ev) (hs : strictOf id = some st) (x : Bytes) :
    applyTrap .strict (ev x) = (match st x with | .ok t => some t | .error _ => none) := by
  unfold eventsOf at he
  unfold strictOf at hs
  split at he
  · rename_i h; rw [if_pos h] at hs; cases he; cases hs
    exact eventsWith_strict _ _ _ _ (eucKrStep_cons _) x
  · rename_i h1
    rw [if_neg h1] at hs
    split at he
    · rename_i h; rw [if_pos h] at hs; cases he; cases hs
      exact eventsWith_strict _ _ _ _ (big5Step_cons _) x
    · rename_i h2
      rw [if_neg h2] at hs
      split at he
      · rename_i h
        cases he
        have hst : st = gb18030 := by
          rcases h with h | h
          · rw [if_pos h] at hs; cases hs; rfl
          · by_cases h' : id = [103,98,49,56,48,51,48]
            · rw [if_pos h'] at hs; cases hs; rfl
            · rw [if_neg h', if_pos h] at hs; cases hs; rfl
        subst hst
        exact eventsWith_strict _ _ _ _ (gbStep_cons _ _) x
      · rename_i h3
        have h3a : ¬ id = [103,98,49,56,48,51,48] := fun h => h3 (Or.inl h)
        have h3b : ¬ id = [103,98,107] := fun h => h3 (Or.inr h)
        rw [if_neg h3a, if_neg h3b] at hs
        split at he
        · rename_i h; rw [if_pos h] at hs; cases he; cases hs
          exact eventsWith_strict _ _ _ _ (eucJpStep_cons _ _) x
        · rename_i h4
          rw [if_neg h4] at hs
          split at he
          · rename_i h; rw [if_pos h] at hs; cases he; cases hs
            exact eventsWith_strict _ _ _ _ (sjisStep_cons _) x
          · rename_i h5
            rw [if_neg h5] at hs
            split at he
            · rename_i h; rw [if_pos h] at hs; cases he; cases hs
              exact eventsWith_strict _ _ _ _ (jpStep_cons _ _) x
            · cases he

end Cjk
end Charset
