import CharsetProof.Lemmas.Probe
set_option linter.unusedSectionVars false
namespace Charset
variable {E L : Type} [DecidableEq E]

theorem sliceF_ok {site : Nat} {b sl : List Nat} {i j : Nat} (h : sliceF site b i j = .ok sl) :
    i ≤ j ∧ j ≤ b.length ∧ sl = (b.drop i).take (j - i) := by
  unfold sliceF at h
  split at h
  · rename_i hc; cases h; exact ⟨hc.1, hc.2, rfl⟩
  · cases h

/-- how the exposed text of an entry produced by a probe relates to the strict decoder -/
def TextOk (W : World E L) (T : Tables E) (c : Ctx E) (e : E) (text : Option Text) : Prop :=
  (lazyOf T c e = false →
    ∃ t0, W.decode e (c.b.drop (startIdxOf c e)) = .ok (some t0) ∧ text = some t0 ∧ startIdxOf c e ≤ c.b.length) ∧
  (lazyOf T c e = true →
    ∃ t0 r, W.decode e ((c.b.drop (startIdxOf c e)).take (T.maxProcessed - startIdxOf c e)) = .ok (some t0) ∧
      startIdxOf c e ≤ T.maxProcessed ∧ T.maxProcessed ≤ c.b.length ∧
      W.decodeChunk e c.b = .ok r ∧ text = r.map stripFeff)

theorem textOk_of_prepare {W : World E L} {T : Tables E} {c : Ctx E} {soft : List E} {e : E} {p : Prepared}
    {m : Match E L} {chaos : F32} {bom : Bool} {cohs : List (L × F32)}
    (hp : probePrepare W T c soft e = .ok (.go p))
    (hm : mkMatch W c.b e chaos bom cohs p.payload = .ok m) : TextOk W T c e m.text := by
  obtain ⟨_, _, _, _, _, sl, t0, hsl, hdec, hpay⟩ := probePrepare_go hp
  obtain ⟨h1, h2, hsleq⟩ := sliceF_ok hsl
  have hmm := mkMatch_spec hm
  constructor
  · intro hl
    simp only [endIdxOf, hl, Bool.false_eq_true, ↓reduceIte] at hsleq h1 h2
    have : sl = c.b.drop (startIdxOf c e) := by
      rw [hsleq]; apply List.take_of_length_le; simp
    subst this
    refine ⟨t0, hdec, ?_, h1⟩
    apply hmm.2.2.2.2.2.2.1
    rw [hpay]; simp [payloadOf, hl]
  · intro hl
    simp only [endIdxOf, hl, ↓reduceIte] at hsleq h1 h2
    subst hsleq
    have hnone : p.payload = none := by rw [hpay]; simp [payloadOf, hl]
    obtain ⟨r, hr1, hr2⟩ := hmm.2.2.2.2.2.2.2 hnone
    exact ⟨t0, r, hdec, h1, h2, hr1, hr2⟩

/-- every ratio collected by the chunk loop is a `mess` answer for the loop's threshold -/
theorem chunkLoop_ratios {W : World E L} {T : Tables E} {c : Ctx E} {e : E} {payload : Option Text}
    {seqLen maxGaveUp : Nat} (offs : List Nat) (acc acc' : ChunkAcc)
    (h : chunkLoop W T c e payload seqLen maxGaveUp offs acc = .ok acc') :
    ∀ r ∈ acc'.ratios, r ∈ acc.ratios ∨ ∃ t, W.mess t c.thr = .ok r := by
  induction offs generalizing acc with
  | nil => simp only [chunkLoop] at h; cases h; intro r hr; exact Or.inl hr
  | cons off offs ih =>
    simp only [chunkLoop] at h
    split at h
    · cases h
    · cases h; intro r hr; exact Or.inl hr
    · rename_i t ht
      split at h
      · cases h
      · rename_i r0 hr0
        split at h
        · cases h
          intro r hr
          simp only [List.mem_append, List.mem_singleton] at hr
          rcases hr with hr | rfl
          · exact Or.inl hr
          · exact Or.inr ⟨t, hr0⟩
        · intro r hr
          rcases ih _ h r hr with h1 | h1
          · simp only [List.mem_append, List.mem_singleton] at h1
            rcases h1 with h1 | rfl
            · exact Or.inl h1
            · exact Or.inr ⟨t, hr0⟩
          · exact Or.inr h1

/-- an invalid chunk forces `early = maxGaveUp` -/
theorem chunkLoop_lazyHard {W : World E L} {T : Tables E} {c : Ctx E} {e : E} {payload : Option Text}
    {seqLen maxGaveUp : Nat} (offs : List Nat) (acc acc' : ChunkAcc)
    (h : chunkLoop W T c e payload seqLen maxGaveUp offs acc = .ok acc')
    (hacc : acc.lazyHard = true → maxGaveUp ≤ acc.early) (hl : acc'.lazyHard = true) :
    maxGaveUp ≤ acc'.early := by
  induction offs generalizing acc with
  | nil => simp only [chunkLoop] at h; cases h; exact hacc hl
  | cons off offs ih =>
    simp only [chunkLoop] at h
    split at h
    · cases h
    · cases h; simp
    · split at h
      · cases h
      · split at h
        · rename_i hle
          cases h; exact hle
        · rename_i hnle
          refine ih _ h ?_
          intro hlh
          simp only at hlh
          have := hacc hlh
          have hmono : ∀ r, acc.early ≤ earlyNext c.thr r acc.early := by
            intro r; unfold earlyNext; split <;> omega
          simp only
          exact Nat.le_trans this (hmono _)

theorem probeChunks_lazyHard {W : World E L} {T : Tables E} {c : Ctx E} {e : E} {p : Prepared} {acc : ChunkAcc}
    (h : probeChunks W T c e p = .ok acc) (hl : acc.lazyHard = true) : maxGaveUpOf c ≤ acc.early := by
  unfold probeChunks at h
  split at h
  · cases h
  · exact chunkLoop_lazyHard _ _ _ h (by simp) hl

theorem probeChunks_ratios {W : World E L} {T : Tables E} {c : Ctx E} {e : E} {p : Prepared} {acc : ChunkAcc}
    (h : probeChunks W T c e p = .ok acc) : ∀ r ∈ acc.ratios, ∃ t, W.mess t c.thr = .ok r := by
  unfold probeChunks at h
  split at h
  · cases h
  · intro r hr
    rcases chunkLoop_ratios _ _ _ h r hr with h1 | h1
    · simp at h1
    · exact h1

/-- on the lazy path the remainder of the payload was strictly decoded as well -/
def RemainderOk (W : World E L) (T : Tables E) (c : Ctx E) (e : E) : Prop :=
  lazyOf T c e = true → ∃ t2, W.decode e (c.b.drop T.maxProcessed) = .ok (some t2)

theorem remainder_ok {W : World E L} {T : Tables E} {c : Ctx E} {soft : List E} {e : E} {p : Prepared}
    {acc : ChunkAcc} (hp : probePrepare W T c soft e = .ok (.go p))
    (hr : probeRemainder W T c e p acc = .ok false) (hl : acc.lazyHard = false) : RemainderOk W T c e := by
  intro hlazy
  obtain ⟨_, _, hpl, _⟩ := probePrepare_go hp
  unfold probeRemainder at hr
  rw [hl, hpl, hlazy] at hr
  simp only [Bool.not_false, Bool.and_self, ↓reduceIte] at hr
  split at hr
  · cases hr
  · rename_i sl2 hsl2
    obtain ⟨_, _, hsl⟩ := sliceF_ok hsl2
    have : sl2 = c.b.drop T.maxProcessed := by
      rw [hsl]; apply List.take_of_length_le; simp
    subst this
    split at hr
    · cases hr
    · cases hr
    · rename_i t2 ht2
      exact ⟨t2, ht2⟩

/-- facts about an accepted candidate -/
structure AcceptedFacts (W : World E L) (T : Tables E) (c : Ctx E) (e : E) (m : Match E L) : Prop where
  raw : m.raw = c.b
  enc : m.enc = e
  subs : m.subs = []
  bom : m.bom = bomHereOf c e
  below : Fl.ge m.chaos c.thr = false
  needsBom : needsBomCond T c e = false
  text : TextOk W T c e m.text
  chaosMean : ∃ ratios, m.chaos = meanRatio ratios ∧ ∀ r ∈ ratios, ∃ t, W.mess t c.thr = .ok r
  cohMerged : ∃ cdl, W.merge cdl = .ok m.cohs
  remainder : RemainderOk W T c e
  /-- the exact chunk analysis behind the chaos value -/
  chunksFact : ∃ p acc, p.lazy = lazyOf T c e ∧ p.bomHere = bomHereOf c e ∧ p.startIdx = startIdxOf c e ∧
    (lazyOf T c e = false → p.payload = m.text) ∧ (lazyOf T c e = true → p.payload = none) ∧
    probeChunks W T c e p = .ok acc ∧ m.chaos = meanRatio acc.ratios ∧ acc.lazyHard = false ∧
    cdsOf W T c e acc = (cdsOf W T c e acc) ∧ (∃ cdl, cdsOf W T c e acc = .ok cdl ∧ W.merge cdl = .ok m.cohs)

theorem accepted_facts {W : World E L} {T : Tables E} {c : Ctx E} {soft : List E} {e : E} {m : Match E L}
    (h : ProbeShape W T c soft e (.accepted m)) : AcceptedFacts W T c e m := by
  cases h with
  | accepted p acc m' hp hc hr hs ha =>
    obtain ⟨m', cdl, merged, hv, hcds, hmerge, hm⟩ := probeAccept_spec ha
    cases hv
    have hmm := mkMatch_spec hm
    obtain ⟨hb, hsi, hlz, hnb, _, sl0, t00, _, _, hpay⟩ := probePrepare_go hp
    have hsf := hs
    unfold softFailCond at hsf
    simp only [Bool.or_eq_false_iff, decide_eq_false_iff_not, Nat.not_le] at hsf
    have hlh : acc.lazyHard = false := by
      -- an invalid chunk sets early := maxGaveUp, which would have been a soft failure
      cases hl : acc.lazyHard with
      | false => rfl
      | true =>
        exfalso
        have := probeChunks_lazyHard hc hl
        omega
    refine ⟨hmm.1, hmm.2.1, hmm.2.2.2.2.2.1, by rw [hmm.2.2.2.1, hb], ?_, hnb, textOk_of_prepare hp hm,
      ⟨acc.ratios, hmm.2.2.1, probeChunks_ratios hc⟩, ⟨cdl, by rw [hmm.2.2.2.2.1]; assumption⟩,
      remainder_ok hp hr hlh,
      ⟨p, acc, hlz, hb, hsi, ?_, ?_, hc, hmm.2.2.1, hlh, rfl, cdl, hcds, by rw [hmm.2.2.2.2.1]; exact hmerge⟩⟩
    · rw [hmm.2.2.1]
      exact hsf.1
    · intro hl
      have : p.payload = some t00 := by rw [hpay]; simp [payloadOf, hl]
      rw [this, hmm.2.2.2.2.2.2.1 t00 this]
    · intro hl
      rw [hpay]; simp [payloadOf, hl]

/-- facts about a prepared fallback entry -/
structure FallbackFacts (W : World E L) (T : Tables E) (c : Ctx E) (e : E) (fb : Match E L) : Prop where
  raw : fb.raw = c.b
  enc : fb.enc = e
  subs : fb.subs = []
  bom : fb.bom = false
  chaos : fb.chaos = c.thr
  cohs : fb.cohs = []
  enabled : c.fallback = true
  hint : c.prio.contains e = true
  needsBom : needsBomCond T c e = false
  text : TextOk W T c e fb.text
  remainder : RemainderOk W T c e
  /-- the chunk analysis that preceded the soft failure: no chunk was invalid -/
  chunks : ∃ p acc, p.bomHere = bomHereOf c e ∧ (lazyOf T c e = false → p.payload = fb.text) ∧
    (lazyOf T c e = true → p.payload = none) ∧ probeChunks W T c e p = .ok acc ∧ acc.lazyHard = false

theorem fallback_facts {W : World E L} {T : Tables E} {c : Ctx E} {soft : List E} {e : E} {fb : Match E L}
    (h : ProbeShape W T c soft e (.softFail (some fb))) : FallbackFacts W T c e fb := by
  cases h with
  | soft p acc fb' hp hc hr hs hsoft =>
    rcases probeSoft_spec hsoft with hv | ⟨fb', hv, hcond, hm⟩
    · cases hv
    · cases hv
      have hmm := mkMatch_spec hm
      obtain ⟨hbh, _, _, hnb, _, sl0, t00, _, _, hpay⟩ := probePrepare_go hp
      unfold fallbackCond at hcond
      simp only [Bool.and_eq_true] at hcond
      have hlh : acc.lazyHard = false := by simpa using hcond.1.2
      refine ⟨hmm.1, hmm.2.1, hmm.2.2.2.2.2.1, hmm.2.2.2.1, hmm.2.2.1, hmm.2.2.2.2.1, hcond.1.1, hcond.2, hnb,
        textOk_of_prepare hp hm, remainder_ok hp hr hlh, ⟨p, acc, hbh, ?_, ?_, hc, hlh⟩⟩
      · intro hl
        have : p.payload = some t00 := by rw [hpay]; simp [payloadOf, hl]
        rw [this, hmm.2.2.2.2.2.2.1 t00 this]
      · intro hl
        rw [hpay]; simp [payloadOf, hl]

end Charset
