/-
  A small theory of the soft-float model: rounding to nearest is monotone (every format), values are
  monotone in keys, small integers are exact, and the results of `add` / `div` on finite non-negative
  floats are the roundings of the exact results.  Used to bound the coherence scores by 1.
-/
import CharsetProof.Model.F32
namespace Charset
namespace Fl

/-! ### comparing a ratio with a power of two at a common scale -/

theorem ge2pow_iff (n d : Nat) (E : Int) (K : Nat) (hK : 0 ≤ (K : Int) + E) :
    ge2pow n d E = true ↔ d * 2 ^ ((K : Int) + E).toNat ≤ n * 2 ^ K := by
  unfold ge2pow
  by_cases hE : 0 ≤ E
  · simp only [hE, ↓reduceIte, decide_eq_true_eq]
    have : ((K : Int) + E).toNat = K + E.toNat := by omega
    rw [this, Nat.pow_add, ← Nat.mul_assoc, Nat.mul_comm (d * 2 ^ K), ← Nat.mul_assoc, Nat.mul_comm (2 ^ E.toNat) d]
    constructor
    · intro h; exact Nat.mul_le_mul_right _ h
    · intro h; exact Nat.le_of_mul_le_mul_right h (Nat.two_pow_pos K)
  · simp only [hE, ↓reduceIte, decide_eq_true_eq]
    have hsplit : K = ((K : Int) + E).toNat + (-E).toNat := by omega
    have hpow : 2 ^ K = 2 ^ ((K : Int) + E).toNat * 2 ^ (-E).toNat := by
      rw [← Nat.pow_add]; congr 1
    rw [hpow, Nat.mul_comm (2 ^ ((K : Int) + E).toNat), ← Nat.mul_assoc]
    constructor
    · intro h; exact Nat.mul_le_mul_right _ h
    · intro h; exact Nat.le_of_mul_le_mul_right h (Nat.two_pow_pos _)

/-- `floorLog2 n d = E` with `2^E ≤ n/d < 2^(E+1)` -/
theorem floorLog2_spec (n d : Nat) (hn : 0 < n) (hd : 0 < d) :
    ge2pow n d (floorLog2 n d) = true ∧ ge2pow n d (floorLog2 n d + 1) = false := by
  have ha1 : 2 ^ n.log2 ≤ n := Nat.log2_self_le (by omega)
  have ha2 : n < 2 ^ (n.log2 + 1) := Nat.lt_log2_self
  have hb1 : 2 ^ d.log2 ≤ d := Nat.log2_self_le (by omega)
  have hb2 : d < 2 ^ (d.log2 + 1) := Nat.lt_log2_self
  unfold floorLog2
  simp only []
  generalize n.log2 = a at *
  generalize d.log2 = b at *
  -- scale K = b + 1
  have hupper : ge2pow n d ((a : Int) - b + 1) = false := by
    cases h : ge2pow n d ((a : Int) - b + 1) with
    | false => rfl
    | true =>
      have := (ge2pow_iff n d ((a : Int) - b + 1) (b + 1) (by omega)).mp h
      have e : (((b + 1 : Nat) : Int) + ((a : Int) - b + 1)).toNat = a + 2 := by omega
      rw [e] at this
      -- d * 2^(a+2) ≥ 2^b * 2^(a+2) > n * 2^(b+1)
      have h1 : 2 ^ b * 2 ^ (a + 2) ≤ d * 2 ^ (a + 2) := Nat.mul_le_mul_right _ hb1
      have h2 : n * 2 ^ (b + 1) < 2 ^ (a + 1) * 2 ^ (b + 1) := Nat.mul_lt_mul_of_pos_right ha2 (Nat.two_pow_pos _)
      have h3 : 2 ^ b * 2 ^ (a + 2) = 2 ^ (a + 1) * 2 ^ (b + 1) := by
        rw [← Nat.pow_add, ← Nat.pow_add]; congr 1; omega
      omega
  have hlower : ge2pow n d ((a : Int) - b - 1) = true := by
    apply (ge2pow_iff n d ((a : Int) - b - 1) (b + 1) (by omega)).mpr
    have e : (((b + 1 : Nat) : Int) + ((a : Int) - b - 1)).toNat = a := by omega
    rw [e]
    have h1 : d * 2 ^ a ≤ 2 ^ (b + 1) * 2 ^ a := Nat.mul_le_mul_right _ (Nat.le_of_lt hb2)
    have h2 : 2 ^ a * 2 ^ (b + 1) ≤ n * 2 ^ (b + 1) := Nat.mul_le_mul_right _ ha1
    have h3 : 2 ^ (b + 1) * 2 ^ a = 2 ^ a * 2 ^ (b + 1) := Nat.mul_comm _ _
    omega
  split
  · rename_i h
    exact ⟨h, hupper⟩
  · rename_i h
    refine ⟨hlower, ?_⟩
    have : (a : Int) - b - 1 + 1 = (a : Int) - b := by omega
    rw [this]
    cases hh : ge2pow n d ((a : Int) - b) with
    | false => rfl
    | true => exact absurd hh h

/-! ### round-half-even of a ratio is monotone -/

/-- the integer nearest to `n/d`, ties to even (the `m'` of `roundPos`) -/
def rnd (n d : Nat) : Nat :=
  if d < 2 * (n % d) ∨ (2 * (n % d) = d ∧ (n / d) % 2 = 1) then n / d + 1 else n / d

theorem div_le_div_cross (n1 d1 n2 d2 : Nat) (hd1 : 0 < d1) (hd2 : 0 < d2) (h : n1 * d2 ≤ n2 * d1) :
    n1 / d1 ≤ n2 / d2 := by
  apply (Nat.le_div_iff_mul_le hd2).mpr
  -- (n1/d1) * d2 ≤ n2  ⇐  (n1/d1) * d2 * d1 ≤ n2 * d1
  apply Nat.le_of_mul_le_mul_right _ hd1
  have h1 : n1 / d1 * d1 ≤ n1 := Nat.div_mul_le_self n1 d1
  have h2 : n1 / d1 * d2 * d1 = n1 / d1 * d1 * d2 := by
    rw [Nat.mul_assoc, Nat.mul_comm d2 d1, ← Nat.mul_assoc]
  rw [h2]
  exact Nat.le_trans (Nat.mul_le_mul_right _ h1) h

theorem rnd_mono (n1 d1 n2 d2 : Nat) (hd1 : 0 < d1) (hd2 : 0 < d2) (h : n1 * d2 ≤ n2 * d1) :
    rnd n1 d1 ≤ rnd n2 d2 := by
  have hm := div_le_div_cross n1 d1 n2 d2 hd1 hd2 h
  have hup1 : rnd n1 d1 ≤ n1 / d1 + 1 := by unfold rnd; split <;> omega
  have hlo2 : n2 / d2 ≤ rnd n2 d2 := by unfold rnd; split <;> omega
  rcases Nat.lt_or_ge (n1 / d1) (n2 / d2) with hlt | hge
  · omega
  · have heq : n1 / d1 = n2 / d2 := by omega
    -- same integer part m: compare the remainders by cross-multiplication
    have e1 := Nat.div_add_mod n1 d1
    have e2 := Nat.div_add_mod n2 d2
    generalize hm1 : n1 / d1 = m at *
    generalize hr1 : n1 % d1 = r1 at *
    generalize hr2 : n2 % d2 = r2 at *
    rw [← heq] at e2
    -- n1 = d1*m + r1, n2 = d2*m + r2
    have hr : r1 * d2 ≤ r2 * d1 := by
      have a1 : n1 * d2 = d1 * m * d2 + r1 * d2 := by rw [← e1, Nat.add_mul]
      have a2 : n2 * d1 = d2 * m * d1 + r2 * d1 := by rw [← e2, Nat.add_mul]
      have a3 : d1 * m * d2 = d2 * m * d1 := by
        rw [Nat.mul_comm d1 m, Nat.mul_assoc, Nat.mul_comm d1 d2, ← Nat.mul_assoc, Nat.mul_comm m d2]
      omega
    unfold rnd
    rw [hm1, hr1, hr2, ← heq]
    by_cases hu1 : d1 < 2 * r1 ∨ (2 * r1 = d1 ∧ m % 2 = 1)
    · have hu2 : d2 < 2 * r2 ∨ (2 * r2 = d2 ∧ m % 2 = 1) := by
        -- 2*r2*d1 ≥ 2*r1*d2
        have hh : 2 * r1 * d2 ≤ 2 * r2 * d1 := by
          rw [Nat.mul_assoc, Nat.mul_assoc]; exact Nat.mul_le_mul_left 2 hr
        rcases hu1 with hgt | ⟨hequ, hodd⟩
        · left
          -- d1*d2 < 2*r1*d2 ≤ 2*r2*d1  ⇒ d2 < 2*r2
          have : d1 * d2 < 2 * r1 * d2 := Nat.mul_lt_mul_of_pos_right hgt hd2
          have : d2 * d1 < 2 * r2 * d1 := by rw [Nat.mul_comm d2 d1]; omega
          exact Nat.lt_of_mul_lt_mul_right this
        · have : d2 * d1 ≤ 2 * r2 * d1 := by
            have : d1 * d2 = 2 * r1 * d2 := by rw [hequ]
            rw [Nat.mul_comm d2 d1]; omega
          have hge2 : d2 ≤ 2 * r2 := Nat.le_of_mul_le_mul_right this hd1
          rcases Nat.lt_or_ge d2 (2 * r2) with hl | hg
          · left; exact hl
          · right; exact ⟨by omega, hodd⟩
      simp only [hu1, hu2, ↓reduceIte]; omega
    · simp only [hu1, ↓reduceIte]
      split <;> omega

/-! ### `ge2pow` is monotone in the exponent and in the ratio -/

theorem ge2pow_anti_E (n d : Nat) (E E' : Int) (hle : E' ≤ E) (h : ge2pow n d E = true) : ge2pow n d E' = true := by
  -- common scale K with K + E' ≥ 0
  let K : Nat := (-E').toNat
  have hK' : 0 ≤ (K : Int) + E' := by omega
  have hK : 0 ≤ (K : Int) + E := by omega
  have h1 := (ge2pow_iff n d E K hK).mp h
  apply (ge2pow_iff n d E' K hK').mpr
  have : 2 ^ ((K : Int) + E').toNat ≤ 2 ^ ((K : Int) + E).toNat := Nat.pow_le_pow_right (by decide) (by omega)
  exact Nat.le_trans (Nat.mul_le_mul_left d this) h1

theorem ge2pow_mono_v (n1 d1 n2 d2 : Nat) (hd1 : 0 < d1) (E : Int) (hv : n1 * d2 ≤ n2 * d1)
    (h : ge2pow n1 d1 E = true) : ge2pow n2 d2 E = true := by
  let K : Nat := (-E).toNat
  have hK : 0 ≤ (K : Int) + E := by omega
  have h1 := (ge2pow_iff n1 d1 E K hK).mp h
  apply (ge2pow_iff n2 d2 E K hK).mpr
  generalize ((K : Int) + E).toNat = j at *
  -- d1 * 2^j ≤ n1 * 2^K,  n1*d2 ≤ n2*d1  ⇒  d2 * 2^j ≤ n2 * 2^K   (multiply through by d1 and cancel)
  apply Nat.le_of_mul_le_mul_right _ hd1
  have a1 : d2 * 2 ^ j * d1 = d1 * 2 ^ j * d2 := by
    rw [Nat.mul_comm d2, Nat.mul_assoc, Nat.mul_comm d2 d1, ← Nat.mul_assoc, Nat.mul_comm (2 ^ j) d1]
  have a2 : d1 * 2 ^ j * d2 ≤ n1 * 2 ^ K * d2 := Nat.mul_le_mul_right _ h1
  have a3 : n1 * 2 ^ K * d2 = n1 * d2 * 2 ^ K := by rw [Nat.mul_assoc, Nat.mul_comm (2 ^ K), ← Nat.mul_assoc]
  have a4 : n1 * d2 * 2 ^ K ≤ n2 * d1 * 2 ^ K := Nat.mul_le_mul_right _ hv
  have a5 : n2 * d1 * 2 ^ K = n2 * 2 ^ K * d1 := by rw [Nat.mul_assoc, Nat.mul_comm d1, ← Nat.mul_assoc]
  omega

/-- the binary exponent is monotone in the ratio -/
theorem floorLog2_mono (n1 d1 n2 d2 : Nat) (hn1 : 0 < n1) (hd1 : 0 < d1) (hn2 : 0 < n2) (hd2 : 0 < d2)
    (hv : n1 * d2 ≤ n2 * d1) : floorLog2 n1 d1 ≤ floorLog2 n2 d2 := by
  have s1 := floorLog2_spec n1 d1 hn1 hd1
  have s2 := floorLog2_spec n2 d2 hn2 hd2
  rcases Int.lt_or_le (floorLog2 n2 d2) (floorLog2 n1 d1) with hlt | hle
  · exfalso
    have h1 := ge2pow_anti_E n1 d1 _ (floorLog2 n2 d2 + 1) (by omega) s1.1
    have h2 := ge2pow_mono_v n1 d1 n2 d2 hd1 _ hv h1
    rw [s2.2] at h2
    cases h2
  · exact hle

/-! ### the pieces of `roundPos` -/

def qOf (f : Fmt) (n d : Nat) : Int := max (floorLog2 n d - f.mbits) f.qmin
def sn (n : Nat) (q : Int) : Nat := if 0 ≤ q then n else n * 2 ^ (-q).toNat
def sd (d : Nat) (q : Int) : Nat := if 0 ≤ q then d * 2 ^ q.toNat else d
def cap (f : Fmt) (k : Nat) : Nat := if f.infKey ≤ k then f.infKey else k

theorem roundPos_eq (f : Fmt) (n d : Nat) (hn : 0 < n) (hd : 0 < d) :
    roundPos f n d = cap f ((qOf f n d - f.qmin).toNat * 2 ^ f.mbits + rnd (sn n (qOf f n d)) (sd d (qOf f n d))) := by
  unfold roundPos
  have h0 : ¬ (n = 0 ∨ d = 0) := by omega
  simp only [h0, ↓reduceIte]
  rfl

theorem sd_pos (d : Nat) (q : Int) (hd : 0 < d) : 0 < sd d q := by
  unfold sd; split
  · exact Nat.mul_pos hd (Nat.two_pow_pos _)
  · exact hd

/-- `sn/sd` is `n/d` scaled by `2^(-q)`: cross-multiplied at any common scale `K` -/
theorem scaled_cross (n d : Nat) (q : Int) (K : Nat) (hK : 0 ≤ (K : Int) + q) :
    sn n q * (d * 2 ^ ((K : Int) + q).toNat) = n * 2 ^ K * sd d q := by
  unfold sn sd
  by_cases hq : 0 ≤ q
  · simp only [hq, ↓reduceIte]
    have : ((K : Int) + q).toNat = K + q.toNat := by omega
    rw [this, Nat.pow_add]
    ac_rfl
  · simp only [hq, ↓reduceIte]
    have hsplit : K = (-q).toNat + ((K : Int) + q).toNat := by omega
    have hpow : 2 ^ K = 2 ^ (-q).toNat * 2 ^ ((K : Int) + q).toNat := by rw [← Nat.pow_add]; congr 1
    rw [hpow]
    ac_rfl

/-- the scaled ratio lies below `2^(mbits+1)`, and – unless the exponent was clamped to `qmin` (subnormal) –
    at or above `2^mbits` -/
theorem scaled_bounds (f : Fmt) (n d : Nat) (hn : 0 < n) (hd : 0 < d) :
    sn n (qOf f n d) < 2 ^ (f.mbits + 1) * sd d (qOf f n d) ∧
    (f.qmin < qOf f n d → 2 ^ f.mbits * sd d (qOf f n d) ≤ sn n (qOf f n d)) := by
  have spec := floorLog2_spec n d hn hd
  have hq1 : floorLog2 n d - f.mbits ≤ qOf f n d := by unfold qOf; omega
  generalize hq : qOf f n d = q at *
  -- a scale at which every exponent used below is non-negative
  let K : Nat := (-q).toNat
  have hK : 0 ≤ (K : Int) + q := by omega
  have hcross := scaled_cross n d q K hK
  have hD : 0 < d * 2 ^ ((K : Int) + q).toNat := Nat.mul_pos hd (Nat.two_pow_pos _)
  generalize hDdef : d * 2 ^ ((K : Int) + q).toNat = D at *
  constructor
  · -- n/d < 2^(q + mbits + 1)
    have hno : ge2pow n d (q + f.mbits + 1) = false := by
      cases h : ge2pow n d (q + f.mbits + 1) with
      | false => rfl
      | true =>
        have := ge2pow_anti_E n d _ (floorLog2 n d + 1) (by omega) h
        rw [spec.2] at this; cases this
    have hlt : n * 2 ^ K < D * 2 ^ (f.mbits + 1) := by
      have hnot : ¬ (d * 2 ^ ((K : Int) + (q + f.mbits + 1)).toNat ≤ n * 2 ^ K) := by
        intro hle
        have := (ge2pow_iff n d (q + f.mbits + 1) K (by omega)).mpr hle
        rw [hno] at this; cases this
      have e : ((K : Int) + (q + f.mbits + 1)).toNat = ((K : Int) + q).toNat + (f.mbits + 1) := by omega
      rw [e, Nat.pow_add, ← Nat.mul_assoc, hDdef] at hnot
      omega
    -- sn * D = n*2^K*sd < D * 2^(mb+1) * sd
    have h1 : sn n q * D < D * 2 ^ (f.mbits + 1) * sd d q := by
      rw [hcross]; exact Nat.mul_lt_mul_of_pos_right hlt (sd_pos d q hd)
    have h2 : D * 2 ^ (f.mbits + 1) * sd d q = 2 ^ (f.mbits + 1) * sd d q * D := by ac_rfl
    rw [h2] at h1
    exact Nat.lt_of_mul_lt_mul_right h1
  · intro hnormal
    have hqe : q = floorLog2 n d - f.mbits := by
      rw [← hq]; unfold qOf
      have : f.qmin < max (floorLog2 n d - f.mbits) f.qmin := by rw [← hq] at hnormal; exact hnormal
      omega
    have hge : ge2pow n d (q + f.mbits) = true := by
      have : q + f.mbits = floorLog2 n d := by omega
      rw [this]; exact spec.1
    have hle := (ge2pow_iff n d (q + f.mbits) K (by omega)).mp hge
    have e : ((K : Int) + (q + f.mbits)).toNat = ((K : Int) + q).toNat + f.mbits := by omega
    rw [e, Nat.pow_add, ← Nat.mul_assoc, hDdef] at hle
    have h1 : D * 2 ^ f.mbits * sd d q ≤ sn n q * D := by
      rw [hcross]; exact Nat.mul_le_mul_right _ hle
    have h2 : D * 2 ^ f.mbits * sd d q = 2 ^ f.mbits * sd d q * D := by ac_rfl
    rw [h2] at h1
    exact Nat.le_of_mul_le_mul_right h1 hD

theorem cap_mono (f : Fmt) (a b : Nat) (h : a ≤ b) : cap f a ≤ cap f b := by
  unfold cap; split <;> split <;> omega

theorem rnd_le_succ_div (n d : Nat) : rnd n d ≤ n / d + 1 := by unfold rnd; split <;> omega
theorem div_le_rnd (n d : Nat) : n / d ≤ rnd n d := by unfold rnd; split <;> omega

theorem scaled_cross_le (n1 d1 n2 d2 : Nat) (q : Int) (hv : n1 * d2 ≤ n2 * d1) :
    sn n1 q * sd d2 q ≤ sn n2 q * sd d1 q := by
  unfold sn sd
  by_cases hq : 0 ≤ q
  · simp only [hq, ↓reduceIte]
    have e1 : n1 * (d2 * 2 ^ q.toNat) = n1 * d2 * 2 ^ q.toNat := by ac_rfl
    have e2 : n2 * (d1 * 2 ^ q.toNat) = n2 * d1 * 2 ^ q.toNat := by ac_rfl
    rw [e1, e2]; exact Nat.mul_le_mul_right _ hv
  · simp only [hq, ↓reduceIte]
    have e1 : n1 * 2 ^ (-q).toNat * d2 = n1 * d2 * 2 ^ (-q).toNat := by ac_rfl
    have e2 : n2 * 2 ^ (-q).toNat * d1 = n2 * d1 * 2 ^ (-q).toNat := by ac_rfl
    rw [e1, e2]; exact Nat.mul_le_mul_right _ hv

/-- **rounding to the nearest float is monotone**: `n1/d1 ≤ n2/d2` implies
    `key(round(n1/d1)) ≤ key(round(n2/d2))`, for every format -/
theorem roundPos_mono (f : Fmt) (n1 d1 n2 d2 : Nat) (hd1 : 0 < d1) (hd2 : 0 < d2)
    (hv : n1 * d2 ≤ n2 * d1) : roundPos f n1 d1 ≤ roundPos f n2 d2 := by
  rcases Nat.eq_zero_or_pos n1 with h0 | hn1
  · subst h0; unfold roundPos; simp
  have hn2 : 0 < n2 := by
    rcases Nat.eq_zero_or_pos n2 with h0 | h
    · subst h0
      have : 0 < n1 * d2 := Nat.mul_pos hn1 hd2
      omega
    · exact h
  rw [roundPos_eq f n1 d1 hn1 hd1, roundPos_eq f n2 d2 hn2 hd2]
  apply cap_mono
  have hE := floorLog2_mono n1 d1 n2 d2 hn1 hd1 hn2 hd2 hv
  have hq12 : qOf f n1 d1 ≤ qOf f n2 d2 := by unfold qOf; omega
  have hqmin1 : f.qmin ≤ qOf f n1 d1 := by unfold qOf; omega
  have b1 := scaled_bounds f n1 d1 hn1 hd1
  have b2 := scaled_bounds f n2 d2 hn2 hd2
  generalize qOf f n1 d1 = q1 at *
  generalize qOf f n2 d2 = q2 at *
  rcases Int.lt_or_le q1 q2 with hlt | hge
  · -- different binades: everything of the lower one is below everything of the upper one
    have hm1 : rnd (sn n1 q1) (sd d1 q1) ≤ 2 ^ (f.mbits + 1) := by
      have := rnd_le_succ_div (sn n1 q1) (sd d1 q1)
      have hdiv : sn n1 q1 / sd d1 q1 < 2 ^ (f.mbits + 1) :=
        (Nat.div_lt_iff_lt_mul (sd_pos d1 q1 hd1)).mpr b1.1
      omega
    have hm2 : 2 ^ f.mbits ≤ rnd (sn n2 q2) (sd d2 q2) := by
      have hnorm := b2.2 (by omega)
      have hdiv : 2 ^ f.mbits ≤ sn n2 q2 / sd d2 q2 := (Nat.le_div_iff_mul_le (sd_pos d2 q2 hd2)).mpr hnorm
      exact Nat.le_trans hdiv (div_le_rnd _ _)
    have hA : (q1 - f.qmin).toNat + 1 ≤ (q2 - f.qmin).toNat := by omega
    have hpow : 2 ^ (f.mbits + 1) = 2 * 2 ^ f.mbits := by rw [Nat.pow_succ]; omega
    have hmul : ((q1 - f.qmin).toNat + 1) * 2 ^ f.mbits ≤ (q2 - f.qmin).toNat * 2 ^ f.mbits :=
      Nat.mul_le_mul_right _ hA
    rw [Nat.add_mul, Nat.one_mul] at hmul
    omega
  · have heq : q1 = q2 := by omega
    subst heq
    have := rnd_mono (sn n1 q1) (sd d1 q1) (sn n2 q1) (sd d2 q1) (sd_pos d1 q1 hd1) (sd_pos d2 q1 hd2)
      (scaled_cross_le n1 d1 n2 d2 q1 hv)
    omega

theorem roundPos_ratio_eq (f : Fmt) (n1 d1 n2 d2 : Nat) (hd1 : 0 < d1) (hd2 : 0 < d2)
    (h : n1 * d2 = n2 * d1) : roundPos f n1 d1 = roundPos f n2 d2 :=
  Nat.le_antisymm (roundPos_mono f n1 d1 n2 d2 hd1 hd2 (by omega)) (roundPos_mono f n2 d2 n1 d1 hd2 hd1 (by omega))

/-! ### the value of a finite non-negative float as an integer multiple of `2^qmin` -/

/-- `ival k = value(k) / 2^qmin` for a finite non-negative key -/
def ival (f : Fmt) (k : Nat) : Nat :=
  let e := k / 2 ^ f.mbits
  let fr := k % 2 ^ f.mbits
  if e = 0 then fr else (2 ^ f.mbits + fr) * 2 ^ (e - 1)

theorem decodeKey_ival (f : Fmt) (k : Nat) :
    (decodeKey f k).1 * 2 ^ ((decodeKey f k).2 - f.qmin).toNat = ival f k ∧ f.qmin ≤ (decodeKey f k).2 := by
  unfold decodeKey ival
  simp only []
  split
  · simp
  · rename_i he
    have : (f.qmin + ((k / 2 ^ f.mbits : Nat) : Int) - 1 - f.qmin).toNat = k / 2 ^ f.mbits - 1 := by omega
    simp only [this]
    refine ⟨trivial, ?_⟩
    have : (0 : Int) ≤ ((k / 2 ^ f.mbits : Nat) : Int) := Int.natCast_nonneg _
    have h1 : 1 ≤ k / 2 ^ f.mbits := by omega
    omega

/-- **the value is monotone in the key** -/
theorem ival_mono (f : Fmt) (k1 k2 : Nat) (h : k1 ≤ k2) : ival f k1 ≤ ival f k2 := by
  unfold ival
  simp only []
  have hp : 0 < 2 ^ f.mbits := Nat.two_pow_pos _
  have he : k1 / 2 ^ f.mbits ≤ k2 / 2 ^ f.mbits := Nat.div_le_div_right h
  have hf1 : k1 % 2 ^ f.mbits < 2 ^ f.mbits := Nat.mod_lt _ hp
  have hf2 : k2 % 2 ^ f.mbits < 2 ^ f.mbits := Nat.mod_lt _ hp
  have d1 := Nat.div_add_mod k1 (2 ^ f.mbits)
  have d2 := Nat.div_add_mod k2 (2 ^ f.mbits)
  generalize k1 / 2 ^ f.mbits = e1 at *
  generalize k2 / 2 ^ f.mbits = e2 at *
  generalize k1 % 2 ^ f.mbits = r1 at *
  generalize k2 % 2 ^ f.mbits = r2 at *
  generalize 2 ^ f.mbits = P at *
  rcases Nat.lt_or_ge e1 e2 with hlt | hge
  · -- lower binade: ival1 < P * 2^e1 ≤ P * 2^(e2-1) ≤ ival2
    have h2 : ¬ e2 = 0 := by omega
    simp only [h2, ↓reduceIte]
    have hbig : P * 2 ^ (e2 - 1) ≤ (P + r2) * 2 ^ (e2 - 1) := Nat.mul_le_mul_right _ (by omega)
    by_cases h1 : e1 = 0
    · simp only [h1, ↓reduceIte]
      have : P * 1 ≤ P * 2 ^ (e2 - 1) := Nat.mul_le_mul_left P (Nat.one_le_two_pow)
      omega
    · simp only [h1, ↓reduceIte]
      have a1 : (P + r1) * 2 ^ (e1 - 1) < (P + P) * 2 ^ (e1 - 1) :=
        Nat.mul_lt_mul_of_pos_right (by omega) (Nat.two_pow_pos _)
      have a2 : (P + P) * 2 ^ (e1 - 1) = P * 2 ^ e1 := by
        have : 2 ^ e1 = 2 * 2 ^ (e1 - 1) := by
          rw [← Nat.pow_succ']; congr 1; omega
        rw [this]; rw [← Nat.two_mul]; ac_rfl
      have a3 : P * 2 ^ e1 ≤ P * 2 ^ (e2 - 1) := Nat.mul_le_mul_left P (Nat.pow_le_pow_right (by decide) (by omega))
      omega
  · have heq : e1 = e2 := by omega
    subst heq
    have hr : r1 ≤ r2 := by
      have : P * e1 + r1 ≤ P * e1 + r2 := by omega
      omega
    split
    · exact hr
    · exact Nat.mul_le_mul_right _ (by omega)

/-- the scale: `ival` counts multiples of `2^qmin` -/
def scale (f : Fmt) : Nat := 2 ^ (-f.qmin).toNat

theorem floorLog2_one' (n : Nat) (h : 1 ≤ n) : floorLog2 n 1 = (Nat.log2 n : Int) := by
  unfold floorLog2
  have h1 : Nat.log2 1 = 0 := by decide
  have h2 : 2 ^ Nat.log2 n ≤ n := Nat.log2_self_le (by omega)
  simp only [h1, ge2pow]
  simp [h2]

/-- **small integers are represented exactly**: for `1 ≤ j < 2^(mbits+1)` (and a format whose smallest
    exponent is at most `-mbits`, and no overflow) the float nearest to `j` has value `j` -/
theorem ival_roundPos_nat (f : Fmt) (hq : f.qmin ≤ -(f.mbits : Int)) (j : Nat) (h1 : 1 ≤ j)
    (h2 : j < 2 ^ (f.mbits + 1)) (hcap : roundPos f j 1 < f.infKey) :
    ival f (roundPos f j 1) = j * scale f := by
  have hlo : 2 ^ j.log2 ≤ j := Nat.log2_self_le (by omega)
  have hhi : j < 2 ^ (j.log2 + 1) := Nat.lt_log2_self
  have hL : j.log2 ≤ f.mbits := by
    have : j.log2 < f.mbits + 1 := (Nat.log2_lt (by omega)).2 h2
    omega
  rw [roundPos_eq f j 1 (by omega) (by decide)] at hcap ⊢
  have hqv : qOf f j 1 = (j.log2 : Int) - f.mbits := by
    unfold qOf; rw [floorLog2_one' j h1]; omega
  rw [hqv] at hcap ⊢
  generalize hLdef : j.log2 = L at *
  have hneg : ¬ (0 : Int) ≤ (L : Int) - f.mbits ∨ (L : Int) - f.mbits = 0 := by omega
  -- sn = j * 2^(mbits - L), sd = 1 (also when the exponent is 0)
  have hsn : sn j ((L : Int) - f.mbits) = j * 2 ^ (f.mbits - L) := by
    unfold sn
    by_cases h0 : (0 : Int) ≤ (L : Int) - f.mbits
    · have h00 : f.mbits - L = 0 := by omega
      rw [if_pos h0, h00, Nat.pow_zero, Nat.mul_one]
    · have h00 : (-((L : Int) - f.mbits)).toNat = f.mbits - L := by omega
      rw [if_neg h0, h00]
  have hsd : sd 1 ((L : Int) - f.mbits) = 1 := by
    unfold sd
    by_cases h0 : (0 : Int) ≤ (L : Int) - f.mbits
    · have h00 : ((L : Int) - f.mbits).toNat = 0 := by omega
      rw [if_pos h0, h00, Nat.pow_zero]
    · rw [if_neg h0]
  rw [hsn, hsd] at hcap ⊢
  have hrnd : rnd (j * 2 ^ (f.mbits - L)) 1 = j * 2 ^ (f.mbits - L) := by
    unfold rnd; simp [Nat.mod_one]
  rw [hrnd] at hcap ⊢
  have hnocap : cap f (((L : Int) - f.mbits - f.qmin).toNat * 2 ^ f.mbits + j * 2 ^ (f.mbits - L)) =
      ((L : Int) - f.mbits - f.qmin).toNat * 2 ^ f.mbits + j * 2 ^ (f.mbits - L) := by
    unfold cap at hcap ⊢
    split
    · rename_i hc; simp only [hc, ↓reduceIte] at hcap; omega
    · rfl
  rw [hnocap]
  -- M := j * 2^(mbits-L) lies in [2^mbits, 2^(mbits+1))
  have hMlo : 2 ^ f.mbits ≤ j * 2 ^ (f.mbits - L) := by
    have : 2 ^ L * 2 ^ (f.mbits - L) = 2 ^ f.mbits := by rw [← Nat.pow_add]; congr 1; omega
    rw [← this]; exact Nat.mul_le_mul_right _ hlo
  have hMhi : j * 2 ^ (f.mbits - L) < 2 ^ f.mbits * 2 := by
    have : 2 ^ (L + 1) * 2 ^ (f.mbits - L) = 2 ^ f.mbits * 2 := by
      rw [← Nat.pow_add, ← Nat.pow_succ]; congr 1; omega
    rw [← this]; exact Nat.mul_lt_mul_of_pos_right hhi (Nat.two_pow_pos _)
  generalize hM : j * 2 ^ (f.mbits - L) = M at *
  generalize hA : ((L : Int) - f.mbits - f.qmin).toNat = A at *
  have hP : 0 < 2 ^ f.mbits := Nat.two_pow_pos _
  -- decode: e = A + 1, fr = M - 2^mbits
  unfold ival
  have hdiv : (A * 2 ^ f.mbits + M) / 2 ^ f.mbits = A + 1 := by
    have : A * 2 ^ f.mbits + M = (M - 2 ^ f.mbits) + (A + 1) * 2 ^ f.mbits := by
      rw [Nat.add_mul]; omega
    rw [this, Nat.add_mul_div_right _ _ hP, Nat.div_eq_of_lt (by omega)]; omega
  have hmod : (A * 2 ^ f.mbits + M) % 2 ^ f.mbits = M - 2 ^ f.mbits := by
    have : A * 2 ^ f.mbits + M = (M - 2 ^ f.mbits) + (A + 1) * 2 ^ f.mbits := by
      rw [Nat.add_mul]; omega
    rw [this, Nat.add_mul_mod_self_right, Nat.mod_eq_of_lt (by omega)]
  simp only [hdiv, hmod]
  have : ¬ (A + 1 = 0) := by omega
  simp only [this, ↓reduceIte, Nat.add_sub_cancel]
  have hMM : 2 ^ f.mbits + (M - 2 ^ f.mbits) = M := by omega
  rw [hMM, ← hM]
  -- j * 2^(mbits-L) * 2^A = j * 2^(-qmin)   with A = L - mbits - qmin
  unfold scale
  have : (-f.qmin).toNat = (f.mbits - L) + A := by omega
  rw [this, Nat.pow_add]; ac_rfl

/-! ### the arithmetic operations on finite non-negative floats, in terms of `ival` -/

variable {f : Fmt}

/-- finite and non-negative -/
def NN (x : Fl f) : Prop := 0 ≤ x.key ∧ x.key < f.infKey

theorem nn_flags {x : Fl f} (h : NN x) : x.isNaN = false ∧ x.isInf = false := by
  unfold isNaN isInf
  obtain ⟨h1, h2⟩ := h
  constructor <;> simp <;> omega

theorem toDy_nn {x : Fl f} (h : NN x) :
    x.toDy = (((decodeKey f x.key.toNat).1 : Int), (decodeKey f x.key.toNat).2) := by
  unfold toDy
  have h1 : ¬ x.key < 0 := by have := h.1; omega
  have h2 : x.key.natAbs = x.key.toNat := by have := h.1; omega
  rw [h2]
  simp only [h1, ↓reduceIte]

theorem ival_pos (f : Fmt) (k : Nat) (h : 0 < k) : 0 < ival f k := by
  unfold ival
  simp only []
  have hP : 0 < 2 ^ f.mbits := Nat.two_pow_pos _
  split
  · rename_i he
    have := Nat.div_add_mod k (2 ^ f.mbits)
    rw [he] at this
    omega
  · exact Nat.mul_pos (by omega) (Nat.two_pow_pos _)

/-- `a / b` rounds the ratio of the values -/
theorem div_key {a b : Fl f} (ha : NN a) (hb : NN b) (hb0 : 0 < b.key) :
    (div a b).key = roundPos f (ival f a.key.toNat) (ival f b.key.toNat) := by
  obtain ⟨hna, hia⟩ := nn_flags ha
  obtain ⟨hnb, hib⟩ := nn_flags hb
  have h1 : ¬ a.key < 0 := by have := ha.1; omega
  have h2 : ¬ b.key < 0 := by omega
  have h3 : ¬ b.key = 0 := by omega
  unfold div
  simp only [hna, hnb, hia, hib, Bool.false_eq_true, or_self, and_self, ↓reduceIte, h3]
  rw [toDy_nn ha, toDy_nn hb]
  simp only [h1, h2, ↓reduceIte, Int.natAbs_natCast]
  obtain ⟨ea1, ea2⟩ := decodeKey_ival f a.key.toNat
  obtain ⟨eb1, eb2⟩ := decodeKey_ival f b.key.toNat
  have hbpos := ival_pos f b.key.toNat (by omega)
  generalize decodeKey f a.key.toNat = da at *
  generalize decodeKey f b.key.toNat = db at *
  obtain ⟨ma, ea⟩ := da
  obtain ⟨mb, eb⟩ := db
  simp only at ea1 ea2 eb1 eb2 ⊢
  have hmb : 0 < mb := by
    rcases Nat.eq_zero_or_pos mb with h0 | h0
    · subst h0; simp at eb1; omega
    · exact h0
  congr 1
  by_cases hd : 0 ≤ ea - eb
  · simp only [hd, ↓reduceIte]
    apply roundPos_ratio_eq f _ _ _ _ hmb hbpos
    rw [← ea1, ← eb1]
    have : (ea - f.qmin).toNat = (ea - eb).toNat + (eb - f.qmin).toNat := by omega
    rw [this, Nat.pow_add]; ac_rfl
  · simp only [hd, ↓reduceIte]
    apply roundPos_ratio_eq f _ _ _ _ (Nat.mul_pos hmb (Nat.two_pow_pos _)) hbpos
    rw [← ea1, ← eb1]
    have : (eb - f.qmin).toNat = (-(ea - eb)).toNat + (ea - f.qmin).toNat := by omega
    rw [this, Nat.pow_add]; ac_rfl

/-- `a + b` rounds the sum of the values (formats with `qmin ≤ 0`) -/
theorem add_key (hq : f.qmin ≤ 0) {a b : Fl f} (ha : NN a) (hb : NN b) :
    (add a b).key = roundPos f (ival f a.key.toNat + ival f b.key.toNat) (scale f) := by
  obtain ⟨hna, hia⟩ := nn_flags ha
  obtain ⟨hnb, hib⟩ := nn_flags hb
  unfold add
  simp only [hna, hnb, hia, hib, Bool.false_eq_true, or_self, and_self, ↓reduceIte]
  rw [toDy_nn ha, toDy_nn hb]
  obtain ⟨ea1, ea2⟩ := decodeKey_ival f a.key.toNat
  obtain ⟨eb1, eb2⟩ := decodeKey_ival f b.key.toNat
  generalize decodeKey f a.key.toNat = da at *
  generalize decodeKey f b.key.toNat = db at *
  obtain ⟨ma, ea⟩ := da
  obtain ⟨mb, eb⟩ := db
  simp only at ea1 ea2 eb1 eb2 ⊢
  generalize he : min ea eb = e
  have hea : e ≤ ea := by omega
  have heb : e ≤ eb := by omega
  have heq : f.qmin ≤ e := by omega
  -- the exact sum as a natural number
  have hS : (ma : Int) * 2 ^ (ea - e).toNat + (mb : Int) * 2 ^ (eb - e).toNat
      = ((ma * 2 ^ (ea - e).toNat + mb * 2 ^ (eb - e).toNat : Nat) : Int) := by
    push_cast; rfl
  rw [hS]
  unfold ofSigned
  have hnn : ¬ (((ma * 2 ^ (ea - e).toNat + mb * 2 ^ (eb - e).toNat : Nat) : Int) < 0) := by omega
  simp only [hnn, ↓reduceIte, Int.natAbs_natCast]
  congr 1
  generalize hSn : ma * 2 ^ (ea - e).toNat + mb * 2 ^ (eb - e).toNat = S
  have hscale : 0 < scale f := Nat.two_pow_pos _
  -- ival a + ival b = S * 2^(e - qmin)
  have hsum : ival f a.key.toNat + ival f b.key.toNat = S * 2 ^ (e - f.qmin).toNat := by
    rw [← ea1, ← eb1, ← hSn, Nat.add_mul]
    have h1 : (ea - f.qmin).toNat = (ea - e).toNat + (e - f.qmin).toNat := by omega
    have h2 : (eb - f.qmin).toNat = (eb - e).toNat + (e - f.qmin).toNat := by omega
    rw [h1, h2, Nat.pow_add, Nat.pow_add]; ac_rfl
  rw [hsum]
  unfold roundDy scale
  by_cases h0 : 0 ≤ e
  · simp only [h0, ↓reduceIte]
    apply roundPos_ratio_eq f _ _ _ _ (by decide) (Nat.two_pow_pos _)
    have : (e - f.qmin).toNat = e.toNat + (-f.qmin).toNat := by omega
    rw [this, Nat.pow_add]; ac_rfl
  · simp only [h0, ↓reduceIte]
    apply roundPos_ratio_eq f _ _ _ _ (Nat.two_pow_pos _) (Nat.two_pow_pos _)
    have : (-f.qmin).toNat = (e - f.qmin).toNat + (-e).toNat := by omega
    rw [this, Nat.pow_add]; ac_rfl

/-! ### "at most `j`" for small integers `j` -/

/-- what the lemmas below need of a format: exponent range and no overflow for small integers -/
structure Good (f : Fmt) : Prop where
  qmin_le : f.qmin ≤ -(f.mbits : Int)
  nat_finite : ∀ j, j < 2 ^ (f.mbits + 1) → roundPos f j 1 < f.infKey

/-- `0 ≤ x ≤ j` (as values), stated on keys -/
def Le (x : Fl f) (j : Nat) : Prop := 0 ≤ x.key ∧ x.key ≤ (roundPos f j 1 : Int)

theorem ival_zero (f : Fmt) : ival f 0 = 0 := by
  unfold ival; simp

theorem le_nn (g : Good f) {x : Fl f} {j : Nat} (h : Le x j) (hj : j < 2 ^ (f.mbits + 1)) : NN x := by
  have := g.nat_finite j hj
  exact ⟨h.1, by have := h.2; omega⟩

theorem le_ival (g : Good f) {x : Fl f} {j : Nat} (h : Le x j) (hj : j < 2 ^ (f.mbits + 1)) :
    ival f x.key.toNat ≤ j * scale f := by
  have hk : x.key.toNat ≤ roundPos f j 1 := by have := h.1; have := h.2; omega
  have hm := ival_mono f _ _ hk
  rcases Nat.eq_zero_or_pos j with h0 | hpos
  · subst h0
    have : roundPos f 0 1 = 0 := by unfold roundPos; simp
    rw [this, ival_zero] at hm
    omega
  · rw [ival_roundPos_nat f g.qmin_le j hpos hj (g.nat_finite j hj)] at hm
    exact hm

theorem ofNat_le (a b : Nat) (h : a ≤ b) : Le (ofNat f a) b := by
  unfold Le ofNat
  have := roundPos_mono f a 1 b 1 (by decide) (by decide) (by omega)
  simp only
  omega

theorem scale_pos (f : Fmt) : 0 < scale f := Nat.two_pow_pos _

theorem add_le (g : Good f) {a b : Fl f} {i j : Nat} (ha : Le a i) (hb : Le b j)
    (hij : i + j < 2 ^ (f.mbits + 1)) : Le (add a b) (i + j) := by
  have hi : i < 2 ^ (f.mbits + 1) := by omega
  have hj : j < 2 ^ (f.mbits + 1) := by omega
  have hq0 : f.qmin ≤ 0 := by have := g.qmin_le; omega
  rw [Le, add_key hq0 (le_nn g ha hi) (le_nn g hb hj)]
  have h1 := le_ival g ha hi
  have h2 := le_ival g hb hj
  have hmono := roundPos_mono f (ival f a.key.toNat + ival f b.key.toNat) (scale f) (i + j) 1
    (scale_pos f) (by decide) (by
      have e : (i + j) * scale f = i * scale f + j * scale f := Nat.add_mul _ _ _
      rw [Nat.mul_one, e]; omega)
  constructor
  · exact Int.natCast_nonneg _
  · exact Int.ofNat_le.mpr hmono

theorem roundPos_nat_pos (g : Good f) (j : Nat) (h1 : 1 ≤ j) (hj : j < 2 ^ (f.mbits + 1)) : 0 < roundPos f j 1 := by
  rcases Nat.eq_zero_or_pos (roundPos f j 1) with h0 | h
  · have := ival_roundPos_nat f g.qmin_le j h1 hj (g.nat_finite j hj)
    rw [h0, ival_zero] at this
    have : 0 < j * scale f := Nat.mul_pos h1 (scale_pos f)
    omega
  · exact h

/-- dividing a value `≤ j` by `j` gives a value `≤ 1` -/
theorem div_le_one (g : Good f) {a : Fl f} {j : Nat} (ha : Le a j) (h1 : 1 ≤ j) (hj : j < 2 ^ (f.mbits + 1)) :
    Le (div a (ofNat f j)) 1 := by
  have hbk : (ofNat f j).key = (roundPos f j 1 : Int) := rfl
  have hpos := roundPos_nat_pos g j h1 hj
  have hbnn : NN (ofNat f j) := ⟨by rw [hbk]; exact Int.natCast_nonneg _, by rw [hbk]; exact Int.ofNat_lt.mpr (g.nat_finite j hj)⟩
  rw [Le, div_key (le_nn g ha hj) hbnn (by rw [hbk]; exact Int.ofNat_lt.mpr hpos)]
  have hiv : ival f (ofNat f j).key.toNat = j * scale f := by
    rw [hbk, Int.toNat_natCast]
    exact ival_roundPos_nat f g.qmin_le j h1 hj (g.nat_finite j hj)
  rw [hiv]
  have h2 := le_ival g ha hj
  have hmono := roundPos_mono f (ival f a.key.toNat) (j * scale f) 1 1
    (Nat.mul_pos h1 (scale_pos f)) (by decide) (by omega)
  exact ⟨Int.natCast_nonneg _, Int.ofNat_le.mpr hmono⟩

end Fl
end Charset
