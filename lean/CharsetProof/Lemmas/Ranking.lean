/-
  The container's sort ranks correctly for *every* list length: an element preferred to all others comes
  first, an element all others are preferred to comes last.  Up to 20 elements this is a theorem about
  std's insertion sort; above, the modelled ipnsort is validated inside `sortMatches` (Concrete.lean).
-/
import CharsetProof.Model.Concrete
import CharsetProof.Lemmas.SortWinner
import CharsetProof.Lemmas.SortPerm
set_option linter.unusedSectionVars false
namespace Charset
variable {E L : Type}

end Charset

namespace Charset
variable {E L : Type}

theorem cmpKey_self' (k : Match.Key) : Match.cmpKey k k = .eq := by
  unfold Match.cmpKey Fl.ocmp
  simp only
  split
  · split
    · simp [compare, compareOfLessAndEq]
    · split <;> simp [compare, compareOfLessAndEq]
  · simp [compare, compareOfLessAndEq]

theorem ltKey_irrefl' (k : Match.Key) : Match.ltKey k k = false := by
  unfold Match.ltKey; rw [cmpKey_self']; rfl

theorem lt_eq_ltKey (a b : Match E L) : Match.lt a b = Match.ltKey a.key b.key := rfl

/-- a winner's key beats every other key of the list, and no other element carries it -/
theorem winner_key (l : List (Match E L)) (w : Match E L) (hwin : Winner Match.lt w l) :
    (∀ k' ∈ l.map Match.key, k' = w.key ∨ (Match.ltKey w.key k' = true ∧ Match.ltKey k' w.key = false)) ∧
    (∀ m ∈ l, m.key = w.key → m = w) := by
  constructor
  · intro k' hk'
    obtain ⟨m, hm, rfl⟩ := List.mem_map.mp hk'
    by_cases e : m.key = w.key
    · exact Or.inl e
    · have hne : m ≠ w := fun h => e (by rw [h])
      exact Or.inr (hwin m hm hne)
  · intro m hm hk
    by_cases e : m = w
    · exact e
    · have := (hwin m hm e).1
      rw [lt_eq_ltKey, hk, ltKey_irrefl'] at this
      cases this

theorem winningKey_of_winner (l : List (Match E L)) (w : Match E L) (hw : w ∈ l) (hwin : Winner Match.lt w l) :
    winningKey (l.map Match.key) = some w.key := by
  obtain ⟨h1, _⟩ := winner_key l w hwin
  unfold winningKey
  have hpred : (l.map Match.key).all (fun k' => k' == w.key || (Match.ltKey w.key k' && !Match.ltKey k' w.key)) = true := by
    rw [List.all_eq_true]
    intro k' hk'
    rcases h1 k' hk' with e | ⟨a, b⟩
    · simp [e]
    · simp [a, b]
  cases hf : (l.map Match.key).find? (fun k => (l.map Match.key).all
      (fun k' => k' == k || (Match.ltKey k k' && !Match.ltKey k' k))) with
  | none =>
    have := List.find?_eq_none.mp hf w.key (List.mem_map_of_mem hw)
    rw [hpred] at this
    exact absurd rfl this
  | some k =>
    have hk := List.find?_some hf
    have hkm := List.mem_of_find?_eq_some hf
    rw [List.all_eq_true] at hk
    have a1 := hk w.key (List.mem_map_of_mem hw)
    congr 1
    rcases h1 k hkm with e | ⟨b1, b2⟩
    · exact e
    · simp only [Bool.or_eq_true, beq_iff_eq, Bool.and_eq_true, Bool.not_eq_true'] at a1
      rcases a1 with e | ⟨c1, _⟩
      · exact e.symm
      · rw [b2] at c1; cases c1

theorem keyed_keys (l : List (Match E L)) : (l.map (fun m => (m.key, m))).map (·.1) = l.map Match.key := by
  simp [List.map_map, Function.comp_def]

theorem mem_keyed (l : List (Match E L)) (p : Match.Key × Match E L) (h : p ∈ l.map (fun m => (m.key, m))) :
    p.2 ∈ l ∧ p.1 = p.2.key := by
  obtain ⟨m, hm, rfl⟩ := List.mem_map.mp h
  exact ⟨hm, rfl⟩

/-- **C08 (a), every list length** — if `w` is preferred to every other element under the pairwise
    rule, the container's sort puts it first -/
theorem sortMatches_winner_first (l : List (Match E L)) (w : Match E L) (hw : w ∈ l)
    (hwin : Winner Match.lt w l) : (sortMatches l).head? = some w := by
  unfold sortMatches
  simp only []
  split
  · rename_i hok
    unfold rankingOk at hok
    rw [keyed_keys, winningKey_of_winner l w hw hwin] at hok
    simp only [Bool.and_eq_true, beq_iff_eq] at hok
    have hhead := hok.1
    have hperm := sortUnstable_perm (ltPair (E := E) (L := L)) (l.map (fun m => (m.key, m)))
    cases hr : sortUnstable (ltPair (E := E) (L := L)) (l.map (fun m => (m.key, m))) with
    | nil => rw [hr] at hhead; simp at hhead
    | cons p ps =>
      rw [hr] at hhead
      simp only [List.map_cons, List.head?_cons, Option.some.injEq] at hhead ⊢
      have hp : p ∈ l.map (fun m => (m.key, m)) := by
        rw [← hperm.mem_iff, hr]; exact List.mem_cons_self
      obtain ⟨hpl, hpk⟩ := mem_keyed l p hp
      exact (winner_key l w hwin).2 p.2 hpl (by rw [← hpk, hhead])
  · have key := insertionSort_winner_first (ltPair (E := E) (L := L)) (w.key, w) (l.map (fun m => (m.key, m)))
      (ltKey_irrefl' _) (by simp only [List.mem_map]; exact ⟨w, hw, rfl⟩) ?_
    · rw [List.head?_map, key]; rfl
    · intro y hy hyw
      obtain ⟨m, hm, rfl⟩ := List.mem_map.mp hy
      have hmw : m ≠ w := fun h => hyw (by rw [h])
      exact hwin m hm hmw

end Charset

namespace Charset
variable {E L : Type}

theorem loser_key (l : List (Match E L)) (z : Match E L) (hlos : Loser Match.lt z l) :
    (∀ k' ∈ l.map Match.key, k' = z.key ∨ (Match.ltKey k' z.key = true ∧ Match.ltKey z.key k' = false)) ∧
    (∀ m ∈ l, m.key = z.key → m = z) := by
  constructor
  · intro k' hk'
    obtain ⟨m, hm, rfl⟩ := List.mem_map.mp hk'
    by_cases e : m.key = z.key
    · exact Or.inl e
    · have hne : m ≠ z := fun h => e (by rw [h])
      exact Or.inr (hlos m hm hne)
  · intro m hm hk
    by_cases e : m = z
    · exact e
    · have := (hlos m hm e).1
      rw [lt_eq_ltKey, hk, ltKey_irrefl'] at this
      cases this

theorem losingKey_of_loser (l : List (Match E L)) (z : Match E L) (hz : z ∈ l) (hlos : Loser Match.lt z l) :
    losingKey (l.map Match.key) = some z.key := by
  obtain ⟨h1, _⟩ := loser_key l z hlos
  unfold losingKey
  have hpred : (l.map Match.key).all (fun k' => k' == z.key || (Match.ltKey k' z.key && !Match.ltKey z.key k')) = true := by
    rw [List.all_eq_true]
    intro k' hk'
    rcases h1 k' hk' with e | ⟨a, b⟩
    · simp [e]
    · simp [a, b]
  cases hf : (l.map Match.key).find? (fun k => (l.map Match.key).all
      (fun k' => k' == k || (Match.ltKey k' k && !Match.ltKey k k'))) with
  | none =>
    have := List.find?_eq_none.mp hf z.key (List.mem_map_of_mem hz)
    rw [hpred] at this
    exact absurd rfl this
  | some k =>
    have hk := List.find?_some hf
    have hkm := List.mem_of_find?_eq_some hf
    rw [List.all_eq_true] at hk
    have a1 := hk z.key (List.mem_map_of_mem hz)
    congr 1
    rcases h1 k hkm with e | ⟨b1, b2⟩
    · exact e
    · simp only [Bool.or_eq_true, beq_iff_eq, Bool.and_eq_true, Bool.not_eq_true'] at a1
      rcases a1 with e | ⟨c1, _⟩
      · exact e.symm
      · rw [b2] at c1; cases c1

/-- **C08 (b), every list length** — an element every other one is preferred to comes last -/
theorem sortMatches_loser_last (l : List (Match E L)) (z : Match E L) (hz : z ∈ l)
    (hlos : Loser Match.lt z l) : (sortMatches l).getLast? = some z := by
  unfold sortMatches
  simp only []
  split
  · rename_i hok
    unfold rankingOk at hok
    rw [keyed_keys, losingKey_of_loser l z hz hlos] at hok
    simp only [Bool.and_eq_true, beq_iff_eq] at hok
    have hlast := hok.2
    have hperm := sortUnstable_perm (ltPair (E := E) (L := L)) (l.map (fun m => (m.key, m)))
    rw [List.getLast?_map] at hlast ⊢
    cases hr : (sortUnstable (ltPair (E := E) (L := L)) (l.map (fun m => (m.key, m)))).getLast? with
    | none => rw [hr] at hlast; simp at hlast
    | some p =>
      rw [hr] at hlast
      simp only [Option.map_some, Option.some.injEq] at hlast ⊢
      have hp : p ∈ l.map (fun m => (m.key, m)) := by
        rw [← hperm.mem_iff]; exact List.mem_of_getLast? hr
      obtain ⟨hpl, hpk⟩ := mem_keyed l p hp
      exact (loser_key l z hlos).2 p.2 hpl (by rw [← hpk, hlast])
  · have key := insertionSort_loser_last (ltPair (E := E) (L := L)) (z.key, z) (l.map (fun m => (m.key, m)))
      (by simp only [List.mem_map]; exact ⟨z, hz, rfl⟩) ?_
    · rw [List.getLast?_map, key]; rfl
    · intro y hy hyz
      obtain ⟨m, hm, rfl⟩ := List.mem_map.mp hy
      have hmz : m ≠ z := fun h => hyz (by rw [h])
      exact hlos m hm hmz

end Charset
