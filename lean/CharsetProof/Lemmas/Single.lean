/-
  One chunk: merge_coherence_ratios(&[r]) is r, sorted.
-/
import CharsetProof.Lemmas.FloatExact
import CharsetProof.Lemmas.LeOne
set_option linter.unusedSectionVars false
namespace Charset
open Fl
variable {L : Type} [DecidableEq L]

theorem pushScore_absent (p : L × F32) (idx : List (L × List F32)) (h : p.1 ∉ idx.map (·.1)) :
    pushScore p idx = idx ++ [(p.1, [p.2])] := by
  induction idx with
  | nil => rfl
  | cons q qs ih =>
    simp only [List.map_cons, List.mem_cons, not_or] at h
    simp only [pushScore]
    have : ¬ q.1 = p.1 := fun e => h.1 e.symm
    simp only [this, ↓reduceIte, ih h.2, List.cons_append]

theorem foldl_push_nodup (ps : List (L × F32)) (idx : List (L × List F32))
    (hnd : (ps.map (·.1)).Nodup) (hdis : ∀ p ∈ ps, p.1 ∉ idx.map (·.1)) :
    ps.foldl (fun idx p => pushScore p idx) idx = idx ++ ps.map (fun p => (p.1, [p.2])) := by
  induction ps generalizing idx with
  | nil => simp
  | cons p ps ih =>
    simp only [List.foldl, List.map_cons]
    simp only [List.map_cons, List.nodup_cons] at hnd
    rw [pushScore_absent p idx (hdis p List.mem_cons_self)]
    rw [ih _ hnd.2]
    · simp
    · intro q hq hmem
      simp only [List.map_append, List.map_cons, List.map_nil, List.mem_append, List.mem_singleton] at hmem
      rcases hmem with hm | hm
      · exact hdis q (List.mem_cons_of_mem _ hq) hm
      · exact hnd.1 (hm ▸ List.mem_map_of_mem hq)

/-- the mean of a single finite non-negative score is that score -/
theorem meanScore_single (s : F32) (hs : NN s) : meanScore [s] = s := by
  unfold meanScore
  simp only [List.foldl, List.length_singleton]
  rw [zero_add_nn (by decide) hs, div_one_nn good32 hs]

/-- **one chunk: merging changes nothing but the order** – `merge_coherence_ratios(&[r]) = sort(r)` when
    `r` names every language once and its scores are finite and non-negative -/
theorem mergeModel_single (r : List (L × F32)) (hnd : (r.map (·.1)).Nodup) (hs : ∀ p ∈ r, NN p.2) :
    mergeModel [r] = sortDesc r := by
  unfold mergeModel mergeGroups
  simp only [List.flatten_cons, List.flatten_nil, List.append_nil]
  rw [foldl_push_nodup r [] hnd (by simp)]
  simp only [List.nil_append, List.map_map]
  congr 1
  have : ∀ (l : List (L × F32)), (∀ p ∈ l, NN p.2) →
      l.map ((fun g => (g.1, meanScore g.2)) ∘ fun p => (p.1, [p.2])) = l := by
    intro l
    induction l with
    | nil => intro _; rfl
    | cons p ps ih =>
      intro h
      simp only [List.map_cons, Function.comp]
      rw [meanScore_single p.2 (h p List.mem_cons_self)]
      congr 1
      exact ih (fun q hq => h q (List.mem_cons_of_mem _ hq))
  exact this r hs

theorem mergeModel_nil : mergeModel ([] : List (List (L × F32))) = [] := by
  unfold mergeModel mergeGroups sortDesc sortUnstableSmall sortUnstableWith
  simp [insertionSort, insertionSortAux, insertionCutoff]

end Charset
