/-
  The mess detector never returns a negative number or NaN: every division in `md/plugins.rs` is
  guarded, and the guards are sufficient.  Proved for every `MdEnv` (Unicode tables), every text of
  less than 2^64 - 1 characters, every threshold.
-/
import CharsetProof.Model.Md
import CharsetProof.Lemmas.F32
namespace Charset
namespace Md
open Fl

def B : Nat := 2 ^ 64

/-- `x as f32 / y as f32` with `1 ≤ y < 2^64` is non-negative and not NaN -/
theorem ok_ratio (a : F32) (ha : Ok a) (c : Nat) (h1 : 1 ≤ c) (h2 : c < 2 ^ 64) : Ok (Fl.div a (f32 c)) :=
  ok_div ha (ofNat32_pos c h1 h2) (ofNat32_lt_inf c h2)

theorem ok_scaled (x k : Nat) (hk1 : 1 ≤ k) (hk2 : k < 2 ^ 64) : Ok (Fl.mul (f32 x) (f32 k)) := by
  apply ok_mul (by decide) (ok_ofNat x) (ok_ofNat k)
  · intro _; have := ofNat32_pos k hk1 hk2; omega
  · intro h
    exfalso
    have := ofNat32_lt_inf k hk2
    have := ofNat32_pos k hk1 hk2
    simp only [isInf, decide_eq_true_eq] at h
    omega

theorem ok_guard (r : F32) (lim : F32) (hr : Ok r) : Ok (if Fl.ge r lim then r else Fl.zero) := by
  split
  · exact hr
  · exact ok_zero

theorem P1.ratio_ok (s : P1) (h : s.count < 2 ^ 64) : Ok s.ratio := by
  unfold P1.ratio
  split
  · exact ok_zero
  · exact ok_guard _ _ (ok_ratio _ (ok_ofNat _) _ (by omega) h)

theorem P2.ratio_ok (s : P2) (h : s.count < 2 ^ 64) : Ok s.ratio := by
  unfold P2.ratio
  split
  · exact ok_guard _ _ (ok_ratio _ (ok_ofNat _) _ (by omega) h)
  · exact ok_zero

theorem P3.ratio_ok (s : P3) (h : s.count < 2 ^ 64) : Ok s.ratio := by
  unfold P3.ratio
  split
  · exact ok_zero
  · exact ok_ratio _ (ok_scaled _ 8 (by decide) (by decide)) _ (by omega) h

theorem P4.ratio_ok (s : P4) (h : s.count < 2 ^ 64) : Ok s.ratio := by
  unfold P4.ratio
  split
  · exact ok_guard _ _ (ok_ratio _ (ok_scaled _ 2 (by decide) (by decide)) _ (by omega) h)
  · exact ok_zero

theorem P5.ratio_ok (s : P5) (h : s.count < 2 ^ 64) : Ok s.ratio := by
  unfold P5.ratio
  split
  · exact ok_zero
  · exact ok_ratio _ (ok_scaled _ 2 (by decide) (by decide)) _ (by omega) h

theorem P7.ratio_ok (s : P7) (h : s.cjk < 2 ^ 64) : Ok s.ratio := by
  unfold P7.ratio
  split
  · exact ok_zero
  · exact ok_ratio _ (ok_ofNat _) _ (by omega) h

theorem P8.ratio_ok (s : P8) (h : s.count < 2 ^ 64) : Ok s.ratio := by
  unfold P8.ratio
  split
  · exact ok_zero
  · exact ok_ratio _ (ok_ofNat _) _ (by omega) h

/-- what keeps `SuperWeirdWordPlugin::ratio` from dividing by zero -/
structure P6.Inv (s : P6) (n : Nat) : Prop where
  words : s.words ≤ s.count
  foreign : 0 < s.foreignLong → 0 < s.count
  size : s.count + s.buffer.length ≤ n

theorem P6.ratio_ok (s : P6) (n : Nat) (hi : s.Inv n) (h : n < 2 ^ 64) : Ok s.ratio := by
  unfold P6.ratio
  split
  · exact ok_zero
  · rename_i hc
    have h1 := hi.words; have h2 := hi.foreign; have h3 := hi.size
    have : 1 ≤ s.count := by
      simp only [Bool.and_eq_true, decide_eq_true_eq, not_and] at hc
      by_cases hw : s.words ≤ 10
      · have := hc hw; omega
      · omega
    exact ok_ratio _ (ok_ofNat _) _ this (by omega)

end Md
end Charset

namespace Charset
namespace Md
open Fl

/-! ### invariants of the plugin states: every denominator is bounded by the number of characters fed -/

theorem P6.short_count (s : P6) : s.short.count = s.count ∧ s.short.words = s.words ∧
    s.short.buffer = s.buffer ∧ s.foreignLong ≤ s.short.foreignLong := by
  unfold P6.short
  simp only []
  repeat' split
  all_goals (refine ⟨?_, ?_, ?_, ?_⟩ <;> first | rfl | simp)

theorem P6.long_count (s : P6) : s.long.count = s.count ∧ s.long.words = s.words ∧
    s.long.buffer = s.buffer ∧ s.foreignLong ≤ s.long.foreignLong := by
  unfold P6.long
  simp only []
  repeat' split
  all_goals (refine ⟨?_, ?_, ?_, ?_⟩ <;> first | rfl | simp)

theorem P6.endWord_fields (s : P6) : s.endWord.count = s.count + s.buffer.length ∧
    s.endWord.words = s.words + 1 ∧ s.endWord.buffer = [] := by
  unfold P6.endWord
  simp only []
  generalize hs1 : ({ s with words := s.words + 1, count := s.count + s.buffer.length } : P6) = s1
  have h1 : s1.count = s.count + s.buffer.length ∧ s1.words = s.words + 1 := by subst hs1; simp
  have h2 := P6.short_count s1
  have h3 := P6.long_count s1.short
  generalize s1.short.long = s3 at h3 ⊢
  refine ⟨?_, ?_, ?_⟩
  · split <;> (try simp only []) <;> omega
  · split <;> (try simp only []) <;> omega
  · trivial

theorem P6.feed_inv (s : P6) (c : CharInfo) (n : Nat) (h : s.Inv n) : (s.feed c).Inv (n + 1) := by
  obtain ⟨hw, hf, hs⟩ := h
  unfold P6.feed
  split
  · exact ⟨hw, hf, by simp; omega⟩
  · split
    · exact ⟨hw, hf, by omega⟩
    · rename_i hne
      have hlen : 1 ≤ s.buffer.length := by
        cases hb : s.buffer with
        | nil => simp [hb] at hne
        | cons a l => simp
      split
      · obtain ⟨e1, e2, e3⟩ := P6.endWord_fields s
        exact ⟨by omega, fun _ => by omega, by rw [e1, e3]; simp; omega⟩
      · split
        · exact ⟨hw, hf, by simp; omega⟩
        · exact ⟨hw, hf, by omega⟩

/-- all counters that serve as denominators are bounded by the number `n` of characters fed -/
structure Dets.Inv (d : Dets) (n : Nat) : Prop where
  c1 : d.p1.count ≤ n
  c2 : d.p2.count ≤ n
  c3 : d.p3.count ≤ n
  c4 : d.p4.count ≤ n
  c5 : d.p5.count ≤ n
  c6 : d.p6.Inv n
  c7 : d.p7.cjk ≤ n
  c8 : d.p8.count ≤ n

theorem Dets.inv_init : ({} : Dets).Inv 0 :=
  ⟨Nat.le_refl _, Nat.le_refl _, Nat.le_refl _, Nat.le_refl _, Nat.le_refl _,
   ⟨Nat.le_refl _, fun h => absurd h (by decide), Nat.le_refl _⟩, Nat.le_refl _, Nat.le_refl _⟩

theorem P1.feed_count (s : P1) (c : CharInfo) : (s.feed c).count = s.count + 1 := by
  unfold P1.feed P1.bump; simp only []; repeat' split
  all_goals rfl

theorem P4.feed_count (env : MdEnv) (s : P4) (c : CharInfo) : (s.feed env c).count = s.count + 1 := by
  unfold P4.feed; simp only []; repeat' split
  all_goals rfl

theorem P5.feed_count (s : P5) (c : CharInfo) : (s.feed c).count = s.count + 1 := by
  unfold P5.feed; simp only []; repeat' split
  all_goals rfl

theorem P7.feed_cjk (s : P7) (c : CharInfo) : (s.feed c).cjk ≤ s.cjk + 1 := by
  unfold P7.feed; repeat' split
  all_goals simp

theorem P8.feed_count (s : P8) (c : CharInfo) : (s.feed c).count = s.count + 1 := by
  unfold P8.feed; simp only []; repeat' split
  all_goals rfl

theorem Dets.feed_inv (env : MdEnv) (d : Dets) (c : CharInfo) (n : Nat) (h : d.Inv n) :
    (d.feed env c).Inv (n + 1) := by
  obtain ⟨h1, h2, h3, h4, h5, h6, h7, h8⟩ := h
  unfold Dets.feed
  refine ⟨?_, ?_, ?_, ?_, ?_, ?_, ?_, ?_⟩
  · show (if P1.eligible c then d.p1.feed c else d.p1).count ≤ n + 1
    split
    · rw [P1.feed_count]; omega
    · omega
  · show (if P2.eligible c then d.p2.feed c else d.p2).count ≤ n + 1
    split
    · simp only [P2.feed]; omega
    · omega
  · show (d.p3.feed c).count ≤ n + 1
    simp only [P3.feed]; omega
  · show (if P4.eligible c then d.p4.feed env c else d.p4).count ≤ n + 1
    split
    · rw [P4.feed_count]; omega
    · omega
  · show (if P5.eligible c then d.p5.feed c else d.p5).count ≤ n + 1
    split
    · rw [P5.feed_count]; omega
    · omega
  · exact P6.feed_inv _ _ _ h6
  · have := P7.feed_cjk d.p7 c
    show (d.p7.feed c).cjk ≤ n + 1
    omega
  · show (d.p8.feed c).count ≤ n + 1
    rw [P8.feed_count]; omega

theorem Dets.sum_ok (d : Dets) (n : Nat) (h : d.Inv n) (hn : n < 2 ^ 64) : Ok d.sum := by
  obtain ⟨h1, h2, h3, h4, h5, h6, h7, h8⟩ := h
  unfold Dets.sum Dets.ratios
  simp only [List.foldl]
  have r1 := P1.ratio_ok d.p1 (by omega)
  have r2 := P2.ratio_ok d.p2 (by omega)
  have r3 := P3.ratio_ok d.p3 (by omega)
  have r4 := P4.ratio_ok d.p4 (by omega)
  have r5 := P5.ratio_ok d.p5 (by omega)
  have r6 := P6.ratio_ok d.p6 n h6 hn
  have r7 := P7.ratio_ok d.p7 (by omega)
  have r8 := P8.ratio_ok d.p8 (by omega)
  exact ok_add (ok_add (ok_add (ok_add (ok_add (ok_add (ok_add (ok_add ok_zero r1) r2) r3) r4) r5) r6) r7) r8

theorem loop_ok (env : MdEnv) (p : Nat) (thr : F32) (cs : List Nat) :
    ∀ (d : Dets) (idx n : Nat), d.Inv n → n + cs.length < 2 ^ 64 → Ok (loop env p thr d idx cs) := by
  induction cs with
  | nil => intro d idx n h hn; exact Dets.sum_ok d n h (by simpa using hn)
  | cons c cs ih =>
    intro d idx n h hn
    have h' := Dets.feed_inv env d (env.info c) n h
    simp only [List.length_cons] at hn
    unfold loop
    simp only []
    split
    · exact Dets.sum_ok _ _ h' (by omega)
    · exact ih _ _ _ h' (by omega)

/-- **`mess_ratio` never returns a negative number or NaN**, whatever the Unicode tables say
    (texts shorter than 2^64 - 1 characters: the counters are `u64`) -/
theorem messRatio_ok (env : MdEnv) (t : Text) (thr : F32) (ht : t.length + 1 < 2 ^ 64) :
    Ok (messRatio env t thr) := by
  unfold messRatio
  exact loop_ok env _ thr _ {} 0 0 Dets.inv_init (by simp; omega)

end Md
end Charset
