import CharsetProof.Model.Concrete
namespace Charset

theorem lookupName_mem {β} {tbl : List (Name × β)} {n : Name} {v : β} (h : lookupName tbl n = some v) :
    (n, v) ∈ tbl := by
  unfold lookupName at h
  cases hf : tbl.find? (fun p => p.1 == n) with
  | none => simp [hf] at h
  | some p =>
    simp only [hf, Option.map_some, Option.some.injEq] at h
    have hm := List.mem_of_find?_eq_some hf
    have hp := List.find?_some hf
    simp only [beq_iff_eq] at hp
    subst h; subst hp
    exact hm

/-- every value `iana_name` can return lies in `supported ∪ range(labels)` -/
theorem ianaNameOf_mem {supported : List Name} {labels : List (Name × Name)} {n e : Name}
    (h : ianaNameOf supported labels n = some e) : e ∈ supported ++ labels.map (·.2) := by
  unfold ianaNameOf at h
  split at h
  · rename_i hc
    cases h
    simp only [List.mem_append]; left
    simpa using hc
  · have := lookupName_mem h
    simp only [List.mem_append, List.mem_map]; right
    exact ⟨_, this, rfl⟩

/-- supported names are fixed points of the canonicaliser (first branch of `iana_name`) -/
theorem ianaNow_supported {e : Name} (h : e ∈ Gen.supported) : ianaNow e = some e := by
  unfold ianaNow ianaNameOf
  have : Gen.supported.contains e = true := by simpa using h
  rw [if_pos this]

/-- Tie T1: among all canonical names the compiled crate can produce, the ones that are *not* fixed
    points of `iana_name` are exactly the ones outside the supported list (today: "replacement",
    which the codec crate returns for the ISO-2022-KR/CN and HZ labels but does not accept back). -/
def ianaImageFixedB : Bool :=
  (Gen.supported ++ Gen.labels.map (·.2)).all
    (fun v => ianaNow v == some v || !Gen.supported.contains v)

theorem ianaImageFixed : ianaImageFixedB = true := by decide +kernel

end Charset
