import CharsetProof.Lemmas.Master
import CharsetProof.Lemmas.Facts
set_option linter.unusedSectionVars false
namespace Charset
variable {E L : Type} [DecidableEq E]

/-- what is known about every candidate entry of a regular (accepted) match -/
structure EntryAcc (W : World E L) (T : Tables E) (c : Ctx E) (incl excl : List E) (s : Sub E L) : Prop where
  raw : s.raw = c.b
  supported : s.enc ∈ T.supported
  allowed : allowed incl excl s.enc = true
  bom : s.bom = bomHereOf c s.enc
  below : Fl.ge s.chaos c.thr = false
  needsBom : needsBomCond T c s.enc = false
  text : TextOk W T c s.enc s.text
  chaosMean : ∃ ratios, s.chaos = meanRatio ratios ∧ ∀ r ∈ ratios, ∃ t, W.mess t c.thr = .ok r
  cohMerged : ∃ cdl, W.merge cdl = .ok s.cohs
  remainder : RemainderOk W T c s.enc
  chunksFact : ∃ p acc, p.lazy = lazyOf T c s.enc ∧ p.bomHere = bomHereOf c s.enc ∧ p.startIdx = startIdxOf c s.enc ∧
    (lazyOf T c s.enc = false → p.payload = s.text) ∧ (lazyOf T c s.enc = true → p.payload = none) ∧
    probeChunks W T c s.enc p = .ok acc ∧ s.chaos = meanRatio acc.ratios ∧ acc.lazyHard = false ∧
    (∃ cdl, cdsOf W T c s.enc acc = .ok cdl ∧ W.merge cdl = .ok s.cohs)

/-- what is known about the fallback entry -/
structure EntryFb (W : World E L) (T : Tables E) (c : Ctx E) (incl excl : List E) (s : Sub E L) : Prop where
  raw : s.raw = c.b
  supported : s.enc ∈ T.supported
  allowed : allowed incl excl s.enc = true
  bom : s.bom = false
  chaos : s.chaos = c.thr
  cohs : s.cohs = []
  enabled : c.fallback = true
  hint : c.prio.contains s.enc = true
  needsBom : needsBomCond T c s.enc = false
  text : TextOk W T c s.enc s.text
  remainder : RemainderOk W T c s.enc
  chunks : ∃ p acc, p.bomHere = bomHereOf c s.enc ∧ (lazyOf T c s.enc = false → p.payload = s.text) ∧
    (lazyOf T c s.enc = true → p.payload = none) ∧ probeChunks W T c s.enc p = .ok acc ∧ acc.lazyHard = false

/-- **Entry facts.** On non-empty input the result is either a list of regular matches all of whose
    candidates satisfy `EntryAcc`, or a single fallback match satisfying `EntryFb`. -/
theorem fromBytes_facts {W : World E L} {T : Tables E} {sort : Sorter E L}
    (hperm : ∀ l, (sort l).Perm l) {b : Bytes} {s : Settings} {incl excl : List E}
    (hincl : canonList T.ianaName s.incl = .ok incl) (hexcl : canonList T.ianaName s.excl = .ok excl)
    {ms : List (Match E L)} (hb : b ≠ []) (h : fromBytes W T sort b s = .ok (.ok ms)) :
    (∀ m ∈ ms, m.AllEntries (EntryAcc W T (ctxOf T b s) incl excl)) ∨
    (∃ fb, ms = [fb] ∧ fb.AllEntries (EntryFb W T (ctxOf T b s) incl excl) ∧ fb.subs = []) := by
  refine fromBytes_entries2 hperm _ _ hincl hexcl ?_ ?_ hb h
  · intro soft e m hS hal hp
    have f := accepted_facts hp
    have he : m.toSub.enc = e := f.enc
    refine ⟨f.raw, by rw [he]; exact hS, by rw [he]; exact hal, by rw [he]; exact f.bom, f.below,
      by rw [he]; exact f.needsBom, by rw [he]; exact f.text, f.chaosMean, f.cohMerged,
      by rw [he]; exact f.remainder, ?_⟩
    obtain ⟨p, acc, h1, h2, h3, h4, h5, h6, h7, h8, _, h9⟩ := f.chunksFact
    rw [he]
    exact ⟨p, acc, h1, h2, h3, h4, h5, h6, h7, h8, h9⟩
  · intro soft e fb hS hal hp
    have f := fallback_facts hp
    have he : fb.toSub.enc = e := f.enc
    exact ⟨f.raw, by rw [he]; exact hS, by rw [he]; exact hal, f.bom, f.chaos, f.cohs, f.enabled,
      by rw [he]; exact f.hint, by rw [he]; exact f.needsBom, by rw [he]; exact f.text,
      by rw [he]; exact f.remainder, by rw [he]; exact f.chunks⟩

/-- all candidate entries of a match: the main one and the sub-matches -/
def Match.entries (m : Match E L) : List (Sub E L) := m.toSub :: m.subs

theorem Match.allEntries_iff {R : Sub E L → Prop} {m : Match E L} :
    m.AllEntries R ↔ ∀ s ∈ m.entries, R s := by
  unfold Match.AllEntries Match.entries
  simp

theorem Match.cands_eq (m : Match E L) : m.cands = m.entries.map (·.enc) := by
  simp [Match.cands, Match.entries, Match.toSub]

end Charset
