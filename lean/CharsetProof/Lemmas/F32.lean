import CharsetProof.Model.F32
namespace Charset
namespace Fl
variable {f : Fmt}

theorem roundPos_zero (f : Fmt) (d : Nat) : roundPos f 0 d = 0 := by
  unfold roundPos; simp

theorem roundDy_zero (f : Fmt) (e : Int) : roundDy f 0 e = 0 := by
  unfold roundDy; split <;> simp [roundPos_zero]

theorem ofSigned_zero (f : Fmt) (e : Int) : ofSigned f 0 e = ⟨0⟩ := by
  unfold ofSigned; simp [roundDy_zero]

theorem finite_not_nan {x : Fl f} (h : x.isFinite = true) : x.isNaN = false ∧ x.isInf = false := by
  unfold isFinite at h; unfold isNaN isInf
  simp only [decide_eq_true_eq] at h
  constructor <;> simp <;> omega

/-- `x - x = 0` for finite `x` -/
theorem sub_self_finite (x : Fl f) (h : x.isFinite = true) : sub x x = ⟨0⟩ := by
  obtain ⟨hn, hi⟩ := finite_not_nan h
  have hneg : neg x = ⟨-x.key⟩ := by unfold neg; simp [hn]
  have hnn : (⟨-x.key⟩ : Fl f).isNaN = false := by
    unfold isNaN at hn ⊢; simpa using hn
  have hni : (⟨-x.key⟩ : Fl f).isInf = false := by
    unfold isInf at hi ⊢; simpa using hi
  unfold sub add
  rw [hneg]
  simp only [hn, hnn, hi, hni, Bool.false_eq_true, or_self, and_self, ↓reduceIte]
  unfold toDy
  simp only [Int.natAbs_neg]
  rcases Int.lt_trichotomy x.key 0 with h1 | h1 | h1
  · have h2 : ¬ (-x.key < 0) := by omega
    generalize decodeKey f x.key.natAbs = me
    obtain ⟨m, e⟩ := me
    simp only [h1, h2, ↓reduceIte, Int.min_self, Int.sub_self, Int.toNat_zero]
    have : (-(m : Int)) * 2 ^ 0 + (m : Int) * 2 ^ 0 = 0 := by simp; omega
    rw [this]; exact ofSigned_zero f e
  · have hd : decodeKey f (0 : Int).natAbs = (0, f.qmin) := by
      unfold decodeKey; simp
    rw [h1, hd]
    simp only [Int.lt_irrefl, ↓reduceIte, Int.neg_zero, Int.min_self, Int.sub_self, Int.toNat_zero]
    have : ((0 : Nat) : Int) * 2 ^ 0 + ((0 : Nat) : Int) * 2 ^ 0 = 0 := by simp
    rw [this]; exact ofSigned_zero f _
  · have h2 : ¬ (x.key < 0) := by omega
    have h3 : -x.key < 0 := by omega
    generalize decodeKey f x.key.natAbs = me
    obtain ⟨m, e⟩ := me
    simp only [h2, h3, ↓reduceIte, Int.min_self, Int.sub_self, Int.toNat_zero]
    have : (m : Int) * 2 ^ 0 + (-(m : Int)) * 2 ^ 0 = 0 := by simp; omega
    rw [this]; exact ofSigned_zero f e

end Fl
end Charset

/-! ### non-negative, non-NaN values (`Ok`) are closed under the operations the mess detector uses -/

namespace Charset
namespace Fl
variable {f : Fmt}

/-- non-negative and not NaN (possibly +inf) -/
def Ok (x : Fl f) : Prop := 0 ≤ x.key ∧ x.key ≤ f.infKey

theorem cap_le (i k : Nat) : (if i ≤ k then i else k) ≤ i := by split <;> omega

theorem roundPos_le_inf (f : Fmt) (n d : Nat) : roundPos f n d ≤ f.infKey := by
  unfold roundPos
  split
  · exact Nat.zero_le _
  · exact cap_le _ _

theorem roundDy_le_inf (f : Fmt) (m : Nat) (e : Int) : roundDy f m e ≤ f.infKey := by
  unfold roundDy; split <;> exact roundPos_le_inf _ _ _

theorem ok_zero : Ok (zero : Fl f) := by simp [Ok, zero]

theorem ok_ofNat (n : Nat) : Ok (ofNat f n) := by
  have := roundPos_le_inf f n 1
  simp only [Ok, ofNat]; omega

theorem ok_ofRat (n d : Nat) : Ok (ofRat f n d) := by
  have := roundPos_le_inf f n d
  simp only [Ok, ofRat]; omega

theorem ok_not_nan {x : Fl f} (h : Ok x) : x.isNaN = false := by
  simp only [Ok] at h; simp only [isNaN]; simp; omega

theorem ok_ofSigned_nonneg (m : Int) (e : Int) (hm : 0 ≤ m) : Ok (ofSigned f m e) := by
  have := roundDy_le_inf f m.natAbs e
  simp only [Ok, ofSigned]
  have : ¬ m < 0 := by omega
  simp only [this, if_false]; omega

theorem toDy_nonneg {x : Fl f} (h : 0 ≤ x.key) : 0 ≤ x.toDy.1 := by
  simp only [toDy]
  have : ¬ x.key < 0 := by omega
  simp only [this, if_false]; omega

end Fl
end Charset

namespace Charset
namespace Fl
variable {f : Fmt}

theorem ok_add {a b : Fl f} (ha : Ok a) (hb : Ok b) : Ok (add a b) := by
  have hna := ok_not_nan ha
  have hnb := ok_not_nan hb
  unfold add
  simp only [hna, hnb, Bool.false_eq_true, or_self, ↓reduceIte]
  split
  · split
    · exact ha
    · rename_i h1 h2
      exfalso
      simp only [isInf, decide_eq_true_eq] at h1
      simp only [Ok] at ha hb
      omega
  · split
    · exact ha
    · split
      · exact hb
      · have h1 := toDy_nonneg ha.1
        have h2 := toDy_nonneg hb.1
        generalize a.toDy = x at h1 ⊢
        generalize b.toDy = y at h2 ⊢
        obtain ⟨ma, ea⟩ := x
        obtain ⟨mb, eb⟩ := y
        simp only at h1 h2 ⊢
        apply ok_ofSigned_nonneg
        have := Int.mul_nonneg h1 (Int.pow_nonneg (by decide) : (0:Int) ≤ 2 ^ (ea - min ea eb).toNat)
        have := Int.mul_nonneg h2 (Int.pow_nonneg (by decide) : (0:Int) ≤ 2 ^ (eb - min ea eb).toNat)
        omega

/-- product of two non-negative non-NaN floats of which neither is a zero facing an infinity -/
theorem ok_mul {a b : Fl f} (hf : 0 < f.infKey) (ha : Ok a) (hb : Ok b) (h0a : a.isInf = true → b.key ≠ 0)
    (h0b : b.isInf = true → a.key ≠ 0) : Ok (mul a b) := by
  have hna := ok_not_nan ha
  have hnb := ok_not_nan hb
  unfold mul
  simp only [hna, hnb, Bool.false_eq_true, or_self, ↓reduceIte]
  split
  · rename_i hinf
    split
    · rename_i hz
      exfalso
      rcases hz with hz | hz
      · rcases hinf with hi | hi
        · simp only [isInf, decide_eq_true_eq] at hi
          have := ha.2; have := ha.1; omega
        · exact h0b hi hz
      · rcases hinf with hi | hi
        · exact h0a hi hz
        · simp only [isInf, decide_eq_true_eq] at hi
          have := hb.2; have := hb.1; omega
    · have h1 : ¬ a.key < 0 := by have := ha.1; omega
      have h2 : ¬ b.key < 0 := by have := hb.1; omega
      simp only [h1, h2, ↓reduceIte, Ok]
      omega
  · have h1 := toDy_nonneg ha.1
    have h2 := toDy_nonneg hb.1
    generalize a.toDy = x at h1 ⊢
    generalize b.toDy = y at h2 ⊢
    obtain ⟨ma, ea⟩ := x
    obtain ⟨mb, eb⟩ := y
    simp only at h1 h2 ⊢
    exact ok_ofSigned_nonneg _ _ (Int.mul_nonneg h1 h2)

/-- quotient of a non-negative non-NaN float by a positive finite float -/
theorem ok_div {a b : Fl f} (ha : Ok a) (hb0 : 0 < b.key) (hbf : b.key < f.infKey) : Ok (div a b) := by
  have hna := ok_not_nan ha
  have hnb : b.isNaN = false := by simp only [isNaN]; simp; omega
  have hib : b.isInf = false := by simp only [isInf]; simp; omega
  unfold div
  simp only [hna, hnb, hib, Bool.false_eq_true, or_self, and_false, ↓reduceIte]
  have h1 : ¬ a.key < 0 := by have := ha.1; omega
  have h2 : ¬ b.key < 0 := by omega
  have h3 : ¬ b.key = 0 := by omega
  split
  · simp only [h1, h2, ↓reduceIte, Ok]; omega
  · have key : ∀ k : Nat, k ≤ f.infKey →
        Ok (⟨if (a.key < 0) = (b.key < 0) then (k : Int) else -(k : Int)⟩ : Fl f) := by
      intro k hk; simp only [h1, h2, ↓reduceIte, Ok]; omega
    exact key _ (roundPos_le_inf _ _ _)

end Fl
end Charset
namespace Charset
namespace Fl

theorem floorLog2_one (n : Nat) (h : 1 ≤ n) : floorLog2 n 1 = (Nat.log2 n : Int) := by
  unfold floorLog2
  have h1 : Nat.log2 1 = 0 := by decide
  have h2 : 2 ^ Nat.log2 n ≤ n := Nat.log2_self_le (by omega)
  simp only [h1, ge2pow]
  simp [h2]

theorem roundPos32_nat (n : Nat) (h1 : 1 ≤ n) (h2 : n < 2 ^ 64) :
    0 < roundPos fmt32 n 1 ∧ roundPos fmt32 n 1 < fmt32.infKey := by
  have hlo : 2 ^ Nat.log2 n ≤ n := Nat.log2_self_le (by omega)
  have hhi : n < 2 ^ (Nat.log2 n + 1) := Nat.lt_log2_self
  have hL : Nat.log2 n < 64 := (Nat.log2_lt (by omega)).2 h2
  unfold roundPos
  have hn : ¬ (n = 0 ∨ 1 = 0) := by omega
  simp -zeta only [hn, ↓reduceIte, floorLog2_one n h1]
  extract_lets E q n' d' m r m' key
  have hq : q = (n.log2 : Int) - 23 := by
    show max ((n.log2 : Int) - ((23 : Nat) : Int)) (-149) = _
    omega
  have hA : (q - fmt32.qmin).toNat = n.log2 + 126 := by
    show (q - (-149)).toNat = _
    omega
  have hm : m < 2 ^ 24 := by
    show n' / d' < 2 ^ 24
    by_cases h23 : 23 ≤ n.log2
    · have hq0 : 0 ≤ q := by omega
      have hn' : n' = n := by show (if 0 ≤ q then n else _) = n; simp [hq0]
      have hd' : d' = 2 ^ (n.log2 - 23) := by
        show (if 0 ≤ q then 1 * 2 ^ q.toNat else 1) = _
        have : q.toNat = n.log2 - 23 := by omega
        simp [hq0, this]
      rw [hn', hd']
      apply (Nat.div_lt_iff_lt_mul (Nat.two_pow_pos _)).2
      have : 2 ^ 24 * 2 ^ (n.log2 - 23) = 2 ^ (n.log2 + 1) := by
        rw [← Nat.pow_add]; congr 1; omega
      omega
    · have hq0 : ¬ 0 ≤ q := by omega
      have hn' : n' = n * 2 ^ (23 - n.log2) := by
        show (if 0 ≤ q then n else n * 2 ^ (-q).toNat) = _
        have : (-q).toNat = 23 - n.log2 := by omega
        simp [hq0, this]
      have hd' : d' = 1 := by show (if 0 ≤ q then _ else 1) = 1; simp [hq0]
      rw [hn', hd', Nat.div_one]
      have : 2 ^ (n.log2 + 1) * 2 ^ (23 - n.log2) = 2 ^ 24 := by
        rw [← Nat.pow_add]; congr 1; omega
      have := Nat.mul_lt_mul_of_lt_of_le hhi (Nat.le_refl (2 ^ (23 - n.log2))) (Nat.two_pow_pos _)
      omega
  have hm' : m' ≤ m + 1 := by
    show (if _ then m + 1 else m) ≤ m + 1
    split
    · exact Nat.le_refl _
    · exact Nat.le_succ _
  have hkey : key = (n.log2 + 126) * 2 ^ 23 + m' := by
    show (q - fmt32.qmin).toNat * 2 ^ 23 + m' = _
    rw [hA]
  show (0 < if 2139095040 ≤ key then 2139095040 else key) ∧
    (if 2139095040 ≤ key then 2139095040 else key) < 2139095040
  have : (2:Nat) ^ 23 = 8388608 := by decide
  have : (2:Nat) ^ 24 = 16777216 := by decide
  split <;> omega

theorem ofNat32_pos (n : Nat) (h : 1 ≤ n) (h2 : n < 2 ^ 64) : 0 < (ofNat fmt32 n).key := by
  have := (roundPos32_nat n h h2).1
  simp only [ofNat]; omega

theorem ofNat32_lt_inf (n : Nat) (h2 : n < 2 ^ 64) : (ofNat fmt32 n).key < fmt32.infKey := by
  by_cases h : 1 ≤ n
  · have := (roundPos32_nat n h h2).2
    simp only [ofNat]; omega
  · have : n = 0 := by omega
    subst this
    simp [ofNat, roundPos, fmt32]

end Fl
end Charset

