import CharsetProof.Model.F32
namespace Charset
namespace Fl
variable {f : Fmt}

theorem roundPos_zero (f : Fmt) (d : Nat) : roundPos f 0 d = 0 := by
  unfold roundPos; simp

theorem roundDy_zero (f : Fmt) (e : Int) : roundDy f 0 e = 0 := by
  unfold roundDy; split <;> simp [roundPos_zero]

theorem ofSigned_zero (f : Fmt) (e : Int) : ofSigned f 0 e = ⟨0⟩ := by
  unfold ofSigned; simp [roundDy_zero]

theorem finite_not_nan {x : Fl f} (h : x.isFinite = true) : x.isNaN = false ∧ x.isInf = false := by
  unfold isFinite at h; unfold isNaN isInf
  simp only [decide_eq_true_eq] at h
  constructor <;> simp <;> omega

/-- `x - x = 0` for finite `x` -/
theorem sub_self_finite (x : Fl f) (h : x.isFinite = true) : sub x x = ⟨0⟩ := by
  obtain ⟨hn, hi⟩ := finite_not_nan h
  have hneg : neg x = ⟨-x.key⟩ := by unfold neg; simp [hn]
  have hnn : (⟨-x.key⟩ : Fl f).isNaN = false := by
    unfold isNaN at hn ⊢; simpa using hn
  have hni : (⟨-x.key⟩ : Fl f).isInf = false := by
    unfold isInf at hi ⊢; simpa using hi
  unfold sub add
  rw [hneg]
  simp only [hn, hnn, hi, hni, Bool.false_eq_true, or_self, and_self, ↓reduceIte]
  unfold toDy
  simp only [Int.natAbs_neg]
  rcases Int.lt_trichotomy x.key 0 with h1 | h1 | h1
  · have h2 : ¬ (-x.key < 0) := by omega
    generalize decodeKey f x.key.natAbs = me
    obtain ⟨m, e⟩ := me
    simp only [h1, h2, ↓reduceIte, Int.min_self, Int.sub_self, Int.toNat_zero]
    have : (-(m : Int)) * 2 ^ 0 + (m : Int) * 2 ^ 0 = 0 := by simp; omega
    rw [this]; exact ofSigned_zero f e
  · have hd : decodeKey f (0 : Int).natAbs = (0, f.qmin) := by
      unfold decodeKey; simp
    rw [h1, hd]
    simp only [Int.lt_irrefl, ↓reduceIte, Int.neg_zero, Int.min_self, Int.sub_self, Int.toNat_zero]
    have : ((0 : Nat) : Int) * 2 ^ 0 + ((0 : Nat) : Int) * 2 ^ 0 = 0 := by simp
    rw [this]; exact ofSigned_zero f _
  · have h2 : ¬ (x.key < 0) := by omega
    have h3 : -x.key < 0 := by omega
    generalize decodeKey f x.key.natAbs = me
    obtain ⟨m, e⟩ := me
    simp only [h2, h3, ↓reduceIte, Int.min_self, Int.sub_self, Int.toNat_zero]
    have : (m : Int) * 2 ^ 0 + (-(m : Int)) * 2 ^ 0 = 0 := by simp; omega
    rw [this]; exact ofSigned_zero f e

end Fl
end Charset
