/-
  Every modelled strict decoder produces at most one character per input byte – for the multi-byte legacy
  decoders by one generic argument over their step functions (a step emits no more characters than it consumes
  bytes), for every index table whatsoever.
-/
import CharsetProof.Model.Decode
set_option linter.unusedSectionVars false
namespace Charset

def CharsLe (f : Bytes → Except ErrKind Text) : Prop := ∀ x t, f x = .ok t → t.length ≤ x.length

namespace Cjk

/-- a step emits at most as many characters as it consumes bytes (the head byte included) -/
def StepOk {σ : Type} (step : Step σ) : Prop :=
  ∀ s b rest cs s' rest', step s b rest = .ok (cs, s', rest') → cs.length + rest'.length ≤ rest.length + 1

theorem run_le {σ : Type} {step : Step σ} (hs : StepOk step) :
    ∀ (fuel : Nat) (s : σ) (x : Bytes) (t : Text), run step fuel s x = .ok t → t.length ≤ x.length
  | 0, _, _, _, h => by simp [run] at h
  | _ + 1, _, [], t, h => by simp only [run] at h; cases h; (simp <;> omega)
  | fuel + 1, s, b :: rest, t, h => by
    simp only [run] at h
    cases hst : step s b rest with
    | error k => rw [hst] at h; cases h
    | ok r =>
      obtain ⟨cs, s', rest'⟩ := r
      rw [hst] at h
      simp only at h
      cases hr : run step fuel s' rest' with
      | error k => rw [hr] at h; cases h
      | ok t' =>
        rw [hr] at h
        cases h
        have h1 := hs s b rest cs s' rest' hst
        have h2 := run_le hs fuel s' rest' t' hr
        simp only [List.length_append, List.length_cons]
        omega

theorem decodeWith_le {σ : Type} {step : Step σ} (hs : StepOk step) (s0 : σ) : CharsLe (decodeWith step s0) :=
  fun x t h => run_le hs _ s0 x t h

theorem eucKrStep_ok (tb : Array Nat) : StepOk (eucKrStep tb) := by
  intro s b rest cs s' rest' h
  unfold eucKrStep at h
  split at h
  · cases h; (simp <;> omega)
  · split at h
    · split at h
      · cases h
      · split at h
        · split at h
          · cases h; (simp <;> omega)
          · cases h
        · cases h
    · cases h

theorem big5Step_ok (tb : Array Nat) : StepOk (big5Step tb) := by
  intro s b rest cs s' rest' h
  unfold big5Step at h
  split at h
  · cases h; (simp <;> omega)
  · split at h
    · split at h
      · cases h
      · split at h
        · simp only at h
          split at h
          · cases h
          · split at h
            · cases h; (simp <;> omega)
            · split at h
              · cases h; (simp <;> omega)
              · split at h
                · cases h; (simp <;> omega)
                · split at h
                  · cases h; (simp <;> omega)
                  · cases h; (simp <;> omega)
        · cases h
    · cases h

theorem gbFour_ok (rg : List (Nat × Nat)) (b1 b2 : Nat) (rest2 : Bytes) (cs : List Nat) (u : Unit) (rest' : Bytes)
    (h : gbFour rg b1 b2 rest2 = .ok (cs, u, rest')) : cs.length + rest'.length ≤ rest2.length := by
  unfold gbFour at h
  split at h
  · cases h
  · split at h
    · split at h
      · cases h
      · split at h
        · split at h
          · cases h; (simp <;> omega)
          · cases h
        · cases h
    · cases h

theorem gbStep_ok (tb : Array Nat) (rg : List (Nat × Nat)) : StepOk (gbStep tb rg) := by
  intro s b rest cs s' rest' h
  unfold gbStep at h
  split at h
  · cases h; (simp <;> omega)
  · split at h
    · cases h; (simp <;> omega)
    · split at h
      · split at h
        · cases h
        · split at h
          · have := gbFour_ok _ _ _ _ _ _ _ h
            simp only [List.length_cons]; omega
          · split at h
            · simp only at h
              split at h
              · cases h; (simp <;> omega)
              · cases h
            · cases h
      · cases h

theorem eucJpPair_ok (tb : Array Nat) (lead : Nat) (rest : Bytes) (cs : List Nat) (u : Unit) (rest' : Bytes)
    (h : eucJpPair tb lead rest = .ok (cs, u, rest')) : cs.length + rest'.length ≤ rest.length := by
  unfold eucJpPair at h
  split at h
  · cases h
  · split at h
    · split at h
      · cases h; (simp <;> omega)
      · cases h
    · cases h

theorem eucJpStep_ok (a c : Array Nat) : StepOk (eucJpStep a c) := by
  intro s b rest cs s' rest' h
  unfold eucJpStep at h
  split at h
  · cases h; (simp <;> omega)
  · split at h
    · split at h
      · cases h
      · split at h
        · cases h; (simp <;> omega)
        · cases h
    · split at h
      · split at h
        · cases h
        · split at h
          · have := eucJpPair_ok _ _ _ _ _ _ h
            simp only [List.length_cons]; omega
          · cases h
      · split at h
        · have := eucJpPair_ok _ _ _ _ _ _ h
          omega
        · cases h

theorem sjisStep_ok (a : Array Nat) : StepOk (sjisStep a) := by
  intro s b rest cs s' rest' h
  unfold sjisStep at h
  split at h
  · cases h; (simp <;> omega)
  · split at h
    · cases h; (simp <;> omega)
    · split at h
      · split at h
        · cases h
        · split at h
          · cases h; (simp <;> omega)
          · cases h
      · cases h

theorem jpEscape24_ok (r : Bytes) (cs : List Nat) (st : JpState) (rest' : Bytes)
    (h : jpEscape24 r = .ok (cs, st, rest')) : cs.length + rest'.length ≤ r.length := by
  unfold jpEscape24 at h
  split at h
  · cases h
  · split at h
    · cases h; (simp <;> omega)
    · split at h
      · split at h
        · cases h
        · split at h
          · cases h; (simp <;> omega)
          · cases h
      · cases h

theorem jpEscape28_ok (r : Bytes) (cs : List Nat) (st : JpState) (rest' : Bytes)
    (h : jpEscape28 r = .ok (cs, st, rest')) : cs.length + rest'.length ≤ r.length := by
  unfold jpEscape28 at h
  split at h
  · cases h
  · split at h
    · cases h; (simp <;> omega)
    · split at h
      · cases h; (simp <;> omega)
      · cases h

theorem jpEscape_ok (r : Bytes) (cs : List Nat) (st : JpState) (rest' : Bytes)
    (h : jpEscape r = .ok (cs, st, rest')) : cs.length + rest'.length ≤ r.length := by
  unfold jpEscape at h
  split at h
  · cases h
  · split at h
    · have := jpEscape24_ok _ _ _ _ h
      simp only [List.length_cons]; omega
    · split at h
      · have := jpEscape28_ok _ _ _ _ h
        simp only [List.length_cons]; omega
      · cases h

theorem jpTwo_ok (tb : Array Nat) (st : JpState) (b : Nat) (rest : Bytes) (cs : List Nat) (st' : JpState) (rest' : Bytes)
    (h : jpTwo tb st b rest = .ok (cs, st', rest')) : cs.length + rest'.length ≤ rest.length + 1 := by
  unfold jpTwo at h
  split at h
  · cases h; (simp <;> omega)
  · split at h
    · cases h
    · split at h
      · cases h; (simp <;> omega)
      · cases h

theorem jpStep_ok (a c : Array Nat) : StepOk (jpStep a c) := by
  intro s b rest cs s' rest' h
  unfold jpStep at h
  split at h
  · have := jpEscape_ok _ _ _ _ h
    omega
  · cases s with
    | ascii => simp only at h; split at h <;> cases h; (simp <;> omega)
    | katakana => simp only at h; split at h <;> cases h; (simp <;> omega)
    | lead0208 => exact jpTwo_ok _ _ _ _ _ _ _ h
    | lead0212 => exact jpTwo_ok _ _ _ _ _ _ _ h

/-- **all multi-byte legacy decoders**: at most one character per byte -/
theorem strictOf_le {id : Name} {f : Bytes → Except ErrKind Text} (h : strictOf id = some f) : CharsLe f := by
  unfold strictOf at h
  split at h
  · cases h; exact decodeWith_le (eucKrStep_ok _) _
  · split at h
    · cases h; exact decodeWith_le (big5Step_ok _) _
    · split at h
      · cases h; exact decodeWith_le (gbStep_ok _ _) _
      · split at h
        · cases h; exact decodeWith_le (gbStep_ok _ _) _
        · split at h
          · cases h; exact decodeWith_le (eucJpStep_ok _ _) _
          · split at h
            · cases h; exact decodeWith_le (sjisStep_ok _) _
            · split at h
              · cases h; exact decodeWith_le (jpStep_ok _ _) _
              · cases h

end Cjk

/-! ### the other modelled codecs -/

theorem tableStrict_le (tbl : List Nat) : CharsLe (tableStrict tbl) := by
  intro x
  induction x with
  | nil => intro t h; simp only [tableStrict] at h; cases h; simp
  | cons b bs ih =>
    intro t h
    simp only [tableStrict] at h
    split at h
    · cases h
    · split at h
      · cases h
      · split at h
        · cases h
        · rename_i t' ht'
          cases h
          have := ih t' ht'
          simp; omega

theorem utf8StrictAux_le : ∀ (x : Bytes) (s : U8State) (t : Text), utf8StrictAux s x = .ok t → t.length ≤ x.length
  | [], s, t, h => by
    simp only [utf8StrictAux] at h
    split at h
    · cases h; simp
    · cases h
  | b :: bs, s, t, h => by
    simp only [utf8StrictAux] at h
    split at h
    · cases h
    · rename_i s' _
      have := utf8StrictAux_le bs s' t h
      simp; omega
    · split at h
      · cases h
      · rename_i t' ht'
        cases h
        have := utf8StrictAux_le bs {} t' ht'
        simp; omega

theorem utf8Strict_le : CharsLe utf8Strict := fun x t h => utf8StrictAux_le x {} t h

theorem utf16FromUnits_le (d : Bool) : ∀ (n : Nat) (us : List Nat), us.length ≤ n → ∀ t,
    utf16FromUnits d us = .ok t → t.length ≤ us.length
  | _, [], _, t, h => by
    unfold utf16FromUnits at h
    split at h <;> cases h
    simp
  | 0, u :: us, hn, _, _ => by simp at hn
  | n + 1, u :: us, hn, t, h => by
    have hlen : us.length ≤ n := by simpa using hn
    unfold utf16FromUnits at h
    split at h
    · cases us with
      | nil => cases h
      | cons u2 us2 =>
        simp only at h
        split at h
        · cases hr : utf16FromUnits d us2 with
          | error k => rw [hr] at h; cases h
          | ok t' =>
            rw [hr] at h; cases h
            have := utf16FromUnits_le d n us2 (by simp at hlen; omega) t' hr
            simp; omega
        · cases h
    · split at h
      · cases h
      · cases hr : utf16FromUnits d us with
        | error k => rw [hr] at h; cases h
        | ok t' =>
          rw [hr] at h; cases h
          have := utf16FromUnits_le d n us hlen t' hr
          simp; omega

theorem utf16Units_len (le : Bool) : ∀ (n : Nat) (x : Bytes), x.length ≤ n → 2 * (utf16Units le x).1.length ≤ x.length
  | _, [], _ => by simp [utf16Units]
  | _, [_], _ => by simp [utf16Units]
  | 0, _ :: _ :: _, h => by simp at h
  | n + 1, b0 :: b1 :: rest, h => by
    have := utf16Units_len le n rest (by simp at h; omega)
    simp only [utf16Units, List.length_cons]
    omega

theorem utf16Strict_le (le : Bool) : CharsLe (utf16Strict le) := by
  intro x t h
  unfold utf16Strict at h
  have h1 := utf16FromUnits_le _ _ _ (Nat.le_refl _) t h
  have h2 := utf16Units_len le x.length x (Nat.le_refl _)
  omega

/-- **every modelled strict decoder** – single-byte tables, UTF-8, UTF-16 and the multi-byte legacy decoders –
    produces at most one character per input byte -/
theorem codec_strict_le {c : Codec} {f : Bytes → Except ErrKind Text} (h : c.strict = some f) : CharsLe f := by
  cases c with
  | table tbl => simp only [Codec.strict, Option.some.injEq] at h; subst h; exact tableStrict_le tbl
  | utf8 => simp only [Codec.strict, Option.some.injEq] at h; subst h; exact utf8Strict_le
  | utf16 le => simp only [Codec.strict, Option.some.injEq] at h; subst h; exact utf16Strict_le le
  | external id => simp only [Codec.strict] at h; exact Cjk.strictOf_le h

end Charset
