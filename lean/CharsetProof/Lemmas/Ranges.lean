/-
  `CharsetMatch::unicode_ranges()`: sorted, duplicate-free, union of the per-character ranges.
  Also: std's insertion sort sorts for every asymmetric comparison with a transitive complement.
-/
import CharsetProof.Model.Ranges
import CharsetProof.Lemmas.SortPerm
import CharsetProof.Lemmas.SortWinner
namespace Charset
variable {α : Type}

/-- insertion into the reversed accumulator keeps it sorted, for any comparison whose negation is a
    total preorder (`le a b := ¬ lt b a`) -/
theorem insertTailRev_sorted (lt : α → α → Bool)
    (htrans : ∀ a b c, lt b a = false → lt c b = false → lt c a = false)
    (hasym : ∀ a b, lt a b = true → lt b a = false)
    (x : α) (acc : List α) (h : acc.Pairwise (fun a b => lt a b = false)) :
    (insertTailRev lt x acc).Pairwise (fun a b => lt a b = false) := by
  induction acc with
  | nil => simp [insertTailRev]
  | cons p ps ih =>
    simp only [insertTailRev]
    have hp := List.pairwise_cons.mp h
    split
    · rename_i hlt
      refine List.pairwise_cons.mpr ⟨?_, ih hp.2⟩
      intro z hz
      rcases (mem_insertTailRev _ x z ps).mp hz with rfl | hz'
      · exact hasym _ _ hlt
      · exact hp.1 z hz'
    · rename_i hlt
      have hxp : lt x p = false := by simpa using hlt
      refine List.pairwise_cons.mpr ⟨?_, h⟩
      intro z hz
      simp only [List.mem_cons] at hz
      rcases hz with rfl | hz
      · exact hxp
      · exact htrans _ _ _ (hp.1 z hz) hxp

theorem insertionSortAux_sorted (lt : α → α → Bool)
    (htrans : ∀ a b c, lt b a = false → lt c b = false → lt c a = false)
    (hasym : ∀ a b, lt a b = true → lt b a = false)
    (l acc : List α) (h : acc.Pairwise (fun a b => lt a b = false)) :
    (insertionSortAux lt acc l).Pairwise (fun a b => lt b a = false) := by
  induction l generalizing acc with
  | nil => simp only [insertionSortAux]; exact List.pairwise_reverse.mpr h
  | cons x xs ih => simp only [insertionSortAux]; exact ih _ (insertTailRev_sorted lt htrans hasym x acc h)

/-- std's insertion sort sorts for every comparison that is asymmetric with a transitive complement -/
theorem insertionSort_sorted (lt : α → α → Bool)
    (htrans : ∀ a b c, lt b a = false → lt c b = false → lt c a = false)
    (hasym : ∀ a b, lt a b = true → lt b a = false) (l : List α) :
    (insertionSort lt l).Pairwise (fun a b => lt b a = false) :=
  insertionSortAux_sorted lt htrans hasym l [] List.Pairwise.nil

theorem nameLt_asymm (a b : Name) (h : nameLt a b = true) : nameLt b a = false := by
  simp only [nameLt, decide_eq_true_eq, decide_eq_false_iff_not] at *
  exact List.lt_asymm h

theorem nameLt_trans (a b c : Name) (h1 : nameLt b a = false) (h2 : nameLt c b = false) : nameLt c a = false := by
  simp only [nameLt, decide_eq_false_iff_not, List.not_lt] at *
  exact List.le_trans h1 h2

theorem mem_unicodeRangeOf {tbl : List (Name × Nat × Nat)} {c : Nat} {r : Name}
    (h : unicodeRangeOf tbl c = some r) : ∃ row ∈ tbl, row.1 = r ∧ row.2.1 ≤ c ∧ c ≤ row.2.2 := by
  unfold unicodeRangeOf at h
  cases hf : tbl.find? (fun r => decide (r.2.1 ≤ c ∧ c ≤ r.2.2)) with
  | none => rw [hf] at h; simp at h
  | some row =>
    rw [hf] at h
    simp only [Option.map_some, Option.some.injEq] at h
    have hm := List.mem_of_find?_eq_some hf
    have hp := List.find?_some hf
    simp only [decide_eq_true_eq] at hp
    exact ⟨row, hm, h, hp.1, hp.2⟩

theorem mem_dedup (l : List Name) (a : Name) : a ∈ dedup l ↔ a ∈ l := by
  induction l with
  | nil => simp [dedup]
  | cons x xs ih =>
    simp only [dedup, List.mem_cons, List.mem_filter, ih, bne_iff_ne, ne_eq]
    constructor
    · rintro (h | ⟨h, _⟩)
      · exact Or.inl h
      · exact Or.inr h
    · rintro (h | h)
      · exact Or.inl h
      · by_cases e : a = x
        · exact Or.inl e
        · exact Or.inr ⟨h, e⟩

theorem nodup_dedup (l : List Name) : (dedup l).Nodup := by
  induction l with
  | nil => simp [dedup]
  | cons x xs ih =>
    simp only [dedup]
    refine List.nodup_cons.mpr ⟨?_, ih.sublist (List.filter_sublist)⟩
    simp [List.mem_filter]

/-- **`unicode_ranges()`**: strictly increasing in the string order (hence sorted and duplicate-free)
    and exactly the union of what each character of the text yields on its own -/
theorem unicodeRangesOf_spec (tbl : List (Name × Nat × Nat)) (t : Option Text) :
    (unicodeRangesOf tbl t).Pairwise (fun a b => a < b) ∧
    (unicodeRangesOf tbl t).Nodup ∧
    ∀ r, r ∈ unicodeRangesOf tbl t ↔ ∃ c ∈ t.getD [], unicodeRangeOf tbl c = some r := by
  unfold unicodeRangesOf
  have hperm := insertionSort_perm nameLt (rangeScan tbl (t.getD []))
  have hnd : (rangeScan tbl (t.getD [])).Nodup := by unfold rangeScan; exact nodup_dedup _
  have hnd' : (insertionSort nameLt (rangeScan tbl (t.getD []))).Nodup := hperm.nodup_iff.mpr hnd
  have hs := insertionSort_sorted nameLt nameLt_trans nameLt_asymm (rangeScan tbl (t.getD []))
  refine ⟨?_, hnd', ?_⟩
  · -- sorted (≤) and duplicate-free gives strictly increasing
    have hboth := hs.and (List.nodup_iff_pairwise_ne.mp hnd')
    refine hboth.imp ?_
    intro a b ⟨hle, hne⟩
    simp only [nameLt, decide_eq_false_iff_not, List.not_lt] at hle
    rcases List.le_total a b with h1 | h1
    · -- a ≤ b and a ≠ b
      rcases Decidable.em (a < b) with h2 | h2
      · exact h2
      · exact absurd (List.le_antisymm h1 (List.not_lt.mp h2)) hne
    · exact absurd (List.le_antisymm hle h1) hne
  · intro r
    rw [hperm.mem_iff]
    unfold rangeScan
    rw [mem_dedup, List.mem_filterMap]

end Charset
