import CharsetProof.Lemmas.Loop
import CharsetProof.Props.C01
import CharsetProof.Props.C06
import CharsetProof.Props.C06b
import CharsetProof.Props.C09
open Charset
#print axioms C06_declared_is_label
#print axioms C06_declared_zone
#print axioms C06_declared_ascii_only
#print axioms scanDeclared_none_without_ce
#print axioms C06_probeOrder_cons
#print axioms C06_order_head
#print axioms C06_loop
#print axioms C06_from_bytes
#print axioms C06_only_hints_qualify
#print axioms hintsNotSimilarKeys_now
#print axioms probe_nil_of_not_skip
#print axioms probe_similarSkip
#print axioms supported_nodup_now
#print axioms detectLoop_rule_full
#print axioms C01_decodes
