import CharsetProof.Lemmas.CharsLeNow
import CharsetProof.Lemmas.Total
import CharsetProof.Lemmas.TotalOn
import CharsetProof.Props.C02
import CharsetProof.Props.C02b
import CharsetProof.Props.C02c
import CharsetProof.Props.Full
import CharsetProof.Props.Full2
open Charset
#print axioms C02_full
#print axioms detection_full
#print axioms detection_full_companions
#print axioms worldFull_totalOn
#print axioms decodeNow_total_supported
#print axioms targetsCoverSupported
#print axioms fromBytesOn_total
#print axioms supportedModelled
#print axioms C02_from_bytes_total
#print axioms C02_only_documented_error
#print axioms C02_steps_zero_faults
#print axioms tablesNow_sane
#print axioms decodeNow_total_modelled
#print axioms C02_current
#print axioms C02_aliases_total
#print axioms C02_panic_sites_covered
#print axioms Md.C02_mess_ratio_total
#print axioms Md.Dets.feedF_eq
#print axioms Md.loopF_eq
#print axioms chunkRetryF_eq
#print axioms C02_chunk_retry_total
#print axioms strict_nil_modelled
#print axioms probe_total
#print axioms detectLoop_total
#print axioms findByCand_append
#print axioms offsets_lt
