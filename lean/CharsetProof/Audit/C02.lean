import CharsetProof.Lemmas.Total
import CharsetProof.Props.C02
open Charset
#print axioms C02_from_bytes_total
#print axioms C02_only_documented_error
#print axioms C02_steps_zero_faults
#print axioms tablesNow_sane
#print axioms decodeNow_total_modelled
#print axioms C02_current
#print axioms C02_aliases_total
#print axioms C02_panic_sites_covered
#print axioms probe_total
#print axioms detectLoop_total
#print axioms findByCand_append
#print axioms offsets_lt
