import CharsetProof.Props.C12
import CharsetProof.Props.C12b
open Charset
#print axioms Nested.good_step
#print axioms Nested.C12_nested_safety
#print axioms Nested.C12_nested_results
#print axioms Nested.C12_nested_no_deadlock
#print axioms Nested.C12_nested_step_decreases
#print axioms Nested.C12_nested_finished_has_result
#print axioms C12_cached_calls_covered
#print axioms C12_cached_calls_acyclic
#print axioms good_init
#print axioms good_step
#print axioms C12_safety
#print axioms C12_results
#print axioms C12_no_deadlock
#print axioms C12_step_decreases
#print axioms C12_globals_covered
#print axioms C12_cached_inventory
