import CharsetProof.Props.C12
open Charset
#print axioms good_init
#print axioms good_step
#print axioms C12_safety
#print axioms C12_results
#print axioms C12_no_deadlock
#print axioms C12_step_decreases
#print axioms C12_globals_covered
#print axioms C12_cached_inventory
