import CharsetProof.Lemmas.CmpSwap
import CharsetProof.Lemmas.Ranking
import CharsetProof.Lemmas.SortPerm
import CharsetProof.Lemmas.SortWinner
import CharsetProof.Props.C08
import CharsetProof.Props.C08b
open Charset
#print axioms C08_preference_asymm
#print axioms C08_preferred_to_all_first
#print axioms C08_all_preferred_to_last
#print axioms Fl.abs_sub_comm
#print axioms C08_lt_iff_spec
#print axioms C08_get_best
#print axioms C08_winner_first
#print axioms C08_loser_last
#print axioms sortMatches_winner_first
#print axioms sortMatches_loser_last
#print axioms winningKey_of_winner
#print axioms C08_winner_first_small
#print axioms C08_loser_last_small
#print axioms C08_append_resorts
#print axioms C08_append_winner
#print axioms C08_new_winner
#print axioms mergeInto_keys
#print axioms insertionSort_winner_first
#print axioms insertionSort_loser_last
#print axioms sortMatches_perm
