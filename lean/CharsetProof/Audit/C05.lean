import CharsetProof.Lemmas.Names
import CharsetProof.Lemmas.SortPerm
import CharsetProof.Props.C05
open Charset
#print axioms C05_filters
#print axioms C05_filters_current
#print axioms C05_unknown_include
#print axioms C05_unknown_exclude
#print axioms C05_spelling_irrelevant
#print axioms canonList_idem
#print axioms C05_canonical_current
#print axioms C05_empty_input_ignores_filters
#print axioms ianaImageFixed
#print axioms ianaNow_supported
#print axioms sortUnstable_perm
