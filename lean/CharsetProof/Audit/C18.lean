import CharsetProof.Props.C01
import CharsetProof.Props.C18
import CharsetProof.Props.C18b
open Charset
#print axioms C18_alias_decodes_identically
#print axioms C18_aliases_same_kind
#print axioms same_codec_same_decode_supported
#print axioms C18_canonical
#print axioms C18_accepted_by_filters
#print axioms C18_lookup
#print axioms C18_lookup_finds
#print axioms C18_aliases_available
#print axioms C18_aliases_available_each
#print axioms C18_aliases_safe
#print axioms C18_aliases_safe_each
#print axioms same_codec_same_decode
#print axioms unresolvable_never_decodes
#print axioms marks_supported
#print axioms helper_resolves_reportable
#print axioms C01_decodes_current
