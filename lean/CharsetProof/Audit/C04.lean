import CharsetProof.Lemmas.EntryFacts
import CharsetProof.Lemmas.SortPerm
import CharsetProof.Props.C04
open Charset
#print axioms C04_threshold
#print axioms C04_lt
#print axioms C04_percents
#print axioms C04_coherence_head
#print axioms C04_coherence_range
#print axioms C04_threshold_current
#print axioms fromBytes_facts
#print axioms sortMatches_perm
