import CharsetProof.Lemmas.EntryFacts
import CharsetProof.Lemmas.SortPerm
import CharsetProof.Props.C04
import CharsetProof.Props.C04b
open Charset
#print axioms C04_valid_utf8_nonempty
#print axioms C04_valid_utf8_current
#print axioms probe_utf8_valid
#print axioms C04_threshold
#print axioms C04_lt
#print axioms C04_percents
#print axioms C04_coherence_head
#print axioms C04_coherence_range
#print axioms C04_threshold_current
#print axioms fromBytes_facts
#print axioms sortMatches_perm
