import CharsetProof.Lemmas.Chaos
import CharsetProof.Lemmas.CohOk
import CharsetProof.Lemmas.EntryFacts
import CharsetProof.Lemmas.F32
import CharsetProof.Lemmas.FloatMono
import CharsetProof.Lemmas.LeOne
import CharsetProof.Lemmas.Md
import CharsetProof.Lemmas.SortPerm
import CharsetProof.Props.C04
import CharsetProof.Props.C04b
import CharsetProof.Props.C04c
import CharsetProof.Props.C04d
import CharsetProof.Props.C04e
import CharsetProof.Props.C10e
import CharsetProof.Props.Full2
open Charset
#print axioms C04_chaos_range
#print axioms C04_chaos_range_md
#print axioms C04_chaos_range_full
#print axioms C04_coherence_nonneg_full
#print axioms C04_coherence_unit_interval_full
#print axioms C04_coherence_range_full
#print axioms Fl.roundPos_mono
#print axioms Fl.ival_mono
#print axioms Fl.ival_roundPos_nat
#print axioms Fl.add_key
#print axioms Fl.div_key
#print axioms jaro_le_one
#print axioms mergeModel_scores_le_one
#print axioms Coh.coherenceRatio_scores_ok
#print axioms mergeModel_scores_ok
#print axioms jaro_ok
#print axioms C04_mess_ratio_nonneg
#print axioms worldMd_mess_ok
#print axioms C04_md_flags_covered
#print axioms Md.messRatio_ok
#print axioms meanRatio_ok
#print axioms probeChunks_len
#print axioms Fl.ok_div
#print axioms Fl.ofNat32_pos
#print axioms Fl.ofNat32_lt_inf
#print axioms C04_valid_utf8_nonempty
#print axioms C04_valid_utf8_current
#print axioms C04_valid_utf8_full
#print axioms C04_threshold_full
#print axioms detection_full_verdicts
#print axioms probe_utf8_valid
#print axioms C04_threshold
#print axioms C04_lt
#print axioms C04_percents
#print axioms C04_coherence_head
#print axioms C04_coherence_range
#print axioms C04_threshold_current
#print axioms fromBytes_facts
#print axioms sortMatches_perm
