import CharsetProof.Props.C15
import CharsetProof.Props.C15b
import CharsetProof.Props.C15c
import CharsetProof.Props.C15d
open Charset
#print axioms fsGet_fsPut
#print axioms processFile_effect
#print axioms C15_no_normalize_no_write
#print axioms C15_single_normalize
#print axioms C15_single_utf_or_none
#print axioms C15_replace_needs_force
#print axioms C15_replace_force
#print axioms C15_multi_normalize
#print axioms C15_multi_targets
#print axioms go_normalize
#print axioms go_writes
#print axioms C15_multi_effect
#print axioms C15_multi_replace_force
#print axioms C15_written_is_strict_decode
#print axioms C15_written_roundtrip
