import CharsetProof.Props.C15
open Charset
#print axioms fsGet_fsPut
#print axioms processFile_effect
#print axioms C15_no_normalize_no_write
#print axioms C15_single_normalize
#print axioms C15_single_utf_or_none
#print axioms C15_replace_needs_force
#print axioms C15_replace_force
