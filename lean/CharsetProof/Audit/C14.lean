import CharsetProof.Props.C14
open Charset
#print axioms C14_file
#print axioms C14_faults
#print axioms C14_detected_iff
