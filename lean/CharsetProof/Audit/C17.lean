import CharsetProof.Props.C17
open Charset
#print axioms C17_test_only
#print axioms C17_chunk_mode_irrelevant
#print axioms C17_chunk_mode_single_byte
#print axioms C17_table_strict_events
#print axioms C17_ignore_replace_total
