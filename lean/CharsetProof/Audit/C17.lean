import CharsetProof.Lemmas.CharsLe
import CharsetProof.Lemmas.CharsLeNow
import CharsetProof.Lemmas.CjkEvents
import CharsetProof.Lemmas.Utf8
import CharsetProof.Props.C17
import CharsetProof.Props.C17b
open Charset
#print axioms C17_strict_is_codec
#print axioms C17_utf8_strict_events
#print axioms utf16_strict_events
#print axioms C17_lossy_equals_strict_on_clean_input
#print axioms supportedModelled
#print axioms codec_strict_le
#print axioms Cjk.strictOf_le
#print axioms Cjk.events_strict
#print axioms Cjk.eventsOf_strict
#print axioms C17_test_only
#print axioms C17_chunk_mode_irrelevant
#print axioms C17_chunk_mode_single_byte
#print axioms C17_table_strict_events
#print axioms C17_ignore_replace_total
#print axioms C17_utf8_roundtrip
#print axioms C17_utf8_window
#print axioms C17_helper_window
#print axioms utf8_char_roundtrip
#print axioms utf8_proper_prefix_incomplete
#print axioms chunkRetry_front
#print axioms chunkRetry_back
