import CharsetProof.Lemmas.CharsLe
import CharsetProof.Lemmas.CharsLeNow
import CharsetProof.Lemmas.EntryFacts
import CharsetProof.Props.C13
import CharsetProof.Props.C13f
import CharsetProof.Props.C13g
import CharsetProof.Props.C13h
import CharsetProof.Props.Full2
open Charset
#print axioms C13_chaos_is_mess_ratio_full
#print axioms C13_chaos_is_mess_ratio_full_all_sizes
#print axioms detection_full_languages
#print axioms chaosOfText_full_eq
#print axioms meanRatio_single
#print axioms C13_chaos_of_text_all_sizes
#print axioms C13_chaos_of_text_current
#print axioms probeChunks_fit_lazy
#print axioms nonEmpty_now
#print axioms supportedModelled
#print axioms hchars_now
#print axioms hchars_full
#print axioms codec_strict_le
#print axioms C13_normWindow_fit
#print axioms C13_window_irrelevant
#print axioms offsets_single
#print axioms probeChunks_fit
#print axioms C13_chaos_of_text
#print axioms C13_same_text_same_chaos
#print axioms table_chars_le_bytes
#print axioms fromBytes_facts
