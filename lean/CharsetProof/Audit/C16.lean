import CharsetProof.Props.C15
import CharsetProof.Props.C16b
open Charset
#print axioms C16_multi_failure
#print axioms C16_multi_entries
#print axioms go_report_only
#print axioms C16_validation_first
#print axioms C16_validate_cases
#print axioms C16_missing_file
#print axioms C16_report_shape
#print axioms C16_single_entry
