import CharsetProof.Lemmas.Coh
import CharsetProof.Lemmas.F32
import CharsetProof.Lemmas.Loop
import CharsetProof.Lemmas.Merge
import CharsetProof.Lemmas.Ranges
import CharsetProof.Lemmas.Share
import CharsetProof.Lemmas.SortSmall
import CharsetProof.Props.C10
import CharsetProof.Props.C10b
import CharsetProof.Props.C10c
import CharsetProof.Props.C10d
import CharsetProof.Props.C10e
import CharsetProof.Props.C10f
import CharsetProof.Props.Full2
open Charset
#print axioms targetLanguages_is_model
#print axioms C10_tied_language_full
#print axioms worldFull_coh_respects_include
#print axioms Coh.coherenceRatio_respects_include
#print axioms coherenceRatioModel_langs
#print axioms C10_unicode_ranges
#print axioms C10_unicode_ranges_union
#print axioms unicodeRangesOf_spec
#print axioms insertionSort_sorted
#print axioms C10_languages_current
#print axioms C10_languages_full
#print axioms detection_full_languages
#print axioms C10_tied_language
#print axioms C10_tied_table_now
#print axioms mergeModel_nodup
#print axioms mergeModel_mem
#print axioms sortUnstableSmall_perm
#print axioms C10_share
#print axioms append_distinct
#print axioms sameOutput_of_identical
#print axioms Fl.sub_self_finite
#print axioms C10_nodup
#print axioms C10_nodup_current
#print axioms C10_lookup
#print axioms C10_most_probable_head
#print axioms C10_languages
#print axioms allCands_append_perm
#print axioms detectLoop_rule_pos
