import CharsetProof.Lemmas.F32
import CharsetProof.Lemmas.Loop
import CharsetProof.Lemmas.Share
import CharsetProof.Props.C10
import CharsetProof.Props.C10b
open Charset
#print axioms C10_share
#print axioms append_distinct
#print axioms sameOutput_of_identical
#print axioms Fl.sub_self_finite
#print axioms C10_nodup
#print axioms C10_nodup_current
#print axioms C10_lookup
#print axioms C10_most_probable_head
#print axioms C10_languages
#print axioms allCands_append_perm
#print axioms detectLoop_rule_pos
