import CharsetProof.Lemmas.Loop
import CharsetProof.Props.C10
open Charset
#print axioms C10_nodup
#print axioms C10_nodup_current
#print axioms C10_lookup
#print axioms C10_most_probable_head
#print axioms C10_languages
#print axioms allCands_append_perm
#print axioms detectLoop_rule_pos
