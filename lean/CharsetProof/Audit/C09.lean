import CharsetProof.Lemmas.Restrict
import CharsetProof.Props.C09
import CharsetProof.Props.C09b
import CharsetProof.Props.Full2
open Charset
#print axioms C09_converse
#print axioms mem_allCands_append
#print axioms C09_restricted_same_verdict
#print axioms C09_probe_indep
#print axioms C09_restricted_current
#print axioms C09_restricted_full
#print axioms detection_full_verdicts
#print axioms supported_nodup_now
#print axioms ctxOf_incl_irrel
#print axioms detectLoop_restricted
#print axioms probe_alone_of_shape
#print axioms nodup_probeOrder
