import CharsetProof.Props.C03
import CharsetProof.Props.C03b
open Charset
#print axioms C03_model_is_function
#print axioms sigOf_perm
#print axioms marks_prefixFree_now
#print axioms C03_hash_sites_covered
#print axioms strictSorted_ext
#print axioms C03_unicode_ranges_order_free
#print axioms C03_sorted_names_order_free
