import CharsetProof.Props.C03
open Charset
#print axioms C03_model_is_function
#print axioms sigOf_perm
#print axioms marks_prefixFree_now
#print axioms C03_hash_sites_covered
