import CharsetProof.Lemmas.EntryFacts
import CharsetProof.Lemmas.SortPerm
import CharsetProof.Props.C07
open Charset
#print axioms C07_bom
#print axioms C07_bom_current
#print axioms marksMultiByte_now
#print axioms marksPrefixFree_now
#print axioms bomHere_iff
#print axioms fromBytes_facts
#print axioms sortMatches_perm
