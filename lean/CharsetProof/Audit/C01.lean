import CharsetProof.Lemmas.Codec
import CharsetProof.Lemmas.EntryFacts
import CharsetProof.Lemmas.SortPerm
import CharsetProof.Props.C01
import CharsetProof.Props.C01b
import CharsetProof.Props.C07
import CharsetProof.Props.Full2
open Charset
#print axioms C01_decodes
#print axioms C01_decodes_small
#print axioms C01_decodes_current
#print axioms C01_ascii_fit_partial
#print axioms C01_ascii_fit_current
#print axioms C01_ascii_fit_full
#print axioms asciiLaw_now
#print axioms asciiTableOk
#print axioms lazyLaws_now
#print axioms drop_startIdx
#print axioms singleByteAreTables
#print axioms tableStrict_append
#print axioms fromBytes_facts
#print axioms marksMultiByte_now
#print axioms sortMatches_perm
