import CharsetProof.Lemmas.FloatExact
import CharsetProof.Lemmas.Merge
import CharsetProof.Lemmas.Single
import CharsetProof.Lemmas.SortSmall
import CharsetProof.Lemmas.SortSorted
import CharsetProof.Props.C04
import CharsetProof.Props.C10
import CharsetProof.Props.C10c
import CharsetProof.Props.C19
import CharsetProof.Props.C19f
import CharsetProof.Props.Full2
open Charset
#print axioms C19_single_chunk_full
#print axioms mergeModel_single
#print axioms Fl.roundPos_ival
#print axioms Fl.div_one_nn
#print axioms Fl.zero_add_nn
#print axioms C19_result_sorted_current
#print axioms C19_result_sorted_full
#print axioms detection_full_languages
#print axioms mergeModel_sorted
#print axioms sortUnstableSmall_pairwise
#print axioms sortUnstableSmall_perm
#print axioms C19_cutoff_partial
#print axioms C19_monotone_partial
#print axioms C19_listed_iff_partial
#print axioms C19_sorted
#print axioms C19_sorted_model
#print axioms C19_counterexample
#print axioms thrOk_of_le
#print axioms filterAlt_langs
#print axioms insertionSort_pairwise
#print axioms C04_coherence_head
#print axioms C10_most_probable_head
