import CharsetProof.Props.C11
open Charset
#print axioms memoCall_correct
#print axioms memoRun_correct
#print axioms C11_history_independent
#print axioms C11_world_ext
#print axioms C11_cached_inventory
