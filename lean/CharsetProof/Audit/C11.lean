import CharsetProof.Lemmas.Congr
import CharsetProof.Props.C11
import CharsetProof.Props.C11b
import CharsetProof.Props.C11c
open Charset
#print axioms C11_full_history_irrelevant
#print axioms fromBytes_congr
#print axioms worldFull_agree
#print axioms Nested.C11_nested_history
#print axioms Nested.callSolo_correct
#print axioms Nested.solo_finishes
#print axioms memoCall_correct
#print axioms memoRun_correct
#print axioms C11_history_independent
#print axioms C11_world_ext
#print axioms C11_cached_inventory
