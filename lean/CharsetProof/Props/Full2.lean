/-
  Second bundled statement for the fully modelled detection (companion of `detection_full`): the clauses about
  language lists (C10: no repeats; C19: ordered by non-increasing score) and about the analysis window
  (C13: chaos is `mess_ratio` of the whole decoded text when the input fits) – again without any hypothesis
  about the world: merge, mess detector and decoders are the Lean definitions of `worldFull`.
-/
import CharsetProof.Props.Full
import CharsetProof.Props.C13h
import CharsetProof.Props.C09
import CharsetProof.Props.C04b
import CharsetProof.Props.C01b
import CharsetProof.Props.C04
set_option linter.unusedSectionVars false
namespace Charset

/-- C10 (language list has no repeats), fully modelled world -/
theorem C10_languages_full (menv : Md.MdEnv) (cenv : Coh.CohEnv) (o : Oracle) {b : Bytes} {s : Settings}
    {incl excl : List Name}
    (hincl : canonList ianaNow s.incl = .ok incl) (hexcl : canonList ianaNow s.excl = .ok excl)
    {ms : List (Match Name Name)} (hb : b ≠ [])
    (h : fromBytes (worldFull menv cenv o) tablesNow sortMatches b s = .ok (.ok ms)) :
    ∀ m ∈ ms, m.languages.Nodup :=
  C10_languages sortMatches_perm
    (fun xs r hr => by rw [worldFull_merge] at hr; cases hr; exact mergeModel_nodup xs) hincl hexcl hb h

/-- C19 (order of the reported list), fully modelled world -/
theorem C19_result_sorted_full (menv : Md.MdEnv) (cenv : Coh.CohEnv) (o : Oracle) {b : Bytes} {s : Settings}
    {incl excl : List Name}
    (hincl : canonList ianaNow s.incl = .ok incl) (hexcl : canonList ianaNow s.excl = .ok excl)
    {ms : List (Match Name Name)} (hb : b ≠ [])
    (h : fromBytes (worldFull menv cenv o) tablesNow sortMatches b s = .ok (.ok ms)) :
    ∀ m ∈ ms, ∀ c ∈ m.entries, c.cohs.Pairwise (fun a b => b.2.key ≤ a.2.key) := by
  intro m hm c hc
  rcases fromBytes_facts sortMatches_perm hincl hexcl hb h with hall | ⟨fb, rfl, hfb, hsubs⟩
  · have f := Match.allEntries_iff.mp (hall m hm) c hc
    obtain ⟨cdl, hmerge⟩ := f.cohMerged
    rw [worldFull_merge] at hmerge
    have hcohs : mergeModel cdl = c.cohs := Except.ok.inj hmerge
    rw [← hcohs]
    exact mergeModel_sorted cdl
  · simp only [List.mem_singleton] at hm
    subst hm
    have f := Match.allEntries_iff.mp hfb c hc
    rw [f.cohs]
    exact List.Pairwise.nil

/-- **Detection, fully modelled, language and window clauses – no hypothesis about the world** -/
theorem detection_full_languages (menv : Md.MdEnv) (cenv : Coh.CohEnv) (o : Oracle) (b : Bytes) (s : Settings)
    (hb : b ≠ []) (hthr : s.thr.isNaN = false) {ms : List (Match Name Name)}
    (h : fromBytes (worldFull menv cenv o) tablesNow sortMatches b s = .ok (.ok ms)) :
    -- C10: no language is listed twice
    (∀ m ∈ ms, m.languages.Nodup) ∧
    -- C19: every candidate's languages are ordered by non-increasing score
    (∀ m ∈ ms, ∀ c ∈ m.entries, c.cohs.Pairwise (fun a b => b.2.key ≤ a.2.key)) ∧
    -- C13: when the input fits the window, the chaos of every regular candidate is mess_ratio of its whole text
    (Fits b s → ∀ m ∈ ms, ∀ c ∈ m.entries, Fl.ge c.chaos s.thr = false →
      ∃ t, c.text = some t ∧ c.chaos = (if t.isEmpty then Fl.zero else Md.messRatio menv t s.thr)) := by
  obtain ⟨incl, excl, hincl, hexcl⟩ := fromBytes_ok_canon h
  exact ⟨C10_languages_full menv cenv o hincl hexcl hb h,
         C19_result_sorted_full menv cenv o hincl hexcl hb h,
         fun hfit => C13_chaos_is_mess_ratio_full_all_sizes menv cenv o hincl hexcl hfit hthr hb h⟩

/-- C09 (restricting to one reported encoding reproduces its verdict), fully modelled world -/
theorem C09_restricted_full (menv : Md.MdEnv) (cenv : Coh.CohEnv) (o : Oracle) {b : Bytes} {s : Settings}
    {incl excl : List Name}
    (hincl : canonList ianaNow s.incl = .ok incl) (hexcl : canonList ianaNow s.excl = .ok excl)
    {ms : List (Match Name Name)} (hb : b ≠ [])
    (h : fromBytes (worldFull menv cenv o) tablesNow sortMatches b s = .ok (.ok ms))
    {m : Match Name Name} (hm : m ∈ ms) {x : Sub Name Name} (hx : x ∈ m.entries)
    (hsup : x.enc ∈ Gen.supported) :
    ∃ m0, m0.toSub = x ∧ m0.subs = [] ∧
      fromBytes (worldFull menv cenv o) tablesNow sortMatches b { s with incl := [x.enc] } = .ok (.ok [m0]) := by
  apply C09_restricted_same_verdict sortMatches_perm supported_nodup_now hincl hexcl hb h hm hx
  show canonList ianaNow [x.enc] = .ok [x.enc]
  simp [canonList, ianaNow_supported hsup]

/-- C04 (valid UTF-8 is never binary), fully modelled world -/
theorem C04_valid_utf8_full (menv : Md.MdEnv) (cenv : Coh.CohEnv) (o : Oracle) {b : Bytes} {s : Settings}
    (hb : b ≠ []) (hfb : s.fallback = true) (hincl : s.incl = []) (hexcl : s.excl = [])
    (hvalid : ∃ t, utf8Strict (b.drop (startIdxOf (ctxOf tablesNow b s) nUTF8)) = .ok t)
    {ms : List (Match Name Name)}
    (h : fromBytes (worldFull menv cenv o) tablesNow sortMatches b s = .ok (.ok ms)) : ms ≠ [] := by
  refine C04_valid_utf8_nonempty (W := worldFull menv cenv o) (T := tablesNow) sortMatches_perm ?_ ?_ ?_ ?_ ?_ hb hfb ?_ ?_ ?_ h
  · show nUTF8 ∈ Gen.supported; decide +kernel
  · show Gen.multiByte.contains nUTF8 = true; decide +kernel
  · exact ⟨by decide, by decide⟩
  · decide
  · exact hintsNotSimilarKeys_now nUTF8 (Or.inr (Or.inl rfl))
  · rw [hincl]; rfl
  · rw [hexcl]; rfl
  · obtain ⟨t, ht⟩ := hvalid
    refine ⟨t, ?_⟩
    show decodeNow o false nUTF8 (b.drop (startIdxOf (ctxOf tablesNow b s) nUTF8)) = _
    rw [decodeNow_utf8, ht]

/-- **Detection, fully modelled, verdict clauses – no hypothesis about the world**: every reported candidate that
    names a supported encoding is reproduced alone by the run restricted to it (C09), and valid UTF-8 with the
    fallback enabled and no filters is never reported binary (C04) -/
theorem detection_full_verdicts (menv : Md.MdEnv) (cenv : Coh.CohEnv) (o : Oracle) (b : Bytes) (s : Settings)
    (hb : b ≠ []) {ms : List (Match Name Name)}
    (h : fromBytes (worldFull menv cenv o) tablesNow sortMatches b s = .ok (.ok ms)) :
    (∀ m ∈ ms, ∀ x ∈ m.entries, x.enc ∈ Gen.supported →
      ∃ m0, m0.toSub = x ∧ m0.subs = [] ∧
        fromBytes (worldFull menv cenv o) tablesNow sortMatches b { s with incl := [x.enc] } = .ok (.ok [m0])) ∧
    (s.fallback = true → s.incl = [] → s.excl = [] →
      (∃ t, utf8Strict (b.drop (startIdxOf (ctxOf tablesNow b s) nUTF8)) = .ok t) → ms ≠ []) := by
  obtain ⟨incl, excl, hincl, hexcl⟩ := fromBytes_ok_canon h
  exact ⟨fun m hm x hx hsup => C09_restricted_full menv cenv o hincl hexcl hb h hm hx hsup,
         fun hfb hi he hv => C04_valid_utf8_full menv cenv o hb hfb hi he hv h⟩

/-- C01 (ascii clause) for the fully modelled world, inputs that fit the window: a candidate named `ascii` means every
    byte of the input is below 0x80 (beyond the window the clause is false of the pinned tree – known finding) -/
theorem C01_ascii_fit_full (menv : Md.MdEnv) (cenv : Coh.CohEnv) (o : Oracle)
    {b : Bytes} {s : Settings} {incl excl : List Name}
    (hincl : canonList ianaNow s.incl = .ok incl) (hexcl : canonList ianaNow s.excl = .ok excl)
    (hfit : Fits b s)
    {ms : List (Match Name Name)} (hb : b ≠ [])
    (h : fromBytes (worldFull menv cenv o) tablesNow sortMatches b s = .ok (.ok ms)) :
    ∀ m ∈ ms, ∀ c ∈ m.entries, c.enc = tablesNow.ascii → b.all (· < 128) = true :=
  C01_ascii_fit_partial sortMatches_perm marksMultiByte_now (lazyLaws_full menv cenv o) (hchars_full menv cenv o)
    (by decide +kernel) (asciiLaw_now o) hincl hexcl hfit hb h

/-- C04 (threshold or the single last-resort candidate), fully modelled world, with the fallback's fields -/
theorem C04_threshold_full (menv : Md.MdEnv) (cenv : Coh.CohEnv) (o : Oracle) {b : Bytes} {s : Settings}
    {ms : List (Match Name Name)} (hb : b ≠ [])
    (h : fromBytes (worldFull menv cenv o) tablesNow sortMatches b s = .ok (.ok ms)) :
    (∀ m ∈ ms, Fl.ge m.chaos s.thr = false ∧ ∀ c ∈ m.entries, Fl.ge c.chaos s.thr = false) ∨
    (∃ fb, ms = [fb] ∧ fb.subs = [] ∧ fb.chaos = s.thr ∧ s.fallback = true ∧ fb.enc ∈ hintsOf tablesNow b s ∧
      fb.cohs = [] ∧ fb.bom = false) := by
  obtain ⟨incl, excl, hincl, hexcl⟩ := fromBytes_ok_canon h
  exact C04_threshold sortMatches_perm hincl hexcl hb h

/-- the hypothesis `fromBytes … = .ok (.ok ms)` of the bundled statements above is not vacuous and not a restriction:
    under the premises of `detection_full` the model always answers, and whenever the answer is a list of matches
    every clause of `detection_full_languages` and `detection_full_verdicts` holds of it -/
theorem detection_full_companions (menv : Md.MdEnv) (cenv : Coh.CohEnv) (o : Oracle) (b : Bytes) (s : Settings)
    (hb : b ≠ []) (hs : 1 ≤ s.steps) (hlen : b.length + 1 < 2 ^ 64) (hthr : s.thr.isNaN = false) :
    ∃ r, fromBytes (worldFull menv cenv o) tablesNow sortMatches b s = .ok r ∧
      ∀ ms, r = .ok ms →
        (∀ m ∈ ms, m.languages.Nodup) ∧
        (∀ m ∈ ms, ∀ c ∈ m.entries, c.cohs.Pairwise (fun a b => b.2.key ≤ a.2.key)) ∧
        (Fits b s → ∀ m ∈ ms, ∀ c ∈ m.entries, Fl.ge c.chaos s.thr = false →
          ∃ t, c.text = some t ∧ c.chaos = (if t.isEmpty then Fl.zero else Md.messRatio menv t s.thr)) ∧
        (∀ m ∈ ms, ∀ x ∈ m.entries, x.enc ∈ Gen.supported →
          ∃ m0, m0.toSub = x ∧ m0.subs = [] ∧
            fromBytes (worldFull menv cenv o) tablesNow sortMatches b { s with incl := [x.enc] } = .ok (.ok [m0])) := by
  obtain ⟨r, hr⟩ := C02_full menv cenv o b s hs hlen
  refine ⟨r, hr, ?_⟩
  intro ms hms
  subst hms
  have h1 := detection_full_languages menv cenv o b s hb hthr hr
  have h2 := detection_full_verdicts menv cenv o b s hb hr
  exact ⟨h1.1, h1.2.1, h1.2.2, h2.1⟩

end Charset
