/-
  Second bundled statement for the fully modelled detection (companion of `detection_full`): the clauses about
  language lists (C10: no repeats; C19: ordered by non-increasing score) and about the analysis window
  (C13: chaos is `mess_ratio` of the whole decoded text when the input fits) – again without any hypothesis
  about the world: merge, mess detector and decoders are the Lean definitions of `worldFull`.
-/
import CharsetProof.Props.Full
import CharsetProof.Props.C13h
set_option linter.unusedSectionVars false
namespace Charset

/-- C10 (language list has no repeats), fully modelled world -/
theorem C10_languages_full (menv : Md.MdEnv) (cenv : Coh.CohEnv) (o : Oracle) {b : Bytes} {s : Settings}
    {incl excl : List Name}
    (hincl : canonList ianaNow s.incl = .ok incl) (hexcl : canonList ianaNow s.excl = .ok excl)
    {ms : List (Match Name Name)} (hb : b ≠ [])
    (h : fromBytes (worldFull menv cenv o) tablesNow sortMatches b s = .ok (.ok ms)) :
    ∀ m ∈ ms, m.languages.Nodup :=
  C10_languages sortMatches_perm
    (fun xs r hr => by rw [worldFull_merge] at hr; cases hr; exact mergeModel_nodup xs) hincl hexcl hb h

/-- C19 (order of the reported list), fully modelled world -/
theorem C19_result_sorted_full (menv : Md.MdEnv) (cenv : Coh.CohEnv) (o : Oracle) {b : Bytes} {s : Settings}
    {incl excl : List Name}
    (hincl : canonList ianaNow s.incl = .ok incl) (hexcl : canonList ianaNow s.excl = .ok excl)
    {ms : List (Match Name Name)} (hb : b ≠ [])
    (h : fromBytes (worldFull menv cenv o) tablesNow sortMatches b s = .ok (.ok ms)) :
    ∀ m ∈ ms, ∀ c ∈ m.entries, c.cohs.Pairwise (fun a b => b.2.key ≤ a.2.key) := by
  intro m hm c hc
  rcases fromBytes_facts sortMatches_perm hincl hexcl hb h with hall | ⟨fb, rfl, hfb, hsubs⟩
  · have f := Match.allEntries_iff.mp (hall m hm) c hc
    obtain ⟨cdl, hmerge⟩ := f.cohMerged
    rw [worldFull_merge] at hmerge
    have hcohs : mergeModel cdl = c.cohs := Except.ok.inj hmerge
    rw [← hcohs]
    exact mergeModel_sorted cdl
  · simp only [List.mem_singleton] at hm
    subst hm
    have f := Match.allEntries_iff.mp hfb c hc
    rw [f.cohs]
    exact List.Pairwise.nil

/-- **Detection, fully modelled, language and window clauses – no hypothesis about the world** -/
theorem detection_full_languages (menv : Md.MdEnv) (cenv : Coh.CohEnv) (o : Oracle) (b : Bytes) (s : Settings)
    (hb : b ≠ []) (hthr : s.thr.isNaN = false) {ms : List (Match Name Name)}
    (h : fromBytes (worldFull menv cenv o) tablesNow sortMatches b s = .ok (.ok ms)) :
    -- C10: no language is listed twice
    (∀ m ∈ ms, m.languages.Nodup) ∧
    -- C19: every candidate's languages are ordered by non-increasing score
    (∀ m ∈ ms, ∀ c ∈ m.entries, c.cohs.Pairwise (fun a b => b.2.key ≤ a.2.key)) ∧
    -- C13: when the input fits the window, the chaos of every regular candidate is mess_ratio of its whole text
    (Fits b s → ∀ m ∈ ms, ∀ c ∈ m.entries, Fl.ge c.chaos s.thr = false →
      ∃ t, c.text = some t ∧ c.chaos = (if t.isEmpty then Fl.zero else Md.messRatio menv t s.thr)) := by
  obtain ⟨incl, excl, hincl, hexcl⟩ := fromBytes_ok_canon h
  exact ⟨C10_languages_full menv cenv o hincl hexcl hb h,
         C19_result_sorted_full menv cenv o hincl hexcl hb h,
         fun hfit => C13_chaos_is_mess_ratio_full_all_sizes menv cenv o hincl hexcl hfit hthr hb h⟩

end Charset
