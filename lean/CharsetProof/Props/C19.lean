/-
  C19 — languages are listed by score; the language threshold is a pure cut-off.

  The full statement ("a language is listed exactly when its score reaches the threshold, so raising
  the threshold up to 0.8 only ever removes languages") is FALSE for the code as written (and for
  upstream Python): once three scores ≥ 0.8 have been recorded, every later alphabet layer stops at
  its *first* language that reaches the threshold, so a higher threshold can let a different language
  of that layer through (`C19_counterexample`). What is proved is the statement under the hypothesis
  the proof forces – fewer than three "sufficient" scores overall (`Calm`) – which in particular
  covers texts with a single alphabet layer whose counter stays below three before its end.
-/
import CharsetProof.Model.Cd
import CharsetProof.Lemmas.SortPerm
import CharsetProof.Lemmas.SortSorted
import CharsetProof.Lemmas.SortSmall
set_option linter.unusedSectionVars false
namespace Charset
variable {L : Type} [DecidableEq L]

/-- all (language, score) pairs of all layers, in evaluation order -/
def allPairs (score : Nat → L → F32) (cands : Nat → List L) (layers : List Nat) : List (L × F32) :=
  layers.flatMap (fun i => (cands i).map (fun l => (l, score i l)))

/-- number of sufficient (≥ 0.8) scores among a list of pairs -/
def suffCount (ps : List (L × F32)) : Nat := (ps.filter (fun p => Fl.ge p.2 sufficient)).length

/-- a threshold not above 0.8 never hides a sufficient score -/
def ThrOk (thr : F32) : Prop := ∀ r : F32, Fl.ge r sufficient = true → Fl.lt r thr = false

theorem cohLayer_calm (thr : F32) (hthr : ThrOk thr) (score : L → F32) :
    ∀ (ls : List L) (suff : Nat), suff + suffCount (ls.map (fun l => (l, score l))) < 3 →
      cohLayer thr score ls suff =
        ((ls.map (fun l => (l, score l))).filter (fun p => !Fl.lt p.2 thr),
         suff + suffCount (ls.map (fun l => (l, score l)))) := by
  intro ls
  induction ls with
  | nil => intro suff _; simp [cohLayer, suffCount]
  | cons l ls ih =>
    intro suff h
    simp only [cohLayer, List.map_cons, List.filter_cons]
    by_cases hlt : Fl.lt (score l) thr = true
    · have hns : Fl.ge (score l) sufficient = false := by
        cases hg : Fl.ge (score l) sufficient with
        | false => rfl
        | true => have := hthr _ hg; rw [hlt] at this; cases this
      simp only [hlt, ↓reduceIte, Bool.not_true, Bool.false_eq_true]
      have hc : suffCount ((l, score l) :: ls.map (fun l => (l, score l))) = suffCount (ls.map (fun l => (l, score l))) := by
        simp [suffCount, List.filter_cons, hns]
      simp only [List.map_cons] at h
      rw [hc] at h ⊢
      exact ih suff h
    · simp only [hlt, Bool.false_eq_true, ↓reduceIte, Bool.not_false]
      by_cases hs : Fl.ge (score l) sufficient = true
      · have hc : suffCount ((l, score l) :: ls.map (fun l => (l, score l))) = suffCount (ls.map (fun l => (l, score l))) + 1 := by
          simp [suffCount, List.filter_cons, hs]
        simp only [List.map_cons] at h
        rw [hc] at h ⊢
        have h3 : ¬ (3 ≤ suff + 1) := by omega
        simp only [hs, ↓reduceIte, h3]
        rw [ih (suff + 1) (by omega)]
        simp only [Prod.mk.injEq, true_and]; omega
      · have hc : suffCount ((l, score l) :: ls.map (fun l => (l, score l))) = suffCount (ls.map (fun l => (l, score l))) := by
          simp [suffCount, List.filter_cons, hs]
        simp only [List.map_cons] at h
        rw [hc] at h ⊢
        have h3 : ¬ (3 ≤ suff) := by omega
        simp only [hs, Bool.false_eq_true, ↓reduceIte, h3]
        rw [ih suff h]

theorem suffCount_append (a b : List (L × F32)) : suffCount (a ++ b) = suffCount a + suffCount b := by
  simp [suffCount, List.filter_append]

theorem cohLayers_calm (thr : F32) (hthr : ThrOk thr) (score : Nat → L → F32) (cands : Nat → List L) :
    ∀ (layers : List Nat) (suff : Nat), suff + suffCount (allPairs score cands layers) < 3 →
      cohLayers thr score cands layers suff = (allPairs score cands layers).filter (fun p => !Fl.lt p.2 thr) := by
  intro layers
  induction layers with
  | nil => intro suff _; simp [cohLayers, allPairs]
  | cons i is ih =>
    intro suff h
    simp only [allPairs, List.flatMap_cons] at h ⊢
    rw [suffCount_append] at h
    simp only [cohLayers]
    rw [cohLayer_calm thr hthr (score i) (cands i) suff (by omega)]
    simp only [List.filter_append]
    congr 1
    exact ih _ (by simp only [allPairs]; omega)

/-- fewer than three sufficient scores overall: the `break` of cd.rs is never taken -/
def Calm (score : Nat → L → F32) (cands : Nat → List L) (layers : List Nat) : Prop :=
  suffCount (allPairs score cands layers) < 3

/-- **C19 (cut-off, partial)** — under `Calm` and for a threshold not above 0.8, the entries collected by
    `coherence_ratio` are exactly the (language, score) pairs whose score reaches the threshold -/
theorem C19_cutoff_partial (thr : F32) (hthr : ThrOk thr) (score : Nat → L → F32) (cands : Nat → List L)
    (layers : List Nat) (hcalm : Calm score cands layers) :
    cohLayers thr score cands layers 0 = (allPairs score cands layers).filter (fun p => !Fl.lt p.2 thr) :=
  cohLayers_calm thr hthr score cands layers 0 (by simpa [Calm] using hcalm)

/-- hence raising the threshold (both ≤ 0.8, numbers) only ever removes entries -/
theorem C19_monotone_partial (t1 t2 : F32) (h1 : ThrOk t1) (h2 : ThrOk t2)
    (hle : ∀ r : F32, Fl.lt r t1 = true → Fl.lt r t2 = true)
    (score : Nat → L → F32) (cands : Nat → List L) (layers : List Nat) (hcalm : Calm score cands layers) :
    ∀ p ∈ cohLayers t2 score cands layers 0, p ∈ cohLayers t1 score cands layers 0 := by
  rw [C19_cutoff_partial t1 h1 _ _ _ hcalm, C19_cutoff_partial t2 h2 _ _ _ hcalm]
  intro p hp
  simp only [List.mem_filter, Bool.not_eq_eq_eq_not, Bool.not_true] at hp ⊢
  refine ⟨hp.1, ?_⟩
  cases h : Fl.lt p.2 t1 with
  | false => rfl
  | true => have := hle _ h; rw [hp.2] at this; cases this

/-! ### the per-language maximum and the sort keep exactly the languages collected -/

theorem filterAltStep_langs (index : List (L × F32)) (p : L × F32) (l : L) :
    l ∈ (filterAltStep index p).map (·.1) ↔ l ∈ index.map (·.1) ∨ l = p.1 := by
  unfold filterAltStep
  split
  · rename_i hany
    have hmap : (index.map (fun q => if q.1 = p.1 then (q.1, if Fl.ocmp p.2 q.2 == .gt then p.2 else q.2) else q)).map (·.1)
        = index.map (·.1) := by
      rw [List.map_map]
      apply List.map_congr_left
      intro q _
      simp only [Function.comp]
      split <;> rfl
    rw [hmap]
    constructor
    · intro h; exact Or.inl h
    · rintro (h | h)
      · exact h
      · subst h
        simp only [List.any_eq_true, decide_eq_true_eq] at hany
        obtain ⟨q, hq, hql⟩ := hany
        simp only [List.mem_map]; exact ⟨q, hq, hql⟩
  · simp [List.mem_append]

theorem filterAlt_langs (xs : List (L × F32)) (l : L) : l ∈ (filterAlt xs).map (·.1) ↔ l ∈ xs.map (·.1) := by
  unfold filterAlt
  have : ∀ (index : List (L × F32)), l ∈ (xs.foldl filterAltStep index).map (·.1) ↔ l ∈ index.map (·.1) ∨ l ∈ xs.map (·.1) := by
    induction xs with
    | nil => intro index; simp
    | cons x xs ih =>
      intro index
      simp only [List.foldl_cons, List.map_cons, List.mem_cons]
      rw [ih, filterAltStep_langs]
      constructor
      · rintro ((h | h) | h)
        · exact Or.inl h
        · exact Or.inr (Or.inl h)
        · exact Or.inr (Or.inr h)
      · rintro (h | h | h)
        · exact Or.inl (Or.inl h)
        · exact Or.inl (Or.inr h)
        · exact Or.inr h
  simpa using this []

/-- **C19 (listed ⇔ reaches the threshold, partial)** — under `Calm`, a language appears in the result of
    `coherence_ratio` exactly when one of its scores reaches the threshold -/
theorem C19_listed_iff_partial (thr : F32) (hthr : ThrOk thr) (n : Nat) (score : Nat → L → F32)
    (cands : Nat → List L) (hcalm : Calm score cands (List.range n)) (l : L) :
    l ∈ (coherenceRatioModel thr n score cands).map (·.1) ↔
      ∃ i, i < n ∧ l ∈ cands i ∧ Fl.lt (score i l) thr = false := by
  unfold coherenceRatioModel sortDesc
  have hperm := sortUnstableSmall_perm (fun (a b : L × F32) => Fl.ocmp b.2 a.2 == .lt)
    (filterAlt (cohLayers thr score cands (List.range n) 0))
  rw [(hperm.map (·.1)).mem_iff, filterAlt_langs, C19_cutoff_partial thr hthr _ _ _ hcalm]
  simp only [List.mem_map, List.mem_filter, allPairs, List.mem_flatMap, List.mem_range, Bool.not_eq_eq_eq_not,
    Bool.not_true]
  constructor
  · rintro ⟨p, ⟨⟨i, hi, l', hl', rfl⟩, hlt⟩, rfl⟩
    exact ⟨i, hi, hl', hlt⟩
  · rintro ⟨i, hi, hl, hlt⟩
    exact ⟨(l, score i l), ⟨⟨i, hi, l, hl, rfl⟩, hlt⟩, rfl⟩

/-! ### order: the list is sorted by non-increasing score -/

theorem sortDesc_lt_eq (a b : L × F32) :
    (Fl.ocmp b.2 a.2 == Ordering.lt) = decide ((-a.2.key) < (-b.2.key)) := by
  unfold Fl.ocmp
  by_cases h : b.2.key < a.2.key
  · have : compare b.2.key a.2.key = .lt := Int.compare_eq_lt.mpr h
    simp [this]; omega
  · have : compare b.2.key a.2.key ≠ .lt := fun hc => h (Int.compare_eq_lt.mp hc)
    have hd : decide (-a.2.key < -b.2.key) = false := by simp; omega
    rw [hd]
    cases hc : compare b.2.key a.2.key <;> simp_all

/-- **C19 (order)** — the language list is ordered by non-increasing score (OrderedFloat order) -/
theorem C19_sorted (l : List (L × F32)) :
    (sortDesc l).Pairwise (fun a b => b.2.key ≤ a.2.key) := by
  unfold sortDesc
  have hfun : (fun (a b : L × F32) => Fl.ocmp b.2 a.2 == Ordering.lt) =
      (fun a b => decide ((fun p : L × F32 => -p.2.key) a < (fun p : L × F32 => -p.2.key) b)) := by
    funext a b; exact sortDesc_lt_eq a b
  rw [hfun]
  have := sortUnstableSmall_pairwise (fun p : L × F32 => -p.2.key) l
  exact this.imp (fun h => by omega)

theorem C19_sorted_model (thr : F32) (n : Nat) (score : Nat → L → F32) (cands : Nat → List L) :
    (coherenceRatioModel thr n score cands).Pairwise (fun a b => b.2.key ≤ a.2.key) :=
  C19_sorted _

/-! ### the full statement is false: counterexample -/

/-- toy world: layer 0 has three languages scoring 0.9 (sufficient), layer 1 has language 3 scoring 0.5
    and language 4 scoring 0.7 -/
def cexScore : Nat → Nat → F32 := fun i l =>
  if i = 0 then F32.lit 9 10 else if l = 3 then F32.lit 1 2 else F32.lit 7 10
def cexCands : Nat → List Nat := fun i => if i = 0 then [0, 1, 2] else [3, 4]

/-- **C19 counterexample** — with threshold 0.4 language 4 is NOT listed (layer 1 stops at language 3),
    with the higher threshold 0.6 language 4 IS listed: raising the threshold added a language.
    (Kernel-evaluated on the float model; replayed on the implementation by the harness.) -/
theorem C19_counterexample :
    ((coherenceRatioModel (F32.lit 4 10) 2 cexScore cexCands).map (·.1)).contains 4 = false ∧
    ((coherenceRatioModel (F32.lit 6 10) 2 cexScore cexCands).map (·.1)).contains 4 = true := by
  decide +kernel

/-- every numeric threshold not above 0.8 satisfies `ThrOk` -/
theorem thrOk_of_le (thr : F32) (hle : thr.key ≤ sufficient.key) : ThrOk thr := by
  intro r hr
  simp only [Fl.ge, Fl.le, Bool.and_eq_true, Bool.not_eq_eq_eq_not, Bool.not_true, decide_eq_true_eq] at hr
  simp only [Fl.lt, Bool.and_eq_false_iff, Bool.not_eq_eq_eq_not, Bool.not_false, decide_eq_false_iff_not]
  right; omega

/-- non-vacuity of `Calm`/`ThrOk`: a world with two sufficient scores and threshold 0.1 -/
example : suffCount (allPairs (fun _ l => if l < 2 then F32.lit 9 10 else F32.lit 3 10) (fun _ => [0, 1, 2]) [0]) = 2 := by
  decide +kernel

end Charset
