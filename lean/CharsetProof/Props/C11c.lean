/-
  C11 at the level of the fully modelled world: the only channel through which earlier calls could reach a detection in
  the model is the table of recorded answers (`Oracle`) the world is built over.  For the fully modelled world that table is
  never consulted for anything the detection asks – every decoder of a supported encoding, the mess detector, the coherence
  detector, the merge and the language table are Lean definitions – so the result is a function of the bytes, the settings
  and the two Unicode environments alone.
-/
import CharsetProof.Lemmas.Congr
import CharsetProof.Props.C02c
set_option linter.unusedSectionVars false
namespace Charset

/-- decoding under a supported encoding does not look at the recorded answers -/
theorem decodeNow_oracle_irrelevant (o o' : Oracle) (chunk : Bool) {e : Name} (he : e ∈ Gen.supported) (x : Bytes) :
    decodeNow o chunk e x = decodeNow o' chunk e x := by
  have hm := List.all_eq_true.mp supportedModelled e he
  unfold decodeNow
  cases hcod : codecNow e with
  | none => rfl
  | some c =>
    rw [hcod] at hm
    simp only at hm
    cases hs : c.strict with
    | none => rw [hs] at hm; cases hm
    | some f => simp only [hs]

theorem worldFull_agree (menv : Md.MdEnv) (cenv : Coh.CohEnv) (o o' : Oracle) :
    (worldFull menv cenv o).AgreeOn (worldFull menv cenv o') tablesNow.supported where
  decode := fun e he x => decodeNow_oracle_irrelevant o o' false he x
  decodeChunk := fun e he x => decodeNow_oracle_irrelevant o o' true he x
  target := fun _ _ => rfl
  mess := rfl
  coh := rfl
  merge := rfl

/-- **C11, fully modelled world**: whatever answers were recorded before – none, some, others – the detection is the same -/
theorem C11_full_history_irrelevant (menv : Md.MdEnv) (cenv : Coh.CohEnv) (o o' : Oracle) (b : Bytes) (s : Settings) :
    fromBytes (worldFull menv cenv o) tablesNow sortMatches b s =
      fromBytes (worldFull menv cenv o') tablesNow sortMatches b s :=
  fromBytes_congr (worldFull_agree menv cenv o o') sortMatches b s

end Charset
