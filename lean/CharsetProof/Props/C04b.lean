/-
  C04 (last clause) — with fallback enabled and no encoding filters, any input that is valid UTF-8 yields
  at least one match (it is never classified as binary).
-/
import CharsetProof.Lemmas.Loop
import CharsetProof.Lemmas.Master
import CharsetProof.Lemmas.Facts
import CharsetProof.Lemmas.SortPerm
import CharsetProof.Props.C06
set_option linter.unusedSectionVars false
namespace Charset
variable {E L : Type} [DecidableEq E]

theorem chunkLoop_keeps_lazyHard {W : World E L} {T : Tables E} {c : Ctx E} {e : E} {t : Text}
    {seqLen maxGaveUp : Nat} (hne : e ≠ T.ascii) (offs : List Nat) (acc acc' : ChunkAcc)
    (h : chunkLoop W T c e (some t) seqLen maxGaveUp offs acc = .ok acc') : acc'.lazyHard = acc.lazyHard := by
  induction offs generalizing acc with
  | nil => simp only [chunkLoop] at h; cases h; rfl
  | cons off offs ih =>
    have hchunk : chunkAt W T c e (some t) seqLen off = .ok (some ((t.drop off).take c.chunk)) := by
      simp [chunkAt, validChunk, hne]
    simp only [chunkLoop, hchunk] at h
    split at h
    · cases h
    · split at h
      · cases h; rfl
      · have := ih _ h; simpa using this

/-- what the probe of utf-8 can answer on input that is valid UTF-8 (after its own mark) -/
theorem probe_utf8_valid {W : World E L} {T : Tables E} {c : Ctx E} {soft : List E}
    (hmb : T.isMultiByte T.utf8 = true) (hne16 : T.utf8 ≠ T.utf16le ∧ T.utf8 ≠ T.utf16be) (hnea : T.utf8 ≠ T.ascii)
    (hkey : ∀ f, T.similar T.utf8 f = false) (hfb : c.fallback = true) (hprio : c.prio.contains T.utf8 = true)
    (hvalid : ∃ t, W.decode T.utf8 (c.b.drop (startIdxOf c T.utf8)) = .ok (some t))
    {v : Verdict E L} (h : probe W T c soft T.utf8 = .ok v) :
    (∃ fb, v = .softFail (some fb)) ∨ (∃ m, v = .accepted m) := by
  obtain ⟨t, ht⟩ := hvalid
  have hlazy : lazyOf T c T.utf8 = false := by simp [lazyOf, hmb]
  unfold probe at h
  cases hp : probePrepare W T c soft T.utf8 with
  | error s => simp [hp] at h
  | ok st1 =>
    -- stage 1 can only be `go`
    have hgo : ∃ p, st1 = .go p ∧ p.payload = some t ∧ p.lazy = false := by
      unfold probePrepare at hp
      have hnb : needsBomCond T c T.utf8 = false := by
        simp [needsBomCond, hne16.1, hne16.2]
      simp only [hnb, Bool.false_eq_true, ↓reduceIte] at hp
      cases hsl : sliceF 341 c.b (startIdxOf c T.utf8) (endIdxOf T c T.utf8) with
      | error s => simp [hsl] at hp
      | ok sl =>
        obtain ⟨_, _, hsleq⟩ := sliceF_ok hsl
        have : sl = c.b.drop (startIdxOf c T.utf8) := by
          rw [hsleq]; apply List.take_of_length_le
          simp [endIdxOf, hlazy]
        subst this
        simp only [hsl, ht] at hp
        have hfind : List.find? (fun f => T.similar T.utf8 f) soft = none := by
          apply List.find?_eq_none.mpr; intro f _; simp [hkey f]
        simp only [hfind] at hp
        cases hp
        exact ⟨_, rfl, by simp [payloadOf, hlazy], hlazy⟩
    obtain ⟨p, rfl, hpay, hpl⟩ := hgo
    simp only [hp] at h
    cases hc : probeChunks W T c T.utf8 p with
    | error s => simp [hc] at h
    | ok acc =>
      have hlh : acc.lazyHard = false := by
        unfold probeChunks at hc
        split at hc
        · cases hc
        · rw [hpay] at hc
          exact chunkLoop_keeps_lazyHard hnea _ _ _ hc
      simp only [hc] at h
      have hrem : probeRemainder W T c T.utf8 p acc = .ok false := by
        unfold probeRemainder; simp [hpl]
      simp only [hrem] at h
      split at h
      · -- soft failure: the fallback entry is prepared
        unfold probeSoft at h
        have hcond : fallbackCond c T.utf8 acc = true := by
          unfold fallbackCond; rw [hfb, hlh, hprio]; rfl
        simp only [hcond, ↓reduceIte] at h
        split at h
        · cases h
        · cases h; exact Or.inl ⟨_, rfl⟩
      · obtain ⟨m, _, _, hv, _⟩ := probeAccept_spec h
        exact Or.inr ⟨m, hv⟩

theorem append_ne_nil {sort : Sorter E L} (hperm : ∀ l, (sort l).Perm l) (tooBig : Nat) (items : List (Match E L))
    (m : Match E L) : append sort tooBig items m ≠ [] := by
  obtain ⟨x, hx⟩ := findByCand_append_mem hperm tooBig items m
  intro hnil; rw [hnil] at hx; simp at hx
where
  findByCand_append_mem {sort : Sorter E L} (hperm : ∀ l, (sort l).Perm l) (tooBig : Nat) (items : List (Match E L))
      (m : Match E L) : ∃ x, x ∈ append sort tooBig items m := by
    unfold append
    split
    · rename_i items' hm
      split at hm
      · obtain ⟨pre, m0, post, _, _, _, h4⟩ := mergeInto_some hm
        rw [h4]; exact ⟨_, List.mem_append_right _ (List.mem_cons_self)⟩
      · cases hm
    · exact ⟨m, (hperm _).mem_iff.mpr (by simp)⟩

/-- **C04 (valid UTF-8 is never binary)** — for every world and table set in which utf-8 is a supported,
    multi-byte encoding that is not a key of the similarity table (kernel-checked for the dumped
    tables): with fallback enabled and no filters, if the input (minus its own mark) strictly decodes
    as UTF-8, detection returns at least one match. -/
theorem C04_valid_utf8_nonempty {W : World E L} {T : Tables E} {sort : Sorter E L} (hperm : ∀ l, (sort l).Perm l)
    (hsup : T.utf8 ∈ T.supported) (hmb : T.isMultiByte T.utf8 = true)
    (hne16 : T.utf8 ≠ T.utf16le ∧ T.utf8 ≠ T.utf16be) (hnea : T.utf8 ≠ T.ascii)
    (hkey : ∀ f, T.similar T.utf8 f = false)
    {b : Bytes} {s : Settings} (hb : b ≠ []) (hfb : s.fallback = true)
    (hincl : canonList T.ianaName s.incl = .ok []) (hexcl : canonList T.ianaName s.excl = .ok [])
    (hvalid : ∃ t, W.decode T.utf8 (b.drop (startIdxOf (ctxOf T b s) T.utf8)) = .ok (some t))
    {ms : List (Match E L)} (h : fromBytes W T sort b s = .ok (.ok ms)) : ms ≠ [] := by
  let c := ctxOf T b s
  let order := probeOrder T.supported (prioritized T b s.preemptive)
  have hprio : c.prio.contains T.utf8 = true := by simp [c, ctxOf, prioritized]
  let P : LoopState E L → Prop := fun st => st.results ≠ [] ∨ st.fbU8.isSome = true ∨ st.fbSpec.isSome = true
  have hall : ∀ e, allowed ([] : List E) [] e = true := by intro e; simp [allowed]
  unfold fromBytes at h
  simp only [hincl, hexcl] at h
  split at h
  · rename_i he; exact absurd (by simpa using he) hb
  · cases hl : detectLoop W T sort c [] [] order {} with
    | error e => simp [c, order, hl] at h
    | ok out =>
      let Q : Outcome E L → Prop := fun o => match o with | .exit _ => True | .done st => P st
      have key : Q out := by
        refine detectLoop_rule_full (W := W) (T := T) (sort := sort) (c := c) (incl := []) (excl := []) order
          (fun done st => T.utf8 ∈ done → P st) Q
          ?_ ?_ ?_ ?_ order [] {} out (by simp) (by simp) hl
        · intro done st e rest _ hinv hcase hmem
          simp only [List.mem_append, List.mem_singleton] at hmem
          rcases hmem with hmem | rfl
          · exact hinv hmem
          · exfalso
            rcases hcase with h0 | h1 | h1 | ⟨f, h1⟩
            · rw [hall] at h0; cases h0
            · rcases probe_utf8_valid hmb hne16 hnea hkey hfb hprio hvalid h1 with ⟨_, hv⟩ | ⟨_, hv⟩ <;> cases hv
            · rcases probe_utf8_valid hmb hne16 hnea hkey hfb hprio hvalid h1 with ⟨_, hv⟩ | ⟨_, hv⟩ <;> cases hv
            · rcases probe_utf8_valid hmb hne16 hnea hkey hfb hprio hvalid h1 with ⟨_, hv⟩ | ⟨_, hv⟩ <;> cases hv
        · intro done st e rest fb _ hinv _ hp hmem
          simp only [List.mem_append, List.mem_singleton] at hmem
          have hmono : P st → P (softUpdate T c st e fb) := by
            intro hP
            unfold softUpdate
            split
            · exact hP
            · split
              · rcases hP with h1 | h1 | h1
                · exact Or.inl h1
                · exact Or.inr (Or.inl h1)
                · exact Or.inr (Or.inr rfl)
              · split
                · rcases hP with h1 | h1 | h1
                  · exact Or.inl h1
                  · exact Or.inr (Or.inl h1)
                  · exact Or.inr (Or.inr h1)
                · rcases hP with h1 | h1 | h1
                  · exact Or.inl h1
                  · exact Or.inr (Or.inl rfl)
                  · exact Or.inr (Or.inr h1)
          rcases hmem with hmem | rfl
          · exact hmono (hinv hmem)
          · rcases probe_utf8_valid hmb hne16 hnea hkey hfb hprio hvalid hp with ⟨fb', hv⟩ | ⟨_, hv⟩
            · simp only [Verdict.softFail.injEq] at hv
              subst hv
              unfold softUpdate
              simp only
              split
              · exact Or.inr (Or.inr rfl)
              · exact Or.inr (Or.inl rfl)
            · cases hv
        · intro done st e rest m _ hinv _ hp
          refine ⟨fun _ _ => Or.inl (append_ne_nil hperm _ _ _), fun _ x _ => trivial⟩
        · intro st hinv
          exact hinv (mem_probeOrder_of_mem hsup)
      simp only [c, order] at hl
      simp only [hl] at h
      cases out with
      | exit x => simp only [Except.ok.injEq] at h; rw [← h]; simp
      | done st =>
        simp only [Except.ok.injEq] at h
        rw [← h]
        unfold finish
        split
        · rename_i hemp
          have hres : st.results = [] := by simpa using hemp
          have hP : st.fbU8.isSome = true ∨ st.fbSpec.isSome = true := by
            rcases key with h1 | h1 | h1
            · exact absurd hres h1
            · exact Or.inl h1
            · exact Or.inr h1
          have hpick : ∃ fb, pickFallback st = some fb := by
            unfold pickFallback
            cases hs : st.fbSpec with
            | some x => exact ⟨x, rfl⟩
            | none =>
              rw [hs] at hP
              simp only [Option.isSome_none, Bool.false_eq_true, or_false] at hP
              cases hu : st.fbU8 with
              | none => rw [hu] at hP; cases hP
              | some u =>
                cases ha : st.fbAscii with
                | none => exact ⟨u, rfl⟩
                | some a => simp only; split <;> exact ⟨_, rfl⟩
          obtain ⟨fb, hpk⟩ := hpick
          rw [hpk]
          exact append_ne_nil hperm _ _ _
        · rename_i hne
          intro h0; rw [h0] at hne; simp at hne

end Charset

namespace Charset

/-! ### the current tree -/

theorem decodeNow_utf8 (o : Oracle) (x : Bytes) :
    decodeNow o false nUTF8 x = .ok (match utf8Strict x with | .ok t => some t | .error _ => none) := by
  have hc : codecNow nUTF8 = some .utf8 := by
    have hb : (match codecNow nUTF8 with | some .utf8 => true | _ => false) = true := by decide +kernel
    cases hcn : codecNow nUTF8 with
    | none => rw [hcn] at hb; cases hb
    | some c => cases c <;> rw [hcn] at hb <;> first | rfl | cases hb
  have hm : Gen.multiByte.contains nUTF8 = true := by decide +kernel
  unfold decodeNow
  simp only [hc, Codec.strict, decodeStrict, Bool.false_eq_true, false_and, ↓reduceIte]
  split <;> simp_all

/-- **C04 (valid UTF-8 is never binary) for the current tree**: the Lean UTF-8 automaton (the crate's
    DFA, tied by T3) accepts the input minus its own mark ⇒ at least one match -/
theorem C04_valid_utf8_current (o : Oracle) {b : Bytes} {s : Settings} (hb : b ≠ []) (hfb : s.fallback = true)
    (hincl : s.incl = []) (hexcl : s.excl = [])
    (hvalid : ∃ t, utf8Strict (b.drop (startIdxOf (ctxOf tablesNow b s) nUTF8)) = .ok t)
    {ms : List (Match Name Name)} (h : fromBytes (worldNow o) tablesNow sortMatches b s = .ok (.ok ms)) : ms ≠ [] := by
  refine C04_valid_utf8_nonempty (W := worldNow o) (T := tablesNow) sortMatches_perm ?_ ?_ ?_ ?_ ?_ hb hfb ?_ ?_ ?_ h
  · show nUTF8 ∈ Gen.supported; decide +kernel
  · show Gen.multiByte.contains nUTF8 = true; decide +kernel
  · exact ⟨by decide, by decide⟩
  · decide
  · exact hintsNotSimilarKeys_now nUTF8 (Or.inr (Or.inl rfl))
  · rw [hincl]; rfl
  · rw [hexcl]; rfl
  · obtain ⟨t, ht⟩ := hvalid
    refine ⟨t, ?_⟩
    show decodeNow o false nUTF8 (b.drop (startIdxOf (ctxOf tablesNow b s) nUTF8)) = _
    rw [decodeNow_utf8, ht]

end Charset
