/-
  C10, last clause — `unicode_ranges()` is sorted, duplicate-free and equal to the union of what each
  character of the text yields on its own.
-/
import CharsetProof.Lemmas.Ranges
import CharsetProof.Model.Entity
import CharsetProof.Generated.TablesNow
namespace Charset

/-- `m.unicode_ranges()` over the block table dumped from the compiled crate (tie T1) -/
def unicodeRangesNow {E L : Type} (m : Match E L) : List Name := unicodeRangesOf Gen.unicodeRanges m.text

/-- **C10 (unicode_ranges)** — for every match (every text, also none): strictly increasing in the
    string order (so sorted and duplicate-free), and a range is listed exactly when some character of
    the text lies in it (first matching row of the table, as `unicode_range` does) -/
theorem C10_unicode_ranges {E L : Type} (m : Match E L) :
    (unicodeRangesNow m).Pairwise (fun a b => a < b) ∧ (unicodeRangesNow m).Nodup ∧
    ∀ r, r ∈ unicodeRangesNow m ↔ ∃ c ∈ m.text.getD [], unicodeRangeOf Gen.unicodeRanges c = some r :=
  unicodeRangesOf_spec Gen.unicodeRanges m.text

/-- the union clause, spelled as in the property: the ranges of a text are the ranges of its characters -/
theorem C10_unicode_ranges_union (t : Text) (r : Name) :
    r ∈ unicodeRangesOf Gen.unicodeRanges (some t) ↔
      ∃ c ∈ t, r ∈ unicodeRangesOf Gen.unicodeRanges (some [c]) := by
  rw [(unicodeRangesOf_spec Gen.unicodeRanges (some t)).2.2 r]
  constructor
  · rintro ⟨c, hc, h⟩
    exact ⟨c, hc, ((unicodeRangesOf_spec Gen.unicodeRanges (some [c])).2.2 r).mpr ⟨c, by simp, h⟩⟩
  · rintro ⟨c, hc, h⟩
    obtain ⟨c', hc', h'⟩ := ((unicodeRangesOf_spec Gen.unicodeRanges (some [c])).2.2 r).mp h
    simp only [Option.getD_some, List.mem_singleton] at hc'
    subst hc'
    exact ⟨c', hc, h'⟩

/-- non-vacuity: "é a" lies in two blocks, listed in string order -/
example : unicodeRangesOf Gen.unicodeRanges (some [233, 32, 97]) =
    [nameOfStr "Basic Latin", nameOfStr "Latin-1 Supplement"] := by decide +kernel

end Charset
