/-
  C11 — memoisation is unobservable: results do not depend on call history.
-/
import CharsetProof.Model.Memo
import CharsetProof.Model.Detect
import CharsetProof.Generated.Inventory
namespace Charset
variable {K V : Type} [DecidableEq K]

theorem cacheGet_some {c : CacheEntries K V} {k : K} {v : V} (h : cacheGet c k = some v) : (k, v) ∈ c := by
  unfold cacheGet at h
  cases hf : c.find? (fun p => p.1 == k) with
  | none => simp [hf] at h
  | some p =>
    simp only [hf, Option.map_some, Option.some.injEq] at h
    have hm := List.mem_of_find?_eq_some hf
    have hp := List.find?_some hf
    simp only [beq_iff_eq] at hp
    subst h; subst hp; exact hm

/-- **C11 (one call)** — with a correct cache a memoised call returns exactly what the body computes,
    and leaves a correct cache, whatever the eviction policy does -/
theorem memoCall_correct (f : K → V) (ev : Evict K V) (c : CacheEntries K V) (k : K) (h : CacheOk f c) :
    (memoCall f ev c k).1 = f k ∧ CacheOk f (memoCall f ev c k).2 := by
  unfold memoCall
  cases hg : cacheGet c k with
  | some v =>
    have := h (k, v) (cacheGet_some hg)
    exact ⟨this, h⟩
  | none =>
    refine ⟨rfl, ?_⟩
    intro p hp
    have := ev.sub _ p hp
    simp only [List.mem_cons] at this
    rcases this with rfl | hin
    · rfl
    · exact h p hin

/-- **C11 (all histories)** — after *any* sequence of earlier calls on *any* keys, with *any*
    eviction behaviour at every step (cold, warm, full, evicting), every call of the history – in
    particular the last one – returns the body's value for its key -/
theorem memoRun_correct (f : K → V) (hist : List (K × Evict K V)) (c : CacheEntries K V) (h : CacheOk f c) :
    (memoRun f hist c).1 = hist.map (fun p => f p.1) ∧ CacheOk f (memoRun f hist c).2 := by
  induction hist generalizing c with
  | nil => exact ⟨rfl, h⟩
  | cons p rest ih =>
    obtain ⟨k, ev⟩ := p
    have h1 := memoCall_correct f ev c k h
    have h2 := ih (memoCall f ev c k).2 h1.2
    simp only [memoRun, List.map_cons]
    exact ⟨by rw [h1.1, h2.1], h2.2⟩

theorem cacheOk_nil (f : K → V) : CacheOk f ([] : CacheEntries K V) := by
  intro p hp; simp at hp

/-- corollary: the answer to a call is independent of the history that precedes it -/
theorem C11_history_independent (f : K → V) (h1 h2 : List (K × Evict K V)) (k : K) (ev : Evict K V) :
    (memoRun f (h1 ++ [(k, ev)]) []).1.getLast? = (memoRun f (h2 ++ [(k, ev)]) []).1.getLast? := by
  rw [(memoRun_correct f _ [] (cacheOk_nil f)).1, (memoRun_correct f _ [] (cacheOk_nil f)).1]
  simp

/-- detection reads the memoised functions only through the values they return: two worlds that agree
    pointwise give the same detection result (so replacing `mess_ratio` & co. by memoised versions
    that return the same values – `memoRun_correct` – is unobservable) -/
theorem C11_world_ext {E L : Type} [DecidableEq E] (W W' : World E L) (T : Tables E) (sort : Sorter E L)
    (hd : W.decode = W'.decode) (hc : W.decodeChunk = W'.decodeChunk) (hm : W.mess = W'.mess)
    (hco : W.coh = W'.coh) (hmg : W.merge = W'.merge) (ht : W.target = W'.target) (b : Bytes) (s : Settings) :
    fromBytes W T sort b s = fromBytes W' T sort b s := by
  cases W; cases W'; simp only at hd hc hm hco hmg ht; subst hd hc hm hco hmg ht; rfl

/-! ### tie T2(a): the memoised functions of the current source tree and their keys -/

/-- the `#[cached]` items found in /repo's source on this run: (file, fn, attribute, parameters) -/
def cachedNow : List (Name × Name × Name × Name) := Inv.cached

/-- expected inventory: four memoised functions, none with `key`/`convert` dropping an argument,
    none with `result`/`option`/`time`/`sync_writes`; `new_mess_detector_character` converts its only
    argument. A new, changed or vanished `#[cached]` item changes `Inv.cached` and fails this check. -/
def cachedCovered : List (String × String) := [
  ("src/cd.rs", "coherence_ratio"),
  ("src/cd.rs", "encoding_languages"),
  ("src/md.rs", "mess_ratio"),
  ("src/md/structs.rs", "new_mess_detector_character")]

def attrsCovered : List String := [
  "#[cached(size = 2048)]",
  "#[cached(size = 128)]",
  "#[cached(size = 2048)]",
  "#[cached( ty = \"UnboundCache<char, MessDetectorChar>\", create = \"{ UnboundCache::with_capacity(UTF8_MAXIMAL_ALLOCATION) }\", convert = r#\"{ character }\"# )]"]

def cachedInventoryOkB : Bool :=
  (cachedNow.map (fun x => (x.1, x.2.1))) == cachedCovered.map (fun p => (nameOfStr p.1, nameOfStr p.2)) &&
  (cachedNow.map (fun x => x.2.2.1)) == attrsCovered.map nameOfStr

theorem C11_cached_inventory : cachedInventoryOkB = true := by decide +kernel

end Charset
