/-
  C16 for any number of inputs (report-only runs, i.e. without `--normalize`): a missing or undetectable input
  anywhere in the list ends the run with an error and no report; on success the report's entries are exactly
  the library's matches of the inputs (best match of every input, its alternatives only with
  `--with-alternative`, a bare entry for an input with no match), each carrying the library's fields.
-/
import CharsetProof.Props.C15
set_option linter.unusedSectionVars false
namespace Charset

/-- the report entries one input contributes -/
def entriesOf (a : CliArgs) (detect : Bytes → Option (List MInfo)) (fs : FS) (p : Path) : List Entry :=
  match fsGet fs p with
  | none => []
  | some content =>
    match detect content with
    | none => []
    | some [] => [⟨p, none, [], none⟩]
    | some (best :: rest) =>
      ⟨p, some best.encoding, best.printed, none⟩ ::
        (if a.alternatives then rest.map (fun m => ⟨p, some m.encoding, m.printed, none⟩) else [])

/-- does the input make the run fail? -/
def failsOn (detect : Bytes → Option (List MInfo)) (fs : FS) (p : Path) : Bool :=
  match fsGet fs p with
  | none => true
  | some content => (detect content).isNone

theorem processFile_report_only {a : CliArgs} {detect : Bytes → Option (List MInfo)} {confirm : Path → Bool}
    (hn : a.normalize = false) (st : LoopSt) (p : Path) :
    (failsOn detect st.fs p = true → ∃ e, processFile a detect confirm st p = .error e) ∧
    (failsOn detect st.fs p = false → ∃ st', processFile a detect confirm st p = .ok st' ∧ st'.fs = st.fs ∧
      st'.results.Perm (st.results ++ entriesOf a detect st.fs p)) := by
  unfold failsOn processFile entriesOf
  cases hc : fsGet st.fs p with
  | none => simp
  | some content =>
    simp only
    cases hd : detect content with
    | none => simp
    | some ms =>
      cases ms with
      | nil => simp
      | cons best rest =>
        simp only [Option.isNone_some, Bool.false_eq_true, false_implies, hn, Bool.not_false, ↓reduceIte, true_and,
          forall_const]
        refine ⟨_, rfl, rfl, ?_⟩
        simp only
        -- best :: (prev ++ alts)  ~  prev ++ (best :: alts)
        exact (List.perm_middle (a := (⟨p, some best.encoding, best.printed, none⟩ : Entry)) (l₁ := st.results)).symm

theorem go_report_only {a : CliArgs} {detect : Bytes → Option (List MInfo)} {confirm : Path → Bool}
    (hn : a.normalize = false) : ∀ (ps : List Path) (st : LoopSt),
    ((∃ p ∈ ps, failsOn detect st.fs p = true) → ∃ e, (runCli.go a detect confirm ps st).1 = .error e) ∧
    ((∀ p ∈ ps, failsOn detect st.fs p = false) → ∃ st', (runCli.go a detect confirm ps st).1 = .ok st' ∧
      st'.results.Perm (st.results ++ ps.flatMap (entriesOf a detect st.fs)) ∧
      (runCli.go a detect confirm ps st).2 = st.fs)
  | [], st => by
    refine ⟨?_, ?_⟩
    · rintro ⟨p, hp, _⟩; cases hp
    · intro _; exact ⟨st, rfl, by simp, rfl⟩
  | p :: ps, st => by
    obtain ⟨hfail, hok⟩ := processFile_report_only (confirm := confirm) (a := a) (detect := detect) hn st p
    simp only [runCli.go]
    cases hf : failsOn detect st.fs p with
    | true =>
      obtain ⟨e, he⟩ := hfail hf
      rw [he]
      refine ⟨fun _ => ⟨e, rfl⟩, ?_⟩
      intro hall
      have := hall p List.mem_cons_self
      rw [hf] at this; cases this
    | false =>
      obtain ⟨st', hst', hfs, hperm⟩ := hok hf
      rw [hst']
      simp only
      obtain ⟨ih1, ih2⟩ := go_report_only hn ps st'
      rw [hfs] at ih1 ih2
      refine ⟨?_, ?_⟩
      · rintro ⟨q, hq, hqf⟩
        rcases List.mem_cons.mp hq with rfl | hq'
        · rw [hf] at hqf; cases hqf
        · exact ih1 ⟨q, hq', hqf⟩
      · intro hall
        obtain ⟨st'', h1, h2, h3⟩ := ih2 (fun q hq => hall q (List.mem_cons_of_mem _ hq))
        refine ⟨st'', h1, ?_, h3⟩
        simp only [List.flatMap_cons]
        refine h2.trans ?_
        rw [← List.append_assoc]
        exact List.Perm.append_right _ hperm

/-- **C16 (any failing input, anywhere in the list)**: a missing file or an undetectable input ends a
    report-only run with an error – no report – whatever the other inputs are -/
theorem C16_multi_failure (a : CliArgs) (detect : Bytes → Option (List MInfo)) (confirm : Path → Bool) (fs : FS)
    (hn : a.normalize = false) (p : Path) (hp : p ∈ a.files) (hf : failsOn detect fs p = true) :
    ∃ e, (runCli a detect confirm fs).1 = .error e := by
  unfold runCli
  cases hv : validate a with
  | some e => exact ⟨e, rfl⟩
  | none =>
    simp only
    obtain ⟨e, he⟩ := (go_report_only (confirm := confirm) hn a.files ⟨fs, []⟩).1 ⟨p, hp, hf⟩
    cases hg : runCli.go a detect confirm a.files ⟨fs, []⟩ with
    | mk r fs' =>
      rw [hg] at he
      simp only at he
      subst he
      exact ⟨e, rfl⟩

/-- **C16 (the report lists exactly the library's matches)**: when every input is readable and detectable, a
    report-only run succeeds, touches nothing, and its entries are – up to order – the inputs' entries:
    per input the best match with the library's printed fields, the alternatives only with `-a` -/
theorem C16_multi_entries (a : CliArgs) (detect : Bytes → Option (List MInfo)) (confirm : Path → Bool) (fs : FS)
    (hv : validate a = none) (hn : a.normalize = false)
    (hall : ∀ p ∈ a.files, failsOn detect fs p = false) :
    ∃ results : List Entry, (runCli a detect confirm fs) = (.ok (report a results), fs) ∧
      results.Perm (a.files.flatMap (entriesOf a detect fs)) := by
  obtain ⟨st', h1, h2, h3⟩ := (go_report_only (confirm := confirm) hn a.files ⟨fs, []⟩).2 hall
  refine ⟨st'.results, ?_, by simpa using h2⟩
  unfold runCli
  simp only [hv]
  cases hg : runCli.go a detect confirm a.files ⟨fs, []⟩ with
  | mk r fs' =>
    rw [hg] at h1 h3
    simp only at h1 h3
    subst h1; subst h3
    rfl

end Charset
