/-
  C10 anchor 'coherence evaluated only against the encoding's target languages': the table of target
  languages dumped from the compiled crate (T1) equals what the Lean model of encoding_languages /
  mb_encoding_languages (Model/Targets.lean) computes – for every supported encoding, kernel-evaluated.
-/
import CharsetProof.Model.Targets
namespace Charset
set_option maxRecDepth 100000
/-- tie T1 as a theorem: the dumped table of target languages is what the model of
    `encoding_languages` / `mb_encoding_languages` computes from the dumped decoding tables -/
theorem targetLanguages_is_model :
    (Gen.targetLanguages.all (fun p => targetLanguagesModel p.1 == some p.2)) = true := by decide +kernel
end Charset
