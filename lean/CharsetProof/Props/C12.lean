/-
  C12 — concurrent detections are independent.
  Theorems about the interleaving semantics of the `#[cached]` lock protocol (`Model/Conc.lean`):
  for every number of threads and EVERY schedule, safety (every returned value is the body's value
  for the thread's own key; the cache stays correct), mutual exclusion bookkeeping, and progress
  (some thread is always enabled until all are done; every enabled step decreases a rank, so every
  maximal schedule is finite: no deadlock, no livelock).
-/
import CharsetProof.Model.Conc
import CharsetProof.Props.C11
import CharsetProof.Covered
set_option linter.unusedSectionVars false
namespace Charset
variable {K V : Type} [DecidableEq K]

/-- the value a thread carries (if any) -/
def pcVal : PC V → Option V
  | .computed v => some v
  | .locked2 v => some v
  | .done v => some v
  | _ => none

structure Good (f : K → V) (s : Sys K V) : Prop where
  cacheOk : CacheOk f s.cache
  vals : ∀ (i : Nat) (t : Thread K V), s.threads[i]? = some t → ∀ v, pcVal t.pc = some v → v = f t.key
  holder : ∀ (i : Nat), s.lock = some i → ∃ t : Thread K V, s.threads[i]? = some t ∧ holdsLock t.pc = true
  excl : ∀ (i : Nat) (t : Thread K V), s.threads[i]? = some t → holdsLock t.pc = true → s.lock = some i

theorem good_init (f : K → V) (cache : CacheEntries K V) (h : CacheOk f cache) (keys : List K) :
    Good f (initSys cache keys) := by
  refine ⟨h, ?_, ?_, ?_⟩
  · intro i t ht v hv
    simp only [initSys, List.getElem?_map] at ht
    cases hk : keys[i]? with
    | none => simp [hk] at ht
    | some k => simp only [hk, Option.map_some, Option.some.injEq] at ht; subst ht; simp [pcVal] at hv
  · intro i hi; simp [initSys] at hi
  · intro i t ht hh
    simp only [initSys, List.getElem?_map] at ht
    cases hk : keys[i]? with
    | none => simp [hk] at ht
    | some k => simp only [hk, Option.map_some, Option.some.injEq] at ht; subst ht; simp [holdsLock] at hh

theorem getElem?_set_cases {α} (l : List α) (i j : Nat) (a x : α) (h : (l.set i a)[j]? = some x) :
    (j = i ∧ x = a ∧ i < l.length) ∨ (j ≠ i ∧ l[j]? = some x) := by
  by_cases hji : j = i
  · subst hji
    by_cases hlt : j < l.length
    · left; rw [List.getElem?_set_self hlt] at h; exact ⟨rfl, by simpa using h.symm, hlt⟩
    · have : (l.set j a)[j]? = none := by
        apply List.getElem?_eq_none; simp; omega
      rw [this] at h; cases h
  · right; refine ⟨hji, ?_⟩
    rw [List.getElem?_set_ne (fun h => hji h.symm)] at h; exact h

/-- **C12 (safety step)** — one atomic step of any thread preserves the invariant -/
theorem good_step (f : K → V) (ev : Evict K V) (s : Sys K V) (i : Nat) (h : Good f s) :
    Good f (stepThread f ev s i) := by
  unfold stepThread
  cases hti : s.threads[i]? with
  | none => simpa using h
  | some t =>
    simp only
    by_cases hen : enabled s.lock t.pc = true
    · simp only [hen, Bool.not_true, Bool.false_eq_true, ↓reduceIte]
      have hilt : i < s.threads.length := by
        have := List.getElem?_eq_some_iff.mp hti; exact this.1
      cases hpc : t.pc with
      | start =>
        have hfree : s.lock = none := by simpa [enabled, hpc] using hen
        refine ⟨h.cacheOk, ?_, ?_, ?_⟩
        · intro j x hx v hv
          rcases getElem?_set_cases _ _ _ _ _ hx with ⟨_, rfl, _⟩ | ⟨_, hx'⟩
          · simp [pcVal] at hv
          · exact h.vals j x hx' v hv
        · intro j hj
          simp only [Option.some.injEq] at hj; subst hj
          exact ⟨_, List.getElem?_set_self hilt, rfl⟩
        · intro j x hx hh
          rcases getElem?_set_cases _ _ _ _ _ hx with ⟨hji, _, _⟩ | ⟨_, hx'⟩
          · simp [hji]
          · have := h.excl j x hx' hh; rw [hfree] at this; cases this
      | locked1 =>
        have hme : s.lock = some i := h.excl i t hti (by simp [holdsLock, hpc])
        cases hg : cacheGet s.cache t.key with
        | some v =>
          simp only
          refine ⟨h.cacheOk, ?_, ?_, ?_⟩
          · intro j x hx w hw
            rcases getElem?_set_cases _ _ _ _ _ hx with ⟨_, rfl, _⟩ | ⟨_, hx'⟩
            · simp only [pcVal, Option.some.injEq] at hw; subst hw
              exact h.cacheOk (t.key, v) (cacheGet_some hg)
            · exact h.vals j x hx' w hw
          · intro j hj; cases hj
          · intro j x hx hh
            rcases getElem?_set_cases _ _ _ _ _ hx with ⟨_, rfl, _⟩ | ⟨hne, hx'⟩
            · simp [holdsLock] at hh
            · have := h.excl j x hx' hh; rw [hme] at this
              simp only [Option.some.injEq] at this; exact absurd this.symm hne
        | none =>
          simp only
          refine ⟨h.cacheOk, ?_, ?_, ?_⟩
          · intro j x hx w hw
            rcases getElem?_set_cases _ _ _ _ _ hx with ⟨_, rfl, _⟩ | ⟨_, hx'⟩
            · simp [pcVal] at hw
            · exact h.vals j x hx' w hw
          · intro j hj; cases hj
          · intro j x hx hh
            rcases getElem?_set_cases _ _ _ _ _ hx with ⟨_, rfl, _⟩ | ⟨hne, hx'⟩
            · simp [holdsLock] at hh
            · have := h.excl j x hx' hh; rw [hme] at this
              simp only [Option.some.injEq] at this; exact absurd this.symm hne
      | compute =>
        refine ⟨h.cacheOk, ?_, ?_, ?_⟩
        · intro j x hx w hw
          rcases getElem?_set_cases _ _ _ _ _ hx with ⟨_, rfl, _⟩ | ⟨_, hx'⟩
          · simp only [pcVal, Option.some.injEq] at hw; exact hw.symm
          · exact h.vals j x hx' w hw
        · intro j hj
          obtain ⟨x, hx, hh⟩ := h.holder j hj
          by_cases hji : j = i
          · subst hji; rw [hti] at hx; cases hx; simp [holdsLock, hpc] at hh
          · exact ⟨x, by rw [List.getElem?_set_ne (fun h => hji h.symm)]; exact hx, hh⟩
        · intro j x hx hh
          rcases getElem?_set_cases _ _ _ _ _ hx with ⟨_, rfl, _⟩ | ⟨_, hx'⟩
          · simp [holdsLock] at hh
          · exact h.excl j x hx' hh
      | computed v =>
        have hfree : s.lock = none := by simpa [enabled, hpc] using hen
        have hv : v = f t.key := h.vals i t hti v (by simp [pcVal, hpc])
        refine ⟨h.cacheOk, ?_, ?_, ?_⟩
        · intro j x hx w hw
          rcases getElem?_set_cases _ _ _ _ _ hx with ⟨_, rfl, _⟩ | ⟨_, hx'⟩
          · simp only [pcVal, Option.some.injEq] at hw; subst hw; exact hv
          · exact h.vals j x hx' w hw
        · intro j hj
          simp only [Option.some.injEq] at hj; subst hj
          exact ⟨_, List.getElem?_set_self hilt, rfl⟩
        · intro j x hx hh
          rcases getElem?_set_cases _ _ _ _ _ hx with ⟨hji, _, _⟩ | ⟨_, hx'⟩
          · simp [hji]
          · have := h.excl j x hx' hh; rw [hfree] at this; cases this
      | locked2 v =>
        have hme : s.lock = some i := h.excl i t hti (by simp [holdsLock, hpc])
        have hv : v = f t.key := h.vals i t hti v (by simp [pcVal, hpc])
        refine ⟨?_, ?_, ?_, ?_⟩
        · intro p hp
          have := ev.sub _ p hp
          simp only [List.mem_cons] at this
          rcases this with rfl | hin
          · exact hv
          · exact h.cacheOk p hin
        · intro j x hx w hw
          rcases getElem?_set_cases _ _ _ _ _ hx with ⟨_, rfl, _⟩ | ⟨_, hx'⟩
          · simp only [pcVal, Option.some.injEq] at hw; subst hw; exact hv
          · exact h.vals j x hx' w hw
        · intro j hj; cases hj
        · intro j x hx hh
          rcases getElem?_set_cases _ _ _ _ _ hx with ⟨_, rfl, _⟩ | ⟨hne, hx'⟩
          · simp [holdsLock] at hh
          · have := h.excl j x hx' hh; rw [hme] at this
            simp only [Option.some.injEq] at this; exact absurd this.symm hne
      | done v => simpa using h
    · simp only [hen, Bool.not_false, ↓reduceIte]
      simpa using h

/-- **C12 (safety, all schedules)** — after ANY schedule from a correct (cold or warm) cache, every
    thread that has returned holds the body's value for its own key, and the cache is still correct
    (nothing poisoned for later calls) -/
theorem C12_safety (f : K → V) (ev : Evict K V) (sched : List Nat) (s : Sys K V) (h : Good f s) :
    Good f (runSchedule f ev sched s) := by
  induction sched generalizing s with
  | nil => exact h
  | cons i is ih => exact ih _ (good_step f ev s i h)

theorem C12_results (f : K → V) (ev : Evict K V) (cache : CacheEntries K V) (hc : CacheOk f cache)
    (keys : List K) (sched : List Nat) :
    ∀ (i : Nat) (t : Thread K V) (v : V), (runSchedule f ev sched (initSys cache keys)).threads[i]? = some t →
      t.pc = PC.done v → v = f t.key := by
  intro i t v ht hpc
  have := C12_safety f ev sched _ (good_init f cache hc keys)
  exact this.vals i t ht v (by simp [pcVal, hpc])

/-! ### progress -/

def rank : PC V → Nat
  | .start => 5
  | .locked1 => 4
  | .compute => 3
  | .computed _ => 2
  | .locked2 _ => 1
  | .done _ => 0

def totalRank (s : Sys K V) : Nat := (s.threads.map (fun t => rank t.pc)).sum

/-- **C12 (no deadlock)** — in every reachable state in which some thread has not returned, some
    thread is enabled: the lock holder if there is one (it never waits while holding the mutex),
    any unfinished thread otherwise -/
theorem C12_no_deadlock (f : K → V) (s : Sys K V) (h : Good f s)
    (hunfinished : ∃ (i : Nat) (t : Thread K V), s.threads[i]? = some t ∧ isDone t.pc = false) :
    ∃ (i : Nat) (t : Thread K V), s.threads[i]? = some t ∧ enabled s.lock t.pc = true := by
  cases hl : s.lock with
  | some j =>
    obtain ⟨t, ht, hh⟩ := h.holder j hl
    refine ⟨j, t, ht, ?_⟩
    cases hpc : t.pc <;> simp [holdsLock, hpc] at hh <;> simp [enabled]
  | none =>
    obtain ⟨i, t, ht, hd⟩ := hunfinished
    refine ⟨i, t, ht, ?_⟩
    cases hpc : t.pc <;> simp [isDone, hpc] at hd <;> simp [enabled]
    all_goals
      have := h.excl i t ht (by simp [holdsLock, hpc])
      rw [hl] at this; cases this

theorem sum_set_lt {l : List Nat} {i a : Nat} (hi : i < l.length) (ha : a < l[i]) :
    (l.set i a).sum < l.sum := by
  induction l generalizing i with
  | nil => simp at hi
  | cons x xs ih =>
    cases i with
    | zero => simp only [List.set_cons_zero, List.sum_cons, List.getElem_cons_zero] at ha ⊢; omega
    | succ n =>
      simp only [List.set_cons_succ, List.sum_cons, List.getElem_cons_succ] at ha ⊢
      have := ih (by simpa using hi) ha
      omega

/-- **C12 (progress)** — every enabled step strictly decreases the total rank (≤ 5 per thread), so
    every maximal schedule is finite and ends with all threads returned: no deadlock, no livelock -/
theorem C12_step_decreases (f : K → V) (ev : Evict K V) (s : Sys K V) (i : Nat) (t : Thread K V)
    (ht : s.threads[i]? = some t) (hen : enabled s.lock t.pc = true) :
    totalRank (stepThread f ev s i) < totalRank s := by
  have hilt : i < s.threads.length := (List.getElem?_eq_some_iff.mp ht).1
  have hget : s.threads[i] = t := (List.getElem?_eq_some_iff.mp ht).2
  have key : ∀ pc', rank pc' < rank t.pc →
      ((s.threads.set i { t with pc := pc' }).map (fun t => rank t.pc)).sum < totalRank s := by
    intro pc' hlt
    unfold totalRank
    rw [List.map_set]
    apply sum_set_lt (by simpa using hilt)
    simp only [List.getElem_map, hget]; exact hlt
  unfold stepThread
  simp only [ht, hen, Bool.not_true, Bool.false_eq_true, ↓reduceIte]
  cases hpc : t.pc with
  | start => simp only; exact key _ (by simp [rank, hpc])
  | locked1 =>
    simp only
    cases cacheGet s.cache t.key with
    | some v => exact key _ (by simp [rank, hpc])
    | none => exact key _ (by simp [rank, hpc])
  | compute => simp only; exact key _ (by simp [rank, hpc])
  | computed v => simp only; exact key _ (by simp [rank, hpc])
  | locked2 v => simp only; exact key _ (by simp [rank, hpc])
  | done v => simp [enabled, hpc] at hen

/-- **T2(d) obligation** — the global mutable state of the current source is exactly the reviewed list
    (immutable `Lazy` tables, plain constants and the four `Mutex`-guarded memo caches generated by
    `#[cached]`); a new `static mut`, `Mutex`, `RefCell`, `thread_local!`, `unsafe` or atomic is an
    uncovered site and fails this check -/
theorem C12_globals_covered : (Inv.globals == Covered.globals) = true := by decide +kernel

/-- the memoised functions are the ones of C11 (no `sync_writes`, which would hold a lock across the
    body; no new cached function) -/
theorem C12_cached_inventory : cachedInventoryOkB = true := C11_cached_inventory

/-- non-vacuity: two threads on the same key, one concrete interleaving, both return f k -/
example :
    let f : Nat → Nat := fun k => k * 2
    let ev : Evict Nat Nat := ⟨id, fun _ _ h => h⟩
    let s := runSchedule f ev [0, 1, 0, 1, 1, 0, 0, 1, 1, 1, 0, 0, 1, 0, 1, 0, 1, 0, 1, 0, 1] (initSys [] [7, 7])
    s.threads.map (fun t => t.pc) = [.done 14, .done 14] := by
  decide +kernel

end Charset
