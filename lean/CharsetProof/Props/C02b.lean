/-
  C02 for the mess detector: none of the `unwrap()`s of md/plugins.rs, nor the `%` / `-` of the
  early-calculation test in md.rs, can fail – for every Unicode environment, every text, every threshold.
-/
import CharsetProof.Model.MdFault
import CharsetProof.Model.DecodeFault
set_option linter.unusedSectionVars false
namespace Charset
namespace Md

theorem P1.feedF_eq (s : P1) (c : CharInfo) : P1.feedF s c = .ok (P1.feed s c) := by
  unfold P1.feedF P1.feed P1.changedF
  cases h : s.last with
  | none => simp [unwrapF]
  | some l => simp [unwrapF, bne_comm]

theorem P4.feedF_eq (env : MdEnv) (s : P4) (c : CharInfo) : P4.feedF env s c = .ok (P4.feed env s c) := by
  unfold P4.feedF P4.feed
  cases h : s.last with
  | none => simp; split <;> rfl
  | some l => simp [unwrapF]; split <;> rfl

theorem P5.feedF_eq (s : P5) (c : CharInfo) : P5.feedF s c = .ok (P5.feed s c) := by
  unfold P5.feedF P5.feed P5.guardF P5.upperF
  cases h : s.last with
  | none => simp
  | some l =>
    cases ha : c.is ACCENTUATED <;> cases hl : l.is ACCENTUATED <;> cases hu : c.is UPPERCASE <;>
      cases hlu : l.is UPPERCASE <;> simp [unwrapF, ha, hl, hu, hlu]

theorem P6.lastF_eq (s' : P6) (h4 : 4 ≤ s'.buffer.length) :
    (match unwrapF 282 s'.buffer.getLast? with
      | .error e => (.error e : FE P6)
      | .ok l =>
        if l.is ACCENTUATED && l.is UPPERCASE then
          .ok { s' with foreignLong := s'.foreignLong + 1, curBad := true }
        else .ok s') =
    .ok (match s'.buffer.getLast? with
      | some l =>
        if l.is ACCENTUATED && l.is UPPERCASE then
          { s' with foreignLong := s'.foreignLong + 1, curBad := true }
        else s'
      | none => s') := by
  cases hb : s'.buffer.getLast? with
  | none =>
    exfalso
    have : s'.buffer = [] := List.getLast?_eq_none_iff.mp hb
    rw [this] at h4; simp at h4
  | some l =>
    simp only [unwrapF]
    split <;> rfl

theorem P6.shortF_eq (s : P6) : P6.shortF s = .ok (P6.short s) := by
  unfold P6.shortF P6.short
  by_cases h4 : 4 ≤ s.buffer.length
  · simp only [h4, ↓reduceIte]
    apply P6.lastF_eq
    split <;> exact h4
  · simp [h4]

theorem P6.endWordF_eq (s : P6) : P6.endWordF s = .ok (P6.endWord s) := by
  unfold P6.endWordF P6.endWord
  simp only [P6.shortF_eq]

theorem P6.feedF_eq (s : P6) (c : CharInfo) : P6.feedF s c = .ok (P6.feed s c) := by
  unfold P6.feedF P6.feed
  split
  · rfl
  · split
    · rfl
    · split
      · exact P6.endWordF_eq s
      · split <;> rfl

theorem Dets.feedF_eq (env : MdEnv) (d : Dets) (c : CharInfo) : Dets.feedF env d c = .ok (Dets.feed env d c) := by
  unfold Dets.feedF Dets.feed
  simp only [P1.feedF_eq, P4.feedF_eq, P5.feedF_eq, P6.feedF_eq]
  cases P1.eligible c <;> cases P4.eligible c <;> cases P5.eligible c <;> simp

theorem period_pos (n : Nat) : 0 < period n := by
  unfold period; split
  · decide
  · split <;> decide

theorem checkpointF_eq (idx p : Nat) (hp : 0 < p) : checkpointF idx p = .ok (idx % p == p - 1) := by
  unfold checkpointF modF subF
  have h1 : ¬ p = 0 := by omega
  have h2 : 1 ≤ p := hp
  simp [h1, h2]

theorem loopF_eq (env : MdEnv) (p : Nat) (hp : 0 < p) (thr : F32) (d : Dets) (idx : Nat) (cs : List Nat) :
    loopF env p thr d idx cs = .ok (loop env p thr d idx cs) := by
  induction cs generalizing d idx with
  | nil => rfl
  | cons c cs ih =>
    simp only [loopF, loop, Dets.feedF_eq, checkpointF_eq idx p hp]
    by_cases hc : (idx % p == p - 1) = true ∧ Fl.ge ((d.feed env (env.info c)).sum) thr = true
    · have hc' : idx % p = p - 1 ∧ Fl.ge ((d.feed env (env.info c)).sum) thr = true := ⟨by simpa using hc.1, hc.2⟩
      rw [if_pos hc, if_pos hc']
    · have hc' : ¬ (idx % p = p - 1 ∧ Fl.ge ((d.feed env (env.info c)).sum) thr = true) := by
        intro h; exact hc ⟨by simpa using h.1, h.2⟩
      rw [if_neg hc, if_neg hc']
      exact ih _ _

/-- **C02 (mess detector is total)**: with every `unwrap()`, `%` and unsigned `-` of md.rs / md/plugins.rs
    modelled as an operation that can fail, `mess_ratio` never fails and returns exactly what the plain
    model computes – for every Unicode environment, every text (any length, any characters), every threshold. -/
theorem C02_mess_ratio_total (env : MdEnv) (t : Text) (thr : F32) :
    messRatioF env t thr = .ok (messRatio env t thr) := by
  unfold messRatioF messRatio
  exact loopF_eq env _ (period_pos _) thr _ _ _

/-- the instrumentation is not vacuous: each guarded operation does fail when its guard is removed -/
example : unwrapF 43 (none : Option Nat) = .error (.unwrapNone 43) := rfl
example : checkpointF 5 0 = .error (.divZero 57) := rfl
example : (P6.shortF { buffer := [] } = .ok { buffer := [] }) ∧
    unwrapF 282 ([] : List CharInfo).getLast? = .error (.unwrapNone 282) := ⟨rfl, rfl⟩

end Md
end Charset

namespace Charset
open Md

theorem retryStopF_eq {len b e : Nat} (hbe : b ≤ e) (hel : e ≤ len) :
    retryStopF len b e = .ok (decide (e - b < 1 ∨ 3 < b ∨ 3 < len - e)) := by
  unfold retryStopF subF
  simp only [hbe, hel, ↓reduceIte]
  by_cases h : e - b < 1 ∨ 3 < b
  · rw [if_pos h]
    have : (e - b < 1 ∨ 3 < b ∨ 3 < len - e) := by
      rcases h with h | h
      · exact Or.inl h
      · exact Or.inr (Or.inl h)
    rw [decide_eq_true this]
  · rw [if_neg h]
    have h1 : ¬ e - b < 1 := fun x => h (Or.inl x)
    have h2 : ¬ 3 < b := fun x => h (Or.inr x)
    congr 1
    apply decide_eq_decide.mpr
    constructor
    · intro x; exact Or.inr (Or.inr x)
    · intro x
      rcases x with x | x | x
      · exact absurd x h1
      · exact absurd x h2
      · exact x

/-- **C02 (decode helper, chunk mode)**: with the slice and the three unsigned subtractions of the retry
    loop modelled as operations that can fail, the loop never fails and returns what the plain model
    returns, for every strict decoder that accepts the empty input (all modelled codecs do:
    `strict_nil_modelled`), every input and every number of rounds – the invariant is
    `begin ≤ end ≤ len`, and `begin < end` whenever the decoder reported an error. -/
theorem chunkRetryF_eq (strict : Bytes → Except ErrKind Text) (hnil : ∃ t, strict [] = .ok t) (input : Bytes) :
    ∀ (fuel b e : Nat), b ≤ e → e ≤ input.length →
      chunkRetryF strict input fuel b e = .ok (chunkRetry strict input fuel b e) := by
  intro fuel
  induction fuel with
  | zero =>
    intro b e hbe hel
    simp [chunkRetryF, chunkRetry, sliceFE, hbe, hel]
  | succ n ih =>
    intro b e hbe hel
    simp only [chunkRetryF, chunkRetry, sliceFE, hbe, hel, and_self, ↓reduceIte]
    cases hs : strict ((input.drop b).take (e - b)) with
    | ok t => rfl
    | error k =>
      simp only
      -- an error means the slice was not empty
      have hlt : b < e := by
        rcases Nat.lt_or_ge b e with h | h
        · exact h
        · exfalso
          have hz : e - b = 0 := by omega
          rw [hz, List.take_zero] at hs
          obtain ⟨t, ht⟩ := hnil
          rw [ht] at hs; cases hs
      cases k with
      | invalid =>
        simp only [↓reduceIte, reduceCtorEq]
        rw [retryStopF_eq (by omega) hel]
        by_cases hstop : (e - (b + 1) < 1 ∨ 3 < b + 1 ∨ 3 < input.length - e)
        · rw [decide_eq_true hstop, if_pos hstop]
        · rw [decide_eq_false hstop, if_neg hstop]
          exact ih _ _ (by omega) hel
      | incomplete =>
        simp only [↓reduceIte, reduceCtorEq, subF]
        have h1 : 1 ≤ e := by omega
        simp only [h1, ↓reduceIte]
        rw [retryStopF_eq (by omega) (by omega)]
        by_cases hstop : (e - 1 - b < 1 ∨ 3 < b ∨ 3 < input.length - (e - 1))
        · rw [decide_eq_true hstop, if_pos hstop]
        · rw [decide_eq_false hstop, if_neg hstop]
          exact ih _ _ (by omega) (by omega)

/-- the modelled strict decoders accept the empty input -/
theorem strict_nil_modelled (c : Codec) (st : Bytes → Except ErrKind Text) (h : c.strict = some st) :
    ∃ t, st [] = .ok t := by
  cases c with
  | table tbl => simp only [Codec.strict, Option.some.injEq] at h; subst h; exact ⟨[], rfl⟩
  | utf8 => simp only [Codec.strict, Option.some.injEq] at h; subst h; exact ⟨[], rfl⟩
  | utf16 le => simp only [Codec.strict, Option.some.injEq] at h; subst h; exact ⟨[], rfl⟩
  | external id => simp only [Codec.strict] at h; exact ⟨[], Cjk.strictOf_nil h⟩

/-- the chunk-mode helper on a whole input, as `decodeStrict` calls it -/
theorem C02_chunk_retry_total (c : Codec) (st : Bytes → Except ErrKind Text) (h : c.strict = some st) (input : Bytes) :
    chunkRetryF st input 16 0 input.length = .ok (chunkRetry st input 16 0 input.length) :=
  chunkRetryF_eq st (strict_nil_modelled c st h) input 16 0 input.length (Nat.zero_le _) (Nat.le_refl _)

/-- non-vacuity: a decoder that rejects the empty input as incomplete makes `end_offset -= 1` underflow -/
example : chunkRetryF (fun _ => .error .incomplete) [] 16 0 0 = .error (.overflow 244) := rfl

end Charset
