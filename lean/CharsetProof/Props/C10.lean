/-
  C10 — alternatives partition the accepted encodings; match fields are coherent.
-/
import CharsetProof.Lemmas.Loop
import CharsetProof.Lemmas.Master
import CharsetProof.Lemmas.Facts
import CharsetProof.Lemmas.SortPerm
import CharsetProof.Lemmas.Restrict
import CharsetProof.Model.Concrete
set_option linter.unusedSectionVars false
namespace Charset
variable {E L : Type} [DecidableEq E]

/-- every encoding named anywhere in a result list (main encodings and alternatives) -/
def allCands (items : List (Match E L)) : List E := items.flatMap Match.cands

theorem allCands_append_perm {sort : Sorter E L} (hperm : ∀ l, (sort l).Perm l) {tooBig : Nat}
    (items : List (Match E L)) (item : Match E L) (hsubs : item.subs = []) :
    (allCands (append sort tooBig items item)).Perm (item.enc :: allCands items) := by
  unfold append
  split
  · rename_i items' hm
    split at hm
    · obtain ⟨pre, m, post, h1, _, _, h4⟩ := mergeInto_some hm
      subst h1; subst h4
      have hc : ({ m with subs := m.subs ++ [item.toSub] } : Match E L).cands = m.cands ++ [item.enc] := by
        simp [Match.cands, Match.toSub]
      simp only [allCands, List.flatMap_append, List.flatMap_cons, hc]
      -- pre' ++ ((mc ++ [e]) ++ post')  ~  e :: (pre' ++ (mc ++ post'))
      have := List.perm_middle (a := item.enc) (l₁ := pre.flatMap Match.cands ++ m.cands)
        (l₂ := post.flatMap Match.cands)
      simpa [List.append_assoc] using this
    · cases hm
  · have h1 := (hperm (items ++ [item])).flatMap_right Match.cands
    refine h1.trans ?_
    simp only [List.flatMap_append, List.flatMap_cons, List.flatMap_nil, List.append_nil, Match.cands, hsubs,
      List.map_nil, allCands]
    exact List.perm_append_comm

theorem nodup_of_mem_flatMap {α β} {f : α → List β} {l : List α} (h : (l.flatMap f).Nodup) {x : α} (hx : x ∈ l) :
    (f x).Nodup := by
  induction l with
  | nil => simp at hx
  | cons a as ih =>
    simp only [List.flatMap_cons] at h
    have := List.nodup_append.mp h
    simp only [List.mem_cons] at hx
    rcases hx with rfl | hx
    · exact this.1
    · exact ih this.2.1 hx

/-- **C10 (no encoding twice)** — for every world/tables with a duplicate-free supported list, no
    encoding occurs twice in a result: not within a match, not across matches, not as main encoding
    and alternative at once; and every encoding named is a supported one. (Holds for every input
    size; the 1,000,000-byte bound of the property is only needed for the "share a match" clause.) -/
theorem C10_nodup {W : World E L} {T : Tables E} {sort : Sorter E L}
    (hperm : ∀ l, (sort l).Perm l) (hnd : T.supported.Nodup)
    {b : Bytes} {s : Settings} {ms : List (Match E L)} (hb : b ≠ [])
    (h : fromBytes W T sort b s = .ok (.ok ms)) :
    (allCands ms).Nodup ∧ ∀ e ∈ allCands ms, e ∈ T.supported := by
  unfold fromBytes at h
  split at h
  · cases h
  · rename_i incl hincl
    split at h
    · cases h
    · rename_i excl hexcl
      split at h
      · rename_i he; exact absurd (by simpa using he) hb
      · let order := probeOrder T.supported (prioritized T b s.preemptive)
        have hord : order.Nodup := nodup_probeOrder hnd
        let Inv : List E → LoopState E L → Prop := fun done st =>
          ((allCands st.results).Nodup ∧ ∀ x ∈ allCands st.results, x ∈ done) ∧
            st.SlotsAll (fun m => m.subs = [] ∧ m.enc ∈ order)
        let Q : Outcome E L → Prop := fun o =>
          match o with
          | .exit x => x.cands.Nodup ∧ ∀ e ∈ x.cands, e ∈ order
          | .done st => ((allCands st.results).Nodup ∧ ∀ x ∈ allCands st.results, x ∈ order) ∧
              st.SlotsAll (fun m => m.subs = [] ∧ m.enc ∈ order)
        have key : ∀ out, detectLoop W T sort (ctxOf T b s) incl excl order {} = .ok out → Q out := by
          intro out hout
          refine detectLoop_rule_pos (W := W) (T := T) (sort := sort) (c := ctxOf T b s) (incl := incl)
            (excl := excl) order Inv Q ?_ ?_ ?_ ?_ order [] {} out (by simp) ?_ hout
          · intro done st e rest _ hinv
            exact ⟨⟨hinv.1.1, fun x hx => by simp [hinv.1.2 x hx]⟩, hinv.2⟩
          · intro done st e rest fb hall hinv _ hp
            refine ⟨by rw [softUpdate_results]; exact ⟨hinv.1.1, fun x hx => by simp [hinv.1.2 x hx]⟩,
              softUpdate_slots _ hinv.2 ?_⟩
            intro m hm; subst hm
            have f := fallback_facts hp
            refine ⟨f.subs, ?_⟩
            rw [f.enc, ← hall]; simp
          · intro done st e rest m hall hinv _ hp
            have f := accepted_facts hp
            have hp' := allCands_append_perm hperm (tooBig := T.tooBig) st.results m f.subs
            have hnotin : e ∉ done := by
              have : (done ++ e :: rest).Nodup := by rw [hall]; exact hord
              have := (List.nodup_append.mp this).2.2
              intro hd
              exact this e hd e (by simp) rfl
            have hnd2 : (m.enc :: allCands st.results).Nodup := by
              rw [f.enc]
              exact List.nodup_cons.mpr ⟨fun hin => hnotin (hinv.1.2 e hin), hinv.1.1⟩
            have hN : (allCands (append sort T.tooBig st.results m)).Nodup := hp'.nodup_iff.mpr hnd2
            have hsub : ∀ x ∈ allCands (append sort T.tooBig st.results m), x ∈ done ++ [e] := by
              intro x hx
              have := hp'.mem_iff.mp hx
              simp only [List.mem_cons] at this
              rcases this with h1 | h1
              · rw [h1, f.enc]; simp
              · simp [hinv.1.2 x h1]
            refine ⟨fun _ => ⟨⟨hN, hsub⟩, hinv.2⟩, ?_⟩
            intro _ x hx
            have hxm := (findByCand_mem hx).1
            refine ⟨nodup_of_mem_flatMap hN hxm, ?_⟩
            intro y hy
            have : y ∈ allCands (append sort T.tooBig st.results m) := by
              simp only [allCands, List.mem_flatMap]; exact ⟨x, hxm, hy⟩
            have := hsub y this
            rw [← hall]
            simp only [List.mem_append, List.mem_singleton, List.mem_cons] at this ⊢
            rcases this with h1 | h1
            · left; exact h1
            · right; left; simpa using h1
          · intro st hinv; exact hinv
          · exact ⟨⟨by simp [allCands], by simp [allCands]⟩, by simp [LoopState.SlotsAll]⟩
        have hsup : ∀ e, e ∈ order → e ∈ T.supported := fun e he => mem_probeOrder he
        split at h
        · cases h
        · rename_i x hx
          cases h
          have := key _ hx
          simp only [allCands, List.flatMap_cons, List.flatMap_nil, List.append_nil]
          exact ⟨this.1, fun e he => hsup e (this.2 e he)⟩
        · rename_i st hst
          cases h
          have hq := key _ hst
          unfold finish
          split
          · rename_i hemp
            split
            · rename_i fb hfbp
              have hfb : fb.subs = [] ∧ fb.enc ∈ order := by
                rcases pickFallback_mem hfbp with h1 | h1 | h1
                · exact hq.2.2.2 fb h1
                · exact hq.2.2.1 fb h1
                · exact hq.2.1 fb h1
              have he : st.results = [] := by simpa using hemp
              rw [he, append_nil hperm]
              simp only [allCands, List.flatMap_cons, List.flatMap_nil, List.append_nil, Match.cands, hfb.1,
                List.map_nil, List.nodup_cons, List.not_mem_nil, not_false_eq_true, List.nodup_nil, and_self,
                List.mem_singleton, forall_eq, true_and]
              exact hsup _ hfb.2
            · simp [allCands]
          · exact ⟨hq.1.1, fun e he => hsup e (hq.1.2 e he)⟩

/-- **C10 (lookup by name)** — looking a match up by any label that canonicalises to one of its
    candidates returns that very match (unique by `C10_nodup`) -/
theorem C10_lookup {iana : Name → Option E} {items : List (Match E L)} (hnd : (allCands items).Nodup)
    {m : Match E L} (hm : m ∈ items) {n : Name} {e : E} (hn : iana n = some e) (he : e ∈ m.cands) :
    getByEncoding iana items n = some m := by
  unfold getByEncoding
  rw [hn]
  simp only
  induction items with
  | nil => simp at hm
  | cons a as ih =>
    simp only [List.find?_cons]
    simp only [allCands, List.flatMap_cons] at hnd
    have hna := List.nodup_append.mp hnd
    simp only [List.mem_cons] at hm
    rcases hm with rfl | hm
    · have : m.cands.contains e = true := by simpa using he
      rw [this]
    · have hnot : a.cands.contains e = false := by
        cases hc : a.cands.contains e with
        | false => rfl
        | true =>
          exfalso
          have h1 : e ∈ a.cands := by simpa using hc
          have h2 : e ∈ as.flatMap Match.cands := by
            simp only [List.mem_flatMap]; exact ⟨m, hm, he⟩
          exact hna.2.2 e h1 e h2 rfl
      simp only [hnot]
      exact ih hna.2.1 hm

/-- **C10 (most probable language)** — `mostProbable` (Model/Entity.lean): the head of the language list when there is one -/
theorem C10_most_probable_head {english unknown : L} {ascii : E} {inferred : E → List L} (m : Match E L)
    (l : L) (ls : List L) (h : m.languages = l :: ls) : mostProbable english unknown ascii inferred m = l := by
  unfold mostProbable
  unfold Match.languages at h
  cases hc : m.cohs with
  | nil => simp [hc] at h
  | cons p ps => obtain ⟨l', sc⟩ := p; simp only [hc, List.map_cons, List.cons.injEq] at h; simp [h.1]

/-- **C10 (languages)** — if every merged coherence list is duplicate-free and only names target
    languages of the encoding (laws of `World.merge`/`World.coh`, asserted on the implementation by
    the oracle), then every match's language list has no repeats and, for an encoding tied to one
    language, names no other language -/
theorem C10_languages {W : World E L} {T : Tables E} {sort : Sorter E L} [DecidableEq L]
    (hperm : ∀ l, (sort l).Perm l)
    (hmergeNodup : ∀ xs r, W.merge xs = .ok r → (r.map (·.1)).Nodup)
    {b : Bytes} {s : Settings} {incl excl : List E}
    (hincl : canonList T.ianaName s.incl = .ok incl) (hexcl : canonList T.ianaName s.excl = .ok excl)
    {ms : List (Match E L)} (hb : b ≠ []) (h : fromBytes W T sort b s = .ok (.ok ms)) :
    ∀ m ∈ ms, m.languages.Nodup := by
  have := fromBytes_entries2 (W := W) (T := T) hperm (fun x => (x.cohs.map (·.1)).Nodup)
    (fun x => x.cohs = []) hincl hexcl ?_ ?_ hb h
  · intro m hm
    rcases this with h1 | ⟨fb, rfl, h2, _⟩
    · exact (h1 m hm).1
    · simp only [List.mem_singleton] at hm; subst hm
      have : m.cohs = [] := h2.1
      simp [Match.languages, this]
  · intro soft e m _ _ hp
    obtain ⟨cdl, hc⟩ := (accepted_facts hp).cohMerged
    exact hmergeNodup _ _ hc
  · intro soft e fb _ _ hp
    exact (fallback_facts hp).cohs

/-! ### the current tree -/

theorem supported_nodup_now' : tablesNow.supported.Nodup := by
  show Gen.supported.Nodup
  decide +kernel

theorem C10_nodup_current (o : Oracle) {b : Bytes} {s : Settings} {ms : List (Match Name Name)} (hb : b ≠ [])
    (h : fromBytes (worldNow o) tablesNow sortMatches b s = .ok (.ok ms)) :
    (allCands ms).Nodup ∧ ∀ e ∈ allCands ms, e ∈ Gen.supported :=
  C10_nodup sortMatches_perm supported_nodup_now' hb h

end Charset
