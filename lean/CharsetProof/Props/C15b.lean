/-
  C15 for any number of input files (`--normalize` without `--replace`): the tool's effect on the file
  system is exactly the list of writes "derived sibling := decoded text" of the inputs it got through, in
  order; inputs keep their content; nothing else changes.  Hypothesis (the point the proof forces, recorded
  as known finding C15:derived-target-equals-another-input): no derived sibling name is itself one of the inputs.
-/
import CharsetProof.Props.C15
set_option linter.unusedSectionVars false
namespace Charset

/-- the write one input causes under `--normalize` without `--replace`, read off a file system -/
def writeOf (detect : Bytes → Option (List MInfo)) (fs : FS) (p : Path) : Option (Path × Bytes) :=
  match fsGet fs p with
  | none => none
  | some content =>
    match detect content with
    | some (best :: _) =>
      if startsWithUtf best.encoding then none else some (targetPath p best.encoding, best.text)
    | _ => none

def applyWrites (fs : FS) : List (Path × Bytes) → FS
  | [] => fs
  | w :: ws => applyWrites (fsPut fs w.1 w.2) ws

theorem fsGet_applyWrites_other (fs : FS) (ws : List (Path × Bytes)) (q : Path) (hq : ∀ w ∈ ws, w.1 ≠ q) :
    fsGet (applyWrites fs ws) q = fsGet fs q := by
  induction ws generalizing fs with
  | nil => rfl
  | cons w ws ih =>
    simp only [applyWrites]
    rw [ih _ (fun w' hw' => hq w' (List.mem_cons_of_mem _ hw'))]
    rw [fsGet_fsPut, if_neg (fun h => hq w List.mem_cons_self h.symm)]

/-- one input under `--normalize` without `--replace` -/
theorem processFile_normalize {a : CliArgs} {detect : Bytes → Option (List MInfo)} {confirm : Path → Bool}
    (hn : a.normalize = true) (hr : a.replace = false) {st st' : LoopSt} {p : Path}
    (h : processFile a detect confirm st p = .ok st') :
    st'.fs = match writeOf detect st.fs p with
      | some w => fsPut st.fs w.1 w.2
      | none => st.fs := by
  unfold processFile at h
  unfold writeOf
  split at h
  · cases h
  · rename_i content hc
    simp only [hc]
    split at h
    · cases h
    · rename_i hd; cases h; simp [hd]
    · rename_i best rest hd
      simp only [hd, hn, hr, Bool.not_true, Bool.false_eq_true, ↓reduceIte, Bool.not_false] at h ⊢
      by_cases hu : startsWithUtf best.encoding = true
      · simp only [hu, ↓reduceIte] at h ⊢; cases h; rfl
      · simp only [hu, Bool.false_eq_true, ↓reduceIte] at h ⊢; cases h; rfl

/-- the per-file loop: on the inputs it got through (all of them on success), exactly their writes, in order -/
theorem go_normalize {a : CliArgs} {detect : Bytes → Option (List MInfo)} {confirm : Path → Bool}
    (hn : a.normalize = true) (hr : a.replace = false) (fs0 : FS) :
    ∀ (ps : List Path) (st : LoopSt),
      (∀ p ∈ ps, ∀ p' ∈ ps, ∀ w, writeOf detect fs0 p' = some w → w.1 ≠ p) →
      (∀ p ∈ ps, fsGet st.fs p = fsGet fs0 p) →
      ∃ k, k ≤ ps.length ∧
        (runCli.go a detect confirm ps st).2 = applyWrites st.fs ((ps.take k).filterMap (writeOf detect fs0)) ∧
        ((∃ st', (runCli.go a detect confirm ps st).1 = .ok st') → k = ps.length) := by
  intro ps
  induction ps with
  | nil => intro st _ _; exact ⟨0, Nat.le_refl _, rfl, fun _ => rfl⟩
  | cons p ps ih =>
    intro st hcol hinv
    simp only [runCli.go]
    cases hp : processFile a detect confirm st p with
    | error e =>
      refine ⟨0, Nat.zero_le _, rfl, ?_⟩
      rintro ⟨st', h⟩; cases h
    | ok st' =>
      simp only
      have hfs := processFile_normalize hn hr hp
      -- `writeOf` on the current file system = `writeOf` on the initial one (the input is unchanged)
      have hw : writeOf detect st.fs p = writeOf detect fs0 p := by
        unfold writeOf; rw [hinv p List.mem_cons_self]
      rw [hw] at hfs
      have hinv' : ∀ q ∈ ps, fsGet st'.fs q = fsGet fs0 q := by
        intro q hq
        rw [hfs]
        cases hwp : writeOf detect fs0 p with
        | none => exact hinv q (List.mem_cons_of_mem _ hq)
        | some w =>
          simp only
          rw [fsGet_fsPut, if_neg]
          · exact hinv q (List.mem_cons_of_mem _ hq)
          · intro hqt
            exact hcol q (List.mem_cons_of_mem _ hq) p List.mem_cons_self w hwp hqt.symm
      have hcol' : ∀ q ∈ ps, ∀ q' ∈ ps, ∀ w, writeOf detect fs0 q' = some w → w.1 ≠ q :=
        fun q hq q' hq' w hw' => hcol q (List.mem_cons_of_mem _ hq) q' (List.mem_cons_of_mem _ hq') w hw'
      obtain ⟨k, hk, hfs', hall⟩ := ih st' hcol' hinv'
      refine ⟨k + 1, by simp; omega, ?_, ?_⟩
      · rw [hfs', hfs]
        simp only [List.take_succ_cons, List.filterMap_cons]
        cases hwp : writeOf detect fs0 p with
        | none => rfl
        | some w => rfl
      · intro hok
        simp only [List.length_cons]
        rw [hall hok]

/-- **C15 (any number of inputs, `--normalize` without `--replace`)**: on success the resulting file
    system is the initial one plus, in order, one write `derived sibling := decoded text` per input detected
    as a non-UTF encoding; consequently every input is byte-identical afterwards and every path that is not
    a derived sibling is untouched.  Hypothesis: no derived sibling name is itself an input. -/
theorem C15_multi_normalize (a : CliArgs) (detect : Bytes → Option (List MInfo)) (confirm : Path → Bool)
    (fs : FS) (hn : a.normalize = true) (hr : a.replace = false)
    (hcol : ∀ p ∈ a.files, ∀ p' ∈ a.files, ∀ w, writeOf detect fs p' = some w → w.1 ≠ p)
    {rep : Report} (hok : (runCli a detect confirm fs).1 = .ok rep) :
    (runCli a detect confirm fs).2 = applyWrites fs (a.files.filterMap (writeOf detect fs)) ∧
    (∀ p ∈ a.files, fsGet (runCli a detect confirm fs).2 p = fsGet fs p) ∧
    (∀ q, (∀ w ∈ a.files.filterMap (writeOf detect fs), w.1 ≠ q) →
      fsGet (runCli a detect confirm fs).2 q = fsGet fs q) := by
  have hmain : (runCli a detect confirm fs).2 = applyWrites fs (a.files.filterMap (writeOf detect fs)) := by
    unfold runCli at hok ⊢
    cases hv : validate a with
    | some e => simp [hv] at hok
    | none =>
      simp only [hv] at hok ⊢
      obtain ⟨k, hk, hfs, hall⟩ := go_normalize (confirm := confirm) hn hr fs a.files ⟨fs, []⟩ hcol (fun _ _ => rfl)
      cases hg : runCli.go a detect confirm a.files ⟨fs, []⟩ with
      | mk r fs' =>
        rw [hg] at hok hfs hall
        cases r with
        | error e => simp at hok
        | ok st =>
          have hkk : k = a.files.length := hall ⟨st, rfl⟩
          simp only at hfs ⊢
          rw [hfs, hkk, List.take_length]
  have hother : ∀ q, (∀ w ∈ a.files.filterMap (writeOf detect fs), w.1 ≠ q) →
      fsGet (runCli a detect confirm fs).2 q = fsGet fs q := by
    intro q hq
    rw [hmain]
    exact fsGet_applyWrites_other fs _ q hq
  refine ⟨hmain, ?_, hother⟩
  intro p hp
  apply hother
  intro w hw
  obtain ⟨p', hp', hwp'⟩ := List.mem_filterMap.mp hw
  exact hcol p hp p' hp' w hwp'

/-- the last write to a path wins; with pairwise distinct derived names every sibling holds its own text -/
theorem fsGet_applyWrites_mem (fs : FS) (ws : List (Path × Bytes)) (hnd : (ws.map (·.1)).Nodup)
    (w : Path × Bytes) (hw : w ∈ ws) : fsGet (applyWrites fs ws) w.1 = some w.2 := by
  induction ws generalizing fs with
  | nil => cases hw
  | cons v vs ih =>
    simp only [applyWrites]
    simp only [List.map_cons, List.nodup_cons] at hnd
    rcases List.mem_cons.mp hw with rfl | hmem
    · rw [fsGet_applyWrites_other _ _ _ (fun v' hv' h => hnd.1 (by rw [← h]; exact List.mem_map_of_mem (f := (·.1)) hv'))]
      rw [fsGet_fsPut, if_pos rfl]
    · exact ih _ hnd.2 hmem

/-- **C15 (every sibling receives its text)**: with pairwise distinct derived names, after a successful run
    each input detected as non-UTF has its sibling holding exactly the decoded text -/
theorem C15_multi_targets (a : CliArgs) (detect : Bytes → Option (List MInfo)) (confirm : Path → Bool)
    (fs : FS) (hn : a.normalize = true) (hr : a.replace = false)
    (hcol : ∀ p ∈ a.files, ∀ p' ∈ a.files, ∀ w, writeOf detect fs p' = some w → w.1 ≠ p)
    (hnd : ((a.files.filterMap (writeOf detect fs)).map (·.1)).Nodup)
    {rep : Report} (hok : (runCli a detect confirm fs).1 = .ok rep) :
    ∀ p ∈ a.files, ∀ w, writeOf detect fs p = some w →
      fsGet (runCli a detect confirm fs).2 w.1 = some w.2 := by
  intro p hp w hw
  rw [(C15_multi_normalize a detect confirm fs hn hr hcol hok).1]
  exact fsGet_applyWrites_mem fs _ hnd w (List.mem_filterMap.mpr ⟨p, hp, hw⟩)

/-- non-vacuity + the excluded point: two inputs `c.txt` (KOI8-R) and `c.koi8-r.txt`; the derived sibling of
    the first *is* the second input, the collision hypothesis fails and the second input is overwritten -/
example :
    let fs : FS := [(nameOfStr "c.txt", [1]), (nameOfStr "c.koi8-r.txt", [2])]
    let detect : Bytes → Option (List MInfo) := fun b =>
      if b = [1] then some [⟨nameOfStr "koi8-r", [9, 9], []⟩] else some []
    writeOf detect fs (nameOfStr "c.txt") = some (nameOfStr "c.koi8-r.txt", [9, 9]) := by decide +kernel

end Charset
