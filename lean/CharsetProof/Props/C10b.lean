/-
  C10 (share-a-match clauses) — for inputs of at most TOO_BIG_SEQUENCE bytes: every alternative listed
  beside a match yields the same text and (within f32::EPSILON) the same chaos as the match, and no two
  matches carry identical text and identical (finite) chaos.
-/
import CharsetProof.Lemmas.Share
import CharsetProof.Lemmas.Loop
set_option linter.unusedSectionVars false
namespace Charset
variable {E L : Type} [DecidableEq E]

theorem C10_share {W : World E L} {T : Tables E} {sort : Sorter E L} (hperm : ∀ l, (sort l).Perm l)
    {b : Bytes} {s : Settings} {ms : List (Match E L)} (hb : b ≠ []) (hsmall : b.length ≤ T.tooBig)
    (h : fromBytes W T sort b s = .ok (.ok ms)) :
    Distinct ms ∧ ∀ m ∈ ms, SubsAgree m := by
  unfold fromBytes at h
  split at h
  · cases h
  · rename_i incl hincl
    split at h
    · cases h
    · rename_i excl hexcl
      split at h
      · rename_i he; exact absurd (by simpa using he) hb
      · let c := ctxOf T b s
        let Inv : List E → LoopState E L → Prop := fun _ st =>
          (Distinct st.results ∧ ∀ m ∈ st.results, SubsAgree m) ∧
            st.SlotsAll (fun m => m.subs = [])
        let Q : Outcome E L → Prop := fun o =>
          match o with
          | .exit x => SubsAgree x
          | .done st => (Distinct st.results ∧ ∀ m ∈ st.results, SubsAgree m) ∧ st.SlotsAll (fun m => m.subs = [])
        have key : ∀ out, detectLoop W T sort c incl excl (probeOrder T.supported (prioritized T b s.preemptive)) {} = .ok out → Q out := by
          intro out hout
          refine detectLoop_rule (W := W) (T := T) (sort := sort) (c := c) (incl := incl) (excl := excl)
            Inv Q (fun _ => True) ?_ ?_ ?_ ?_ _ [] {} out (fun _ _ => trivial) ?_ hout
          · intro done st e _ hinv _; exact hinv
          · intro done st e fb _ hinv _ hp
            refine ⟨by rw [softUpdate_results]; exact hinv.1, softUpdate_slots _ hinv.2 ?_⟩
            intro m hm; subst hm
            exact (fallback_facts hp).subs
          · intro done st e m _ hinv _ hp
            have f := accepted_facts hp
            have hraw : m.raw.length ≤ T.tooBig := by rw [f.raw]; exact hsmall
            have := append_distinct hperm st.results m hraw f.subs hinv.1.1 hinv.1.2
            refine ⟨fun _ => ⟨this, hinv.2⟩, ?_⟩
            intro _ x hx
            exact this.2 x (findByCand_mem hx).1
          · intro done st hinv; exact hinv
          · exact ⟨⟨List.Pairwise.nil, by simp⟩, by simp [LoopState.SlotsAll]⟩
        split at h
        · cases h
        · rename_i x hx
          cases h
          have := key _ hx
          exact ⟨List.pairwise_singleton _ _, by intro m hm; simp only [List.mem_singleton] at hm; subst hm; exact this⟩
        · rename_i st hst
          cases h
          have hq := key _ hst
          unfold finish
          split
          · rename_i hemp
            split
            · rename_i fb hfbp
              have hfb : fb.subs = [] := by
                rcases pickFallback_mem hfbp with h1 | h1 | h1
                · exact hq.2.2.2 fb h1
                · exact hq.2.2.1 fb h1
                · exact hq.2.1 fb h1
              have he : st.results = [] := by simpa using hemp
              rw [he, append_nil hperm]
              refine ⟨List.pairwise_singleton _ _, ?_⟩
              intro m hm; simp only [List.mem_singleton] at hm; subst hm
              intro sub hsub; rw [hfb] at hsub; simp at hsub
            · exact ⟨List.Pairwise.nil, by simp⟩
          · exact hq.1

end Charset
