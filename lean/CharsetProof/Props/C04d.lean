/-
  C04, coherence clause, lower bound: for the fully modelled world every reported coherence score is
  non-negative and not NaN.  (Upper bound 1: hypothesis of C04_coherence_range, asserted by the oracle.)
-/
import CharsetProof.Props.C10e
import CharsetProof.Lemmas.CohOk
import CharsetProof.Lemmas.Chaos
set_option linter.unusedSectionVars false
namespace Charset
open Fl
variable {E L : Type} [DecidableEq E]

theorem cohAll_length {W : World E L} {thr : F32} {langs : List L} (ts : List Text) {rs : List (List (L × F32))}
    (h : cohAll W thr langs ts = .ok rs) : rs.length ≤ ts.length := by
  induction ts generalizing rs with
  | nil => simp only [cohAll] at h; cases h; simp
  | cons t ts ih =>
    simp only [cohAll] at h
    split at h
    · cases h
    · rename_i r0 _
      split at h
      · cases h
      · rename_i rs0 hrs0
        cases h
        have := ih hrs0
        cases r0 <;> simp <;> omega

theorem chunkLoop_chunks_len {W : World E L} {T : Tables E} {c : Ctx E} {e : E} {payload : Option Text}
    {seqLen maxGaveUp : Nat} (offs : List Nat) (acc acc' : ChunkAcc)
    (h : chunkLoop W T c e payload seqLen maxGaveUp offs acc = .ok acc') :
    acc'.chunks.length ≤ acc.chunks.length + offs.length := by
  induction offs generalizing acc with
  | nil => simp only [chunkLoop] at h; cases h; simp
  | cons off offs ih =>
    simp only [chunkLoop] at h
    split at h
    · cases h
    · cases h; simp
    · split at h
      · cases h
      · split at h
        · cases h; simp
        · have := ih _ h
          simp only [List.length_append, List.length_cons, List.length_nil] at this ⊢
          omega

theorem probeChunks_chunks_len {W : World E L} {T : Tables E} {c : Ctx E} {e : E} {p : Prepared} {acc : ChunkAcc}
    (h : probeChunks W T c e p = .ok acc) : acc.chunks.length ≤ 2 * c.steps := by
  unfold probeChunks at h
  split at h
  · cases h
  · rename_i q hq
    have hsteps : 1 ≤ c.steps := by
      unfold divF at hq
      split at hq
      · cases hq
      · omega
    have hq' : q = seqLenOf c p / c.steps := by
      unfold divF at hq
      split at hq
      · cases hq
      · cases hq; rfl
    have := chunkLoop_chunks_len _ _ _ h
    subst hq'
    have := offsets_le (startOffOf p) (seqLenOf c p) c.steps hsteps
    simp only [List.length_nil] at *
    omega

theorem Coh.coherenceRatio_nodup (env : Coh.CohEnv) (ranges : List (Name × Nat × Nat))
    (secondary : List Name) (tbl : Coh.LangTable) (tooSmall : Nat) (t : Text) (thr : F32) (incl : List Name)
    (r : List (Name × F32)) (h : Coh.coherenceRatio env ranges secondary tbl tooSmall t thr incl = some r) :
    (r.map (·.1)).Nodup := by
  unfold Coh.coherenceRatio at h
  simp only [] at h
  repeat' split at h
  all_goals first
    | (have hr := Option.some.inj h; rw [← hr]; exact coherenceRatioModel_nodup _ _ _ _)
    | cases h

theorem languagesNow_short : ∀ row ∈ Gen.languages, row.2.1.length < 2 ^ 64 := by
  have : (Gen.languages.all (fun row => decide (row.2.1.length < 2 ^ 64))) = true := by decide +kernel
  intro row hrow
  have := List.all_eq_true.mp this row hrow
  simpa using this

/-- **C04 (coherence, lower bound) for the fully modelled world** — `coherence()` of every candidate of
    every match is non-negative and not NaN, for every Unicode environment whose `to_lowercase` yields
    scalar values, every input and settings with `steps < 2^62` -/
theorem C04_coherence_nonneg_full (menv : Md.MdEnv) (cenv : Coh.CohEnv) (o : Oracle)
    (henv : ∀ c x, x ∈ cenv.lower c → x < 0x110000)
    {b : Bytes} {s : Settings} {incl excl : List Name} (hsteps : s.steps < 2 ^ 62)
    (hincl : canonList ianaNow s.incl = .ok incl) (hexcl : canonList ianaNow s.excl = .ok excl)
    {ms : List (Match Name Name)} (hb : b ≠ [])
    (h : fromBytes (worldFull menv cenv o) tablesNow sortMatches b s = .ok (.ok ms)) :
    ∀ m ∈ ms, ∀ c ∈ m.entries, ∀ p ∈ c.cohs, 0 ≤ p.2.key ∧ p.2.isNaN = false := by
  intro m hm c hc p hp
  rcases fromBytes_facts sortMatches_perm hincl hexcl hb h with hall | ⟨fb, rfl, hfb, hsubs⟩
  · have f := Match.allEntries_iff.mp (hall m hm) c hc
    obtain ⟨pr, acc, _, _, _, _, _, hpc, _, _, cdl, hcds, hmerge⟩ := f.chunksFact
    rw [worldFull_merge] at hmerge
    have hcohs : mergeModel cdl = c.cohs := Except.ok.inj hmerge
    rw [← hcohs] at hp
    have hst : (ctxOf tablesNow b s).steps ≤ max s.steps 1 := normWindow_steps_le _ _ _
    have hchunks := probeChunks_chunks_len hpc
    -- every per-chunk list is a `coherence_ratio` answer
    have hans : ∀ r ∈ cdl, ∃ t thr langs, Coh.coherenceRatio cenv Gen.unicodeRanges Gen.secondaryKeywords
        Gen.languages Gen.tooSmall t thr langs = some r ∧ cdl.length ≤ acc.chunks.length := by
      unfold cdsOf at hcds
      split at hcds
      · cases hcds; intro r hr; simp at hr
      · split at hcds
        · cases hcds
        · rename_i langs _
          intro r hr
          obtain ⟨t, ht⟩ := cohAll_mem _ hcds r hr
          have ht' : Coh.coherenceRatio cenv Gen.unicodeRanges Gen.secondaryKeywords Gen.languages Gen.tooSmall
              t (ctxOf tablesNow b s).langThr langs = some r := by
            simp only [worldFull] at ht
            exact Except.ok.inj ht
          exact ⟨t, _, langs, ht', cohAll_length _ hcds⟩
    have hlen : cdl.length < 2 ^ 64 := by
      cases hcdl : cdl with
      | nil => simp
      | cons r0 rest =>
        obtain ⟨_, _, _, _, hl⟩ := hans r0 (by rw [hcdl]; exact List.mem_cons_self)
        rw [hcdl] at hl
        omega
    have hok := mergeModel_scores_ok cdl
      (fun r hr => by obtain ⟨t, thr, langs, h1, _⟩ := hans r hr; exact Coh.coherenceRatio_nodup _ _ _ _ _ _ _ _ _ h1)
      (fun r hr => by
        obtain ⟨t, thr, langs, h1, _⟩ := hans r hr
        exact Coh.coherenceRatio_scores_ok _ _ _ _ _ _ _ _ henv languagesNow_short _ h1)
      hlen p hp
    exact ⟨hok.1, ok_not_nan hok⟩
  · simp only [List.mem_singleton] at hm
    subst hm
    have f := Match.allEntries_iff.mp hfb c hc
    rw [f.cohs] at hp
    simp at hp

end Charset
