/-
  C09 — restricting detection to one encoding does not change that encoding's verdict.
-/
import CharsetProof.Lemmas.Restrict
import CharsetProof.Lemmas.EntryFacts
import CharsetProof.Lemmas.SortPerm
import CharsetProof.Model.Concrete
import CharsetProof.Lemmas.Names
set_option linter.unusedSectionVars false
namespace Charset
variable {E L : Type} [DecidableEq E]

theorem mem_rotateFront_of_mem {pe x : E} {l : List E} (h : x ∈ l) : x ∈ rotateFront pe l := by
  unfold rotateFront
  split
  · by_cases hx : x = pe
    · simp [hx]
    · simp only [List.mem_cons]; right
      exact (List.mem_erase_of_ne hx).mpr h
  · exact h

theorem mem_probeOrder_of_mem {supported prio : List E} {x : E} (h : x ∈ supported) :
    x ∈ probeOrder supported prio := by
  unfold probeOrder
  induction prio with
  | nil => simpa using h
  | cons p ps ih => simp only [List.foldr_cons]; exact mem_rotateFront_of_mem ih

/-- the per-encoding verdict: what the probe of `e` alone (no earlier soft failures) returns.
    It reads the settings only through the window, the thresholds, the BOM and – for the fallback
    entry – the hint list; never the include/exclude lists. -/
def verdictAlone (W : World E L) (T : Tables E) (b : Bytes) (s : Settings) (e : E) : M (Verdict E L) :=
  probe W T (ctxOf T b s) [] e

/-- `ctxOf` ignores the filter lists -/
theorem ctxOf_incl_irrel (T : Tables E) (b : Bytes) (s : Settings) (incl' : List Name) :
    ctxOf T b { s with incl := incl' } = ctxOf T b s := rfl

theorem pickFallback_softUpdate {T : Tables E} {c : Ctx E} {e : E} {fb : Match E L} :
    pickFallback (softUpdate T c ({} : LoopState E L) e (some fb)) = some fb := by
  unfold softUpdate
  simp only
  split
  · simp [pickFallback]
  · split <;> simp [pickFallback]

theorem softUpdate_results_nil {T : Tables E} {c : Ctx E} {e : E} {fb : Option (Match E L)} :
    (softUpdate T c ({} : LoopState E L) e fb).results = [] := by
  rw [softUpdate_results]

/-- **C09 (a)** — whenever an encoding `e` appears in an unrestricted result, as a match or as a
    listed alternative (candidate entry `x`), the run restricted to `e` alone returns exactly one
    match, and that match *is* the entry: same chaos, coherence/language list, BOM flag, text, raw. -/
theorem C09_restricted_same_verdict {W : World E L} {T : Tables E} {sort : Sorter E L}
    (hperm : ∀ l, (sort l).Perm l) (hnd : T.supported.Nodup)
    {b : Bytes} {s : Settings} {incl excl : List E}
    (hincl : canonList T.ianaName s.incl = .ok incl) (hexcl : canonList T.ianaName s.excl = .ok excl)
    {ms : List (Match E L)} (hb : b ≠ []) (h : fromBytes W T sort b s = .ok (.ok ms))
    {m : Match E L} (hm : m ∈ ms) {x : Sub E L} (hx : x ∈ m.entries)
    {only : List Name} (honlyc : canonList T.ianaName only = .ok [x.enc]) :
    ∃ m0, m0.toSub = x ∧ m0.subs = [] ∧
      fromBytes W T sort b { s with incl := only } = .ok (.ok [m0]) := by
  -- every entry is the output of a probe that, run alone, gives the same verdict
  let Racc : Sub E L → Prop := fun x => ∃ m0, m0.toSub = x ∧ m0.subs = [] ∧ m0.enc = x.enc ∧
    x.enc ∈ T.supported ∧ allowed incl excl x.enc = true ∧
    probe W T (ctxOf T b s) [] x.enc = .ok (.accepted m0)
  let Rfb : Sub E L → Prop := fun x => ∃ m0, m0.toSub = x ∧ m0.subs = [] ∧ m0.enc = x.enc ∧
    x.enc ∈ T.supported ∧ allowed incl excl x.enc = true ∧
    probe W T (ctxOf T b s) [] x.enc = .ok (.softFail (some m0))
  have hfacts := fromBytes_entries2 (W := W) (T := T) hperm Racc Rfb hincl hexcl ?_ ?_ hb h
  rotate_left
  · intro soft e m0 hS hal hp
    have f := accepted_facts hp
    have he : m0.toSub.enc = e := f.enc
    refine ⟨m0, rfl, f.subs, by rw [he, f.enc], by rw [he]; exact hS, by rw [he]; exact hal, ?_⟩
    rw [he]; exact probe_alone_of_shape hp (Or.inl ⟨m0, rfl⟩)
  · intro soft e m0 hS hal hp
    have f := fallback_facts hp
    have he : m0.toSub.enc = e := f.enc
    refine ⟨m0, rfl, f.subs, by rw [he, f.enc], by rw [he]; exact hS, by rw [he]; exact hal, ?_⟩
    rw [he]; exact probe_alone_of_shape hp (Or.inr ⟨some m0, rfl⟩)
  -- the restricted run
  have hexclNot : ∀ e, allowed incl excl e = true → excl.contains e = false := by
    intro e hal; unfold allowed at hal; simp only [Bool.and_eq_true, Bool.not_eq_eq_eq_not, Bool.not_true] at hal
    exact hal.2
  have restricted : ∀ e (v : Verdict E L), e ∈ T.supported → allowed incl excl e = true →
      canonList T.ianaName only = .ok [e] → probe W T (ctxOf T b s) [] e = .ok v →
      (∀ m0, v = .accepted m0 → m0.enc = e → fromBytes W T sort b { s with incl := only } = .ok (.ok [m0])) ∧
      (∀ m0, v = .softFail (some m0) → fromBytes W T sort b { s with incl := only } = .ok (.ok [m0])) := by
    intro e v hS hal hc hprobe
    have hal' : allowed [e] excl e = true := by
      have := hexclNot e hal
      unfold allowed; simp only [List.isEmpty_cons, List.contains_cons, beq_self_eq_true, Bool.true_or,
        Bool.false_or, this, Bool.not_false, Bool.and_self]
    have honly : ∀ y, y ≠ e → allowed [e] excl y = false := by
      intro y hy; unfold allowed; simp [hy]
    have hloop := detectLoop_restricted (W := W) (T := T) (sort := sort) hperm (c := ctxOf T b s)
      (incl := [e]) (excl := excl) e hal' honly hprobe
      (probeOrder T.supported (prioritized T b s.preemptive)) {} (nodup_probeOrder hnd)
      (mem_probeOrder_of_mem hS) rfl rfl
    have hne : b.isEmpty = false := by
      cases b with
      | nil => exact absurd rfl hb
      | cons _ _ => rfl
    constructor
    · intro m0 hv hme
      unfold fromBytes
      simp only [hc, hexcl, hne, Bool.false_eq_true, ↓reduceIte, ctxOf_incl_irrel]
      rw [hloop.1 m0 hv hme]
      by_cases hex : exitCond (ctxOf T b s) e m0.chaos = true
      · simp [hex]
      · simp [hex, finish]
    · intro m0 hv
      unfold fromBytes
      simp only [hc, hexcl, hne, Bool.false_eq_true, ↓reduceIte, ctxOf_incl_irrel]
      rw [hloop.2 (some m0) hv]
      simp only [finish, softUpdate_results_nil, List.isEmpty_nil, ↓reduceIte, pickFallback_softUpdate]
      rw [append_nil hperm]
  rcases hfacts with hall | ⟨fb, hmsfb, hfb, hsubs⟩
  · obtain ⟨m0, h1, h2, h3, h4, h5, h6⟩ := (Match.allEntries_iff.mp (hall m hm)) x hx
    exact ⟨m0, h1, h2, (restricted x.enc _ h4 h5 honlyc h6).1 m0 rfl h3⟩
  · subst hmsfb
    simp only [List.mem_singleton] at hm
    subst hm
    obtain ⟨m0, h1, h2, h3, h4, h5, h6⟩ := (Match.allEntries_iff.mp hfb) x hx
    exact ⟨m0, h1, h2, (restricted x.enc _ h4 h5 honlyc h6).2 m0 rfl⟩

/-- **C09 (probe independence)** — the verdict of an encoding depends on the loop state only through
    the similarity skip: any two soft-failure lists that do not trigger it give the same verdict -/
theorem C09_probe_indep {W : World E L} {T : Tables E} {c : Ctx E} {soft : List E} {e : E} {v : Verdict E L}
    (h : probe W T c soft e = .ok v) (hv : (∃ m, v = .accepted m) ∨ (∃ fb, v = .softFail fb)) :
    probe W T c [] e = .ok v :=
  probe_alone_of_shape (probe_shape h) hv

/-! ### the current tree -/

/-- T1 obligation: the supported list has no duplicates -/
theorem supported_nodup_now : tablesNow.supported.Nodup := by
  show Gen.supported.Nodup
  decide +kernel

theorem C09_restricted_current (o : Oracle) {b : Bytes} {s : Settings} {incl excl : List Name}
    (hincl : canonList ianaNow s.incl = .ok incl) (hexcl : canonList ianaNow s.excl = .ok excl)
    {ms : List (Match Name Name)} (hb : b ≠ [])
    (h : fromBytes (worldNow o) tablesNow sortMatches b s = .ok (.ok ms))
    {m : Match Name Name} (hm : m ∈ ms) {x : Sub Name Name} (hx : x ∈ m.entries)
    (hsup : x.enc ∈ Gen.supported) :
    ∃ m0, m0.toSub = x ∧ m0.subs = [] ∧
      fromBytes (worldNow o) tablesNow sortMatches b { s with incl := [x.enc] } = .ok (.ok [m0]) := by
  apply C09_restricted_same_verdict sortMatches_perm supported_nodup_now hincl hexcl hb h hm hx
  show canonList ianaNow [x.enc] = .ok [x.enc]
  simp [canonList, ianaNow_supported hsup]

end Charset
