/-
  C09 (converse) — an encoding that is accepted when probed alone is missing from the unrestricted
  result only if detection stopped early on a qualifying hint (C06) or a code page listed as similar
  to it had been rejected before it.
-/
import CharsetProof.Props.C06
import CharsetProof.Props.C10
set_option linter.unusedSectionVars false
namespace Charset
variable {E L : Type} [DecidableEq E]

theorem mem_allCands_append {sort : Sorter E L} (hperm : ∀ l, (sort l).Perm l) {tooBig : Nat}
    (items : List (Match E L)) (item : Match E L) (hsubs : item.subs = []) (x : E) :
    x ∈ allCands (append sort tooBig items item) ↔ x = item.enc ∨ x ∈ allCands items := by
  rw [(allCands_append_perm hperm (tooBig := tooBig) items item hsubs).mem_iff]
  simp

/-- rejected when probed alone: the probe ends in a soft failure (too much chaos) -/
def RejectedAlone (W : World E L) (T : Tables E) (c : Ctx E) (f : E) : Prop :=
  ∃ fb, probe W T c [] f = .ok (.softFail fb)

/-- **C09 (converse)** — if detection did not stop early, every encoding that passes the filters and is
    accepted when probed alone is a candidate of the result, unless a code page similar to it was
    rejected (soft-failed) when probed alone. Together with `C06_from_bytes` (early stop happens exactly
    at the first qualifying hint) this is the converse direction of C09. -/
theorem C09_converse {W : World E L} {T : Tables E} {sort : Sorter E L} (hperm : ∀ l, (sort l).Perm l)
    {b : Bytes} {s : Settings} {incl excl : List E} {st : LoopState E L}
    (h : detectLoop W T sort (ctxOf T b s) incl excl (probeOrder T.supported (prioritized T b s.preemptive)) {} = .ok (.done st)) :
    ∀ e ∈ T.supported, allowed incl excl e = true → ∀ m0, probe W T (ctxOf T b s) [] e = .ok (.accepted m0) →
      e ∈ allCands st.results ∨ ∃ f, T.similar e f = true ∧ RejectedAlone W T (ctxOf T b s) f := by
  let c := ctxOf T b s
  let order := probeOrder T.supported (prioritized T b s.preemptive)
  let Good : LoopState E L → E → Prop := fun st e =>
    e ∈ allCands st.results ∨ ∃ f, T.similar e f = true ∧ RejectedAlone W T c f
  let Inv : List E → LoopState E L → Prop := fun done st =>
    (∀ e ∈ done, allowed incl excl e = true → ∀ m0, probe W T c [] e = .ok (.accepted m0) → Good st e) ∧
    (∀ f ∈ st.soft, RejectedAlone W T c f)
  let Q : Outcome E L → Prop := fun o => match o with | .exit _ => True | .done st => Inv order st
  have key : Q (.done st) := by
    refine detectLoop_rule_full (W := W) (T := T) (sort := sort) (c := c) (incl := incl) (excl := excl) order Inv Q
      ?_ ?_ ?_ ?_ order [] {} (.done st) (by simp) ⟨by simp, by simp⟩ h
    · intro done st e rest _ hinv hcase
      refine ⟨?_, hinv.2⟩
      intro x hx hal m0 hm0
      simp only [List.mem_append, List.mem_singleton] at hx
      rcases hx with hx | rfl
      · exact hinv.1 x hx hal m0 hm0
      · rcases hcase with h0 | h1 | h1 | ⟨f, h1⟩
        · rw [hal] at h0; cases h0
        · have := probe_nil_of_not_skip h1 (by intro f hf; cases hf); rw [this] at hm0; cases hm0
        · have := probe_nil_of_not_skip h1 (by intro f hf; cases hf); rw [this] at hm0; cases hm0
        · obtain ⟨hsim, hfs⟩ := probe_similarSkip h1
          exact Or.inr ⟨f, hsim, hinv.2 f hfs⟩
    · intro done st e rest fb _ hinv hal hp
      have hnil := probe_nil_of_not_skip hp (by intro f hf; cases hf)
      refine ⟨?_, ?_⟩
      · intro x hx halx m0 hm0
        simp only [List.mem_append, List.mem_singleton] at hx
        rcases hx with hx | rfl
        · have := hinv.1 x hx halx m0 hm0
          simpa [Good, softUpdate_results] using this
        · rw [hnil] at hm0; cases hm0
      · intro f hf
        rw [softUpdate_soft] at hf
        simp only [List.mem_append, List.mem_singleton] at hf
        rcases hf with hf | rfl
        · exact hinv.2 f hf
        · exact ⟨fb, hnil⟩
    · intro done st e rest m _ hinv hal hp
      have hnil := probe_nil_of_not_skip hp (by intro f hf; cases hf)
      have hf := accepted_facts (probe_shape hp)
      refine ⟨fun _ => ⟨?_, hinv.2⟩, fun _ _ _ => trivial⟩
      intro x hx halx m0 hm0
      simp only [List.mem_append, List.mem_singleton] at hx
      rcases hx with hx | rfl
      · rcases hinv.1 x hx halx m0 hm0 with h1 | h1
        · left
          exact (mem_allCands_append hperm _ _ hf.subs x).mpr (Or.inr h1)
        · exact Or.inr h1
      · left
        exact (mem_allCands_append hperm _ _ hf.subs x).mpr (Or.inl hf.enc.symm)
    · intro st hinv; exact hinv
  intro e he hal m0 hm0
  exact key.1 e (mem_probeOrder_of_mem he) hal m0 hm0

end Charset
