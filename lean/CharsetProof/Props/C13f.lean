/-
  C13 for the fully modelled world: the chaos of a candidate of an input that fits the window is exactly
  mess_ratio of its whole decoded text.
-/
import CharsetProof.Props.C13
import CharsetProof.Lemmas.CharsLeNow
import CharsetProof.Props.C04e
import CharsetProof.Lemmas.FloatExact
set_option linter.unusedSectionVars false
namespace Charset
open Fl

/-- the mean of a single non-negative ratio is that ratio (or both are infinite) -/
theorem meanRatio_single (r : F32) (hr : Ok r) : meanRatio [r] = r ∨ ((meanRatio [r]).key = fmt32.infKey ∧ r.key = fmt32.infKey) := by
  unfold meanRatio
  simp only [List.isEmpty_cons, Bool.false_eq_true, ↓reduceIte, List.foldl, List.length_singleton]
  rcases Int.lt_or_le r.key fmt32.infKey with hfin | hinf
  · left
    have hnn : NN r := ⟨hr.1, hfin⟩
    rw [zero_add_nn (by decide) hnn, div_one_nn good32 hnn]
  · right
    have hk : r.key = fmt32.infKey := by have := hr.2; omega
    refine ⟨?_, hk⟩
    -- 0 + inf = inf, inf / 1 = inf
    have hadd : Fl.add (Fl.zero : F32) r = r := by
      unfold Fl.add
      have hz1 : (Fl.zero : F32).isNaN = false := by decide
      have hz2 : (Fl.zero : F32).isInf = false := by decide
      have hr1 : r.isNaN = false := ok_not_nan hr
      have hr2 : r.isInf = true := by unfold Fl.isInf; simp [hk]
      simp [hz1, hz2, hr1, hr2]
    rw [hadd]
    unfold Fl.div
    have hr1 : r.isNaN = false := ok_not_nan hr
    have hr2 : r.isInf = true := by unfold Fl.isInf; simp [hk]
    have ho1 : (Fl.ofNat fmt32 1).isNaN = false := by decide +kernel
    have ho2 : (Fl.ofNat fmt32 1).isInf = false := by decide +kernel
    have ho3 : ¬ ((Fl.ofNat fmt32 1).key < 0) := by decide +kernel
    have hr3 : ¬ (r.key < 0) := by rw [hk]; decide
    simp [hr1, hr2, ho1, ho2, ho3, hr3]

/-- in the fully modelled world `chaosOfText` is `mess_ratio` of the text itself (a chaos that counts as "below the
    threshold" cannot be the infinite mean of an overflowing sum) -/
theorem chaosOfText_full_eq (menv : Md.MdEnv) (cenv : Coh.CohEnv) (o : Oracle) {t : Text} {thr chaos : F32}
    (hthr : thr.isNaN = false) (hge : Fl.ge chaos thr = false)
    (hch : chaosOfText (worldFull menv cenv o) t thr = .ok chaos) :
    chaos = (if t.isEmpty then Fl.zero else Md.messRatio menv t thr) := by
  unfold chaosOfText at hch
  by_cases hemp : t.isEmpty = true
  · rw [if_pos hemp] at hch ⊢
    exact (Except.ok.inj hch).symm
  · rw [if_neg hemp] at hch ⊢
    have hmess : (worldFull menv cenv o).mess t thr = messGuarded menv t thr := rfl
    rw [hmess] at hch
    unfold messGuarded at hch
    by_cases hlen : t.length + 1 < 2 ^ 64
    · rw [if_pos hlen] at hch
      have hch' : meanRatio [Md.messRatio menv t thr] = chaos := Except.ok.inj hch
      have hok := Md.messRatio_ok menv t thr hlen
      rcases meanRatio_single _ hok with heq | ⟨hinf, _⟩
      · rw [← hch', heq]
      · -- an infinite chaos cannot be below a numeric threshold
        exfalso
        rw [← hch'] at hge
        unfold Fl.ge Fl.le at hge
        have hn : (meanRatio [Md.messRatio menv t thr]).isNaN = false := by
          unfold Fl.isNaN; simp [hinf]
        simp only [hthr, hn, Bool.not_false, Bool.true_and, decide_eq_false_iff_not, Int.not_le] at hge
        unfold Fl.isNaN at hthr
        simp only [decide_eq_false_iff_not, Nat.not_lt] at hthr
        rw [hinf] at hge
        omega
    · rw [if_neg hlen] at hch
      cases hch

/-- **C13 for the fully modelled world**: for an input that fits the window (non-lazy path) the chaos
    of every regular candidate *is* `mess_ratio` of its whole decoded text – exactly, the mean over the
    single chunk adds nothing (`x + 0 = x`, `x / 1 = x`). -/
theorem C13_chaos_is_mess_ratio_full (menv : Md.MdEnv) (cenv : Coh.CohEnv) (o : Oracle)
    {b : Bytes} {s : Settings} {incl excl : List Name}
    (hincl : canonList ianaNow s.incl = .ok incl) (hexcl : canonList ianaNow s.excl = .ok excl)
    (hfit : Fits b s) (hthr : s.thr.isNaN = false)
    {ms : List (Match Name Name)} (hb : b ≠ [])
    (h : fromBytes (worldFull menv cenv o) tablesNow sortMatches b s = .ok (.ok ms)) :
    ∀ m ∈ ms, ∀ c ∈ m.entries, Fl.ge c.chaos s.thr = false →
      (b.length ≤ tablesNow.tooBig ∨ tablesNow.isMultiByte c.enc = true) →
      ∃ t, c.text = some t ∧ c.chaos = (if t.isEmpty then Fl.zero else Md.messRatio menv t s.thr) := by
  intro m hm c hc hge hsmall
  obtain ⟨t, ht, hch⟩ := C13_chaos_of_text (W := worldFull menv cenv o) sortMatches_perm (hchars_full menv cenv o) hincl hexcl hfit hthr hb h
    m hm c hc hge hsmall
  exact ⟨t, ht, chaosOfText_full_eq menv cenv o hthr hge hch⟩

end Charset
