/-
  C18 — every reportable encoding name is canonical, usable and safely aliased.
  All statements are about the tables dumped from the freshly compiled crate (tie T1) and are
  closed by kernel evaluation of Bool-valued checks, lifted to ∀ by list lemmas.
-/
import CharsetProof.Lemmas.Names
import CharsetProof.Lemmas.Codec
import CharsetProof.Props.C01
import CharsetProof.Lemmas.Master
set_option linter.unusedSectionVars false
namespace Charset

/-- identity of the codec a name resolves to (`encoding_from_whatwg_label(name).name()`) -/
def codecIdNow (e : Name) : Option Name := lookupName Gen.labelCodec (normLabel e)

/-- names detection can report: supported names whose codec resolves (today everything but `hz`) -/
def reportableNow : List Name := Gen.supported.filter (fun n => (codecIdNow n).isSome)

/-- a name whose codec does not resolve can never be reported: its strict decode always fails -/
theorem unresolvable_never_decodes (o : Oracle) (chunk : Bool) {e : Name} (h : codecNow e = none) (x : Bytes) :
    decodeNow o chunk e x = .ok none := by
  unfold decodeNow; simp [h]

/-- T1 obligation: the names for which the crate's own decode helper resolves a codec are exactly the
    names the model treats as reportable (a name gaining a codec without an alias entry, or the helper
    resolving names differently from the label table, breaks this) -/
theorem helper_resolves_reportable : (Gen.helperResolves == reportableNow) = true := by decide +kernel

/-- **C18 (canonical)**: every supported name canonicalises to itself … -/
theorem C18_canonical {n : Name} (h : n ∈ Gen.supported) : ianaNow n = some n := ianaNow_supported h

/-- … hence is accepted back by the include/exclude canonicaliser … -/
theorem C18_accepted_by_filters {n : Name} (h : n ∈ Gen.supported) : canonList ianaNow [n] = .ok [n] := by
  simp [canonList, ianaNow_supported h]

/-- … and by lookup-by-name: looking up a candidate name returns the first match listing it -/
theorem C18_lookup {n : Name} (h : n ∈ Gen.supported) (items : List (Match Name Name)) :
    getByEncoding ianaNow items n = findByCand items n := by
  unfold getByEncoding findByCand
  rw [ianaNow_supported h]

theorem C18_lookup_finds {n : Name} (h : n ∈ Gen.supported) {items : List (Match Name Name)} {m : Match Name Name}
    (hm : m ∈ items) (hc : n ∈ m.cands) :
    ∃ m', getByEncoding ianaNow items n = some m' ∧ n ∈ m'.cands := by
  rw [C18_lookup h]
  cases hf : findByCand items n with
  | none =>
    unfold findByCand at hf
    have := List.find?_eq_none.mp hf m hm
    simp at this; exact absurd hc this
  | some m' =>
    have := (findByCand_mem hf).2
    exact ⟨m', rfl, by simpa using this⟩

/-- **C18 (aliases available)**: T1 obligation — every reportable name has an alias entry
    (`encoding_aliases()` does not hit its `expect`) -/
def aliasesAvailableB : Bool := reportableNow.all (fun n => (lookupName Gen.aliases n).isSome)
theorem C18_aliases_available : aliasesAvailableB = true := by decide +kernel

theorem C18_aliases_available_each {n : Name} (h : n ∈ reportableNow) : ∃ as, lookupName Gen.aliases n = some as := by
  have := List.all_eq_true.mp C18_aliases_available n h
  exact Option.isSome_iff_exists.mp this

/-- **C18 (aliases safe)**: T1 obligation — every listed alias of a reportable name that the
    canonicaliser accepts resolves to a name served by the *same codec* (identity of the codec
    object), so it decodes every byte string identically -/
def aliasesSafeB : Bool :=
  reportableNow.all (fun n =>
    match lookupName Gen.aliases n with
    | none => false
    | some as => as.all (fun a =>
        match ianaNow a with
        | none => true
        | some c => codecIdNow c == codecIdNow n))
theorem C18_aliases_safe : aliasesSafeB = true := by decide +kernel

theorem C18_aliases_safe_each {n a c : Name} {as : List Name} (h : n ∈ reportableNow)
    (has : lookupName Gen.aliases n = some as) (ha : a ∈ as) (hc : ianaNow a = some c) :
    codecIdNow c = codecIdNow n := by
  have := List.all_eq_true.mp C18_aliases_safe n h
  simp only [has] at this
  have := List.all_eq_true.mp this a ha
  simpa [hc] using this

/-- same codec identity ⇒ same decoder in the model, for every byte string and both modes
    (codecs other than the multi-byte legacy ones; Props/C18b.lean removes the restriction now that those are
    Lean definitions too) -/
theorem same_codec_same_decode (o : Oracle) {c n : Name} (h : codecIdNow c = codecIdNow n)
    (hmb : Gen.multiByte.contains c = Gen.multiByte.contains n) (chunk : Bool) (x : Bytes)
    (hne : ∀ id, codecNow n ≠ some (.external id)) :
    decodeNow o chunk c x = decodeNow o chunk n x := by
  have hcodec : codecNow c = codecNow n := by
    unfold codecNow; unfold codecIdNow at h; rw [h]
  unfold decodeNow
  rw [hcodec, hmb]
  cases hcn : codecNow n with
  | none => rfl
  | some cd =>
    cases cd with
    | table tbl => rfl
    | utf8 => rfl
    | utf16 le => rfl
    | external id => exact absurd hcn (hne id)

/-- T1 obligation: the dumped name of every mark is a supported name (sanity of the tables) -/
theorem marks_supported : (Gen.marks.all (fun em => Gen.supported.contains em.1)) = true := by decide +kernel

/-- non-vacuity: there are reportable names, and `hz` is not one of them -/
example : reportableNow.length = 40 ∧ reportableNow.contains [104, 122] = false := by decide +kernel

end Charset
