/-
  C02 — detection and every accessor are total: no panic on any input or settings.
-/
import CharsetProof.Lemmas.Total
import CharsetProof.Lemmas.SortPerm
import CharsetProof.Props.C05
import CharsetProof.Props.C07
import CharsetProof.Props.C18
import CharsetProof.Generated.Inventory
import CharsetProof.Covered
set_option linter.unusedSectionVars false
namespace Charset
variable {E L : Type} [DecidableEq E]

/-- **C02 (from_bytes is total)** — every operation of `from_bytes` that can panic in Rust (slice
    indexing `&bytes[a..b]` at lib.rs:341/412/451, the integer division at 397, the "entry not present"
    path at 557) is a possible `Fault` of the model. For every total world, sane constants, every
    input (empty, tiny, BOM-only, binary, > 1 MB …) and every settings with `steps ≥ 1`, the model
    returns a value: no fault is reachable, and all loops terminate (they are structural recursions). -/
theorem C02_from_bytes_total {W : World E L} {T : Tables E} {sort : Sorter E L} (hperm : ∀ l, (sort l).Perm l)
    (hW : W.Total) (hT : T.Sane) (b : Bytes) (s : Settings) (hs : 1 ≤ s.steps) :
    ∃ r, fromBytes W T sort b s = .ok r :=
  fromBytes_total hperm hW hT b s hs

/-- the only failure mode is the documented one: an include/exclude entry that is not a known label -/
theorem C02_only_documented_error {W : World E L} {T : Tables E} {sort : Sorter E L} {b : Bytes} {s : Settings}
    {e : Err} (h : fromBytes W T sort b s = .ok (.error e)) :
    (∃ n, e = .badInclude n ∧ n ∈ s.incl ∧ T.ianaName n = none) ∨
    (∃ n, e = .badExclude n ∧ n ∈ s.excl ∧ T.ianaName n = none) := by
  unfold fromBytes at h
  cases hi : canonList T.ianaName s.incl with
  | error n =>
    simp only [hi, Except.ok.injEq, Except.error.injEq] at h
    exact Or.inl ⟨n, h.symm, canonList_error hi⟩
  | ok incl =>
    cases he : canonList T.ianaName s.excl with
    | error n =>
      simp only [hi, he, Except.ok.injEq, Except.error.injEq] at h
      exact Or.inr ⟨n, h.symm, canonList_error he⟩
    | ok excl =>
      simp only [hi, he] at h
      split at h
      · cases h
      · split at h <;> cases h

/-- with `steps = 0` the Rust code divides by zero (lib.rs:397); the model faults there too – this is
    why the property's quantifier says `steps ≥ 1` (non-vacuity of that hypothesis) -/
theorem C02_steps_zero_faults : divF 397 10 0 = fault (.divZero 397) := rfl

/-! ### the current tree -/

/-- T1 obligations behind `Tables.Sane` -/
theorem tablesNow_sane : tablesNow.Sane where
  maxLeBig := by show Gen.maxProcessed ≤ Gen.tooBig; decide +kernel
  marksMb := marksMultiByte_now

/-- the modelled codecs never fault and never ask the oracle -/
theorem decodeNow_total_modelled (o : Oracle) (chunk : Bool) (e : Name) (x : Bytes)
    (hne : ∀ id, codecNow e ≠ some (.external id)) : ∃ r, decodeNow o chunk e x = .ok r := by
  unfold decodeNow
  cases hc : codecNow e with
  | none => exact ⟨_, rfl⟩
  | some c =>
    cases c with
    | table tbl => simp only [Codec.strict]; split <;> exact ⟨_, rfl⟩
    | utf8 => simp only [Codec.strict]; split <;> exact ⟨_, rfl⟩
    | utf16 le => simp only [Codec.strict]; split <;> exact ⟨_, rfl⟩
    | external id => exact absurd hc (hne id)

theorem C02_current {W : World Name Name} (hW : W.Total) (b : Bytes) (s : Settings) (hs : 1 ≤ s.steps) :
    ∃ r, fromBytes W tablesNow sortMatches b s = .ok r :=
  fromBytes_total sortMatches_perm hW tablesNow_sane b s hs

/-- accessors: `encoding_aliases()` has an entry for every reportable name (its `expect` cannot fire) -/
theorem C02_aliases_total : aliasesAvailableB = true := C18_aliases_available

/-- **T2(c) obligation** — the potential panic sites of the current source (index/slice expressions,
    `unwrap`/`expect`/`unwrap_err`, `panic!`/`assert!`, integer `/ % -`, `step_by`, sorts), per
    function, are exactly the reviewed ones, each of which is either a `Fault` operation of the model
    shown unreachable above or guarded in place (see DESIGN.md §4 C02). A new `unwrap`, a removed
    `.max(1)` next to a division, a new subtraction … changes the inventory and fails this check. -/
theorem C02_panic_sites_covered : (Inv.panicSites == Covered.panicSites) = true := by decide +kernel

end Charset
