/-
  C17 — the event model of the lossy decoders (`Ignore` / `Replace`) and the strict decoders are two
  descriptions of the same raw decoder: in `Strict` mode the helper's result computed from the event stream
  is exactly the strict decoder's result, for UTF-8 (the crate's DFA), UTF-16 and every single-byte table;
  and whenever the strict decode succeeds, `Ignore` and `Replace` return the very same text.
-/
import CharsetProof.Lemmas.CjkEvents
import CharsetProof.Props.C17
set_option linter.unusedSectionVars false
namespace Charset

def toOpt {α ε : Type} : Except ε α → Option α
  | .ok a => some a
  | .error _ => none

theorem applyTrap_strict_cons_some (cp : Nat) (evs : List (Option Nat)) :
    applyTrap .strict (some cp :: evs) = (applyTrap .strict evs).map (cp :: ·) := by
  unfold applyTrap
  simp only [List.all_cons, Option.isSome_some, Bool.true_and, List.filterMap_cons, id_eq]
  split <;> rfl

theorem applyTrap_strict_cons_none (evs : List (Option Nat)) : applyTrap .strict (none :: evs) = none := by
  simp [applyTrap]

/-- UTF-8: strict mode over the event stream = the strict DFA, from every decoder state -/
theorem utf8_strict_events : ∀ (b : Bytes) (fuel : Nat) (s : U8State), b.length ≤ fuel →
    applyTrap .strict (utf8Events fuel s b) = toOpt (utf8StrictAux s b)
  | [], fuel, s, _ => by
    cases fuel <;> (simp only [utf8Events, utf8StrictAux]; split <;> simp [applyTrap, toOpt])
  | b :: bs, 0, s, h => by simp at h
  | b :: bs, fuel + 1, s, h => by
    have hlen : bs.length ≤ fuel := by simpa using h
    simp only [utf8Events, utf8StrictAux]
    cases hstep : u8Step s b with
    | emit cp =>
      simp only
      rw [applyTrap_strict_cons_some, utf8_strict_events bs fuel {} hlen]
      cases utf8StrictAux {} bs <;> rfl
    | more s' =>
      simp only
      exact utf8_strict_events bs fuel s' hlen
    | reject c =>
      cases c <;> simp [applyTrap_strict_cons_none, toOpt]

theorem C17_utf8_strict_events (b : Bytes) :
    applyTrap .strict (utf8Events (2 * b.length + 2) {} b) = toOpt (utf8Strict b) :=
  utf8_strict_events b _ {} (by omega)

/-- UTF-16: strict mode over the event stream = the strict decoder -/
theorem utf16_strict_events (dangling : Bool) : ∀ (n : Nat) (us : List Nat), us.length ≤ n →
    applyTrap .strict (utf16EventsUnits dangling us) = toOpt (utf16FromUnits dangling us)
  | _, [], _ => by
    unfold utf16EventsUnits utf16FromUnits
    cases dangling <;> simp [applyTrap, toOpt]
  | 0, u :: us, h => by simp at h
  | n + 1, u :: us, h => by
    have hlen : us.length ≤ n := by simpa using h
    unfold utf16EventsUnits utf16FromUnits
    by_cases hhi : 0xD800 ≤ u ∧ u ≤ 0xDBFF
    · simp only [hhi, and_self, ↓reduceIte]
      cases us with
      | nil => simp [applyTrap, toOpt]
      | cons u2 us2 =>
        simp only
        by_cases hlo : 0xDC00 ≤ u2 ∧ u2 ≤ 0xDFFF
        · simp only [hlo, and_self, ↓reduceIte]
          rw [applyTrap_strict_cons_some, utf16_strict_events dangling n us2 (by simp at hlen; omega)]
          cases utf16FromUnits dangling us2 <;> rfl
        · simp only [hlo, ↓reduceIte]
          simp [applyTrap_strict_cons_none, toOpt]
    · simp only [hhi, ↓reduceIte]
      by_cases hlo : 0xDC00 ≤ u ∧ u ≤ 0xDFFF
      · simp only [hlo, and_self, ↓reduceIte]
        simp [applyTrap_strict_cons_none, toOpt]
      · simp only [hlo, ↓reduceIte]
        rw [applyTrap_strict_cons_some, utf16_strict_events dangling n us hlen]
        cases utf16FromUnits dangling us <;> rfl

/-- **C17 (strict mode of the helper = the codec)** for every modelled codec: the text the helper builds
    from the decoder's event stream under `DecoderTrap::Strict` is the strict decoder's own result
    (an error exactly when the codec errors) -/
theorem C17_strict_is_codec (c : Codec) (ev : Bytes → List (Option Nat)) (st : Bytes → Except ErrKind Text)
    (hev : c.events = some ev) (hst : c.strict = some st) (input : Bytes) :
    applyTrap .strict (ev input) = toOpt (st input) := by
  cases c with
  | table tbl =>
    simp only [Codec.events, Option.some.injEq] at hev
    simp only [Codec.strict, Option.some.injEq] at hst
    subst hev; subst hst
    rw [C17_table_strict_events]
    cases tableStrict tbl input <;> rfl
  | utf8 =>
    simp only [Codec.events, Option.some.injEq] at hev
    simp only [Codec.strict, Option.some.injEq] at hst
    subst hev; subst hst
    exact C17_utf8_strict_events input
  | utf16 le =>
    simp only [Codec.events, Option.some.injEq] at hev
    simp only [Codec.strict, Option.some.injEq] at hst
    subst hev; subst hst
    exact utf16_strict_events _ _ _ (Nat.le_refl _)
  | external id =>
    simp only [Codec.events] at hev
    simp only [Codec.strict] at hst
    rw [Cjk.eventsOf_strict hev hst]
    cases st input <;> rfl

/-- when no problem is trapped, all three modes agree -/
theorem applyTrap_agree (evs : List (Option Nat)) (t : Text) (h : applyTrap .strict evs = some t) :
    applyTrap .ignore evs = some t ∧ applyTrap .replace evs = some t := by
  simp only [applyTrap] at h ⊢
  by_cases hall : evs.all Option.isSome = true
  · rw [if_pos hall] at h
    cases h
    refine ⟨rfl, ?_⟩
    congr 1
    induction evs with
    | nil => rfl
    | cons e es ih =>
      simp only [List.all_cons, Bool.and_eq_true] at hall
      cases e with
      | none => simp at hall
      | some x => simp only [List.map_cons, Option.getD_some, List.filterMap_cons, id_eq]; rw [ih hall.2]
  · rw [if_neg hall] at h; cases h

/-- **C17 (lossy modes on clean input)**: if the strict decode of a modelled codec succeeds with text `t`,
    the helper in `Ignore` and in `Replace` mode returns `t` as well -/
theorem C17_lossy_equals_strict_on_clean_input (c : Codec) (ev : Bytes → List (Option Nat))
    (st : Bytes → Except ErrKind Text) (hev : c.events = some ev) (hst : c.strict = some st)
    (input : Bytes) (t : Text) (hok : st input = .ok t) :
    applyTrap .ignore (ev input) = some t ∧ applyTrap .replace (ev input) = some t := by
  apply applyTrap_agree
  rw [C17_strict_is_codec c ev st hev hst input, hok]; rfl

end Charset
