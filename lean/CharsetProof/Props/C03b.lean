/-
  C03 — order independence of the hash-ordered collections that are sorted before use.
  `range_scan` fills a `HashSet<String>` (iteration order changes per launch), `unicode_ranges()` collects it
  into a vector and sorts; `encoding_unicode_range` iterates a `HashMap` and sorts the names that pass a
  threshold.  The theorems say: whatever order the hash collection yields its (distinct) elements in, and
  whatever correct sort is applied, the result is one and the same list – the one the model computes.
-/
import CharsetProof.Lemmas.Ranges
import CharsetProof.Model.Targets
set_option linter.unusedSectionVars false
namespace Charset

/-- two strictly increasing lists with the same members are equal -/
theorem strictSorted_ext : ∀ (l₁ l₂ : List Name),
    l₁.Pairwise (fun a b => a < b) → l₂.Pairwise (fun a b => a < b) → (∀ x, x ∈ l₁ ↔ x ∈ l₂) → l₁ = l₂
  | [], [], _, _, _ => rfl
  | [], y :: ys, _, _, h => by have := (h y).mpr List.mem_cons_self; cases this
  | x :: xs, [], _, _, h => by have := (h x).mp List.mem_cons_self; cases this
  | x :: xs, y :: ys, h1, h2, h => by
    have hx := List.pairwise_cons.mp h1
    have hy := List.pairwise_cons.mp h2
    -- the heads are the minima of the same set
    have hxy : x = y := by
      have hxin : x ∈ y :: ys := (h x).mp List.mem_cons_self
      have hyin : y ∈ x :: xs := (h y).mpr List.mem_cons_self
      rcases List.mem_cons.mp hxin with e | hxin'
      · exact e
      · rcases List.mem_cons.mp hyin with e | hyin'
        · exact e.symm
        · have a1 : y < x := hy.1 x hxin'
          have a2 : x < y := hx.1 y hyin'
          exact absurd a1 (List.lt_asymm a2)
    subst hxy
    congr 1
    apply strictSorted_ext xs ys hx.2 hy.2
    intro z
    constructor
    · intro hz
      rcases List.mem_cons.mp ((h z).mp (List.mem_cons_of_mem _ hz)) with e | hz'
      · subst e; exact absurd (hx.1 z hz) (List.lt_irrefl _)
      · exact hz'
    · intro hz
      rcases List.mem_cons.mp ((h z).mpr (List.mem_cons_of_mem _ hz)) with e | hz'
      · subst e; exact absurd (hy.1 z hz) (List.lt_irrefl _)
      · exact hz'

/-- a duplicate-free list sorted for `≤` is strictly increasing -/
theorem strict_of_sorted_nodup {l : List Name} (hs : l.Pairwise (fun a b => ¬ b < a)) (hnd : l.Nodup) :
    l.Pairwise (fun a b => a < b) := by
  have hboth := hs.and (List.nodup_iff_pairwise_ne.mp hnd)
  refine hboth.imp ?_
  intro a b ⟨hle, hne⟩
  rcases Decidable.em (a < b) with h2 | h2
  · exact h2
  · exact absurd (List.le_antisymm (List.not_lt.mp hle) (List.not_lt.mp h2)).symm (fun e => hne e.symm)

/-- **C03 (`unicode_ranges()` does not depend on the hash order nor on the sort)**: let `scan` be the
    elements of the `HashSet` built by `range_scan` in *any* iteration order (a permutation of the model's
    duplicate-free list) and `sorted` the result of *any* correct sort of it (a permutation that is
    non-decreasing in the string order).  Then `sorted` is the list the model computes. -/
theorem C03_unicode_ranges_order_free (tbl : List (Name × Nat × Nat)) (t : Option Text)
    (scan sorted : List Name) (hscan : scan.Perm (rangeScan tbl (t.getD [])))
    (hperm : sorted.Perm scan) (hsorted : sorted.Pairwise (fun a b => ¬ b < a)) :
    sorted = unicodeRangesOf tbl t := by
  have hspec := unicodeRangesOf_spec tbl t
  have hnd0 : (rangeScan tbl (t.getD [])).Nodup := by unfold rangeScan; exact nodup_dedup _
  have hnd : sorted.Nodup := (hperm.trans hscan).nodup_iff.mpr hnd0
  apply strictSorted_ext _ _ (strict_of_sorted_nodup hsorted hnd) hspec.1
  intro x
  rw [(hperm.trans hscan).mem_iff]
  unfold unicodeRangesOf
  rw [(insertionSort_perm nameLt _).mem_iff]

/-- the same for the names `encoding_unicode_range` keeps (a `HashMap` iterated, filtered, sorted):
    any iteration order of the distinct keys, any correct sort – one result -/
theorem C03_sorted_names_order_free (kept scan sorted : List Name) (hnd : kept.Nodup)
    (hscan : scan.Perm kept) (hperm : sorted.Perm scan) (hsorted : sorted.Pairwise (fun a b => ¬ b < a)) :
    sorted = insertionSort nameLt kept := by
  have hs := insertionSort_sorted nameLt nameLt_trans nameLt_asymm kept
  have hp := insertionSort_perm nameLt kept
  have hs' : (insertionSort nameLt kept).Pairwise (fun a b => ¬ b < a) := by
    refine hs.imp ?_
    intro a b h
    simpa [nameLt] using h
  apply strictSorted_ext _ _ (strict_of_sorted_nodup hsorted ((hperm.trans hscan).nodup_iff.mpr hnd))
    (strict_of_sorted_nodup hs' (hp.nodup_iff.mpr hnd))
  intro x
  rw [(hperm.trans hscan).mem_iff, hp.mem_iff]

/-- the filter `encoding_unicode_range` applies commutes with any reordering of the map's keys, and the
    per-key count does not depend on the order either: the kept names of a permuted key list are a
    permutation of the kept names -/
theorem filter_perm_of_perm {p : Name → Bool} {keys keys' : List Name} (h : keys'.Perm keys) :
    (keys'.filter p).Perm (keys.filter p) := h.filter p

/-- non-vacuity: a reversed scan order sorts to the same list -/
example : insertionSort nameLt [nameOfStr "Latin-1 Supplement", nameOfStr "Basic Latin"] =
    insertionSort nameLt [nameOfStr "Basic Latin", nameOfStr "Latin-1 Supplement"] := by decide +kernel

end Charset
