/-
  C17 — decode helper equals the codec; chunk mode trims cut UTF-8 cleanly.
-/
import CharsetProof.Model.DecodeHelper
import CharsetProof.Lemmas.Utf8
set_option linter.unusedSectionVars false
namespace Charset

/-- **C17 (test-only mode)** — the test-only writer changes no control flow: the helper succeeds in
    test-only mode exactly when the real decode succeeds, and materialises no text -/
theorem C17_test_only (c : Codec) (isMb : Bool) (trap : Trap) (isChunk : Bool) (input : Bytes) :
    (decodeHelper c isMb trap true isChunk input).map Option.isSome =
      (decodeHelper c isMb trap false isChunk input).map Option.isSome ∧
    ∀ t, decodeHelper c isMb trap true isChunk input = some (some t) → t = [] := by
  unfold decodeHelper
  cases c.events <;> cases c.strict <;> simp

/-- chunk mode is only different for `Strict` on multi-byte encodings (utils.rs:236-238) -/
theorem C17_chunk_mode_irrelevant (c : Codec) (trap : Trap) (onlyTest : Bool) (input : Bytes)
    (h : trap ≠ .strict) : decodeHelper c true trap onlyTest true input = decodeHelper c true trap onlyTest false input := by
  unfold decodeHelper
  cases c.events <;> cases c.strict <;> simp [h]

theorem C17_chunk_mode_single_byte (c : Codec) (trap : Trap) (onlyTest : Bool) (input : Bytes) :
    decodeHelper c false trap onlyTest true input = decodeHelper c false trap onlyTest false input := by
  unfold decodeHelper
  cases c.events <;> cases c.strict <;> simp

/-- for a table codec the strict decoder and the event stream agree: `Strict` succeeds exactly when no
    byte is unmapped and then yields the mapped characters -/
theorem C17_table_strict_events (tbl : List Nat) (b : Bytes) :
    applyTrap .strict (tableEvents tbl b) = (match tableStrict tbl b with | .ok t => some t | .error _ => none) := by
  induction b with
  | nil => simp [applyTrap, tableEvents, tableStrict]
  | cons x xs ih =>
    simp only [tableEvents, tableStrict]
    cases hx : tbl[x]? with
    | none => simp [applyTrap]
    | some cp =>
      simp only
      by_cases hu : cp = undefCp
      · simp [hu, applyTrap]
      · simp only [hu, ↓reduceIte]
        unfold applyTrap at ih ⊢
        simp only [List.all_cons, Option.isSome_some, Bool.true_and, List.filterMap_cons, id_eq] at ih ⊢
        cases hs : tableStrict tbl xs with
        | error k => simp [hs] at ih ⊢; exact ih
        | ok t =>
          simp only [hs] at ih ⊢
          split at ih
          · simp_all
          · simp_all

/-- `Ignore` never fails and returns exactly the decodable characters; `Replace` never fails and
    writes one U+FFFD per problem -/
theorem C17_ignore_replace_total (evs : List (Option Nat)) :
    applyTrap .ignore evs = some (evs.filterMap id) ∧
    applyTrap .replace evs = some (evs.map (fun e => e.getD 0xFFFD)) := ⟨rfl, rfl⟩

/-- **C17 (UTF-8 round trip)** — strict decoding of the UTF-8 encoding of any scalar-value text gives it back -/
theorem C17_utf8_roundtrip (t : Text) (hs : ∀ c ∈ t, isScalar c = true) : utf8Strict (utf8Encode t) = .ok t :=
  utf8_roundtrip t hs

/-- **C17 (chunk mode, all windows, all texts)** — a window cut at arbitrary byte positions out of valid
    UTF-8 (text `… c mid d …`): the last `len(c) - k` bytes of a character `c` cut at the front (`k ≥ 1`
    bytes missing; none of `c` when `k ≥ len(c)`), at least one complete character `mid`, and the
    first `j < len(d)` bytes of a character `d` cut at the end. Chunk-mode decoding returns exactly the
    complete characters inside the window: nothing dropped, duplicated or invented. Unbounded in the
    length of `mid` and in the characters involved (1–4 byte encodings). -/
theorem C17_utf8_window (c d : Nat) (mid : Text) (k j : Nat) (hd : isScalar d = true)
    (hmid : ∀ x ∈ mid, isScalar x = true) (hne : mid ≠ []) (hk : 1 ≤ k) (hj : j < (utf8EncodeChar d).length) :
    decodeStrict utf8Strict true true
      ((utf8EncodeChar c).drop k ++ utf8Encode mid ++ (utf8EncodeChar d).take j) = .ok mid :=
  utf8_window c d mid k j hd hmid hne hk hj

/-- the same through the helper model: `decode(window, "utf-8", Strict, false, is_chunk = true)` -/
theorem C17_helper_window (c d : Nat) (mid : Text) (k j : Nat) (hd : isScalar d = true)
    (hmid : ∀ x ∈ mid, isScalar x = true) (hne : mid ≠ []) (hk : 1 ≤ k) (hj : j < (utf8EncodeChar d).length) :
    decodeHelper .utf8 true .strict false true
      ((utf8EncodeChar c).drop k ++ utf8Encode mid ++ (utf8EncodeChar d).take j) = some (some mid) := by
  have h := utf8_window c d mid k j hd hmid hne hk hj
  unfold decodeStrict at h
  simp only [and_self, ↓reduceIte] at h
  unfold decodeHelper
  simp only [Codec.events, Codec.strict, and_self, ↓reduceIte, Bool.false_eq_true]
  rw [h]
  rfl

/-- non-vacuity: a window of "aé€😀z" cut inside 'é' and inside '😀' -/
example : (decodeStrict utf8Strict true true ((utf8EncodeChar 0xE9).drop 1 ++ utf8Encode [0x20AC] ++ (utf8EncodeChar 0x1F600).take 2)).toOption
    = some [0x20AC] := by decide +kernel

/-- the repaired retry loop starts every attempt from an empty buffer: a window whose inner slice
    decodes returns exactly that decode (nothing from failed attempts is kept). Kernel-evaluated on
    the former counterexample `b"h\xc3"` (which used to yield "hh") and on a window cut on both sides. -/
example : (decodeStrict utf8Strict true true [0x68, 0xC3]).toOption = some [0x68] := by decide +kernel
example : (decodeStrict utf8Strict true true [0xA9, 0x68, 0xC3, 0xA9, 0xE2, 0x82]).toOption = some [0x68, 0xE9] := by
  decide +kernel

end Charset
