/-
  C17 — decode helper equals the codec; chunk mode trims cut UTF-8 cleanly.
-/
import CharsetProof.Model.DecodeHelper
set_option linter.unusedSectionVars false
namespace Charset

/-- **C17 (test-only mode)** — the test-only writer changes no control flow: the helper succeeds in
    test-only mode exactly when the real decode succeeds, and materialises no text -/
theorem C17_test_only (c : Codec) (isMb : Bool) (trap : Trap) (isChunk : Bool) (input : Bytes) :
    (decodeHelper c isMb trap true isChunk input).map Option.isSome =
      (decodeHelper c isMb trap false isChunk input).map Option.isSome ∧
    ∀ t, decodeHelper c isMb trap true isChunk input = some (some t) → t = [] := by
  unfold decodeHelper
  cases c.events <;> cases c.strict <;> simp

/-- chunk mode is only different for `Strict` on multi-byte encodings (utils.rs:236-238) -/
theorem C17_chunk_mode_irrelevant (c : Codec) (trap : Trap) (onlyTest : Bool) (input : Bytes)
    (h : trap ≠ .strict) : decodeHelper c true trap onlyTest true input = decodeHelper c true trap onlyTest false input := by
  unfold decodeHelper
  cases c.events <;> cases c.strict <;> simp [h]

theorem C17_chunk_mode_single_byte (c : Codec) (trap : Trap) (onlyTest : Bool) (input : Bytes) :
    decodeHelper c false trap onlyTest true input = decodeHelper c false trap onlyTest false input := by
  unfold decodeHelper
  cases c.events <;> cases c.strict <;> simp

/-- for a table codec the strict decoder and the event stream agree: `Strict` succeeds exactly when no
    byte is unmapped and then yields the mapped characters -/
theorem C17_table_strict_events (tbl : List Nat) (b : Bytes) :
    applyTrap .strict (tableEvents tbl b) = (match tableStrict tbl b with | .ok t => some t | .error _ => none) := by
  induction b with
  | nil => simp [applyTrap, tableEvents, tableStrict]
  | cons x xs ih =>
    simp only [tableEvents, tableStrict]
    cases hx : tbl[x]? with
    | none => simp [applyTrap]
    | some cp =>
      simp only
      by_cases hu : cp = undefCp
      · simp [hu, applyTrap]
      · simp only [hu, ↓reduceIte]
        unfold applyTrap at ih ⊢
        simp only [List.all_cons, Option.isSome_some, Bool.true_and, List.filterMap_cons, id_eq] at ih ⊢
        cases hs : tableStrict tbl xs with
        | error k => simp [hs] at ih ⊢; exact ih
        | ok t =>
          simp only [hs] at ih ⊢
          split at ih
          · simp_all
          · simp_all

/-- `Ignore` never fails and returns exactly the decodable characters; `Replace` never fails and
    writes one U+FFFD per problem -/
theorem C17_ignore_replace_total (evs : List (Option Nat)) :
    applyTrap .ignore evs = some (evs.filterMap id) ∧
    applyTrap .replace evs = some (evs.map (fun e => e.getD 0xFFFD)) := ⟨rfl, rfl⟩

/-- the repaired retry loop starts every attempt from an empty buffer: a window whose inner slice
    decodes returns exactly that decode (nothing from failed attempts is kept). Kernel-evaluated on
    the former counterexample `b"h\xc3"` (which used to yield "hh") and on a window cut on both sides. -/
example : (decodeStrict utf8Strict true true [0x68, 0xC3]).toOption = some [0x68] := by decide +kernel
example : (decodeStrict utf8Strict true true [0xA9, 0x68, 0xC3, 0xA9, 0xE2, 0x82]).toOption = some [0x68, 0xE9] := by
  decide +kernel

end Charset
