/-
  C10 / C04 for the fully modelled world `worldFull`: the remaining hypotheses of C10_tied_language
  (include-list law of coherence_ratio) and of C04_chaos_range (non-negative mess ratios) are theorems.
-/
import CharsetProof.Props.C10c
import CharsetProof.Props.C04c
import CharsetProof.Lemmas.Coh
import CharsetProof.Model.WorldFull
set_option linter.unusedSectionVars false
namespace Charset
open Fl

theorem worldFull_merge (menv : Md.MdEnv) (cenv : Coh.CohEnv) (o : Oracle) (xs : List (List (Name × F32))) :
    (worldFull menv cenv o).merge xs = .ok (mergeModel xs) := rfl

/-- the include-list law is a theorem once `coherence_ratio` is inside the model -/
theorem worldFull_coh_respects_include (menv : Md.MdEnv) (cenv : Coh.CohEnv) (o : Oracle) :
    CohRespectsInclude (worldFull menv cenv o) nUnknown := by
  intro t thr langs r h hne hunk
  have h' : Coh.coherenceRatio cenv Gen.unicodeRanges Gen.secondaryKeywords Gen.languages Gen.tooSmall t thr langs
      = some r := by
    simp only [worldFull] at h
    exact Except.ok.inj h
  exact Coh.coherenceRatio_respects_include _ _ _ _ _ _ _ _ _ h' hne hunk

/-- **C10 (tied language), coherence detection modelled** — no hypothesis left: for every Unicode
    environment, every input and settings, a candidate whose encoding is tied to one language lists no
    other language -/
theorem C10_tied_language_full (menv : Md.MdEnv) (cenv : Coh.CohEnv) (o : Oracle)
    {b : Bytes} {s : Settings} {incl excl : List Name}
    (hincl : canonList ianaNow s.incl = .ok incl) (hexcl : canonList ianaNow s.excl = .ok excl)
    {ms : List (Match Name Name)} (hb : b ≠ [])
    (h : fromBytes (worldFull menv cenv o) tablesNow sortMatches b s = .ok (.ok ms))
    {m : Match Name Name} (hm : m ∈ ms) {c : Sub Name Name} (hc : c ∈ m.entries) {lang : Name}
    (htied : lookupName Gen.targetLanguages c.enc = some [lang]) (hlang : lang ≠ nUnknown) :
    ∀ l ∈ c.cohs.map (·.1), l = lang := by
  have hcoh := worldFull_coh_respects_include menv cenv o
  rcases fromBytes_facts sortMatches_perm hincl hexcl hb h with hall | ⟨fb, rfl, hfb, hsubs⟩
  · have f := Match.allEntries_iff.mp (hall m hm) c hc
    obtain ⟨p, acc, _, _, _, _, _, _, _, _, cdl, hcds, hmerge⟩ := f.chunksFact
    rw [worldFull_merge] at hmerge
    have hcohs : mergeModel cdl = c.cohs := Except.ok.inj hmerge
    intro l hl
    rw [← hcohs] at hl
    obtain ⟨r, hr, hlr⟩ := (mergeModel_mem cdl l).mp hl
    unfold cdsOf at hcds
    split at hcds
    · cases hcds; simp at hr
    · have htar : (worldFull menv cenv o).target c.enc = .ok [lang] := by
        show (match lookupName Gen.targetLanguages c.enc with | some l => Except.ok l | none => _) = _
        rw [htied]
      rw [htar] at hcds
      obtain ⟨t, ht⟩ := cohAll_mem _ hcds r hr
      obtain ⟨q, hq, rfl⟩ := List.mem_map.mp hlr
      have := hcoh t _ _ r ht (by simp) (by simpa using hlang) q hq
      simpa using this
  · simp only [List.mem_singleton] at hm
    subst hm
    have f := Match.allEntries_iff.mp hfb c hc
    intro l hl
    rw [f.cohs] at hl
    simp at hl

theorem worldFull_mess_ok (menv : Md.MdEnv) (cenv : Coh.CohEnv) (o : Oracle) :
    ∀ t thr r, (worldFull menv cenv o).mess t thr = .ok r → Ok r := by
  intro t thr r h
  simp only [worldFull, messGuarded] at h
  split at h
  · cases h
    exact Md.messRatio_ok menv t thr (by assumption)
  · cases h

/-- **C04 (c) for the fully modelled world** -/
theorem C04_chaos_range_full (menv : Md.MdEnv) (cenv : Coh.CohEnv) (o : Oracle) {b : Bytes} {s : Settings}
    {incl excl : List Name} (hsteps : s.steps < 2 ^ 62) (hthr : s.thr.isNaN = false)
    (hincl : canonList ianaNow s.incl = .ok incl) (hexcl : canonList ianaNow s.excl = .ok excl)
    {ms : List (Match Name Name)} (hb : b ≠ [])
    (h : fromBytes (worldFull menv cenv o) tablesNow sortMatches b s = .ok (.ok ms)) :
    (∀ m ∈ ms, ∀ c ∈ m.entries,
        0 ≤ c.chaos.key ∧ c.chaos.isNaN = false ∧ c.chaos.isFinite = true ∧ Fl.lt c.chaos s.thr = true) ∨
    (∃ fb, ms = [fb] ∧ fb.subs = [] ∧ fb.chaos = s.thr ∧ s.fallback = true ∧ fb.enc ∈ hintsOf tablesNow b s) :=
  C04_chaos_range sortMatches_perm (worldFull_mess_ok menv cenv o) hsteps hthr hincl hexcl hb h

end Charset
