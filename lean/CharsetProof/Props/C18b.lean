/-
  C18, aliases decode identically – now for every codec: with the multi-byte legacy decoders inside the model, "the alias
  resolves to the same codec" yields "decodes every byte string to the same result" by computation, not by appeal to the
  identity of an opaque codec object.
-/
import CharsetProof.Props.C18
import CharsetProof.Lemmas.CharsLeNow
set_option linter.unusedSectionVars false
namespace Charset

/-- same codec identity and same multi-byte flag ⇒ same decoder, for a supported name (all of whose codecs are modelled) -/
theorem same_codec_same_decode_supported (o : Oracle) {c n : Name} (h : codecIdNow c = codecIdNow n)
    (hmb : Gen.multiByte.contains c = Gen.multiByte.contains n) (hn : n ∈ Gen.supported) (chunk : Bool) (x : Bytes) :
    decodeNow o chunk c x = decodeNow o chunk n x := by
  have hcodec : codecNow c = codecNow n := by
    unfold codecNow; unfold codecIdNow at h; rw [h]
  have hm := List.all_eq_true.mp supportedModelled n hn
  unfold decodeNow
  rw [hcodec, hmb]
  cases hcn : codecNow n with
  | none => rfl
  | some cd =>
    rw [hcn] at hm
    simp only at hm
    cases hs : cd.strict with
    | none => rw [hs] at hm; cases hm
    | some f => simp only [hs]

/-- T1 obligation: an alias that resolves names an encoding of the same kind (single- / multi-byte) as the name it belongs to -/
def aliasesSameKindB : Bool :=
  reportableNow.all (fun n =>
    match lookupName Gen.aliases n with
    | none => false
    | some as => as.all (fun a =>
        match ianaNow a with
        | none => true
        | some c => Gen.multiByte.contains c == Gen.multiByte.contains n))

theorem C18_aliases_same_kind : aliasesSameKindB = true := by decide +kernel

theorem reportable_supported {n : Name} (h : n ∈ reportableNow) : n ∈ Gen.supported :=
  (List.mem_filter.mp h).1

/-- **C18 (aliases decode identically), every codec**: an alias of a reportable name, given back as an encoding name,
    decodes every byte string – whole or as a chunk – exactly as the name itself -/
theorem C18_alias_decodes_identically (o : Oracle) {n a c : Name} {as : List Name} (h : n ∈ reportableNow)
    (has : lookupName Gen.aliases n = some as) (ha : a ∈ as) (hc : ianaNow a = some c) (chunk : Bool) (x : Bytes) :
    decodeNow o chunk c x = decodeNow o chunk n x := by
  have hid := C18_aliases_safe_each h has ha hc
  have hk : Gen.multiByte.contains c = Gen.multiByte.contains n := by
    have := List.all_eq_true.mp C18_aliases_same_kind n h
    simp only [has] at this
    have := List.all_eq_true.mp this a ha
    simpa [hc] using this
  exact same_codec_same_decode_supported o hid hk (reportable_supported h) chunk x

end Charset
