/-
  C02 for the fully modelled world, without any hypothesis about the world: every function the detection
  calls – every decoder of a supported encoding, the mess detector, the coherence detector, the merge, the
  language table – is a Lean definition that answers; so for every input (below 2^64 bytes), every Unicode
  environment and all settings with `steps ≥ 1` the model of `from_bytes` returns a value – the documented
  error or a list of matches – and never a fault (slice out of range, division by zero, failed `unwrap`,
  arithmetic overflow) nor a question to the implementation.
-/
import CharsetProof.Props.C02
import CharsetProof.Lemmas.TotalOn
import CharsetProof.Lemmas.CharsLeNow
set_option linter.unusedSectionVars false
namespace Charset

/-- decoding under a supported encoding never faults and never consults the oracle -/
theorem decodeNow_total_supported (o : Oracle) (chunk : Bool) {e : Name} (he : e ∈ Gen.supported) (x : Bytes) :
    ∃ r, decodeNow o chunk e x = .ok r := by
  have hm := List.all_eq_true.mp supportedModelled e he
  unfold decodeNow
  cases hcod : codecNow e with
  | none => exact ⟨_, rfl⟩
  | some c =>
    rw [hcod] at hm
    simp only at hm
    cases hs : c.strict with
    | none => rw [hs] at hm; cases hm
    | some f =>
      simp only [hs]
      cases decodeStrict f (Gen.multiByte.contains e) chunk x with
      | ok t => exact ⟨_, rfl⟩
      | error k => exact ⟨_, rfl⟩

/-- T1 obligation: the language table has a row for every supported encoding -/
def targetsCoverSupportedB : Bool :=
  Gen.supported.all (fun e => (lookupName Gen.targetLanguages e).isSome)

theorem targetsCoverSupported : targetsCoverSupportedB = true := by decide +kernel

/-- the fully modelled world answers everything the detection can ask about an input of `n` bytes -/
theorem worldFull_totalOn (menv : Md.MdEnv) (cenv : Coh.CohEnv) (o : Oracle) (n : Nat) (hn : n + 1 < 2 ^ 64) :
    (worldFull menv cenv o).TotalOn tablesNow n where
  decode := fun e he x => decodeNow_total_supported o false he x
  decodeChunk := fun e he x => decodeNow_total_supported o true he x
  chars := fun e he x t h => hchars_full menv cenv o e x t he h
  mess := by
    intro t thr ht
    refine ⟨Md.messRatio menv t thr, ?_⟩
    show messGuarded menv t thr = _
    unfold messGuarded
    rw [if_pos (by omega)]
  coh := fun t thr ls => ⟨_, rfl⟩
  merge := fun xs => ⟨_, rfl⟩
  target := by
    intro e he
    have := List.all_eq_true.mp targetsCoverSupported e he
    show ∃ r, (match lookupName Gen.targetLanguages e with | some l => .ok l | none => needO (.target e)) = Except.ok r
    cases h : lookupName Gen.targetLanguages e with
    | none => rw [h] at this; cases this
    | some l => exact ⟨l, rfl⟩

/-- **C02 (detection is total), fully modelled world, no hypothesis about the world** -/
theorem C02_full (menv : Md.MdEnv) (cenv : Coh.CohEnv) (o : Oracle) (b : Bytes) (s : Settings)
    (hs : 1 ≤ s.steps) (hlen : b.length + 1 < 2 ^ 64) :
    ∃ r, fromBytes (worldFull menv cenv o) tablesNow sortMatches b s = .ok r :=
  fromBytesOn_total sortMatches_perm tablesNow_sane b (worldFull_totalOn menv cenv o b.length hlen) s hs

/-- in particular with an empty oracle: nothing is ever asked -/
example (menv : Md.MdEnv) (cenv : Coh.CohEnv) (b : Bytes) (s : Settings) (hs : 1 ≤ s.steps)
    (hlen : b.length + 1 < 2 ^ 64) :
    ∃ r, fromBytes (worldFull menv cenv {}) tablesNow sortMatches b s = .ok r :=
  C02_full menv cenv _ b s hs hlen

end Charset
