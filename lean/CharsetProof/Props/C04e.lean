/-
  C04, 'coherence always lies in [0,1]': a theorem for the fully modelled world, built on the monotonicity
  of rounding (Lemmas/FloatMono.lean) – no hypothesis about the coherence detector is left.
-/
import CharsetProof.Props.C04d
import CharsetProof.Lemmas.LeOne
set_option linter.unusedSectionVars false
namespace Charset
open Fl

theorem languagesNow_short53 : ∀ row ∈ Gen.languages, row.2.1.length < 2 ^ 53 := by
  have : (Gen.languages.all (fun row => decide (row.2.1.length < 2 ^ 53))) = true := by decide +kernel
  intro row hrow
  have := List.all_eq_true.mp this row hrow
  simpa using this

/-- **C04 (coherence lies in [0,1]) for the fully modelled world** — every language score of every
    candidate of every match, hence `coherence()`, is a number between 0 and 1: for every Unicode
    environment whose `to_lowercase` yields scalar values, every input, every settings with
    `steps < 2^22` (the mean over at most 2·steps chunk lists must stay within f32's exact integers) -/
theorem C04_coherence_unit_interval_full (menv : Md.MdEnv) (cenv : Coh.CohEnv) (o : Oracle)
    (henv : ∀ c x, x ∈ cenv.lower c → x < 0x110000)
    {b : Bytes} {s : Settings} {incl excl : List Name} (hsteps : s.steps < 2 ^ 22)
    (hincl : canonList ianaNow s.incl = .ok incl) (hexcl : canonList ianaNow s.excl = .ok excl)
    {ms : List (Match Name Name)} (hb : b ≠ [])
    (h : fromBytes (worldFull menv cenv o) tablesNow sortMatches b s = .ok (.ok ms)) :
    ∀ m ∈ ms, ∀ c ∈ m.entries, ∀ p ∈ c.cohs, 0 ≤ p.2.key ∧ p.2.key ≤ (Fl.ofNat fmt32 1).key := by
  intro m hm c hc p hp
  rcases fromBytes_facts sortMatches_perm hincl hexcl hb h with hall | ⟨fb, rfl, hfb, hsubs⟩
  · have f := Match.allEntries_iff.mp (hall m hm) c hc
    obtain ⟨pr, acc, _, _, _, _, _, hpc, _, _, cdl, hcds, hmerge⟩ := f.chunksFact
    rw [worldFull_merge] at hmerge
    have hcohs : mergeModel cdl = c.cohs := Except.ok.inj hmerge
    rw [← hcohs] at hp
    have hst : (ctxOf tablesNow b s).steps ≤ max s.steps 1 := normWindow_steps_le _ _ _
    have hchunks := probeChunks_chunks_len hpc
    have hans : ∀ r ∈ cdl, ∃ t thr langs, Coh.coherenceRatio cenv Gen.unicodeRanges Gen.secondaryKeywords
        Gen.languages Gen.tooSmall t thr langs = some r ∧ cdl.length ≤ acc.chunks.length := by
      unfold cdsOf at hcds
      split at hcds
      · cases hcds; intro r hr; simp at hr
      · split at hcds
        · cases hcds
        · rename_i langs _
          intro r hr
          obtain ⟨t, ht⟩ := cohAll_mem _ hcds r hr
          have ht' : Coh.coherenceRatio cenv Gen.unicodeRanges Gen.secondaryKeywords Gen.languages Gen.tooSmall
              t (ctxOf tablesNow b s).langThr langs = some r := by
            simp only [worldFull] at ht
            exact Except.ok.inj ht
          exact ⟨t, _, langs, ht', cohAll_length _ hcds⟩
    have hlen : cdl.length < 2 ^ 24 := by
      cases hcdl : cdl with
      | nil => simp
      | cons r0 rest =>
        obtain ⟨_, _, _, _, hl⟩ := hans r0 (by rw [hcdl]; exact List.mem_cons_self)
        rw [hcdl] at hl
        omega
    have hle := mergeModel_scores_le_one cdl
      (fun r hr => by obtain ⟨t, thr, langs, h1, _⟩ := hans r hr; exact Coh.coherenceRatio_nodup _ _ _ _ _ _ _ _ _ h1)
      (fun r hr => by
        obtain ⟨t, thr, langs, h1, _⟩ := hans r hr
        exact Coh.coherenceRatio_scores_le_one _ _ _ _ _ _ _ _ henv languagesNow_short53 _ h1)
      hlen p hp
    exact ⟨hle.1, hle.2⟩
  · simp only [List.mem_singleton] at hm
    subst hm
    have f := Match.allEntries_iff.mp hfb c hc
    rw [f.cohs] at hp
    simp at hp

/-- … hence `coherence()` itself -/
theorem C04_coherence_range_full (menv : Md.MdEnv) (cenv : Coh.CohEnv) (o : Oracle)
    (henv : ∀ c x, x ∈ cenv.lower c → x < 0x110000)
    {b : Bytes} {s : Settings} {incl excl : List Name} (hsteps : s.steps < 2 ^ 22)
    (hincl : canonList ianaNow s.incl = .ok incl) (hexcl : canonList ianaNow s.excl = .ok excl)
    {ms : List (Match Name Name)} (hb : b ≠ [])
    (h : fromBytes (worldFull menv cenv o) tablesNow sortMatches b s = .ok (.ok ms)) :
    ∀ m ∈ ms, 0 ≤ m.coherence.key ∧ m.coherence.key ≤ (Fl.ofNat fmt32 1).key := by
  intro m hm
  have hall := C04_coherence_unit_interval_full menv cenv o henv hsteps hincl hexcl hb h m hm m.toSub
    (by simp [Match.entries])
  unfold Match.coherence
  cases hc : m.cohs with
  | nil =>
    have hone : (0 : Int) ≤ (Fl.ofNat fmt32 1).key := by decide +kernel
    simp [Fl.zero, hone]
  | cons q qs =>
    obtain ⟨l, sc⟩ := q
    exact hall (l, sc) (by simp [Match.toSub, hc])

end Charset
