/-
  C19 at detection level for the fully modelled world: a candidate of an input that fits the window
  reports coherence_ratio's list of its whole text, sorted – the merge step leaves single-chunk scores
  untouched (x + 0 = x and x / 1 = x in the float model, Lemmas/FloatExact.lean).
-/
import CharsetProof.Props.C13
import CharsetProof.Lemmas.CharsLeNow
import CharsetProof.Props.C04e
import CharsetProof.Lemmas.Single
set_option linter.unusedSectionVars false
namespace Charset
open Fl
variable {E L : Type} [DecidableEq E]

/-- the chunks analysed for a decoded payload that fits the window: the whole text, once -/
theorem probeChunks_fit_chunks {W : World E L} {T : Tables E} {c : Ctx E} {e : E} {p : Prepared} {acc : ChunkAcc}
    {t : Text} (hsteps : c.steps = 1) (hpay : p.payload = some t) (hlen : t.length ≤ c.chunk)
    (h : probeChunks W T c e p = .ok acc) (hl : acc.lazyHard = false) :
    acc.chunks = if t.isEmpty then [] else [t] := by
  unfold probeChunks at h
  have hseq : seqLenOf c p = t.length := by simp [seqLenOf, hpay]
  have hstart : startOffOf p = 0 := by simp [startOffOf, hpay]
  rw [hseq, hstart, hsteps] at h
  simp only [divF, Nat.succ_ne_zero, ↓reduceIte, Nat.div_one] at h
  rw [offsets_single] at h
  by_cases hn : t.length = 0
  · have ht : t = [] := List.eq_nil_of_length_eq_zero hn
    subst ht
    simp only [List.length_nil, ↓reduceIte, chunkLoop, Except.ok.injEq] at h
    subst h
    rfl
  · rw [if_neg hn] at h
    have hne : t.isEmpty = false := by
      cases t with
      | nil => simp at hn
      | cons a as => rfl
    simp only [hne, Bool.false_eq_true, ↓reduceIte]
    have hchunk : chunkAt W T c e (some t) t.length 0 = .ok (validChunk T e t) := by
      simp [chunkAt, List.take_of_length_le hlen]
    rw [hpay] at h
    simp only [chunkLoop, hchunk] at h
    cases hv : validChunk T e t with
    | none =>
      simp only [hv, Except.ok.injEq] at h
      subst h
      simp at hl
    | some ch =>
      have hch : ch = t := by
        unfold validChunk at hv
        split at hv
        · cases hv
        · cases hv; rfl
      subst hch
      simp only [hv] at h
      split at h
      · cases h
      · rename_i r hr
        have hmg : ¬ (maxGaveUpOf c ≤ earlyNext c.thr r 0) := by
          unfold maxGaveUpOf earlyNext
          split <;> omega
        simp only [hmg, ↓reduceIte, List.nil_append, Except.ok.injEq] at h
        subst h
        rfl

/-- scores `≤ 1` are finite and non-negative -/
theorem nn_of_le_one {x : F32} (h : Le x 1) : NN x := le_nn good32 h (by decide)

/-- **C19 at detection level (fully modelled world)** — for an input that fits the window, on the non-lazy
    path, every regular candidate whose encoding is not `ascii` reports exactly what `coherence_ratio`
    says about its whole decoded text for the encoding's target languages, sorted by score: the scores are
    untouched by the merge step, so the list is ordered by score, a language is listed iff
    `coherence_ratio` lists it, and `coherence()` is the best score. -/
theorem C19_single_chunk_full (menv : Md.MdEnv) (cenv : Coh.CohEnv) (o : Oracle)
    (henv : ∀ c x, x ∈ cenv.lower c → x < 0x110000)
    {b : Bytes} {s : Settings} {incl excl : List Name}
    (hincl : canonList ianaNow s.incl = .ok incl) (hexcl : canonList ianaNow s.excl = .ok excl)
    (hfit : Fits b s) (hthr : s.thr.isNaN = false)
    {ms : List (Match Name Name)} (hb : b ≠ [])
    (h : fromBytes (worldFull menv cenv o) tablesNow sortMatches b s = .ok (.ok ms)) :
    ∀ m ∈ ms, ∀ c ∈ m.entries, Fl.ge c.chaos s.thr = false →
      (b.length ≤ tablesNow.tooBig ∨ tablesNow.isMultiByte c.enc = true) → c.enc ≠ tablesNow.ascii →
      ∃ t langs, c.text = some t ∧ (worldFull menv cenv o).target c.enc = .ok langs ∧
        c.cohs = (if t.isEmpty then [] else
          match Coh.coherenceRatio cenv Gen.unicodeRanges Gen.secondaryKeywords Gen.languages Gen.tooSmall
              t s.langThr langs with
          | some r => sortDesc r
          | none => []) := by
  have hctx : (ctxOf tablesNow b s).steps = 1 ∧ (ctxOf tablesNow b s).chunk = b.length := by
    unfold ctxOf; simp [C13_normWindow_fit hfit]
  intro m hm c hc hge hsmall hnasc
  rcases fromBytes_facts sortMatches_perm hincl hexcl hb h with hall | ⟨fb, rfl, hfb, _⟩
  · have f := Match.allEntries_iff.mp (hall m hm) c hc
    have hl : lazyOf tablesNow (ctxOf tablesNow b s) c.enc = false := by
      unfold lazyOf ctxOf
      rcases hsmall with h1 | h1
      · have : decide (tablesNow.tooBig < b.length) = false := by simp; omega
        simp [this]
      · simp [h1]
    obtain ⟨t0, hdec, ht, _⟩ := f.text.1 hl
    obtain ⟨p, acc, _, _, _, hp4, _, hp6, _, hp8, cdl, hcds, hmerge⟩ := f.chunksFact
    have hpay : p.payload = some t0 := by rw [hp4 hl, ht]
    have hlen : t0.length ≤ (ctxOf tablesNow b s).chunk := by
      rw [hctx.2]
      have := hchars_full menv cenv o _ _ _ f.supported hdec
      simp only [List.length_drop] at this
      have hbb : (ctxOf tablesNow b s).b = b := rfl
      rw [hbb] at this
      omega
    have hchunks := probeChunks_fit_chunks hctx.1 hpay hlen hp6 hp8
    rw [worldFull_merge] at hmerge
    have hcohs : mergeModel cdl = c.cohs := Except.ok.inj hmerge
    unfold cdsOf at hcds
    rw [if_neg hnasc] at hcds
    split at hcds
    · cases hcds
    · rename_i langs htar
      refine ⟨t0, langs, ht, htar, ?_⟩
      rw [← hcohs, hchunks] at *
      by_cases hemp : t0.isEmpty = true
      · simp only [hemp, ↓reduceIte] at hcds ⊢
        simp only [cohAll, Except.ok.injEq] at hcds
        rw [← hcds]; exact mergeModel_nil
      · simp only [hemp, Bool.false_eq_true, ↓reduceIte] at hcds ⊢
        simp only [cohAll] at hcds
        have hcoh : (worldFull menv cenv o).coh t0 (ctxOf tablesNow b s).langThr langs =
            .ok (Coh.coherenceRatio cenv Gen.unicodeRanges Gen.secondaryKeywords Gen.languages Gen.tooSmall
              t0 s.langThr langs) := rfl
        rw [hcoh] at hcds
        simp only [Except.ok.injEq] at hcds
        cases hr : Coh.coherenceRatio cenv Gen.unicodeRanges Gen.secondaryKeywords Gen.languages Gen.tooSmall
            t0 s.langThr langs with
        | none =>
          rw [hr] at hcds
          simp only at hcds
          rw [← hcds]; exact mergeModel_nil
        | some r =>
          rw [hr] at hcds
          simp only at hcds
          rw [← hcds]
          exact mergeModel_single r (Coh.coherenceRatio_nodup _ _ _ _ _ _ _ _ _ hr)
            (fun q hq => nn_of_le_one
              (Coh.coherenceRatio_scores_le_one _ _ _ _ _ _ _ _ henv languagesNow_short53 _ hr q hq))
  · simp only [List.mem_singleton] at hm
    subst hm
    have f := Match.allEntries_iff.mp hfb c hc
    have hch : c.chaos = s.thr := f.chaos
    rw [hch] at hge
    -- a fallback entry has chaos = threshold: excluded by `ge chaos thr = false`
    exfalso
    have : Fl.ge s.thr s.thr = true := by
      unfold Fl.ge Fl.le
      simp [hthr]
    rw [this] at hge
    cases hge

end Charset
