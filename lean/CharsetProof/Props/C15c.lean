/-
  C15 for any number of inputs and any flags: the loop's effect on the file system is the ordered list of
  writes of the inputs it got through, provided no write lands on an input that is still to come.
  Corollary for `--replace --force`: with pairwise distinct inputs every input detected as a non-UTF
  encoding ends up holding exactly its decoded text, every other path is untouched.
-/
import CharsetProof.Props.C15b
set_option linter.unusedSectionVars false
namespace Charset

/-- the write one input causes under the given flags, read off a file system (`--normalize` on) -/
def writeOfG (a : CliArgs) (confirm : Path → Bool) (detect : Bytes → Option (List MInfo)) (fs : FS) (p : Path) :
    Option (Path × Bytes) :=
  match fsGet fs p with
  | none => none
  | some content =>
    match detect content with
    | some (best :: _) =>
      if startsWithUtf best.encoding then none
      else if !a.replace then some (targetPath p best.encoding, best.text)
      else if a.force || confirm p then some (p, best.text)
      else none
    | _ => none

theorem processFile_writes {a : CliArgs} {detect : Bytes → Option (List MInfo)} {confirm : Path → Bool}
    (hn : a.normalize = true) {st st' : LoopSt} {p : Path}
    (h : processFile a detect confirm st p = .ok st') :
    st'.fs = match writeOfG a confirm detect st.fs p with
      | some w => fsPut st.fs w.1 w.2
      | none => st.fs := by
  unfold processFile at h
  unfold writeOfG
  split at h
  · cases h
  · rename_i content hc
    simp only [hc]
    split at h
    · cases h
    · rename_i hd; cases h; simp [hd]
    · rename_i best rest hd
      simp only [hd, hn, Bool.not_true, Bool.false_eq_true, ↓reduceIte] at h ⊢
      by_cases hu : startsWithUtf best.encoding = true
      · simp only [hu, ↓reduceIte] at h ⊢; cases h; rfl
      · simp only [hu, Bool.false_eq_true, ↓reduceIte] at h ⊢
        by_cases hr : a.replace = true
        · simp only [hr, Bool.not_true, Bool.false_eq_true, ↓reduceIte] at h ⊢
          by_cases hf : (a.force || confirm p) = true
          · simp only [hf, ↓reduceIte] at h ⊢; cases h; rfl
          · simp only [hf, Bool.false_eq_true, ↓reduceIte] at h ⊢; cases h; rfl
        · simp only [hr, Bool.not_false, ↓reduceIte] at h ⊢; cases h; rfl

/-- no write of an input lands on an input that comes later in the list -/
def NoLaterClobber (w : Path → Option (Path × Bytes)) : List Path → Prop
  | [] => True
  | p :: ps => (∀ x, w p = some x → x.1 ∉ ps) ∧ NoLaterClobber w ps

theorem go_writes {a : CliArgs} {detect : Bytes → Option (List MInfo)} {confirm : Path → Bool}
    (hn : a.normalize = true) (fs0 : FS) :
    ∀ (ps : List Path) (st : LoopSt),
      NoLaterClobber (writeOfG a confirm detect fs0) ps →
      (∀ p ∈ ps, fsGet st.fs p = fsGet fs0 p) →
      ∃ k, k ≤ ps.length ∧
        (runCli.go a detect confirm ps st).2 =
          applyWrites st.fs ((ps.take k).filterMap (writeOfG a confirm detect fs0)) ∧
        ((∃ st', (runCli.go a detect confirm ps st).1 = .ok st') → k = ps.length) := by
  intro ps
  induction ps with
  | nil => intro st _ _; exact ⟨0, Nat.le_refl _, rfl, fun _ => rfl⟩
  | cons p ps ih =>
    intro st hcl hinv
    simp only [runCli.go]
    cases hp : processFile a detect confirm st p with
    | error e =>
      refine ⟨0, Nat.zero_le _, rfl, ?_⟩
      rintro ⟨st', h⟩; cases h
    | ok st' =>
      simp only
      have hfs := processFile_writes hn hp
      have hw : writeOfG a confirm detect st.fs p = writeOfG a confirm detect fs0 p := by
        unfold writeOfG; rw [hinv p List.mem_cons_self]
      rw [hw] at hfs
      have hinv' : ∀ q ∈ ps, fsGet st'.fs q = fsGet fs0 q := by
        intro q hq
        rw [hfs]
        cases hwp : writeOfG a confirm detect fs0 p with
        | none => exact hinv q (List.mem_cons_of_mem _ hq)
        | some w =>
          simp only
          rw [fsGet_fsPut, if_neg]
          · exact hinv q (List.mem_cons_of_mem _ hq)
          · intro hqt
            exact hcl.1 w hwp (hqt ▸ hq)
      obtain ⟨k, hk, hfs', hall⟩ := ih st' hcl.2 hinv'
      refine ⟨k + 1, by simp; omega, ?_, ?_⟩
      · rw [hfs', hfs]
        simp only [List.take_succ_cons, List.filterMap_cons]
        cases hwp : writeOfG a confirm detect fs0 p with
        | none => rfl
        | some w => rfl
      · intro hok
        simp only [List.length_cons]
        rw [hall hok]

/-- **C15 (any flags, any number of inputs)**: on success the resulting file system is the initial one plus
    the writes of all inputs, in order -/
theorem C15_multi_effect (a : CliArgs) (detect : Bytes → Option (List MInfo)) (confirm : Path → Bool)
    (fs : FS) (hn : a.normalize = true)
    (hcl : NoLaterClobber (writeOfG a confirm detect fs) a.files)
    {rep : Report} (hok : (runCli a detect confirm fs).1 = .ok rep) :
    (runCli a detect confirm fs).2 = applyWrites fs (a.files.filterMap (writeOfG a confirm detect fs)) := by
  unfold runCli at hok ⊢
  cases hv : validate a with
  | some e => simp [hv] at hok
  | none =>
    simp only [hv] at hok ⊢
    obtain ⟨k, hk, hfs, hall⟩ := go_writes (confirm := confirm) hn fs a.files ⟨fs, []⟩ hcl (fun _ _ => rfl)
    cases hg : runCli.go a detect confirm a.files ⟨fs, []⟩ with
    | mk r fs' =>
      rw [hg] at hok hfs hall
      cases r with
      | error e => simp at hok
      | ok st =>
        have hkk : k = a.files.length := hall ⟨st, rfl⟩
        simp only at hfs ⊢
        rw [hfs, hkk, List.take_length]

/-- in replace mode a write goes to the input itself -/
theorem writeOfG_replace_target {a : CliArgs} {confirm : Path → Bool} {detect : Bytes → Option (List MInfo)}
    {fs : FS} {p : Path} {w : Path × Bytes} (hr : a.replace = true)
    (h : writeOfG a confirm detect fs p = some w) : w.1 = p := by
  unfold writeOfG at h
  split at h
  · cases h
  · split at h
    · split at h
      · cases h
      · simp only [hr, Bool.not_true, Bool.false_eq_true, ↓reduceIte] at h
        split at h
        · cases h; rfl
        · cases h
    · cases h

theorem noLaterClobber_replace {a : CliArgs} {confirm : Path → Bool} {detect : Bytes → Option (List MInfo)}
    {fs : FS} (hr : a.replace = true) : ∀ (ps : List Path), ps.Nodup →
    NoLaterClobber (writeOfG a confirm detect fs) ps
  | [], _ => trivial
  | p :: ps, hnd => by
    simp only [List.nodup_cons] at hnd
    refine ⟨?_, noLaterClobber_replace hr ps hnd.2⟩
    intro x hx
    rw [writeOfG_replace_target hr hx]
    exact hnd.1

/-- **C15 (`--replace --force`, any number of distinct inputs)**: after a successful run every input that
    is detected as a non-UTF encoding holds exactly its decoded text, every input detected as UTF-* or not
    detected at all is byte-identical, and no other path is touched. -/
theorem C15_multi_replace_force (a : CliArgs) (detect : Bytes → Option (List MInfo)) (confirm : Path → Bool)
    (fs : FS) (hn : a.normalize = true) (hr : a.replace = true) (hnd : a.files.Nodup)
    {rep : Report} (hok : (runCli a detect confirm fs).1 = .ok rep) :
    (∀ p ∈ a.files, ∀ w, writeOfG a confirm detect fs p = some w →
        fsGet (runCli a detect confirm fs).2 p = some w.2) ∧
    (∀ p ∈ a.files, writeOfG a confirm detect fs p = none →
        fsGet (runCli a detect confirm fs).2 p = fsGet fs p) ∧
    (∀ q, q ∉ a.files → fsGet (runCli a detect confirm fs).2 q = fsGet fs q) := by
  have heff := C15_multi_effect a detect confirm fs hn (noLaterClobber_replace hr a.files hnd) hok
  have htargets : ∀ w ∈ a.files.filterMap (writeOfG a confirm detect fs), w.1 ∈ a.files ∧
      writeOfG a confirm detect fs w.1 = some w := by
    intro w hw
    obtain ⟨p, hp, hwp⟩ := List.mem_filterMap.mp hw
    have := writeOfG_replace_target hr hwp
    rw [this]; exact ⟨hp, hwp⟩
  have hndw : ((a.files.filterMap (writeOfG a confirm detect fs)).map (·.1)).Nodup := by
    -- the targets are the inputs that write, in order: a sublist of a duplicate-free list
    have : (a.files.filterMap (writeOfG a confirm detect fs)).map (·.1) =
        a.files.filter (fun p => (writeOfG a confirm detect fs p).isSome) := by
      generalize a.files = l
      induction l with
      | nil => rfl
      | cons p ps ih =>
        simp only [List.filterMap_cons, List.filter_cons]
        cases hwp : writeOfG a confirm detect fs p with
        | none => simpa using ih
        | some w =>
          simp only [List.map_cons, Option.isSome_some, ↓reduceIte, ih]
          rw [writeOfG_replace_target hr hwp]
    rw [this]
    exact hnd.filter _
  refine ⟨?_, ?_, ?_⟩
  · intro p hp w hw
    rw [heff]
    have := fsGet_applyWrites_mem fs _ hndw w (List.mem_filterMap.mpr ⟨p, hp, hw⟩)
    rw [writeOfG_replace_target hr hw] at this
    exact this
  · intro p _ hnone
    rw [heff]
    apply fsGet_applyWrites_other
    intro w hw hwp
    have := (htargets w hw).2
    rw [hwp, hnone] at this; cases this
  · intro q hq
    rw [heff]
    apply fsGet_applyWrites_other
    intro w hw hwq
    exact hq (hwq ▸ (htargets w hw).1)

end Charset
