/-
  C03 — detection is deterministic: same input and settings give the same answer.

  In the model `fromBytes` is a *function* of (world, tables, bytes, settings): determinism of the model
  is `rfl`. What has to be shown is that the implementation has no hidden input besides those – i.e.
  that no observable value depends on hash-map iteration order (which changes per launch and per map
  instance). That is (a) the T2(b) obligation below: every `HashMap`/`HashSet` site of the current
  source is one of the reviewed, order-insensitive sites listed in `Covered.lean`; (b) order
  independence theorems for the sites that iterate (`sigOf_perm`); (c) the T3 check that K freshly
  launched processes and the cache-free Lean model agree bit for bit.
-/
import CharsetProof.Model.Concrete
import CharsetProof.Generated.Inventory
import CharsetProof.Covered
set_option linter.unusedSectionVars false
namespace Charset
variable {E L : Type} [DecidableEq E]

/-- determinism of the model: equal inputs, equal outputs (there is nothing else it could read) -/
theorem C03_model_is_function (W : World E L) (T : Tables E) (sort : Sorter E L) (b : Bytes) (s : Settings)
    (r₁ r₂ : M (Except Err (List (Match E L))))
    (h₁ : fromBytes W T sort b s = r₁) (h₂ : fromBytes W T sort b s = r₂) : r₁ = r₂ := by
  rw [← h₁, ← h₂]

/-- `marks` are pairwise not prefixes of one another -/
def PrefixFree (marks : List (E × Bytes)) : Prop :=
  ∀ a ∈ marks, ∀ b ∈ marks, a ≠ b → ¬ (a.2.isPrefixOf b.2 = true)

theorem prefix_of_both {a b x : Bytes} (ha : a.isPrefixOf x = true) (hb : b.isPrefixOf x = true) (hlen : a.length ≤ b.length) :
    a.isPrefixOf b = true := by
  induction a generalizing b x with
  | nil => simp
  | cons a0 as ih =>
    cases b with
    | nil => simp at hlen
    | cons b0 bs =>
      cases x with
      | nil => simp at ha
      | cons x0 xs =>
        simp only [List.isPrefixOf_cons₂, Bool.and_eq_true, beq_iff_eq] at ha hb ⊢
        refine ⟨by rw [ha.1, hb.1], ih ha.2 hb.2 (by simpa using hlen)⟩

/-- **C03 (BOM lookup is order independent)** — `identify_sig_or_bom` iterates a hash map and takes the
    first mark the input starts with; for a prefix-free mark table at most one mark matches, so every
    iteration order gives the same answer -/
theorem sigOf_perm {marks marks' : List (E × Bytes)} [DecidableEq (E × Bytes)] (hp : marks.Perm marks')
    (hpf : PrefixFree marks) (b : Bytes) : sigOf marks' b = sigOf marks b := by
  -- at most one element satisfies the predicate
  have huniq : ∀ x ∈ marks, ∀ y ∈ marks, startsWith b x.2 = true → startsWith b y.2 = true → x = y := by
    intro x hx y hy h1 h2
    apply Decidable.byContradiction
    intro hne
    unfold startsWith at h1 h2
    rcases Nat.le_total x.2.length y.2.length with hl | hl
    · exact hpf x hx y hy hne (prefix_of_both h1 h2 hl)
    · exact hpf y hy x hx (fun h => hne h.symm) (prefix_of_both h2 h1 hl)
  unfold sigOf
  cases h1 : marks.find? (fun em => startsWith b em.2) with
  | none =>
    have hn := List.find?_eq_none.mp h1
    apply List.find?_eq_none.mpr
    intro x hx
    exact hn x (hp.mem_iff.mpr hx)
  | some x =>
    have hx := List.mem_of_find?_eq_some h1
    have hpx := List.find?_some h1
    cases h2 : marks'.find? (fun em => startsWith b em.2) with
    | none =>
      have := List.find?_eq_none.mp h2 x (hp.mem_iff.mp hx)
      rw [hpx] at this; exact absurd rfl this
    | some y =>
      have hy := hp.mem_iff.mpr (List.mem_of_find?_eq_some h2)
      have hpy := List.find?_some h2
      rw [huniq x hx y hy hpx hpy]

/-- T1 obligation: the marks dumped from the compiled crate are prefix free -/
theorem marks_prefixFree_now : PrefixFree Gen.marks := by
  have h : (Gen.marks.all (fun a => Gen.marks.all (fun b => a == b || !(a.2.isPrefixOf b.2)))) = true := by
    decide +kernel
  intro a ha b hb hne
  have := List.all_eq_true.mp (List.all_eq_true.mp h a ha) b hb
  simp only [Bool.or_eq_true, beq_iff_eq, Bool.not_eq_eq_eq_not, Bool.not_true] at this
  rcases this with h1 | h1
  · exact absurd h1 hne
  · simp [h1]

/-- **T2(b) obligation** — every `HashMap`/`HashSet`/set-iteration site found in the current source is
    one of the reviewed sites (all of them: construction of static tables, membership tests, counts,
    set intersections tested with `any`, or collections that are sorted by a total key before use).
    A new or changed site (e.g. iterating a map to build an ordered result) fails this check. -/
theorem C03_hash_sites_covered : (Inv.hashSites == Covered.hashSites) = true := by decide +kernel

/-- non-vacuity: the mark table has four entries, the obligation is not about an empty list -/
example : Gen.marks.length = 4 ∧ Covered.hashSites.length ≥ 20 := by decide +kernel

end Charset
