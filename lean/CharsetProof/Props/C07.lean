/-
  C07 — BOM/signature flag is truthful; UTF-16 only with its BOM.
-/
import CharsetProof.Lemmas.EntryFacts
import CharsetProof.Lemmas.SortPerm
import CharsetProof.Model.Concrete
set_option linter.unusedSectionVars false
namespace Charset
variable {E L : Type} [DecidableEq E]

theorem sigOf_some {marks : List (E × Bytes)} {b : Bytes} {e : E} {mk : Bytes}
    (h : sigOf marks b = some (e, mk)) : (e, mk) ∈ marks ∧ mk.isPrefixOf b = true := by
  unfold sigOf at h
  exact ⟨List.mem_of_find?_eq_some h, by simpa [startsWith] using List.find?_some h⟩

theorem bomHere_iff {T : Tables E} {b : Bytes} {s : Settings} {e : E} :
    bomHereOf (ctxOf T b s) e = true ↔ ∃ mk, sigOf T.marks b = some (e, mk) := by
  unfold bomHereOf ctxOf
  simp only
  cases h : sigOf T.marks b with
  | none => simp
  | some p => obtain ⟨e', mk⟩ := p; simp

theorem startIdx_of_sig {T : Tables E} {b : Bytes} {s : Settings} {e : E} {mk : Bytes}
    (h : sigOf T.marks b = some (e, mk)) : startIdxOf (ctxOf T b s) e = mk.length := by
  have hb : bomHereOf (ctxOf T b s) e = true := bomHere_iff.mpr ⟨mk, h⟩
  unfold startIdxOf
  rw [if_pos hb]
  simp [ctxOf, h]

/-- **C07.**  For every world/tables in which the marked encodings are multi-byte (true of the
    current tables, `marksMultiByte_now`), on non-empty input, for every candidate entry `c` (main
    or alternative) of every returned match:
    * (flag ⇒ mark) if `c.bom` then the input starts with the mark of `c.enc`, and the exposed text is
      the strict decode of the bytes *after* the mark;
    * (mark ⇒ flag, regular matches) if the input starts with the mark of `c.enc` and the match is
      regular (`chaos < threshold`), the flag is set;
    * UTF-16LE/BE are candidates only when the input starts with their BOM. -/
theorem C07_bom {W : World E L} {T : Tables E} {sort : Sorter E L}
    (hperm : ∀ l, (sort l).Perm l) (hmb : ∀ em ∈ T.marks, T.isMultiByte em.1 = true)
    {b : Bytes} {s : Settings} {incl excl : List E} (hthr : s.thr.isNaN = false)
    (hincl : canonList T.ianaName s.incl = .ok incl) (hexcl : canonList T.ianaName s.excl = .ok excl)
    {ms : List (Match E L)} (hb : b ≠ []) (h : fromBytes W T sort b s = .ok (.ok ms)) :
    ∀ m ∈ ms, ∀ c ∈ m.entries,
      (c.bom = true → ∃ mk t, sigOf T.marks b = some (c.enc, mk) ∧ mk.isPrefixOf b = true ∧
          W.decode c.enc (b.drop mk.length) = .ok (some t) ∧ c.text = some t) ∧
      (Fl.ge c.chaos s.thr = false → (∃ mk, sigOf T.marks b = some (c.enc, mk)) → c.bom = true) ∧
      ((c.enc = T.utf16le ∨ c.enc = T.utf16be) → ∃ mk, sigOf T.marks b = some (c.enc, mk)) := by
  have utf16 : ∀ e, needsBomCond T (ctxOf T b s) e = false → (e = T.utf16le ∨ e = T.utf16be) →
      ∃ mk, sigOf T.marks b = some (e, mk) := by
    intro e hn he
    unfold needsBomCond at hn
    have : bomHereOf (ctxOf T b s) e = true := by
      rcases he with he | he <;> simp [he] at hn <;> simpa [he] using hn
    exact bomHere_iff.mp this
  rcases fromBytes_facts hperm hincl hexcl hb h with hall | ⟨fb, rfl, hfb, _⟩
  · intro m hm c hc
    have f := (Match.allEntries_iff.mp (hall m hm)) c hc
    refine ⟨?_, ?_, utf16 c.enc f.needsBom⟩
    · intro hbom
      have hbh : bomHereOf (ctxOf T b s) c.enc = true := by rw [← f.bom]; exact hbom
      obtain ⟨mk, hsig⟩ := bomHere_iff.mp hbh
      obtain ⟨hmem, hpre⟩ := sigOf_some hsig
      have hnl : lazyOf T (ctxOf T b s) c.enc = false := by
        unfold lazyOf; rw [hmb _ hmem]; simp
      obtain ⟨t0, hdec, htext, _⟩ := f.text.1 hnl
      rw [startIdx_of_sig hsig] at hdec
      exact ⟨mk, t0, hsig, hpre, hdec, htext⟩
    · intro _ hsig
      rw [f.bom]; exact bomHere_iff.mpr hsig
  · intro m hm c hc
    simp only [List.mem_singleton] at hm
    subst hm
    have f := (Match.allEntries_iff.mp hfb) c hc
    refine ⟨?_, ?_, utf16 c.enc f.needsBom⟩
    · intro hbom; rw [f.bom] at hbom; cases hbom
    · intro hge _
      -- a fallback entry has chaos = threshold, so it is not "regular"
      rw [f.chaos] at hge
      have : Fl.ge (ctxOf T b s).thr s.thr = true := by
        simp only [ctxOf]; simp [Fl.ge, Fl.le, hthr]
      rw [this] at hge; cases hge

/-! ### the current tree -/

/-- T1 obligation: every encoding that has a mark is multi-byte (hence never decoded lazily) -/
theorem marksMultiByte_now : ∀ em ∈ tablesNow.marks, tablesNow.isMultiByte em.1 = true := by
  have h : (tablesNow.marks.all (fun em => tablesNow.isMultiByte em.1)) = true := by decide +kernel
  intro em hem
  exact List.all_eq_true.mp h em hem

/-- T1 obligation: no mark is a prefix of another one, so `identify_sig_or_bom` does not depend on the
    iteration order of the `ENCODING_MARKS` hash map -/
theorem marksPrefixFree_now :
    (Gen.marks.all (fun a => Gen.marks.all (fun b => a == b || !(a.2.isPrefixOf b.2)))) = true := by
  decide +kernel

theorem C07_bom_current (o : Oracle) {b : Bytes} {s : Settings} {incl excl : List Name}
    (hthr : s.thr.isNaN = false)
    (hincl : canonList ianaNow s.incl = .ok incl) (hexcl : canonList ianaNow s.excl = .ok excl)
    {ms : List (Match Name Name)} (hb : b ≠ [])
    (h : fromBytes (worldNow o) tablesNow sortMatches b s = .ok (.ok ms)) :
    ∀ m ∈ ms, ∀ c ∈ m.entries,
      (c.bom = true → ∃ mk t, sigOf tablesNow.marks b = some (c.enc, mk) ∧ mk.isPrefixOf b = true ∧
          (worldNow o).decode c.enc (b.drop mk.length) = .ok (some t) ∧ c.text = some t) ∧
      (Fl.ge c.chaos s.thr = false → (∃ mk, sigOf tablesNow.marks b = some (c.enc, mk)) → c.bom = true) ∧
      ((c.enc = nUTF16LE ∨ c.enc = nUTF16BE) → ∃ mk, sigOf tablesNow.marks b = some (c.enc, mk)) :=
  C07_bom (sortMatches_perm) marksMultiByte_now hthr hincl hexcl hb h

/-- non-vacuity: a BOM is recognised on a concrete input -/
example : sigOf tablesNow.marks [0xEF, 0xBB, 0xBF, 0x68] = some (nUTF8, [0xEF, 0xBB, 0xBF]) := by
  decide +kernel

end Charset
