/-
  C13 on the lazy path (> `TOO_BIG_SEQUENCE` bytes, single-byte code page): an input that fits the
  window is still analysed in full — the single chunk is the strict decode of *all* bytes, which is
  the text the match exposes; so the chaos is the same function of (text, threshold) as on the
  ordinary path. This removes the size restriction of `C13_chaos_of_text`.
-/
import CharsetProof.Props.C13
import CharsetProof.Props.C01
import CharsetProof.Lemmas.CharsLeNow
set_option linter.unusedSectionVars false
namespace Charset
variable {E L : Type} [DecidableEq E]

/-- the byte window the lazy chunk loop decodes when the window covers the input: everything -/
theorem sliceF_whole {site : Nat} (b : Bytes) : sliceF site b 0 (min (0 + b.length) b.length) = .ok b := by
  unfold sliceF
  simp

/-- the chunk analysis of a lazily decoded payload that fits the window -/
theorem probeChunks_fit_lazy {W : World E L} {T : Tables E} {c : Ctx E} {e : E} {p : Prepared} {acc : ChunkAcc}
    {t : Text} (hsteps : c.steps = 1) (hchunk : c.chunk = c.b.length) (hb : c.b ≠ [])
    (hpay : p.payload = none) (hbom : p.bomHere = false)
    (hdec : W.decode e c.b = .ok (some t))
    (h : probeChunks W T c e p = .ok acc) (hl : acc.lazyHard = false) :
    ∃ r, W.mess t c.thr = .ok r ∧ acc.ratios = [r] := by
  unfold probeChunks at h
  have hseq : seqLenOf c p = c.b.length := by simp [seqLenOf, hpay]
  have hstart : startOffOf p = 0 := by simp [startOffOf, hbom]
  rw [hseq, hstart, hsteps] at h
  simp only [divF, Nat.succ_ne_zero, ↓reduceIte, Nat.div_one] at h
  rw [offsets_single] at h
  have hn : c.b.length ≠ 0 := by
    intro h0; exact hb (List.eq_nil_of_length_eq_zero h0)
  rw [if_neg hn, hpay] at h
  have hchunkAt : chunkAt W T c e none c.b.length 0 = .ok (validChunk T e t) := by
    simp only [chunkAt, hchunk, sliceF_whole, hdec]
  simp only [chunkLoop, hchunkAt] at h
  cases hv : validChunk T e t with
  | none =>
    simp only [hv, Except.ok.injEq] at h
    subst h
    simp at hl
  | some ch =>
    have hch : ch = t := by
      unfold validChunk at hv
      split at hv
      · cases hv
      · cases hv; rfl
    subst hch
    simp only [hv] at h
    split at h
    · cases h
    · rename_i r hr
      have hmg : ¬ (maxGaveUpOf c ≤ earlyNext c.thr r 0) := by
        unfold maxGaveUpOf earlyNext
        split <;> omega
      simp only [hmg, ↓reduceIte, List.nil_append, Except.ok.injEq] at h
      subst h
      exact ⟨r, hr, rfl⟩

/-- **C13 (chaos = g(text, threshold)), every size**: for an input that fits the window the chaos of
    every regular candidate is `chaosOfText` of its decoded text, also when the input is larger than
    `TOO_BIG_SEQUENCE` and the candidate is a single-byte code page (the lazy path).  Hypotheses about
    the world: the single-byte laws of C01 (`LazyLaws`, proved for the modelled table codecs), at most one
    character per byte, and a non-empty input never decodes to an empty text under a single-byte code
    page (`hne`, proved for table codecs: exactly one character per byte). -/
theorem C13_chaos_of_text_all_sizes {W : World E L} {T : Tables E} {sort : Sorter E L}
    (hperm : ∀ l, (sort l).Perm l) (hmb : ∀ em ∈ T.marks, T.isMultiByte em.1 = true) (laws : LazyLaws W T)
    (hchars : ∀ e x t, e ∈ T.supported → W.decode e x = .ok (some t) → t.length ≤ x.length)
    (hne : ∀ e x t, e ∈ T.supported → T.isMultiByte e = false → W.decode e x = .ok (some t) → x ≠ [] → t ≠ [])
    {b : Bytes} {s : Settings} {incl excl : List E}
    (hincl : canonList T.ianaName s.incl = .ok incl) (hexcl : canonList T.ianaName s.excl = .ok excl)
    (hfit : Fits b s) (hthr : s.thr.isNaN = false)
    {ms : List (Match E L)} (hb : b ≠ []) (h : fromBytes W T sort b s = .ok (.ok ms)) :
    ∀ m ∈ ms, ∀ c ∈ m.entries, Fl.ge c.chaos s.thr = false →
      ∃ t, c.text = some t ∧ chaosOfText W t s.thr = .ok c.chaos := by
  intro m hm c hc hge
  by_cases hsmall : b.length ≤ T.tooBig ∨ T.isMultiByte c.enc = true
  · exact C13_chaos_of_text hperm hchars hincl hexcl hfit hthr hb h m hm c hc hge hsmall
  · -- the lazy path
    have hbig : T.tooBig < b.length := by omega
    have hnmb : T.isMultiByte c.enc = false := by
      cases hx : T.isMultiByte c.enc with
      | false => rfl
      | true => exact absurd (Or.inr hx) hsmall
    have hctx : (ctxOf T b s).steps = 1 ∧ (ctxOf T b s).chunk = b.length := by
      unfold ctxOf; simp [C13_normWindow_fit hfit]
    have hlazy : lazyOf T (ctxOf T b s) c.enc = true := by
      unfold lazyOf ctxOf
      simp [hbig, hnmb]
    rcases fromBytes_facts hperm hincl hexcl hb h with hall | ⟨fb, rfl, hfb, _⟩
    · have f := (Match.allEntries_iff.mp (hall m hm)) c hc
      -- the exposed text is the strict decode of the whole input (C01)
      obtain ⟨_, t, hdect, htext⟩ := C01_decodes hperm hmb laws hincl hexcl hb h m hm c hc
      have hnb : bomHereOf (ctxOf T b s) c.enc = false := by
        cases hbh : bomHereOf (ctxOf T b s) c.enc with
        | false => rfl
        | true =>
          obtain ⟨mk, hmk⟩ := bomHere_iff.mp hbh
          have := hmb _ (sigOf_some hmk).1
          simp only at this; rw [hnmb] at this; cases this
      have hstrip : stripMark T b c.enc = b := by
        rw [← drop_startIdx (s := s)]
        simp [startIdxOf, hnb]
      rw [hstrip] at hdect
      obtain ⟨p, acc, _, hp2, _, _, hp5, hp6, hp7, hp8, _⟩ := f.chunksFact
      have hbom : p.bomHere = false := by rw [hp2, hnb]
      obtain ⟨r, hr, hrat⟩ := probeChunks_fit_lazy (c := ctxOf T b s) hctx.1 hctx.2 hb (hp5 hlazy) hbom hdect hp6 hp8
      refine ⟨t, htext, ?_⟩
      have htne : t ≠ [] := hne _ _ _ f.supported hnmb hdect hb
      unfold chaosOfText
      have hemp : t.isEmpty = false := by
        cases t with
        | nil => exact absurd rfl htne
        | cons a as => rfl
      simp only [hemp, Bool.false_eq_true, ↓reduceIte]
      have hthr' : (ctxOf T b s).thr = s.thr := rfl
      rw [hthr'] at hr
      rw [hr, hp7, hrat]
    · -- a fallback entry has chaos = threshold and is excluded by `ge chaos thr = false`
      simp only [List.mem_singleton] at hm
      subst hm
      have f := (Match.allEntries_iff.mp hfb) c hc
      exfalso
      rw [f.chaos] at hge
      simp only [ctxOf] at hge
      simp [Fl.ge, Fl.le, hthr] at hge

/-- table codecs produce exactly one character per byte -/
theorem table_length_eq (tbl : List Nat) (x : Bytes) (t : Text) (h : tableStrict tbl x = .ok t) :
    t.length = x.length := by
  induction x generalizing t with
  | nil => simp only [tableStrict] at h; cases h; simp
  | cons b bs ih =>
    simp only [tableStrict] at h
    split at h
    · cases h
    · split at h
      · cases h
      · split at h
        · cases h
        · rename_i t' ht'
          cases h
          have := ih t' ht'
          simp; omega

/-- the non-emptiness law holds for the model instance the driver executes -/
theorem nonEmpty_now (o : Oracle) : ∀ e x t, e ∈ tablesNow.supported → tablesNow.isMultiByte e = false →
    (worldNow o).decode e x = .ok (some t) → x ≠ [] → t ≠ [] := by
  intro e x t hs hmb hx hxne
  obtain ⟨tbl, hc, _⟩ := codecNow_table hs hmb
  change decodeNow o false e x = _ at hx
  rw [decodeNow_table hc hmb] at hx
  cases hx' : tableStrict tbl x with
  | error k => simp [hx'] at hx
  | ok t1 =>
    simp only [hx', Except.ok.injEq, Option.some.injEq] at hx
    subst hx
    have := table_length_eq tbl x t1 hx'
    intro ht
    subst ht
    simp at this
    exact hxne (List.eq_nil_of_length_eq_zero this.symm)

/-- **C13 for the current tree, every size**: every decoder of a supported encoding is a Lean definition (single-byte tables,
    UTF-8, UTF-16, the multi-byte legacy decoders of Model/Cjk.lean): no hypothesis about the world is left -/
theorem C13_chaos_of_text_current (o : Oracle)
    {b : Bytes} {s : Settings} {incl excl : List Name}
    (hincl : canonList ianaNow s.incl = .ok incl) (hexcl : canonList ianaNow s.excl = .ok excl)
    (hfit : Fits b s) (hthr : s.thr.isNaN = false)
    {ms : List (Match Name Name)} (hb : b ≠ [])
    (h : fromBytes (worldNow o) tablesNow sortMatches b s = .ok (.ok ms)) :
    ∀ m ∈ ms, ∀ c ∈ m.entries, Fl.ge c.chaos s.thr = false →
      ∃ t, c.text = some t ∧ chaosOfText (worldNow o) t s.thr = .ok c.chaos :=
  C13_chaos_of_text_all_sizes sortMatches_perm marksMultiByte_now (lazyLaws_now o) (hchars_now o) (nonEmpty_now o)
    hincl hexcl hfit hthr hb h

end Charset
