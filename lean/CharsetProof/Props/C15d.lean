/-
  C15 end to end: the CLI model instantiated with the *model of the library* as its detector.
  What `--normalize` writes is the UTF-8 form of the strict decode of the original bytes minus the reported
  encoding's own mark – C01 (what a match exposes) composed with the CLI's write rule – and decoding the
  written file as UTF-8 gives that text back (so nothing was lost or invented on the way).
-/
import CharsetProof.Props.C15c
import CharsetProof.Props.C01
import CharsetProof.Lemmas.Utf8
set_option linter.unusedSectionVars false
namespace Charset
variable {E L : Type} [DecidableEq E]

/-- what the tool sees of one library match: the name, the text as UTF-8, and the printed fields -/
def minfoOf (nameOf : E → Name) (printed : Match E L → List Name) (m : Match E L) : MInfo :=
  ⟨nameOf m.enc, utf8Encode (m.text.getD []), printed m⟩

/-- `from_path` on a file's content with the tool's settings, as the CLI model's detector -/
def detectVia (W : World E L) (T : Tables E) (sort : Sorter E L) (s : Settings) (nameOf : E → Name)
    (printed : Match E L → List Name) : Bytes → Option (List MInfo) := fun content =>
  match fromBytes W T sort content s with
  | .ok (.ok ms) => some (ms.map (minfoOf nameOf printed))
  | _ => none

/-- **C15 (what is written)**: whenever processing a non-empty input writes a file, the written bytes are
    `utf8Encode t` where `t` is the strict decode – by the encoding the best match reports – of the
    original content minus that encoding's own mark, and the write goes to the derived sibling / the input
    itself as the flags say. -/
theorem C15_written_is_strict_decode {W : World E L} {T : Tables E} {sort : Sorter E L}
    (hperm : ∀ l, (sort l).Perm l) (hmb : ∀ em ∈ T.marks, T.isMultiByte em.1 = true) (laws : LazyLaws W T)
    {s : Settings} {incl excl : List E}
    (hincl : canonList T.ianaName s.incl = .ok incl) (hexcl : canonList T.ianaName s.excl = .ok excl)
    (nameOf : E → Name) (printed : Match E L → List Name)
    (a : CliArgs) (confirm : Path → Bool) (fs : FS) (p : Path) (w : Path × Bytes)
    (hw : writeOfG a confirm (detectVia W T sort s nameOf printed) fs p = some w) :
    ∃ content best t,
      fsGet fs p = some content ∧
      (content ≠ [] →
        W.decode best (stripMark T content best) = .ok (some t) ∧ w.2 = utf8Encode t) ∧
      startsWithUtf (nameOf best) = false ∧
      (w.1 = targetPath p (nameOf best) ∨ w.1 = p) := by
  unfold writeOfG at hw
  cases hc : fsGet fs p with
  | none => simp [hc] at hw
  | some content =>
    simp only [hc] at hw
    unfold detectVia at hw
    cases hfb : fromBytes W T sort content s with
    | error e => simp [hfb] at hw
    | ok r =>
      cases r with
      | error e => simp [hfb] at hw
      | ok ms =>
        simp only [hfb] at hw
        cases ms with
        | nil => simp at hw
        | cons m rest =>
          simp only [List.map_cons, minfoOf] at hw
          by_cases hu : startsWithUtf (nameOf m.enc) = true
          · simp [hu] at hw
          · simp only [hu, Bool.false_eq_true, ↓reduceIte] at hw
            have htarget : w.2 = utf8Encode (m.text.getD []) ∧ (w.1 = targetPath p (nameOf m.enc) ∨ w.1 = p) := by
              by_cases hr : a.replace = true
              · simp only [hr, Bool.not_true, Bool.false_eq_true, ↓reduceIte] at hw
                split at hw
                · cases hw; exact ⟨rfl, Or.inr rfl⟩
                · cases hw
              · simp only [hr, Bool.not_false, ↓reduceIte] at hw
                cases hw; exact ⟨rfl, Or.inl rfl⟩
            refine ⟨content, m.enc, m.text.getD [], rfl, ?_, by simpa using hu, htarget.2⟩
            intro hne
            have hmain : m.toSub ∈ m.entries := by unfold Match.entries; exact List.mem_cons_self
            obtain ⟨_, t, hdec, htext⟩ := C01_decodes hperm hmb laws hincl hexcl hne hfb m List.mem_cons_self m.toSub hmain
            have htext' : m.text = some t := htext
            have henc : m.toSub.enc = m.enc := rfl
            rw [henc] at hdec
            have h2 := htarget.1
            rw [htext'] at h2 ⊢
            exact ⟨hdec, h2⟩

/-- decoding the written file as UTF-8 gives the text back, whenever the decoder produced scalar values -/
theorem C15_written_roundtrip (t : Text) (hs : ∀ c ∈ t, isScalar c = true) :
    utf8Strict (utf8Encode t) = .ok t := utf8_roundtrip t hs

end Charset
