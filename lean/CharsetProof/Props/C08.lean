/-
  C08 — ranking: a candidate preferred over all others comes first.
-/
import CharsetProof.Lemmas.SortWinner
import CharsetProof.Lemmas.SortPerm
import CharsetProof.Lemmas.Ranking
import CharsetProof.Model.Concrete
set_option linter.unusedSectionVars false
namespace Charset
variable {E L : Type}

/-- the documented pairwise rule, written out independently of `cmp`:
    chaos closer than one percentage point is a tie, broken first by coherence when it differs by more
    than two points (higher wins), then by multi-byte usage when it differs at all (higher wins);
    otherwise, and in all remaining cases, lower chaos wins. -/
def PreferredSpec (a b : Match E L) : Prop :=
  if Fl.lt (Fl.abs (Fl.sub a.chaos b.chaos)) (F32.lit 1 100) = true then
    if Fl.gt (Fl.abs (Fl.sub a.coherence b.coherence)) (F32.lit 2 100) = true then b.coherence.key < a.coherence.key
    else if Fl.gt (Fl.abs (Fl.sub a.mbu b.mbu)) F32.epsilon = true then b.mbu.key < a.mbu.key
    else a.chaos.key < b.chaos.key
  else a.chaos.key < b.chaos.key

theorem ocmp_lt_iff {f : Fmt} (x y : Fl f) : (Fl.ocmp x y == Ordering.lt) = true ↔ x.key < y.key := by
  unfold Fl.ocmp
  rw [beq_iff_eq, Int.compare_eq_lt]

/-- **C08 (e)**: `is_less` used by the container is exactly the documented rule -/
theorem C08_lt_iff_spec (a b : Match E L) : Match.lt a b = true ↔ PreferredSpec a b := by
  unfold Match.lt Match.cmp Match.cmpKey PreferredSpec Match.key
  simp only
  split
  · split
    · exact ocmp_lt_iff _ _
    · split
      · exact ocmp_lt_iff _ _
      · exact ocmp_lt_iff _ _
  · exact ocmp_lt_iff _ _

theorem cmpKey_self (k : Match.Key) : Match.cmpKey k k = .eq := by
  unfold Match.cmpKey Fl.ocmp
  simp only
  split
  · split
    · simp [compare, compareOfLessAndEq]
    · split <;> simp [compare, compareOfLessAndEq]
  · simp [compare, compareOfLessAndEq]

theorem ltKey_irrefl (k : Match.Key) : Match.ltKey k k = false := by
  unfold Match.ltKey; rw [cmpKey_self]; rfl

/-- **C08 (c)**: `get_best()` is the first element of the list -/
theorem C08_get_best (items : List (Match E L)) : getBest items = items.head? := rfl

/-- **C08 (a)**, every list length: if `w` is preferred to every other element under the pairwise
    rule, the container's sort puts it first -/
theorem C08_winner_first (l : List (Match E L)) (w : Match E L)
    (hw : w ∈ l) (hwin : Winner Match.lt w l) : (sortMatches l).head? = some w :=
  sortMatches_winner_first l w hw hwin

/-- **C08 (b)**, every list length: an element every other one is preferred to comes last -/
theorem C08_loser_last (l : List (Match E L)) (z : Match E L)
    (hz : z ∈ l) (hlos : Loser Match.lt z l) : (sortMatches l).getLast? = some z :=
  sortMatches_loser_last l z hz hlos

theorem C08_winner_first_small (l : List (Match E L)) (w : Match E L) (_hlen : l.length ≤ 20)
    (hw : w ∈ l) (hwin : Winner Match.lt w l) : (sortMatches l).head? = some w :=
  C08_winner_first l w hw hwin

theorem C08_loser_last_small (l : List (Match E L)) (z : Match E L) (_hlen : l.length ≤ 20)
    (hz : z ∈ l) (hlos : Loser Match.lt z l) : (sortMatches l).getLast? = some z :=
  C08_loser_last l z hz hlos

/-- appending an item that is not merged re-sorts the whole list … -/
theorem C08_append_resorts (tooBig : Nat) (items : List (Match E L)) (item : Match E L)
    (hnomerge : (if item.raw.length ≤ tooBig then mergeInto item items else none) = none) :
    append sortMatches tooBig items item = sortMatches (items ++ [item]) := by
  unfold append; rw [hnomerge]

/-- … so a winner of the pushed list is first and `get_best()` returns it (every length) -/
theorem C08_append_winner (tooBig : Nat) (items : List (Match E L)) (item w : Match E L)
    (hnomerge : (if item.raw.length ≤ tooBig then mergeInto item items else none) = none)
    (hw : w ∈ items ++ [item]) (hwin : Winner Match.lt w (items ++ [item])) :
    getBest (append sortMatches tooBig items item) = some w := by
  rw [C08_append_resorts tooBig items item hnomerge, C08_get_best]
  exact C08_winner_first _ w hw hwin

/-- `CharsetMatches::new(Some(items))` -/
theorem C08_new_winner (items : List (Match E L)) (w : Match E L)
    (hw : w ∈ items) (hwin : Winner Match.lt w items) :
    getBest (newContainer sortMatches items) = some w :=
  C08_winner_first items w hw hwin

/-- merging an alternative into an existing match changes neither order nor keys -/
theorem mergeInto_keys {item : Match E L} {items items' : List (Match E L)}
    (h : mergeInto item items = some items') : items'.map Match.key = items.map Match.key := by
  induction items generalizing items' with
  | nil => simp [mergeInto] at h
  | cons a as ih =>
    simp only [mergeInto] at h
    split at h
    · cases h; simp [Match.key, Match.coherence, Match.mbu]
    · cases hm : mergeInto item as with
      | none => simp [hm] at h
      | some r =>
        simp only [hm, Option.map_some, Option.some.injEq] at h
        subst h
        simp [ih hm]

/-- non-vacuity: a concrete list with a winner under the float model (chaos 0.05 vs 0.5) -/
example :
    let a : Match Nat Nat := ⟨[1], 0, F32.lit 1 20, [], false, [], some [1]⟩
    let b : Match Nat Nat := ⟨[1], 1, F32.lit 1 2, [], false, [], some [1]⟩
    Match.lt a b = true ∧ Match.lt b a = false ∧ (sortMatches [b, a]).head? = some a := by
  decide +kernel

end Charset
