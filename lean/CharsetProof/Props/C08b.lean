/-
  C08 — the documented pairwise rule is antisymmetric, so "preferred to every other match" alone (the
  property's wording) already makes a match the winner: no second condition is needed.
-/
import CharsetProof.Props.C08
import CharsetProof.Lemmas.CmpSwap
set_option linter.unusedSectionVars false
namespace Charset
variable {E L : Type} [DecidableEq E]

/-- **C08 (the preference is antisymmetric)**: for all keys – finite, infinite or NaN – if `a` is preferred to
    `b` then `b` is not preferred to `a`.  (The three distance tests `|x − y|` do not depend on the order of
    the operands, so both comparisons take the same branch, and each branch compares one pair of numbers.) -/
theorem ltKey_asymm (a b : Match.Key) (h : Match.ltKey a b = true) : Match.ltKey b a = false := by
  unfold Match.ltKey Match.cmpKey at h ⊢
  simp only at h ⊢
  rw [Fl.abs_sub_comm b.chaos a.chaos, Fl.abs_sub_comm b.coh a.coh, Fl.abs_sub_comm b.mbu a.mbu]
  have key : ∀ {f : Fmt} (x y : Fl f), (Fl.ocmp x y == Ordering.lt) = true → (Fl.ocmp y x == Ordering.lt) = false := by
    intro f x y hxy
    have h1 := (ocmp_lt_iff x y).mp hxy
    cases hyx : (Fl.ocmp y x == Ordering.lt) with
    | false => rfl
    | true => have h2 := (ocmp_lt_iff y x).mp hyx; omega
  split at h
  · rename_i hm
    rw [if_pos hm]
    split at h
    · rename_i hc
      rw [if_pos hc]; exact key _ _ h
    · rename_i hc
      rw [if_neg hc]
      split at h
      · rename_i hu
        rw [if_pos hu]; exact key _ _ h
      · rename_i hu
        rw [if_neg hu]; exact key _ _ h
  · rename_i hm
    rw [if_neg hm]; exact key _ _ h

theorem C08_preference_asymm (a b : Match E L) (h : Match.lt a b = true) : Match.lt b a = false := by
  rw [lt_eq_ltKey] at h ⊢
  exact ltKey_asymm _ _ h

/-- the property's wording: `w` is preferred to every other match -/
def PreferredToAll (w : Match E L) (l : List (Match E L)) : Prop := ∀ y ∈ l, y ≠ w → Match.lt w y = true

theorem winner_of_preferredToAll {w : Match E L} {l : List (Match E L)} (h : PreferredToAll w l) :
    Winner Match.lt w l :=
  fun y hy hne => ⟨h y hy hne, C08_preference_asymm w y (h y hy hne)⟩

/-- **C08, as worded**: a match preferred to every other one is the first element (every list length) -/
theorem C08_preferred_to_all_first (l : List (Match E L)) (w : Match E L) (hw : w ∈ l)
    (h : PreferredToAll w l) : (sortMatches l).head? = some w :=
  C08_winner_first l w hw (winner_of_preferredToAll h)

/-- symmetrically: a match every other one is preferred to is last -/
theorem C08_all_preferred_to_last (l : List (Match E L)) (z : Match E L) (hz : z ∈ l)
    (h : ∀ y ∈ l, y ≠ z → Match.lt y z = true) : (sortMatches l).getLast? = some z :=
  C08_loser_last l z hz (fun y hy hne => ⟨h y hy hne, C08_preference_asymm y z (h y hy hne)⟩)

/-- the preference is *not* transitive (which is why the property speaks of a match preferred to all others and
    not of "the minimum"): three keys with chaos 0 %, 0.6 %, 1.2 % and coherences that cross the two-point band -/
example :
    let k1 : Match.Key := ⟨F32.lit 0 1000, F32.lit 50 100, F32.lit 0 1⟩
    let k2 : Match.Key := ⟨F32.lit 6 1000, F32.lit 60 100, F32.lit 0 1⟩
    let k3 : Match.Key := ⟨F32.lit 12 1000, F32.lit 70 100, F32.lit 0 1⟩
    Match.ltKey k2 k1 = true ∧ Match.ltKey k3 k2 = true ∧ Match.ltKey k1 k3 = true := by decide +kernel

end Charset
