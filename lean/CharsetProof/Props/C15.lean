/-
  C15 — CLI normalisation is non-destructive and faithful.
  C16 — CLI report matches the library; bad invocations fail cleanly.
  Theorems about the model of `normalizer` (Model/Cli.lean); the binary itself is tied by T3
  (runs in temporary directories, file-system snapshots, stdout/exit status vs the library).
-/
import CharsetProof.Model.Cli
set_option linter.unusedSectionVars false
namespace Charset

theorem fsGet_fsPut (fs : FS) (t q : Path) (b : Bytes) :
    fsGet (fsPut fs t b) q = if q = t then some b else fsGet fs q := by
  unfold fsGet fsPut
  by_cases h : q = t
  · subst h; simp
  · have hne : (t == q) = false := by simp; exact fun h' => h h'.symm
    simp only [List.find?_cons, hne, h, ↓reduceIte]
    congr 1
    induction fs with
    | nil => rfl
    | cons e es ih =>
      simp only [List.filter_cons]
      by_cases he : e.1 = t
      · have : (e.1 != t) = false := by simp [he]
        simp only [this, Bool.false_eq_true, ↓reduceIte, List.find?_cons]
        have : (e.1 == q) = false := by simp [he]; exact fun h' => h h'.symm
        simp [this, ih]
      · have : (e.1 != t) = true := by simp [he]
        simp only [this, ↓reduceIte, List.find?_cons]
        cases (e.1 == q) <;> simp [ih]

/-- what one input can do to the file system: nothing, or exactly one write of the decoded text -/
def FileEffect (a : CliArgs) (detect : Bytes → Option (List MInfo)) (confirm : Path → Bool)
    (fs : FS) (p : Path) (fs' : FS) : Prop :=
  fs' = fs ∨
  ∃ (content : Bytes) (best : MInfo) (rest : List MInfo) (t : Path),
    fsGet fs p = some content ∧ detect content = some (best :: rest) ∧ a.normalize = true ∧
    startsWithUtf best.encoding = false ∧
    ((a.replace = false ∧ t = targetPath p best.encoding) ∨
     (a.replace = true ∧ (a.force = true ∨ confirm p = true) ∧ t = p)) ∧
    fs' = fsPut fs t best.text

theorem processFile_effect {a : CliArgs} {detect : Bytes → Option (List MInfo)} {confirm : Path → Bool}
    {st st' : LoopSt} {p : Path} (h : processFile a detect confirm st p = .ok st') :
    FileEffect a detect confirm st.fs p st'.fs := by
  unfold processFile at h
  split at h
  · cases h
  · rename_i content hc
    split at h
    · cases h
    · cases h; exact Or.inl rfl
    · rename_i best rest hd
      by_cases hn : a.normalize = true
      · simp only [hn, Bool.not_true, Bool.false_eq_true, ↓reduceIte] at h
        by_cases hu : startsWithUtf best.encoding = true
        · simp only [hu, ↓reduceIte] at h; cases h; exact Or.inl rfl
        · simp only [hu, Bool.false_eq_true, ↓reduceIte] at h
          by_cases hr : a.replace = true
          · simp only [hr, Bool.not_true, Bool.false_eq_true, ↓reduceIte] at h
            by_cases hf : (a.force || confirm p) = true
            · simp only [hf, ↓reduceIte] at h
              cases h
              exact Or.inr ⟨content, best, rest, p, hc, hd, hn, by simpa using hu,
                Or.inr ⟨hr, by simpa using hf, rfl⟩, rfl⟩
            · simp only [hf, Bool.false_eq_true, ↓reduceIte] at h
              cases h; exact Or.inl rfl
          · simp only [hr, Bool.not_false, ↓reduceIte] at h
            cases h
            exact Or.inr ⟨content, best, rest, _, hc, hd, hn, by simpa using hu,
              Or.inl ⟨by simpa using hr, rfl⟩, rfl⟩
      · simp only [hn, Bool.not_false, ↓reduceIte] at h
        cases h; exact Or.inl rfl

/-- **C15 (without `--normalize` nothing changes on disk)** -/
theorem C15_no_normalize_no_write (a : CliArgs) (detect : Bytes → Option (List MInfo)) (confirm : Path → Bool)
    (fs : FS) (hn : a.normalize = false) : (runCli a detect confirm fs).2 = fs := by
  unfold runCli
  split
  · rfl
  · have key : ∀ (ps : List Path) (st : LoopSt), (runCli.go a detect confirm ps st).2 = st.fs := by
      intro ps
      induction ps with
      | nil => intro st; rfl
      | cons p ps ih =>
        intro st
        simp only [runCli.go]
        cases hp : processFile a detect confirm st p with
        | error e => rfl
        | ok st' =>
          simp only
          rw [ih st']
          rcases processFile_effect hp with h1 | ⟨_, _, _, _, _, _, hnn, _⟩
          · exact h1
          · rw [hn] at hnn; cases hnn
    have := key a.files ⟨fs, []⟩
    cases hg : runCli.go a detect confirm a.files ⟨fs, []⟩ with
    | mk r fs' =>
      rw [hg] at this
      cases r <;> simpa using this

/-- **C15 (one input, `--normalize` without `--replace`)**: the input keeps its content and – when it is
    detected as a non-UTF encoding – exactly the sibling `<stem>.<encoding>[.<ext>]` receives the decoded
    text; provided the derived name is not the input itself (the excluded point, see DESIGN) -/
theorem C15_single_normalize (a : CliArgs) (detect : Bytes → Option (List MInfo)) (confirm : Path → Bool)
    (fs : FS) (p : Path) (content : Bytes) (best : MInfo) (rest : List MInfo)
    (hv : validate a = none) (hfiles : a.files = [p]) (hn : a.normalize = true) (hr : a.replace = false)
    (hc : fsGet fs p = some content) (hd : detect content = some (best :: rest))
    (hu : startsWithUtf best.encoding = false) (hne : targetPath p best.encoding ≠ p) :
    let fs' := (runCli a detect confirm fs).2
    fsGet fs' p = some content ∧ fsGet fs' (targetPath p best.encoding) = some best.text ∧
    ∀ q, q ≠ targetPath p best.encoding → fsGet fs' q = fsGet fs q := by
  simp only [runCli, hv, hfiles, runCli.go, processFile, hc, hd, hn, hu, hr, Bool.not_true, Bool.false_eq_true,
    ↓reduceIte, Bool.not_false]
  refine ⟨?_, ?_, ?_⟩
  · rw [fsGet_fsPut, if_neg (fun h => hne h.symm)]; exact hc
  · rw [fsGet_fsPut, if_pos rfl]
  · intro q hq; rw [fsGet_fsPut, if_neg hq]

/-- **C15 (UTF-* and undetected inputs are never written)** – single input -/
theorem C15_single_utf_or_none (a : CliArgs) (detect : Bytes → Option (List MInfo)) (confirm : Path → Bool)
    (fs : FS) (p : Path) (content : Bytes) (hfiles : a.files = [p]) (hc : fsGet fs p = some content)
    (h : detect content = some [] ∨ ∃ best rest, detect content = some (best :: rest) ∧ startsWithUtf best.encoding = true) :
    (runCli a detect confirm fs).2 = fs := by
  unfold runCli
  split
  · rfl
  · rcases h with h | ⟨best, rest, h, hu⟩
    · simp [hfiles, runCli.go, processFile, hc, h]
    · simp only [hfiles, runCli.go, processFile, hc, h, hu, ↓reduceIte]
      by_cases hn : a.normalize = true <;> simp [hn]

/-- **C15 (`--replace` without `--force` in a non-interactive run writes nothing)** – single input -/
theorem C15_replace_needs_force (a : CliArgs) (detect : Bytes → Option (List MInfo)) (fs : FS) (p : Path)
    (hfiles : a.files = [p]) (hr : a.replace = true) (hf : a.force = false) :
    (runCli a detect (fun _ => false) fs).2 = fs := by
  unfold runCli
  split
  · rfl
  · simp only [hfiles, runCli.go]
    cases hp : processFile a detect (fun _ => false) ⟨fs, []⟩ p with
    | error e => rfl
    | ok st' =>
      rcases processFile_effect hp with h0 | ⟨_, _, _, _, _, _, _, _, ht, _⟩
      · simpa using h0
      · rcases ht with ⟨h1, _⟩ | ⟨_, h2, _⟩
        · rw [hr] at h1; cases h1
        · rcases h2 with h2 | h2
          · rw [hf] at h2; cases h2
          · cases h2

/-- **C15 (`--replace --force`)**: the original is overwritten by the decoded text – single input -/
theorem C15_replace_force (a : CliArgs) (detect : Bytes → Option (List MInfo)) (confirm : Path → Bool)
    (fs : FS) (p : Path) (content : Bytes) (best : MInfo) (rest : List MInfo)
    (hv : validate a = none) (hfiles : a.files = [p]) (hn : a.normalize = true) (hr : a.replace = true)
    (hf : a.force = true) (hc : fsGet fs p = some content) (hd : detect content = some (best :: rest))
    (hu : startsWithUtf best.encoding = false) :
    fsGet (runCli a detect confirm fs).2 p = some best.text := by
  simp only [runCli, hv, hfiles, runCli.go, processFile, hc, hd, hn, hu, hr, hf, Bool.not_true, Bool.false_eq_true,
    ↓reduceIte, Bool.true_or]
  rw [fsGet_fsPut, if_pos rfl]

/-- target naming: split at the last dot -/
example : targetName (nameOfStr "data.old.csv") (nameOfStr "koi8-r") = nameOfStr "data.old.koi8-r.csv" := by decide +kernel
example : targetName (nameOfStr "README") (nameOfStr "windows-1252") = nameOfStr "README.windows-1252" := by decide +kernel
example : targetPath (nameOfStr "/tmp/x/a.txt") (nameOfStr "big5") = nameOfStr "/tmp/x/a.big5.txt" := by decide +kernel

/-- the excluded point of `C15_single_normalize` exists: with several inputs, a derived name can be one
    of the *other* inputs, which is then overwritten (finding candidate, replayed on the binary) -/
example : targetPath (nameOfStr "/d/a.txt") (nameOfStr "koi8-r") = nameOfStr "/d/a.koi8-r.txt" := by decide +kernel

/-! ## C16 -/

/-- **C16 (validation first)** — contradictory flags or a threshold outside [0,1] end the run with an
    error, whatever the files are: the result does not depend on the file system, which is unchanged -/
theorem C16_validation_first (a : CliArgs) (detect : Bytes → Option (List MInfo)) (confirm : Path → Bool)
    (fs : FS) (e : CliError) (h : validate a = some e) : runCli a detect confirm fs = (.error e, fs) := by
  unfold runCli; rw [h]

theorem C16_validate_cases (a : CliArgs) :
    (a.replace = true ∧ a.normalize = false → validate a = some .replaceWithoutNormalize) ∧
    (a.replace = false ∧ a.force = true → validate a = some .forceWithoutReplace) ∧
    (a.thresholdOk = false → validate a ≠ none) := by
  refine ⟨?_, ?_, ?_⟩
  · intro ⟨h1, h2⟩; simp [validate, h1, h2]
  · intro ⟨h1, h2⟩; simp [validate, h1, h2]
  · intro h; unfold validate; split
    · simp
    · split
      · simp
      · simp [h]

/-- **C16 (missing file)** — a missing input ends the run with an error and no report -/
theorem C16_missing_file (a : CliArgs) (detect : Bytes → Option (List MInfo)) (confirm : Path → Bool)
    (fs : FS) (p : Path) (hv : validate a = none) (hfiles : a.files = [p]) (hm : fsGet fs p = none) :
    runCli a detect confirm fs = (.error (.missingFile p), fs) := by
  simp [runCli, hv, hfiles, runCli.go, processFile, hm]

/-- **C16 (report shape)** — without `--minimal`: an object iff there is exactly one entry, an array
    otherwise; with `--minimal`: one line per input -/
theorem C16_report_shape (a : CliArgs) (results : List Entry) :
    (a.minimal = true → ∃ ls, report a results = .minimal ls ∧ ls.length = a.files.length) ∧
    (a.minimal = false → (∀ e, results = [e] → report a results = .object e) ∧
      (results.length ≠ 1 → report a results = .array results)) := by
  refine ⟨?_, ?_⟩
  · intro h; simp [report, h]
  · intro h
    refine ⟨?_, ?_⟩
    · intro e he; simp [report, h, he]
    · intro hl
      simp only [report, h, Bool.false_eq_true, ↓reduceIte]
      cases results with
      | nil => rfl
      | cons x xs =>
        cases xs with
        | nil => simp at hl
        | cons y ys => rfl

/-- **C16 (fields come from the library, best first)** — for one readable input the first entry is
    the library's best match (its encoding and all printed fields); alternatives follow only with
    `--with-alternative` -/
theorem C16_single_entry (a : CliArgs) (detect : Bytes → Option (List MInfo)) (confirm : Path → Bool)
    (fs : FS) (p : Path) (content : Bytes) (best : MInfo) (rest : List MInfo)
    (hv : validate a = none) (hfiles : a.files = [p]) (hn : a.normalize = false) (hm : a.minimal = false)
    (hc : fsGet fs p = some content) (hd : detect content = some (best :: rest)) :
    (a.alternatives = false → (runCli a detect confirm fs).1 = .ok (.object ⟨p, some best.encoding, best.printed, none⟩)) ∧
    (a.alternatives = true → rest ≠ [] → (runCli a detect confirm fs).1 =
      .ok (.array (⟨p, some best.encoding, best.printed, none⟩ :: rest.map (fun m => ⟨p, some m.encoding, m.printed, none⟩)))) := by
  refine ⟨?_, ?_⟩
  · intro ha
    simp [runCli, hv, hfiles, runCli.go, processFile, hc, hd, hn, ha, report, hm]
  · intro ha hne
    simp only [runCli, hv, hfiles, runCli.go, processFile, hc, hd, hn, ha, report, hm, Bool.not_false, ↓reduceIte,
      List.nil_append, Bool.false_eq_true]
    cases rest with
    | nil => exact absurd rfl hne
    | cons r rs => rfl

end Charset
