/-
  C05 — include/exclude are exact filters and accept any label spelling.
  Only property statements live here; helper lemmas are in `Lemmas/`.
-/
import CharsetProof.Lemmas.Master
import CharsetProof.Lemmas.Names
import CharsetProof.Lemmas.SortPerm
set_option linter.unusedSectionVars false
namespace Charset
variable {E L : Type} [DecidableEq E]

/-- what "belongs to the include list when one is given and never to the exclude list" means -/
def Filtered (incl excl : List E) (e : E) : Prop := (incl = [] ∨ e ∈ incl) ∧ e ∉ excl

/-- **C05 (a)**: for *every* world, table set, permutation-sort, non-empty input and settings, every
    candidate (main or alternative) of every returned match passes the canonicalised filters. -/
theorem C05_filters {W : World E L} {T : Tables E} {sort : Sorter E L}
    (hperm : ∀ l, (sort l).Perm l) {b : Bytes} {s : Settings} {incl excl : List E}
    (hincl : canonList T.ianaName s.incl = .ok incl) (hexcl : canonList T.ianaName s.excl = .ok excl)
    {ms : List (Match E L)} (hb : b ≠ []) (h : fromBytes W T sort b s = .ok (.ok ms)) :
    ∀ m ∈ ms, ∀ e ∈ m.cands, Filtered incl excl e := by
  have key := fromBytes_entries (W := W) (T := T) hperm (fun sub => allowed incl excl sub.enc = true)
    hincl hexcl ?_ ?_ hb h
  · intro m hm e he
    have hall := key m hm
    have : allowed incl excl e = true := by
      simp only [Match.cands, List.mem_cons, List.mem_map] at he
      rcases he with rfl | ⟨sub, hs, rfl⟩
      · exact hall.1
      · exact hall.2 sub hs
    unfold allowed at this
    simp only [Bool.and_eq_true, Bool.or_eq_true, List.isEmpty_iff, List.contains_eq_mem,
      decide_eq_true_eq, Bool.not_eq_eq_eq_not, Bool.not_true, decide_eq_false_iff_not] at this
    exact ⟨this.1, this.2⟩
  · intro soft e m _ hal hp
    cases hp with
    | accepted p acc m' _ _ _ _ ha =>
      obtain ⟨m', _, _, hv, _, _, hm⟩ := probeAccept_spec ha
      cases hv
      have := (mkMatch_spec hm).2.1
      simp only [Match.toSub]; rw [this]; exact hal
  · intro soft e fb _ hal hp
    cases hp with
    | soft p acc fb' _ _ _ _ hs =>
      rcases probeSoft_spec hs with hv | ⟨fb', hv, _, hm⟩
      · cases hv
      · cases hv
        have := (mkMatch_spec hm).2.1
        simp only [Match.toSub]; rw [this]; exact hal

/-- **C05 (c)**: an entry that is not a known label makes detection return an error naming it
    (include list first, then exclude list); nothing is silently ignored. -/
theorem canonList_error {iana : Name → Option E} {l : List Name} {n : Name}
    (h : canonList iana l = .error n) : n ∈ l ∧ iana n = none := by
  induction l with
  | nil => simp [canonList] at h
  | cons a as ih =>
    simp only [canonList] at h
    split at h
    · rename_i hn; cases h; exact ⟨by simp, hn⟩
    · split at h
      · rename_i x hx; cases h; exact ⟨by simp [(ih hx).1], (ih hx).2⟩
      · cases h

theorem canonList_ok {iana : Name → Option E} {l : List Name} {es : List E}
    (h : canonList iana l = .ok es) : es = l.filterMap iana ∧ ∀ n ∈ l, (iana n).isSome := by
  induction l generalizing es with
  | nil => simp [canonList] at h; simp [h]
  | cons a as ih =>
    simp only [canonList] at h
    split at h
    · cases h
    · rename_i e he
      split at h
      · cases h
      · rename_i es' hes
        cases h
        obtain ⟨h1, h2⟩ := ih hes
        refine ⟨by simp [he, h1], ?_⟩
        intro n hn
        simp only [List.mem_cons] at hn
        rcases hn with rfl | hn
        · simp [he]
        · exact h2 n hn

theorem C05_unknown_include {W : World E L} {T : Tables E} {sort : Sorter E L} {b : Bytes} {s : Settings}
    {n : Name} (h : canonList T.ianaName s.incl = .error n) :
    fromBytes W T sort b s = .ok (.error (.badInclude n)) ∧ n ∈ s.incl ∧ T.ianaName n = none := by
  refine ⟨?_, canonList_error h⟩
  unfold fromBytes; simp [h]

theorem C05_unknown_exclude {W : World E L} {T : Tables E} {sort : Sorter E L} {b : Bytes} {s : Settings}
    {incl : List E} {n : Name} (hi : canonList T.ianaName s.incl = .ok incl)
    (h : canonList T.ianaName s.excl = .error n) :
    fromBytes W T sort b s = .ok (.error (.badExclude n)) ∧ n ∈ s.excl ∧ T.ianaName n = none := by
  refine ⟨?_, canonList_error h⟩
  unfold fromBytes; simp [hi, h]

/-- **C05 (b)**: the result depends on the filter lists only through their canonical forms, so any
    two spellings with the same canonical lists give the same result … -/
theorem C05_spelling_irrelevant {W : World E L} {T : Tables E} {sort : Sorter E L} {b : Bytes}
    {s s' : Settings}
    (hi : canonList T.ianaName s.incl = canonList T.ianaName s'.incl)
    (he : canonList T.ianaName s.excl = canonList T.ianaName s'.excl)
    (hrest : s'.steps = s.steps ∧ s'.chunk = s.chunk ∧ s'.thr = s.thr ∧ s'.langThr = s.langThr ∧
      s'.preemptive = s.preemptive ∧ s'.fallback = s.fallback ∧ s'.trace = s.trace) :
    fromBytes W T sort b s' = fromBytes W T sort b s := by
  obtain ⟨h1, h2, h3, h4, h5, h6, h7⟩ := hrest
  unfold fromBytes ctxOf
  rw [hi, he, h1, h2, h3, h4, h5, h6, h7]

/-- … in particular replacing every entry by its canonical name (names = `Name`, canonical names
    being fixed points of the canonicaliser) changes nothing. -/
theorem canonList_idem {iana : Name → Option Name} {l es : List Name}
    (hfix : ∀ n e, n ∈ l → iana n = some e → iana e = some e)
    (h : canonList iana l = .ok es) : canonList iana es = .ok es := by
  induction l generalizing es with
  | nil => simp [canonList] at h; subst h; simp [canonList]
  | cons a as ih =>
    simp only [canonList] at h
    split at h
    · cases h
    · rename_i e he
      split at h
      · cases h
      · rename_i es' hes
        cases h
        have h1 := hfix a e (by simp) he
        have h2 := ih (fun n e hn => hfix n e (by simp [hn])) hes
        simp [canonList, h1, h2]

/-! ### the current tree -/

abbrev sorterNow : Sorter Name Name := sortMatches
theorem sorterNow_perm : ∀ l, (sorterNow l).Perm l := sortMatches_perm

/-- C05 (a) for the model instance the driver executes -/
theorem C05_filters_current (o : Oracle) {b : Bytes} {s : Settings} {incl excl : List Name}
    (hincl : canonList ianaNow s.incl = .ok incl) (hexcl : canonList ianaNow s.excl = .ok excl)
    {ms : List (Match Name Name)} (hb : b ≠ [])
    (h : fromBytes (worldNow o) tablesNow sorterNow b s = .ok (.ok ms)) :
    ∀ m ∈ ms, ∀ e ∈ m.cands, Filtered incl excl e :=
  C05_filters sorterNow_perm hincl hexcl hb h

/-- C05 (b) for the current tables: entries spelling *supported* encodings may be replaced by their
    canonical names. (`iana_name` is the identity on supported names by construction; for the
    unsupported canonical name "replacement" it is not – see `ianaImageFixed` – which is outside
    the property's quantifier: "entries may spell a supported encoding".) -/
theorem C05_canonical_current (o : Oracle) {b : Bytes} {s : Settings} {incl excl : List Name}
    (hincl : canonList ianaNow s.incl = .ok incl) (hexcl : canonList ianaNow s.excl = .ok excl)
    (hsi : ∀ e ∈ incl, e ∈ Gen.supported) (hse : ∀ e ∈ excl, e ∈ Gen.supported) :
    fromBytes (worldNow o) tablesNow sorterNow b { s with incl := incl, excl := excl } =
      fromBytes (worldNow o) tablesNow sorterNow b s := by
  apply C05_spelling_irrelevant (T := tablesNow)
  · show canonList ianaNow s.incl = canonList ianaNow incl
    rw [hincl]; symm
    apply canonList_idem _ hincl
    intro n e hn he
    have := (canonList_ok hincl).1
    have hmem : e ∈ incl := by rw [this]; simp only [List.mem_filterMap]; exact ⟨n, hn, he⟩
    exact ianaNow_supported (hsi e hmem)
  · show canonList ianaNow s.excl = canonList ianaNow excl
    rw [hexcl]; symm
    apply canonList_idem _ hexcl
    intro n e hn he
    have := (canonList_ok hexcl).1
    have hmem : e ∈ excl := by rw [this]; simp only [List.mem_filterMap]; exact ⟨n, hn, he⟩
    exact ianaNow_supported (hse e hmem)
  · simp

/-- the empty input is the excluded point of (a): the filters are never consulted (a *finding*) -/
theorem C05_empty_input_ignores_filters {W : World E L} {T : Tables E} {sort : Sorter E L} {s : Settings}
    {incl excl : List E}
    (hincl : canonList T.ianaName s.incl = .ok incl) (hexcl : canonList T.ianaName s.excl = .ok excl) :
    fromBytes W T sort [] s = .ok (.ok [Match.default T.utf8]) := by
  unfold fromBytes; simp [hincl, hexcl]

/-- non-vacuity: the hypotheses of (a) are satisfiable (a filter list that canonicalises) -/
example : (canonList ianaNow [[85,84,70,56]]).toOption = some [nUTF8] := by decide +kernel

end Charset
